#!/bin/sh
# usage: coqfix.sh File.v  — compile; on error show the goals just before the failing line (debug aid)
f=$1; cd /verif/coq
out=$(timeout 300 coqc -Q theories OTV $f 2>&1 | grep -v "^Closed\|^Axioms")
echo "$out" | tail -8
n=$(echo "$out" | grep -o 'line [0-9]*' | head -1 | cut -d' ' -f2)
[ -n "$n" ] && { sed -n "${n}p" $f; d=$(mktemp -d); head -$((n-1)) $f > $d/Dbg.v; echo "Show. Abort." >> $d/Dbg.v; timeout 120 coqc -Q theories OTV $d/Dbg.v 2>&1 | grep -B25 -A14 "====" | head -${2:-70}; rm -rf $d; }
