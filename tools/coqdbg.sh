#!/bin/sh
# usage: coqdbg.sh file.v LINE  -- replaces LINE with "Show. admit." and prints goals (debug aid only)
f=$1; n=$2
d=$(mktemp -d)
sed "${n}s/.*/  Show. Abort./" $f > $d/Dbg.v
cd /verif/coq && timeout 120 coqc -Q theories OTV $d/Dbg.v 2>&1 | head -${3:-60}
rm -rf $d
