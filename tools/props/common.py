"""Common text blocks and generators for property modules."""
BASE_TRUSTED = [
    "Coq 8.16.1 kernel via coqc (vm_compute used inside proofs for finite sweeps and witnesses; native_compute not used)",
    "no axioms declared; per-theorem Print Assumptions output is recorded under coverage.theorems",
    "extraction: ExtrOcamlBasic only (bool/option/list/prod/unit/sumbool to OCaml natives; nat/positive/N/Z stay extracted inductives; no Extract Constant), OCaml 4.13.1, ocaml/driver.ml I/O glue",
    "tools/dump_params.cpp (prints constants of the current tree into coq/theories/Params.v), tools/check.py + tools/vlib.py, harness drivers, g++ 12.2 / glibc",
]

BOUNDARY = [0, 1, 2, 3, 4, 5, 7, 8, 9, 15, 16, 17, 31, 32, 33, 63, 64, 65, 127, 128, 129, 255, 256, 257, 511, 512, 513,
            1023, 1024, 1025, 4095, 4096, 4097, 65535, 65536, 65537]


def boundary64():
    s = set(BOUNDARY)
    for k in range(1, 65):
        for d in (-2, -1, 0, 1, 2):
            v = (1 << k) + d
            if 0 <= v < (1 << 64):
                s.add(v)
    return sorted(s)
