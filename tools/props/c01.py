"""C01 — every submitted task runs exactly once; a wait covers all of its work."""
import os
import vlib
from vlib import diff_tie, Finding
from props.common import BASE_TRUSTED

PROP_FILES = ["Properties_C01"]
TRUSTED = BASE_TRUSTED + [
    "modelled: r1::arena_slot — spawn / get_task / steal_task on head, tail and the task_pool lock word at the granularity of single atomic accesses (no isolation, no mailed proxies, no pool relocation)",
    "modelled, not verified: task_proxy / mailboxes, task_stream (enqueue), the reference-counting wait tree, isolation tags, critical tasks, pool relocation/growth, arena entry and leave — "
    "covered by real-thread oracle runs on the real scheduler (exactly-once counters, waits covering transitive work, cancellation skipping at most once)",
]
PRELUDE = os.path.join(vlib.VERIF, "harness", "prelude", "verif_atomic.h")


def split(c):
    nt, ln = c[0], c[1]
    owner = [(c[2 + 2 * i], c[3 + 2 * i]) for i in range(ln)]
    p = 2 + 2 * ln
    steals = c[p:p + nt - 1]
    return owner, steals, c[p + nt:]


def describe(c):
    owner, steals, sched = split(c)
    return "owner: %s; thieves: %s steal attempt(s); schedule=%s" % (",".join("spawn(%d)" % a if o == 1 else ("get" if a == 0 else "get[isolation %d]" % a) for o, a in owner), steals, "".join(map(str, sched[:120])))


def oracle(c, toks):
    owner, steals, sched = split(c)
    if not toks or toks[0].startswith("CRASH"):
        return ("deque-crash", describe(c))
    if toks[-1] == "HANG":
        return ("deque-no-progress", describe(c) + ": the operations never finish under round-robin completion")
    k = toks.index("-7")
    ev = [int(x) for x in toks[:k]]
    ev = [tuple(ev[i:i + 7]) for i in range(0, len(ev), 7)]
    head, tail, lock, fin, live = [int(x) for x in toks[k + 1:k + 6]]
    given = [e[4] for e in ev if e[2] in (102, 103) and e[4] != 0]
    spawned = [a for o, a in owner if o == 1]
    dup = sorted(set(x for x in given if given.count(x) > 1))
    if dup:
        who = [(e[0], "get_task" if e[2] == 102 else "steal_task") for e in ev if e[2] in (102, 103) and e[4] == dup[0]]
        return ("deque-task-twice", "%s: task %d was handed out twice (%s)" % (describe(c), dup[0], who))
    bad = [x for x in given if x not in spawned]
    if bad:
        return ("deque-unknown-task", "%s: %d was handed out but never spawned" % (describe(c), bad[0]))
    if fin and len(given) + live != len(spawned):
        return ("deque-task-lost", "%s: %d spawned, %d handed out, %d left in the deque (head %d, tail %d)" % (describe(c), len(spawned), len(given), live, head, tail))
    return None


def gen(ctx, n):
    rng = ctx.rng
    cases = []
    for _ in range(n):
        nth = rng.choice([1, 1, 1, 2])
        owner = []
        t = 1
        live = 0
        iso_case = rng.random() < 0.4          # tasks carry isolation tags 1/2, the owner waits inside an isolated region
        for _ in range(rng.randint(2, 8)):
            if rng.random() < 0.55 or live == 0:
                owner += [1, (rng.choice([1, 2]) * 100 + t) if iso_case else t]; t += 1; live += 1
            else:
                owner += [2, rng.choice([0, 1, 1, 2]) if iso_case else 0]; live = max(0, live - 1)
        owner += [2, 0] * rng.randint(0, 2)
        c = [1 + nth, len(owner) // 2] + owner + [rng.randint(1, 3) for _ in range(nth)] + [-1]
        sched = []
        L = rng.randint(10, 120)
        while len(sched) < L:
            sched += [rng.randrange(1 + nth)] * rng.randint(1, 7)
        cases.append(c + sched)
    return cases


def run(ctx):
    lib, err = ctx.build_lib("tbb")
    if err:
        return ctx.broken("libtbb build", err)
    exe, err = ctx.build_driver("drv_deque", libs=[lib], extra=["-include", PRELUDE])
    if err:
        return ctx.broken("drv_deque build (src/tbb/arena_slot.cpp under the atomic prelude)", err)
    ctx.rules.append("deque-gate: the real arena_slot (spawn / get_task / steal_task) runs under the gate with an owner script of 2-10 spawn/get operations and 1-2 thieves with 1-3 steal "
                     "attempts each, seeded bursty schedules; EVERY atomic access to head / tail / task_pool (kind, memory order, values, CAS outcome) and every result is compared with DequeModel "
                     "driven by the same schedule; oracle: no task handed out twice, nothing lost")
    diff_tie(ctx, "deque-gate", exe, ["gate"], "deque", gen(ctx, ctx.scale(1500, 10000)), oracle=oracle, describe=describe,
             bucket=lambda c: "deque threads=%d" % c[0], timeout=900)
    sexe, err = ctx.build_driver("drv_sched", libs=[lib])
    if err:
        return ctx.broken("drv_sched build", err)
    names = ["task_group tree", "arena enqueue + execute", "affinity_partitioner x3 (mailboxes)", "isolate", "cancelled group", "nested groups from 4 external threads", "task_handle / defer", "nested isolated regions with an unwaited inner group"]
    bad = 0
    runs = []
    for r in range(ctx.scale(16, 240)):
        runs.append([[1, 2, 4, 16, 32][r % 5], ctx.seed * 100 + r, [40, 200, 1000][(r // 8) % 3], r % 8])
    for r in range(ctx.scale(2, 12)):
        runs.append([[4, 8][r % 2], ctx.seed * 100 + 900 + r, 800, 7])
    ctx.rules.append("sched-mt (oracle only): the real scheduler with 1-32 threads: task_group trees, arena enqueue/execute, affinity replay, isolation, cancellation, nested groups from external threads, "
                     "task_handle: every unit ran exactly once (cancelled: at most once), waits returned only after all transitive work")
    for args in runs:
        rc, lines, err = ctx.run_driver(sexe, args, timeout=300)
        ctx.count(("sched-mt", tuple(args)), True, "sched %s" % names[args[3]])
        t = (lines or ["no output"])[-1].split()
        if rc != 0 or len(t) < 6 or any(x != "0" for x in t[1::2]):
            bad += 1
            ctx.add(Finding("violation", "sched-mt", "%s, %d threads, seed %d, n=%d: %s rc=%s" % (names[args[3]], args[0], args[1], args[2], " ".join(t), rc), {"tie": "sched-mt", "args": args}))
            if bad >= 3:
                break
    ctx.ties.append({"name": "sched-mt (oracle only)", "cases": len(runs), "disagreements": bad})
    # units handed over with enqueue into an arena that has been used before are never lost (shares the driver mode with C02's enqueue-liveness runs)
    mexe, err = ctx.build_driver("drv_monitor", libs=[lib])
    if err:
        return ctx.broken("drv_monitor build", err)
    ebad = 0
    eruns = [["enqafter", A, R, k] for (A, R, k) in ([(1, 1, 0), (2, 1, 1), (1, 1, 2), (4, 1, 0), (3, 1, 0), (3, 0, 1)] * ctx.scale(1, 3))]
    for args in eruns:
        rc, lines, err = ctx.run_driver(mexe, args, timeout=300)
        ctx.count(("sched-enqafter", tuple(args)), True, "sched enqafter")
        t = (lines or ["no output"])[-1].split()
        if rc != 0 or len(t) < 4 or t[1::2] != ["0", "0"]:
            ebad += 1
            ctx.add(Finding("violation", "sched-enqueue-after-use-lost", "task_arena(%d,%d) used before (%s), then task_arena::enqueue from outside with nobody joining the arena: %s rc=%s "
                            "(NOTRUN = the enqueued unit was not carried out within 6 s; TWICE = carried out more than once)" % (
                                args[1], args[2], ["a thread spawned there and idled in task_group::wait for 250 ms", "a parallel_for ran there", "an earlier enqueue ran there"][args[3]], " ".join(t), rc),
                            {"tie": "sched-enqafter", "args": args}))
            break
    ctx.rules.append("sched-enqafter (oracle only): arenas (1,1) workerless / (2,1) / (4,1) / (3,1) / (3,0) (never all slots reserved: a worker must be able to join) that were used before (spawn + idle wait, parallel_for, earlier enqueue), three rounds each: "
                     "a fire-and-forget enqueue with nobody joining the arena is carried out exactly once within 6 s")
    ctx.ties.append({"name": "sched-enqafter (oracle only)", "cases": len(eruns), "disagreements": ebad})


def replay(ctx, rep):
    lib, err = ctx.build_lib("tbb")
    if rep.get("tie") == "deque-gate":
        exe, err = ctx.build_driver("drv_deque", libs=[lib], extra=["-include", PRELUDE])
        diff_tie(ctx, "deque-gate", exe, ["gate"], "deque", [rep["case"]], oracle=oracle, describe=describe)
        for f in ctx.findings:
            print(f.kind, f.key, f.detail)
    elif rep.get("tie") == "sched-enqafter":
        mexe, err = ctx.build_driver("drv_monitor", libs=[lib])
        print(ctx.run_driver(mexe, rep["args"], timeout=300))
    else:
        sexe, err = ctx.build_driver("drv_sched", libs=[lib])
        print(ctx.run_driver(sexe, rep["args"], timeout=300))
