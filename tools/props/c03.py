"""C03 — a task's exception surfaces exactly once at the wait, after the group stopped."""
import vlib
from vlib import Finding
from props.common import BASE_TRUSTED

PROP_FILES = ["Properties_C03"]
TRUSTED = BASE_TRUSTED + [
    "modelled: the capture protocol of one task_group_context: dispatch of a task (cancelled groups skip the body), the catch block of the dispatch loop (exchange on "
    "my_cancellation_requested, only the winner stores my_exception), release of the task's wait reference, the waiter leaving at reference count 0, rethrow and reset",
    "modelled, not verified: context trees (handled under C04), exception_ptr allocation/throw_self, the algorithm-specific task trees, flow-graph and pipeline cancellation paths, destruction of "
    "the library's task objects — covered by real-thread oracle runs over nine constructs; the tie between model and code is at the level of observable outcomes only "
    "(which exception reaches the caller, what is still running), not step by step",
]
NAMES9 = "400 warm rounds of task_group / parallel_for with simultaneous throwers"
NAMES = ["task_group", "parallel_for", "parallel_reduce", "parallel_for_each", "parallel_invoke", "parallel_pipeline", "flow graph function_node", "task_arena::execute", "parallel_for nested in task_group", NAMES9,
         "parallel_for (4 partitioners) / parallel_reduce where the k-th Range splitting constructor or Body copy/split constructor throws (k = 1..6; BADVALUE = combinations in which the exception did not reach the caller exactly once, a body was still running, or the Bodies constructed and destroyed do not balance - a destructor ran on a Body that was never constructed)",
         "a body throws after a nested library call that completed normally (72 combinations of outer construct x nested call; BADVALUE = combinations in which the waiting call did not get the exception)"]


def run(ctx):
    lib, err = ctx.build_lib("tbb")
    if err:
        return ctx.broken("libtbb build", err)
    exe, err = ctx.build_driver("drv_exc", libs=[lib])
    if err:
        return ctx.broken("drv_exc build", err)
    rng = ctx.rng
    # the model on random schedules: the outcome is always one of the throwers (sanity run of the extracted model against the theorem's statement)
    mc = []
    for _ in range(ctx.scale(300, 5000)):
        n = rng.randint(1, 5)
        th = [rng.choice([0, 0, 1]) for _ in range(n)]
        sched = [rng.randrange(n + 1) for _ in range(rng.randint(0, 40))]
        mc.append([n] + th + [-1] + sched)
    out = ctx.modelrun("exc", mc)
    ctx.rules.append("exc-model: the extracted model on random schedules (1-5 tasks, random throwers): the waiter's result is a thrower's id iff some body threw")
    for c, o in zip(mc, out):
        n = c[0]
        th = c[1:1 + n]
        res = o[-1]
        ev = o[:o.index(-7)]
        threw = any(ev[i + 1] == 4 for i in range(0, len(ev), 3))
        ctx.count(("exc-model", tuple(c)), threw, "exc-model n=%d" % n)
        ok = (res == 0 and not threw) or (res >= 1 and th[res - 1] == 1 and threw)
        if not ok:
            ctx.add(Finding("broken", "broken:exc-model", "extracted model: %d tasks, throwers %s, schedule %s: result %d, threw=%s" % (n, th, c[2 + n:], res, threw), {"case": c}))
    runs = []
    for r in range(ctx.scale(27, 450)):
        sc = r % 9
        n = 4 if sc == 4 else [8, 60, 400][(r // 9) % 3]
        runs.append([[1, 2, 4, 16][r % 4], ctx.seed * 100 + r, n, sc, [0, 1, 2, 5][(r // 3) % 4]])
    for r in range(ctx.scale(24, 240)):
        runs.append([[8, 16][r % 2], ctx.seed * 100 + 5000 + r, 16, [0, 1, 3, 8][r % 4], 6])          # six bodies throw at the same moment
    for r in range(ctx.scale(3, 20)):
        runs.append([[8, 16, 12][r % 3], ctx.seed * 100 + 7000 + r, 12, 9, [6, 2, 4][r % 3]])
    for r in range(ctx.scale(4, 40)):
        runs.append([[2, 4, 8, 16][r % 4], ctx.seed * 100 + 9000 + r, [64, 16, 200, 5][r % 4], 10, 0])        # the k-th Range split / Body copy constructor throws
    for r in range(ctx.scale(3, 20)):
        runs.append([[2, 4, 8][r % 3], ctx.seed * 100 + 11000 + r, 4, 11, 0])      # a body throws after a nested library call that completed
    ctx.rules.append("exc-mt scenario 11: a body (task_group::run_and_wait functor, parallel_for iteration, task_group::run functor) makes a nested library call that completes normally - execute() on the arena it is "
                     "already in, a flow graph run to completion, a nested parallel_for, an isolated region, a nested task_group, execute() with a nested loop - and throws afterwards: the waiting call gets that exception")
    ctx.rules.append("exc-mt (oracle only): nine constructs, 1-16 threads, 0/1/2/5 throwing bodies among 4-400: exactly one exception reaches the caller iff a body threw, it is one that was thrown, "
                     "no body is running at that moment and none starts afterwards, functor copies and exception objects are destroyed exactly once (throwers rendezvous so that several catch blocks race), the group/graph/arena is reusable; an exception escaping on a worker would terminate the process")
    bad = 0
    for args in runs:
        rc, lines, err = ctx.run_driver(exe, args, timeout=300)
        ctx.count(("exc-mt", tuple(args)), args[4] > 0, "exc %s" % NAMES[args[3]])
        t = (lines or ["no output"])[-1].split()
        if rc != 0 or len(t) < 14 or any(x != "0" for x in t[1::2]):
            bad += 1
            ctx.add(Finding("violation", "exc-mt-%d" % args[3], "%s, %d threads, seed %d, %d bodies of which %d throw: %s rc=%s (CAUGHTDIFF = exceptions delivered minus expected; RUNNINGATRETURN = bodies still "
                            "running when the call returned/threw; STARTEDAFTER = bodies started later; LEAK = functor copies not destroyed; EXCLEAK = exception objects not destroyed)" % (NAMES[args[3]], args[0], args[1], args[2], args[4], " ".join(t), rc),
                            {"tie": "exc-mt", "args": args}))
            if bad >= 3:
                break
    ctx.ties.append({"name": "exc-mt (oracle only)", "cases": len(runs), "disagreements": bad})


def replay(ctx, rep):
    lib, err = ctx.build_lib("tbb")
    exe, err = ctx.build_driver("drv_exc", libs=[lib])
    if "args" in rep:
        print(ctx.run_driver(exe, rep["args"], timeout=300))
    else:
        print(ctx.modelrun("exc", [rep["case"]]))
