"""C19 — collaborative_call_once and thread-specific storage. See DESIGN.md section 4/C19."""
import os
import vlib
from vlib import oracle_tie, Finding

PRELUDE = os.path.join(vlib.VERIF, "harness", "prelude", "verif_atomic.h")
MASK = 127      # collaborative_once_references_mask
from props.common import BASE_TRUSTED

PROP_FILES = ["Properties_C19"]
TRUSTED = BASE_TRUSTED + [
    "modelled: the m_state word protocol of collaborative_once_flag (winner CAS, helper +1 CAS window, lifetime_guard pin, fetch_sub, set_completion_state, runner destruction)",
    "modelled: the thread-id table of enumerable_thread_specific (EtsModel: my_count, chain of arrays, sizing loop, publication CAS, re-insertion) — tied sequentially (ets-seq); its concurrent behaviour is "
    "covered by theorems about the model and by real-thread oracle runs with lined-up growth (ets-grow), not by a step-level tie; slots are abstracted to key sets (hash positions not modelled)",
    "modelled, not verified: task_arena attach/execute/isolate and the moonlighting wait inside assist(), combinable — real-thread oracle runs only; "
    "the trace-conformance replayer's canonicalisation (runner address -> winner thread, Python) and the lock-and-log hooks of drv_oncetrace are trusted; the decision which logged access is a model step is made inside Coq (OnceConf.takes_step)",
]


def odesc(c):
    return "collaborative_call_once: %d threads, first %d attempt(s) throw, inner parallel_for of %d, seed %d" % (c[1], c[2], c[3], c[0])


def once_oracle(c, toks):
    if not toks or toks[0].startswith("CRASH") or toks[-1] == "HANG":
        return ("once-hang-or-crash", odesc(c) + ": " + " ".join(toks)[-50:])
    d = {toks[i]: int(toks[i + 1]) for i in range(0, len(toks) - 1, 2)}
    T, nthrow = c[1], c[2]
    if d["SUCC"] != 1:
        return ("once-not-exactly-one-success", "%s: the function completed successfully %d times" % (odesc(c), d["SUCC"]))
    if d["OVERLAP"]:
        return ("once-two-executions-at-once", odesc(c))
    if d["EARLY"]:
        return ("once-return-before-completion", "%s: %d caller(s) returned before the successful completion" % (odesc(c), d["EARLY"]))
    if d["EXC"] != nthrow or d["OK"] != T - nthrow:
        return ("once-exception-delivery", "%s: %d callers got an exception (expected %d), %d returned normally" % (odesc(c), d["EXC"], nthrow, d["OK"]))
    return None


def edesc(c):
    return "enumerable_thread_specific/combinable: %d threads x %d accesses, seed %d" % (c[1], c[2], c[0])


def ets_oracle(c, toks):
    if not toks or toks[0].startswith("CRASH") or toks[-1] == "HANG":
        return ("ets-hang-or-crash", edesc(c))
    d = {toks[i]: int(toks[i + 1]) for i in range(0, len(toks) - 1, 2)}
    msg = {"SHARED": "two threads share an element", "MOVED": "a thread's element changed address / was created twice", "INITS": "initialiser calls != number of threads",
           "ITER": "iteration does not visit exactly one element per thread", "SUM": "an update was lost", "CSUM": "combine() missed or duplicated an element"}
    for k, m in msg.items():
        if d.get(k):
            return ("ets-" + k.lower(), "%s: %s (%d)" % (edesc(c), m, d[k]))
    return None


REASONS = {1: "a step without shared access (assist / loop test) is not enabled in the model at that point", 2: "the model's thread does not perform this access at its program point",
           3: "the value observed by the implementation differs from the model's", 4: "the model's step is not enabled (the implementation went on where the protocol must wait)",
           5: "the value left behind differs from the model's", 6: "the access goes to another runner than in the model", 7: "the outcome of the winner CAS differs", 8: "throw flag differs"}


def tdesc(c):
    return "collaborative_call_once trace: %d threads, first %d attempt(s) throw, delay probability %d/256, seed %d" % (c[1], c[2], c[3], c[0])


def canon_trace(toks):
    """raw driver line -> (T, model input, outcome dict, readable events, log-level violations)"""
    v = [int(x) for x in toks]
    T = v[0]
    end = v.index(-9, 1)
    raw = [v[1 + 7 * i: 8 + 7 * i] for i in range((end - 1) // 7)]
    succ, okc, excc, att = v[end + 1:end + 5]
    owner = {}          # runner address -> tid of the winner that published it
    dead = set()        # runners whose owner has seen m_ref_count == 0 in its destructor
    throws = [0] * T
    evs, txt, bad = [], [], []

    def enc(x):
        if x in (0, 1):
            return x
        base = x & ~MASK
        return (owner[base] + 1) * 1000 + (x & MASK) if base in owner else -5

    for (tid, var, runner, kind, before, after, ok) in raw:
        if var == 1:
            if kind == 4 and ok and before == 0:
                owner[after] = tid
            evs += [tid, 1, 0, kind, enc(before), enc(after), ok]
            txt.append("T%d m_state %s %s->%s%s" % (tid, {1: "load", 4: "CAS", 6: "fetch_sub"}.get(kind, kind), enc(before), enc(after), "" if ok else " (failed)"))
        elif var == 2:
            r = owner.get(runner, 99)
            if runner in dead:
                bad.append("T%d accesses m_ref_count of T%d's runner after that runner was destroyed" % (tid, r))
            if kind == 1 and before == 0 and r == tid:
                dead.add(runner)
            sb, sa = (before if before < 2 ** 63 else before - 2 ** 64), (after if after < 2 ** 63 else after - 2 ** 64)
            evs += [tid, 2, r, kind, sb, sa, ok]
            txt.append("T%d runner(T%d).m_ref_count %s %d->%d" % (tid, r, {1: "load", 5: "++", 6: "--"}.get(kind, kind), sb, sa))
        else:
            throws[tid] = 1 if ok else 0
            evs += [tid, 3, 0, 0, 0, 0, ok]
            txt.append("T%d function %s" % (tid, "threw" if ok else "completed"))
    return T, [T] + throws + [-1] + evs, dict(SUCC=succ, OK=okc, EXC=excc, ATT=att), txt, bad


def trace_tie(ctx, exe, cases, only_replay=False):
    rc, lines, err = ctx.run_driver(exe, [], cases, timeout=900)
    inputs, metas = [], []
    for c, ln in zip(cases, lines):
        toks = ln.split()
        if not toks or toks[-1] == "HANG" or not toks[0].lstrip("-").isdigit():
            ctx.add(Finding("violation", "once-trace-hang", tdesc(c) + ": a caller never returns", {"tie": "once-trace", "case": c}))
            continue
        T, minp, out, txt, bad = canon_trace(toks)
        inputs.append(minp)
        metas.append((c, out, txt, bad))
    if len(lines) < len(cases):
        ctx.add(Finding("violation", "once-trace-crash", tdesc(cases[len(lines)]) + ": the driver died (rc=%s)" % rc, {"tie": "once-trace", "case": cases[len(lines)]}))
    nbad = 0
    for (c, out, txt, bad), m in zip(metas, ctx.modelrun("onceconf", inputs)):
        ctx.count(("once-trace", tuple(c)), True, "trace T=%d throws=%d" % (c[1], c[2]))
        idx, reason, quiescent, msucc, mbad, mok, mexc = m
        T, nthrow = c[1], c[2]
        viol = None
        if bad:
            viol = ("once-use-after-destroy", bad[0])
        elif out["SUCC"] != (1 if nthrow < T else 0):
            viol = ("once-not-exactly-one-success", "the function completed successfully %d times" % out["SUCC"])
        elif out["OK"] + out["EXC"] != T or out["EXC"] != min(nthrow, T):
            viol = ("once-exception-delivery", "%d callers returned normally, %d with the exception (%d attempts were to throw)" % (out["OK"], out["EXC"], nthrow))
        if viol:
            nbad += 1
            ctx.add(Finding("violation", viol[0], "%s: %s; access log: %s" % (tdesc(c), viol[1], "; ".join(txt)[-1500:]), {"tie": "once-trace", "case": c}))
        elif idx >= 0:
            nbad += 1
            if nbad <= 3:
                ctx.add(Finding("broken", "broken:tie:once-trace", "%s: logged access #%d (%s) does not conform to OnceModel: %s; log up to there: %s" % (
                    tdesc(c), idx, txt[idx] if idx < len(txt) else "?", REASONS.get(reason, reason), "; ".join(txt[max(0, idx - 12):idx + 1])), {"tie": "once-trace", "case": c}))
        elif (quiescent, msucc, mbad, mok, mexc) != (1, out["SUCC"], 0, out["OK"], out["EXC"]):
            nbad += 1
            ctx.add(Finding("broken", "broken:tie:once-trace", "%s: the log conforms but the outcome differs: model (quiescent, successes, bad, ok, exc) = %s, implementation %s" % (
                tdesc(c), (quiescent, msucc, mbad, mok, mexc), out), {"tie": "once-trace", "case": c}))
        else:
            ctx.traces_validated += 1
    ctx.ties.append({"name": "once-trace (every access to m_state / m_ref_count replayed on OnceModel by OnceConf.conform)", "cases": len(cases), "disagreements": nbad})


def build_trace(ctx, lib):
    return ctx.build_driver("drv_oncetrace", libs=[lib], extra=["-include", PRELUDE], opt="-O1")


def gdesc(c):
    return "enumerable_thread_specific growth window: %d threads, %d sequential first accesses, then line-ups of %s threads inside the table-array allocation, seed %d" % (
        c[1], c[2], c[3] if c[3] else "1-8", c[0])


def grow_oracle(c, toks):
    if not toks or toks[0].startswith("CRASH") or toks[-1] == "HANG":
        return ("ets-local-never-returns", gdesc(c) + ": a call of local() never returns (a probe finds no empty slot) or the run crashed")
    d = {toks[i]: int(toks[i + 1]) for i in range(0, len(toks) - 1, 2)}
    msg = {"SHARED": "two threads share an element", "MOVED": "a thread's element changed address / was created twice", "INITS": "initialiser calls != number of threads",
           "ITER": "iteration does not visit exactly one element per thread", "SUM": "an update was lost"}
    for k, m in msg.items():
        if d.get(k):
            return ("ets-" + k.lower(), "%s: %s (%d)" % (gdesc(c), m, d[k]))
    return None


def run(ctx):
    lib, err = ctx.build_lib("tbb")
    if err:
        return ctx.broken("libtbb build", err)
    texe, err = build_trace(ctx, lib)
    if err:
        return ctx.broken("drv_oncetrace build (collaborative_call_once.h under the atomic prelude)", err)
    rng0 = ctx.rng
    tcases = []
    for i in range(ctx.scale(400, 12000)):
        T = rng0.choice([2, 2, 3, 3, 4, 5])
        tcases.append([ctx.seed * 100000 + i, T, min(rng0.choice([0, 0, 1, 1, 2, T]), T), rng0.choice([0, 40, 120, 255])])
    ctx.rules.append("once-trace: 2-5 real threads, 0..T throwing attempts, seeded delays at the logged accesses; every access to m_state and to a published runner's m_ref_count "
                     "(executed and logged under one lock) must be the next access of OnceModel's thread, observe the model's value and leave the model's value; outcome counters equal")
    trace_tie(ctx, texe, tcases)
    exe, err = ctx.build_driver("drv_once", libs=[lib], opt="-O1")
    if err:
        return ctx.broken("drv_once build", err)
    # sanity run of the extracted model on seeded schedules (the theorems cover only small configurations exhaustively)
    rng = ctx.rng
    mcases = []
    for _ in range(ctx.scale(200, 5000)):
        T = rng.randint(2, 4)
        c = [T]
        for t in range(T):
            k = rng.randint(1, 2)
            c += [k] + [1 if (t == 0 and j == 0 and rng.random() < 0.5) else 0 for j in range(k)]
        c += [-1] + [rng.randrange(T) for _ in range(rng.randint(5, 60))]
        mcases.append(c)
    for c, o in zip(mcases, ctx.modelrun("once", mcases)):
        ctx.count(("once-model", tuple(c)), True, "model")
        if o[0] != 1 or o[1] != 1 or o[2] != 0:
            ctx.add(Finding("broken", "broken:once-model", "model run %s gives [quiescent, successes, bad accesses, ok, exc] = %s" % (c, o), {"case": c}))
    cases = [[ctx.seed * 1000 + i, rng.choice([2, 3, 4, 8]), 0, rng.choice([0, 0, 40])] for i in range(ctx.scale(60, 2000))]
    for c in cases:
        c[2] = min(rng.choice([0, 0, 1, 2, 3]), c[1] - 1)
    ctx.rules.append("call_once: 2-8 real threads arriving together, first 0-3 attempts throw, optionally an inner parallel_for (moonlighting helpers) and callers inside their own task_arena; "
                     "predicate = one success, no overlapping executions, normal return only after the success, exceptions to exactly the throwing attempts' callers")
    oracle_tie(ctx, "call-once", exe, ["once"], cases, once_oracle, describe=odesc, bucket=lambda c: "once T=%d throws=%d" % (c[1], c[2]), timeout=600)
    ecases = [[ctx.seed * 1000 + i, rng.choice([2, 3, 4, 5, 8, 9, 16, 17, 33, 64, 65, 130]), rng.choice([1, 3, 10])] for i in range(ctx.scale(40, 1200))]
    ctx.rules.append("ets: 2-130 threads (crossing the table doublings at 4..128) accessing enumerable_thread_specific and combinable together; predicate = one element per thread, stable address, "
                     "one initialiser call per thread, iteration/combine visit each element once")
    oracle_tie(ctx, "ets", exe, ["ets"], ecases, ets_oracle, describe=edesc, bucket=lambda c: "ets T=%d" % c[1], timeout=600)


    # ---- thread-id table, sequential semantics tied to EtsModel (sizes of the arrays, re-insertion at the top, counts)
    scases = []
    for i in range(ctx.scale(150, 4000)):
        T = rng.choice([1, 2, 3, 5, 8, 9, 17, 33])
        seq_ = []
        for _ in range(rng.randint(1, 3 * T)):
            seq_.append(rng.randrange(T) if rng.random() < 0.7 else rng.randrange(max(1, T // 2)))
        scases.append([T] + seq_)
    ctx.rules.append("ets-seq: 1-33 OS threads access one enumerable_thread_specific one at a time in a seeded order (new threads, repeated accesses found at the top or re-inserted from an older array); "
                     "my_count, the chain of arrays (lg_size, used slots) and the initialiser calls per thread compared with EtsModel")
    vlib.diff_tie(ctx, "ets-seq", exe, ["etsseq"], "etsseq", scases, describe=lambda c: "ets sequential: %d threads, access order %s" % (c[0], c[1:]),
                  bucket=lambda c: "ets-seq T=%d" % c[0])
    gcases = [[ctx.seed * 1000 + 300000 + i, rng.choice([5, 9, 9, 12, 17, 20, 33, 40]), rng.choice([0, 1, 2, 2, 3]), rng.choice([0, 0, 2, 3, 4, 5, 6, 7, 8])] for i in range(ctx.scale(60, 1500))]
    gcases[:4] = [[ctx.seed * 1000 + 300000, 9, 2, 6], [ctx.seed * 1000 + 300001, 17, 2, 6], [ctx.seed * 1000 + 300002, 12, 1, 5], [ctx.seed * 1000 + 300003, 33, 3, 8]]
    ctx.rules.append("ets-grow: an allocator holds every thread that allocates a table array (count incremented, root read, array not yet published) until K = 2-8 threads are inside, so K threads "
                     "grow the table at once from a root that is 0-3 accesses old; then everybody accesses again (re-insertion at the top), late arrivals follow; 5-40 threads; predicate as for ets, "
                     "every local() returns; white box: no table array is filled above one half")
    rc, glines, err = ctx.run_driver(exe, ["etsgrow"], gcases, timeout=900)
    gbad = 0
    for i, c in enumerate(gcases):
        if i >= len(glines):
            break
        ctx.count(("ets-grow", tuple(c)), True, "ets-grow T=%d K=%d" % (c[1], c[3]))
        toks = glines[i].split()
        v = grow_oracle(c, toks)
        if v:
            gbad += 1
            ctx.add(Finding("violation", v[0], v[1], {"tie": "ets-grow", "case": c}))
            break
        if "DENSE" in toks and toks[toks.index("DENSE") + 1] != "0":
            gbad += 1
            ctx.add(Finding("broken", "broken:ets-density", gdesc(c) + ": a table array is filled above one half — the reason why every probe of table_lookup ends (an empty slot exists) no longer holds", {"tie": "ets-grow", "case": c}))
        else:
            ctx.traces_validated += 1
    ctx.ties.append({"name": "ets-grow (oracle + white-box density)", "cases": len(gcases), "disagreements": gbad})
    ccases = [[ctx.seed * 100 + i, T, 6, how] for i, (T, how) in enumerate([(2, 0), (3, 1), (2, 2), (5, 0), (4, 1), (8, 0)] * ctx.scale(1, 5))]
    ctx.rules.append("ets-clear (oracle only): the container (both ets_no_key and ets_key_per_instance) is emptied by clear() / copy assignment / move assignment from ONE thread after 2-8 other threads used it; "
                     "they use it again: local(exists) reports false, the initialiser runs once per thread, no two threads share an element, size() and iteration see exactly those threads; 6 rounds, hand-shaken")

    def clear_oracle(c, toks):
        d0 = "enumerable_thread_specific used by %d threads, emptied by another thread with %s, used again" % (c[1], ["clear()", "copy assignment", "move assignment"][c[3]])
        if not toks or toks[0].startswith("CRASH") or toks[-1] == "HANG":
            return ("ets-clear-hang-or-crash", d0)
        d = {toks[i]: int(toks[i + 1]) for i in range(0, len(toks) - 1, 2)}
        msg = {"STALE": "local(exists) reported an existing element after the container was emptied (or the element moved between two accesses)", "SHARED": "two threads share one element",
               "INITS": "the initialiser did not run exactly once per thread and round", "SIZE": "size() / iteration do not see exactly the threads that accessed"}
        for k, m_ in msg.items():
            if d.get(k):
                return ("ets-clear-" + k.lower(), "%s: %s (%d)" % (d0, m_, d[k]))
        return None
    pcases = [[ctx.seed * 100 + 50 + i, N, how] for i, (N, how) in enumerate([(2, 0), (4, 1), (8, 0), (1, 2), (2, 2), (3, 1), (4, 0), (8, 1), (4, 2)] * ctx.scale(1, 3))]
    ctx.rules.append("ets-copy (oracle only): a container holding the elements of N = 1..8 threads is copied (copy construction / copy assignment / combinable copy), then N + 3 further live threads access the copy one "
                     "after the other: each gets its own element within 4 s, size() / combine count them, and no array of the copy's table is filled above one half (white box)")

    def copy_oracle(c, toks):
        d0 = "enumerable_thread_specific / combinable holding %d threads' elements, copied by %s, then %d further threads access the copy" % (c[1], ["copy construction", "copy assignment", "combinable's copy constructor"][c[2]], c[1] + 3)
        if not toks or toks[0].startswith("CRASH") or toks[-1] == "HANG":
            return ("ets-copy-hang-or-crash", d0)
        d = {toks[i]: int(toks[i + 1]) for i in range(0, len(toks) - 1, 2)}
        msg = {"STUCK": "a thread's local() on the copy did not return within 4 s (its probe finds neither its key nor an empty slot)", "SHARED": "two threads share one element",
               "SIZE": "size() / combine do not count one element per thread", "DENSE": "an array of the copy's table is filled above one half"}
        for k, m_ in msg.items():
            if d.get(k):
                return ("ets-copy-" + k.lower(), "%s: %s (%d)" % (d0, m_, d[k]))
        return None
    oracle_tie(ctx, "ets-copy", exe, ["etscopy"], pcases, copy_oracle, bucket=lambda c: "ets-copy how=%d" % c[2], timeout=600)
    oracle_tie(ctx, "ets-clear", exe, ["etsclear"], ccases, clear_oracle, bucket=lambda c: "ets-clear how=%d" % c[3], timeout=300)


def replay(ctx, rep):
    lib, err = ctx.build_lib("tbb")
    exe, err = ctx.build_driver("drv_once", libs=[lib], opt="-O1")
    if rep.get("tie") == "once-trace":
        texe, err = build_trace(ctx, lib)
        return trace_tie(ctx, texe, [rep["case"]])
    if rep.get("tie") == "ets-seq":
        return vlib.diff_tie(ctx, "ets-seq", exe, ["etsseq"], "etsseq", [rep["case"]])
    if rep.get("tie") == "ets-grow":
        rc, glines, err = ctx.run_driver(exe, ["etsgrow"], [rep["case"]], timeout=120)
        print(glines)
        v = grow_oracle(rep["case"], (glines or ["CRASH"])[0].split())
        if v:
            ctx.add(Finding("violation", v[0], v[1], {"tie": "ets-grow", "case": rep["case"]}))
        return
    if rep.get("tie") == "ets":
        oracle_tie(ctx, "ets", exe, ["ets"], [rep["case"]], ets_oracle, describe=edesc)
    else:
        oracle_tie(ctx, "call-once", exe, ["once"], [rep["case"]], once_oracle, describe=odesc)
