"""C19 — collaborative_call_once and thread-specific storage. See DESIGN.md section 4/C19."""
import vlib
from vlib import oracle_tie, Finding
from props.common import BASE_TRUSTED

PROP_FILES = ["Properties_C19"]
TRUSTED = BASE_TRUSTED + [
    "modelled: the m_state word protocol of collaborative_once_flag (winner CAS, helper +1 CAS window, lifetime_guard pin, fetch_sub, set_completion_state, runner destruction)",
    "modelled, not verified: task_arena attach/execute/isolate and the moonlighting wait inside assist(), enumerable_thread_specific's table (claim CAS, growth) and combinable — real-thread oracle runs only; "
    "the model is not tied step by step to the code; the unbounded invariant is stated (OInv) but only small configurations are settled (exhaustive evaluation inside Coq)",
]


def odesc(c):
    return "collaborative_call_once: %d threads, first %d attempt(s) throw, inner parallel_for of %d, seed %d" % (c[1], c[2], c[3], c[0])


def once_oracle(c, toks):
    if not toks or toks[0].startswith("CRASH") or toks[-1] == "HANG":
        return ("once-hang-or-crash", odesc(c) + ": " + " ".join(toks)[-50:])
    d = {toks[i]: int(toks[i + 1]) for i in range(0, len(toks) - 1, 2)}
    T, nthrow = c[1], c[2]
    if d["SUCC"] != 1:
        return ("once-not-exactly-one-success", "%s: the function completed successfully %d times" % (odesc(c), d["SUCC"]))
    if d["OVERLAP"]:
        return ("once-two-executions-at-once", odesc(c))
    if d["EARLY"]:
        return ("once-return-before-completion", "%s: %d caller(s) returned before the successful completion" % (odesc(c), d["EARLY"]))
    if d["EXC"] != nthrow or d["OK"] != T - nthrow:
        return ("once-exception-delivery", "%s: %d callers got an exception (expected %d), %d returned normally" % (odesc(c), d["EXC"], nthrow, d["OK"]))
    return None


def edesc(c):
    return "enumerable_thread_specific/combinable: %d threads x %d accesses, seed %d" % (c[1], c[2], c[0])


def ets_oracle(c, toks):
    if not toks or toks[0].startswith("CRASH") or toks[-1] == "HANG":
        return ("ets-hang-or-crash", edesc(c))
    d = {toks[i]: int(toks[i + 1]) for i in range(0, len(toks) - 1, 2)}
    msg = {"SHARED": "two threads share an element", "MOVED": "a thread's element changed address / was created twice", "INITS": "initialiser calls != number of threads",
           "ITER": "iteration does not visit exactly one element per thread", "SUM": "an update was lost", "CSUM": "combine() missed or duplicated an element"}
    for k, m in msg.items():
        if d.get(k):
            return ("ets-" + k.lower(), "%s: %s (%d)" % (edesc(c), m, d[k]))
    return None


def run(ctx):
    lib, err = ctx.build_lib("tbb")
    if err:
        return ctx.broken("libtbb build", err)
    exe, err = ctx.build_driver("drv_once", libs=[lib], opt="-O1")
    if err:
        return ctx.broken("drv_once build", err)
    # sanity run of the extracted model on seeded schedules (the theorems cover only small configurations exhaustively)
    rng = ctx.rng
    mcases = []
    for _ in range(ctx.scale(200, 5000)):
        T = rng.randint(2, 4)
        c = [T]
        for t in range(T):
            k = rng.randint(1, 2)
            c += [k] + [1 if (t == 0 and j == 0 and rng.random() < 0.5) else 0 for j in range(k)]
        c += [-1] + [rng.randrange(T) for _ in range(rng.randint(5, 60))]
        mcases.append(c)
    for c, o in zip(mcases, ctx.modelrun("once", mcases)):
        ctx.count(("once-model", tuple(c)), True, "model")
        if o[0] != 1 or o[1] != 1 or o[2] != 0:
            ctx.add(Finding("broken", "broken:once-model", "model run %s gives [quiescent, successes, bad accesses, ok, exc] = %s" % (c, o), {"case": c}))
    cases = [[ctx.seed * 1000 + i, rng.choice([2, 3, 4, 8]), 0, rng.choice([0, 0, 40])] for i in range(ctx.scale(60, 2000))]
    for c in cases:
        c[2] = min(rng.choice([0, 0, 1, 2, 3]), c[1] - 1)
    ctx.rules.append("call_once: 2-8 real threads arriving together, first 0-3 attempts throw, optionally an inner parallel_for (moonlighting helpers) and callers inside their own task_arena; "
                     "predicate = one success, no overlapping executions, normal return only after the success, exceptions to exactly the throwing attempts' callers")
    oracle_tie(ctx, "call-once", exe, ["once"], cases, once_oracle, describe=odesc, bucket=lambda c: "once T=%d throws=%d" % (c[1], c[2]), timeout=600)
    ecases = [[ctx.seed * 1000 + i, rng.choice([2, 3, 4, 5, 8, 9, 16, 17, 33, 64, 65, 130]), rng.choice([1, 3, 10])] for i in range(ctx.scale(40, 1200))]
    ctx.rules.append("ets: 2-130 threads (crossing the table doublings at 4..128) accessing enumerable_thread_specific and combinable together; predicate = one element per thread, stable address, "
                     "one initialiser call per thread, iteration/combine visit each element once")
    oracle_tie(ctx, "ets", exe, ["ets"], ecases, ets_oracle, describe=edesc, bucket=lambda c: "ets T=%d" % c[1], timeout=600)


def replay(ctx, rep):
    lib, err = ctx.build_lib("tbb")
    exe, err = ctx.build_driver("drv_once", libs=[lib], opt="-O1")
    if rep.get("tie") == "ets":
        oracle_tie(ctx, "ets", exe, ["ets"], [rep["case"]], ets_oracle, describe=edesc)
    else:
        oracle_tie(ctx, "call-once", exe, ["once"], [rep["case"]], once_oracle, describe=odesc)
