"""C06 — parallel_reduce / parallel_deterministic_reduce / parallel_scan / parallel_sort."""
import vlib
from vlib import diff_tie, oracle_tie, Finding
from props.common import BASE_TRUSTED

PROP_FILES = ["Properties_C06"]
TRUSTED = BASE_TRUSTED + [
    "modelled: the task tree of parallel_reduce (start_reduce::execute's zombie decision on m_ref_count, offer_work, finalize/fold_tree, "
    "reduction_tree_node::join) with the free-monoid Body; the split/join tree of parallel_deterministic_reduce with simple_partitioner",
    "hook: __TBB_VERIF_REDUCE_OFFER in parallel_reduce.h (guarded by ONEAPI_SRC_ONETBB_VERIF) reports offer_work to the harness; the replayer "
    "tools/props/c06.py (trusted) turns the real event log into model ops, the Coq model decides whether they are legal",
    "modelled, not verified (oracle runs on the real library with real threads only): parallel_scan, parallel_sort (quick_sort_range::split_range, "
    "pretest), static/affinity deterministic reduce, cancellation of a reduction",
]
PARTS = {0: "simple", 1: "auto", 2: "static", 3: "affinity"}


class T:   # mirror of the model's tree
    def __init__(self, kind, **kw):
        self.kind = kind
        self.__dict__.update(kw)


class OpList(list):
    """flat op triples, with list-valued placeholders that are filled in later"""
    def flat(self):
        out = []
        for x in self:
            if isinstance(x, list):
                out.extend(x)
            else:
                out.append(x)
        return out


def rdescribe(c):
    return "parallel_reduce(blocked_range(%d,%d,%d), free-monoid body, %s_partitioner), %d threads, body spin %d%s" % (
        c[2], c[3], c[4], PARTS[c[0]], c[1], c[5], (", repetition %d" % c[6]) if len(c) > 6 else "")


def replay_log(c, toks):
    """real event log -> (model input, python-level mismatch or None, real result)"""
    lo, hi = c[2], c[3]
    i = toks.index("RES")
    ev = [int(x) for x in toks[:i]]
    ev = [tuple(ev[k:k + 4]) for k in range(0, len(ev), 4)]
    root_id = int(toks[i + 1])
    res = [int(x) for x in toks[i + 2:]]
    ops = OpList()
    mism = []
    newbodies = {}
    if lo >= hi:
        return [lo, hi], None, res
    root = T("task", p=lo, hi=hi, body=root_id, started=True)
    ops.extend([2, lo, 0])
    holder = [root]

    def walk(t, f, parent=None, side=None):
        r = f(t, parent, side)
        if r is not None:
            return r
        if t.kind == "nd":
            return walk(t.l, f, t, "l") or walk(t.r, f, t, "r")
        return None

    def replace(parent, side, new):
        if parent is None:
            holder[0] = new
        elif side == "l":
            parent.l = new
        else:
            parent.r = new

    def finish(t, parent, side):
        """emit the finalize/fold ops of a completed subtree (post-order); incomplete parts are emitted too — the model rejects them"""
        if t.kind == "done":
            return
        if t.kind in ("task", "fresh"):
            ops.extend([5, t.hi, 0])
        else:
            finish(t.l, t, "l")
            finish(t.r, t, "r")
            if t.zid is not None and not t.joined:
                mism.append("node split at %d is folded before its right body %d was joined" % (t.mid, t.zid))
            if not t.joined:
                ops.extend([6, t.mid, 0])
        replace(parent, side, T("done"))

    def start_fresh(t, p, s, bid, what):
        a = t.p
        if bid == t.body:
            # the right child kept the left body: legal only when the whole left subtree has finished
            if p is not None and s == "r":
                finish(p.l, p, "l")
            ops.extend([2, a, 0])
        elif newbodies.get(bid) == t.body:
            # the decision (m_ref_count == 2) was taken at some moment between the offer and now; in the model the start is
            # put right after the offer, where it is always enabled (a later place could come after the left subtree's fold)
            t.slot.extend([1, a, 0])
            if p is not None:
                p.zid = bid
            del newbodies[bid]
        else:
            mism.append("body %d (split from %s) %s but the task there points at body %d" % (bid, newbodies.get(bid), what, t.body))
            ops.extend([1, a, 0])
        nt = T("task", p=a, hi=t.hi, body=bid, started=True)
        replace(p, s, nt)
        return nt

    for e in ev:
        k = e[0]
        if k == 1:
            newbodies[e[1]] = e[2]
        elif k == 4:
            _, lb, mid, h = e
            hit = walk(holder[0], lambda t, p, s: (t, p, s) if t.kind == "task" and t.p <= mid < t.hi else None)
            if not hit:
                # a task that has just started offers work before it runs its body for the first time
                fh = walk(holder[0], lambda t, p, s: (t, p, s) if t.kind == "fresh" and t.p <= mid < t.hi else None)
                if fh:
                    start_fresh(fh[0], fh[1], fh[2], lb, "offered [%d,%d)" % (mid, h))
                    hit = walk(holder[0], lambda t, p, s: (t, p, s) if t.kind == "task" and t.p <= mid < t.hi else None)
            if not hit:
                mism.append("offer of [%d,%d) by body %d matches no running task" % (mid, h, lb))
                ops.extend([4, mid, mid])
                continue
            t, p, s = hit
            if t.hi != h or t.body != lb:
                mism.append("offer of [%d,%d) by body %d, but the running task there is [%d,%d) with body %d" % (mid, h, lb, t.p, t.hi, t.body))
            ops.extend([4, t.p, mid])
            slot = []
            ops.append(slot)
            nd = T("nd", mid=mid, l=T("task", p=t.p, hi=mid, body=t.body, started=True), r=T("fresh", p=mid, hi=t.hi, body=t.body, slot=slot), zid=None, joined=False, lbody=t.body)
            replace(p, s, nd)
        elif k == 2:
            _, bid, a, b = e
            hit = walk(holder[0], lambda t, p, s: (t, p, s) if t.kind == "task" and t.p == a and t.p < t.hi else None)
            if hit:
                t = hit[0]
                if t.body != bid:
                    mism.append("body %d ran [%d,%d) but the task there feeds body %d" % (bid, a, b, t.body))
                ops.extend([3, a, b])
                t.p = b
                continue
            hit = walk(holder[0], lambda t, p, s: (t, p, s) if t.kind == "fresh" and t.p == a else None)
            if not hit:
                mism.append("body %d ran [%d,%d): no task is due to run there" % (bid, a, b))
                ops.extend([3, a, b])
                continue
            t, p, s = hit
            nt = start_fresh(t, p, s, bid, "ran [%d,%d)" % (a, b))
            nt.p = b
            ops.extend([3, a, b])
        elif k == 3:
            _, lid, rid, _z = e
            hit = walk(holder[0], lambda t, p, s: (t, p, s) if t.kind == "nd" and t.zid == rid and not t.joined else None)
            if not hit:
                mism.append("join(%d, %d): no node holds right body %d" % (lid, rid, rid))
                continue
            t, p, s = hit
            if t.lbody != lid:
                mism.append("join(%d, %d): right body %d belongs to the node whose left body is %d" % (lid, rid, rid, t.lbody))
            finish(t.l, t, "l")
            finish(t.r, t, "r")
            ops.extend([6, t.mid, 0])
            t.joined = True
            replace(p, s, T("done"))
    finish(holder[0], None, None)
    return [lo, hi] + ops.flat(), (mism[0] if mism else None), res


def reduce_tie(ctx, exe, cases, name="reduce-tree"):
    lines = []
    guard = 0
    while len(lines) < len(cases) and guard < 30:
        guard += 1
        rc, out, err = ctx.run_driver(exe, ["reduce"], cases[len(lines):], timeout=900)
        lines += out
        if len(lines) < len(cases) and (not out or not out[-1].endswith("HANG")):
            lines.append("CRASH rc=%s %s" % (rc, err[-200:].replace("\n", " ")))
    minputs, info = [], []
    for c, ln in zip(cases, lines):
        toks = ln.split()
        if not toks or toks[0].startswith("CRASH") or toks[-1] == "HANG" or "RES" not in toks:
            minputs.append([0, 0])
            info.append(("dead", ln[-100:]))
            continue
        mi, mism, res = replay_log(c, toks)
        minputs.append(mi)
        info.append((mism, res))
    model = ctx.modelrun("reduce", minputs)
    nmis = nviol = 0
    steals = 0
    for i, c in enumerate(cases):
        nz = minputs[i][2::3].count(1) if len(minputs[i]) > 2 else 0
        steals += nz
        ctx.count((name, tuple(c)), nz > 0, "reduce %s P=%d %s" % (PARTS[c[0]], c[1], "with split bodies" if nz else "one body"))
        rep = {"tie": name, "case": c, "case_text": rdescribe(c), "impl": lines[i][:3000], "model_input": " ".join(map(str, minputs[i]))[:3000],
               "model": " ".join(map(str, model[i]))[:1000]}
        if info[i][0] == "dead":
            nviol += 1
            ctx.add(Finding("violation", "reduce-hang-or-crash", "%s: %s" % (rdescribe(c), info[i][1]), rep))
            continue
        mism, res = info[i]
        lo, hi = c[2], c[3]
        want = list(range(lo, hi)) if lo < hi else []
        if res != want:
            nviol += 1
            if nviol <= 3:
                bad = next((k for k in range(min(len(res), len(want))) if res[k] != want[k]), min(len(res), len(want)))
                ctx.add(Finding("violation", "reduce-not-sequential-fold", "%s: the result is not the left-to-right fold: %d operands instead of %d, first difference at position %d (%s)" % (
                    rdescribe(c), len(res), len(want), bad, res[max(0, bad - 2):bad + 3]), rep))
            continue
        m = model[i]
        ok = (lo >= hi and m[:2] == [-1, 0]) or (len(m) >= 2 and m[0] == -1 and m[1] == 1 and m[2:] == res)
        if ok and not mism:
            ctx.traces_validated += 1
            continue
        nmis += 1
        if nmis <= 3:
            why = mism or ("the model rejects op #%d of the replayed log (%s)" % (m[0], minputs[i][2 + 3 * m[0]:5 + 3 * m[0]]) if m and m[0] >= 0 else "model result differs")
            # a run whose result is right but whose event order is not a run of the model: the protocol differs from the proved one
            ctx.add(Finding("broken", "broken:tie:" + name, "correspondence %s: %s: %s" % (name, rdescribe(c), why), rep))
    ctx.ties.append({"name": name, "cases": len(cases), "disagreements": nmis, "oracle_violations": nviol, "split_bodies_observed": steals})
    return nmis, nviol


def gen_reduce(ctx, n):
    rng = ctx.rng
    cases = []
    for k in range(n):
        part = rng.choice([0, 0, 1, 1, 2, 3])
        P = rng.choice([1, 2, 3, 4, 8, 16])
        lo = rng.choice([0, 0, 5, 1000])
        size = rng.choice([0, 1, 2, 3, 7, 16, 33, 100, 257, 1000])
        g = rng.choice([1, 1, 2, 3, 8, 50])
        spin = rng.choice([0, 200, 2000, 20000])
        if part == 0 and size // g > 600:
            g = max(g, size // 300)
        c = [part, P, lo, lo + size, g, spin]
        if part == 3:
            c.append(rng.choice([1, 2, 3]))
        cases.append(c)
    return cases


def ddescribe(c):
    f = c[5] if len(c) > 5 else 0
    return "parallel_deterministic_reduce(blocked_range(%d,%d,%d), %s form%s%s), %d threads" % (
        c[2], c[3], c[4], "lambda" if f & 1 else "Body", ", simple_partitioner" if f & 4 else ", default partitioner", ", task_group_context" if f & 2 else "", c[1])


def dreduce_tie(ctx, exe, cases):
    name = "dreduce-tree"
    rc, lines, err = ctx.run_driver(exe, ["dreduce"], cases, timeout=900)
    while len(lines) < len(cases):
        lines.append("CRASH rc=%s" % rc)
    model = ctx.modelrun("dreduce", cases)
    nmis = nviol = 0
    groups = {}
    for i, c in enumerate(cases):
        ctx.count((name, tuple(c)), True, "dreduce form=%d" % c[5])
        groups.setdefault((c[2], c[3], c[4]), []).append(i)
    reported = set()
    for key, idx in groups.items():
        outs = {}
        for i in idx:
            outs.setdefault(lines[i].strip(), []).append(i)
        if len(outs) > 1:
            nviol += 1
            (o1, l1), (o2, l2) = list(outs.items())[:2]
            if nviol <= 3:
                ctx.add(Finding("violation", "dreduce-tree-not-deterministic",
                                "the split/join tree of parallel_deterministic_reduce over blocked_range(%d,%d,%d) is not a function of range and grain: %s gives %s... but %s gives %s..." % (
                                    key[0], key[1], key[2], ddescribe(cases[l1[0]]), o1[:80], ddescribe(cases[l2[0]]), o2[:80]),
                                {"tie": name, "case": cases[l1[0]], "case2": cases[l2[0]], "impl": o1[:2000], "impl2": o2[:2000]}))
            reported.update(idx)
    for i, c in enumerate(cases):
        if i in reported:
            continue
        if lines[i].split() == [str(x) for x in model[i]]:
            ctx.traces_validated += 1
            continue
        nmis += 1
        if nmis <= 3:
            ctx.add(Finding("broken", "broken:tie:" + name, "correspondence %s: %s: the real tree differs from dsplit(range, grain)" % (name, ddescribe(c)),
                            {"tie": name, "case": c, "impl": lines[i][:2000], "model": " ".join(map(str, model[i]))[:2000]}))
    ctx.ties.append({"name": name, "cases": len(cases), "disagreements": nmis, "oracle_violations": nviol})


def scan_oracle(c, toks):
    d = "parallel_scan(blocked_range(%d,%d,%d), %s_partitioner), %d threads, spin %d%s" % (c[2], c[3], c[4], PARTS[c[0]], c[1], c[5],
        (", the body of every %d-th element waits for a task enqueued into another arena (task_group::wait)" % c[6]) if len(c) > 6 and c[6] else "")
    if not toks or toks[-1] == "HANG" or toks[0].startswith("CRASH"):
        return ("scan-hang-or-crash", d)
    a, b, r = [int(x) for x in toks[:3]]
    if a or b or r != 1:
        return ("scan-wrong", "%s: %d elements did not get exactly one final pass, %d final passes saw a wrong incoming prefix, returned sum %s" % (d, a, b, "correct" if r else "WRONG"))
    return None


def sort_oracle(c, toks):
    d = "parallel_sort of %d elements by key v/%d, %d threads" % (len(c) - 2, c[1], c[0])
    if not toks or toks[-1] == "HANG" or toks[0].startswith("CRASH"):
        return ("sort-hang-or-crash", d)
    if toks[:2] != ["1", "1"]:
        return ("sort-wrong", "%s: sorted=%s permutation=%s" % (d, toks[0], toks[1]))
    return None


def pretest_oracle(c, toks):
    n = c[1]
    d = "parallel_sort on the already sorted 0..%d, %d threads" % (n - 1, c[0])
    if not toks or toks[-1] == "HANG" or toks[0].startswith("CRASH"):
        return ("sort-hang-or-crash", d)
    if "CHANGED" in toks:
        return ("sort-wrong", d + ": the sorted input was changed")
    if "NONADJ" in toks:
        return None      # it went into the quick sort although sorted? (would be slow, not wrong)
    seen = set(int(x) for x in toks if x.isdigit())
    miss = [i for i in range(n - 1) if i not in seen]
    if n >= 500 and miss:
        return ("sort-pretest-gap", "%s: the pre-sortedness test never compared elements %d and %d, so an inversion there would leave the input unsorted" % (d, miss[0], miss[0] + 1))
    return None


def gen_sort(ctx, n):
    rng = ctx.rng
    cases = []
    for k in range(n):
        sz = rng.choice([0, 1, 2, 9, 10, 11, 100, 499, 500, 501, 510, 1000, 4000, 4100, 20000])
        K = rng.choice([1, 1, 3, 10, 1000])
        kind = rng.choice(["rand", "sorted", "rev", "oneinv", "equal", "sawtooth"])
        if kind == "rand":
            v = [rng.randrange(0, max(1, sz) * 2) for _ in range(sz)]
        elif kind == "sorted":
            v = list(range(sz))
        elif kind == "rev":
            v = list(range(sz, 0, -1))
        elif kind == "oneinv":
            v = [x * K for x in range(sz)]
            if sz >= 2:
                i = rng.choice([0, 1, 7, 8, 9, 10, 11, sz - 2, rng.randrange(sz - 1)])
                i = min(max(i, 0), sz - 2)
                v[i], v[i + 1] = v[i + 1], v[i]
        elif kind == "equal":
            v = [5] * sz
        else:
            v = [(x * 7919) % 13 for x in range(sz)]
        cases.append([rng.choice([1, 2, 4, 16]), K] + v)
    return cases


def run(ctx):
    lib, err = ctx.build_lib("tbb")
    if err:
        return ctx.broken("libtbb build", err)
    exe, err = ctx.build_driver("drv_reduce", libs=[lib])
    if err:
        return ctx.broken("drv_reduce build", err)
    ctx.rules.append("reduce-tree: real parallel_reduce runs (all four partitioners, 1-16 threads, ranges 0-1000, grains 1-50, body spin to provoke steals) with a free-monoid Body; "
                     "the logged splits/offers/body runs/joins are replayed as ops of ReduceModel, which must accept every op, end folded and hold the same body; oracle: result = lo..hi-1")
    reduce_tie(ctx, exe, gen_reduce(ctx, ctx.scale(400, 6000)))
    # deterministic reduce: tree = function of (range, grain)
    rng = ctx.rng
    dc = []
    for _ in range(ctx.scale(300, 4000)):
        lo = rng.choice([0, 3, 1000])
        size = rng.choice([0, 1, 2, 3, 5, 8, 13, 64, 100, 255, 256, 257, 1000, 5000])
        g = rng.choice([1, 2, 3, 7, 16, 100])
        if size // g > 2000:
            g = size // 1000
        dc.append([0, rng.choice([1, 2, 4, 16]), lo, lo + size, g, rng.randrange(8)])
    ctx.rules.append("dreduce-tree: real parallel_deterministic_reduce (all 8 simple-partitioner overloads: Body/lambda form x default/explicit partitioner x with/without context; 1-16 threads) with a tree-building (non-associative) Body; the tree must equal dsplit(range, grain)")
    nonempty = [c for c in dc if c[3] > c[2]]
    # every (range, grain) appears with several overloads and thread counts: the property says they all give one tree
    nonempty = nonempty + [[0, rng.choice([1, 2, 4, 16]), c[2], c[3], c[4], (c[5] + 1 + rng.randrange(7)) % 8] for c in nonempty]
    dreduce_tie(ctx, exe, nonempty)
    # the model runner takes (lo hi g): adapt by a second pass is not needed — see modelrun adapter below
    sc = [[rng.choice([0, 1]), rng.choice([1, 2, 4, 16]), 0, rng.choice([0, 1, 2, 10, 100, 1000, 5000]), rng.choice([1, 2, 10, 100]), rng.choice([0, 100, 3000])] for _ in range(ctx.scale(150, 3000))]
    # bodies that wait for other work in the middle of a subrange (task_group::wait on a task enqueued into another arena): the waiting thread runs tasks of
    # its own pool meanwhile — the right sibling of the task it is in must then not continue on the body whose call is still in flight
    for j in range(ctx.scale(40, 600)):
        n_ = rng.choice([2, 3, 4, 4, 6, 8, 16, 40])
        sc.append([rng.choice([0, 0, 1]), rng.choice([2, 2, 3, 4]), 0, n_, rng.choice([1, 1, 2]), 0, rng.choice([1, 2, 3, n_])])
    ctx.rules.append("scan (oracle only): every element gets exactly one final pass whose incoming prefix is lo..i-1; the returned sum is the full reduction; incl. bodies that perform a nested wait (run other tasks of their arena) in the middle of a subrange")
    oracle_tie(ctx, "scan", exe, ["scan"], sc, scan_oracle, bucket=lambda c: "scan %s P=%d" % (PARTS[c[0]], c[1]))
    ctx.rules.append("sort (oracle only): sorted permutation for random/sorted/reversed/one-inversion/all-equal/sawtooth inputs around the 500 and 4000 thresholds, comparators with ties")
    oracle_tie(ctx, "sort", exe, ["sort"], gen_sort(ctx, ctx.scale(120, 2000)), sort_oracle, bucket=lambda c: "sort n=%d" % (len(c) - 2),
               describe=lambda c: "parallel_sort n=%d K=%d P=%d" % (len(c) - 2, c[1], c[0]))
    pc = [[rng.choice([1, 4, 16]), n] for n in [10, 11, 12, 499, 500, 501, 502, 511, 512, 513, 1000, 4099]]
    ctx.rules.append("sort-pretest (oracle only): on sorted input every adjacent pair is compared by the serial + parallel pre-sortedness test")
    oracle_tie(ctx, "sort-pretest", exe, ["pretest"], pc, pretest_oracle, bucket=lambda c: "pretest n=%d" % c[1], describe=lambda c: "sorted 0..%d" % (c[1] - 1))
    ic = [[A, n, d] for A in (0, 2, 3, 8) for n in ([500, 501, 777] if ctx.tier == "quick" else [500, 501, 502, 640, 777, 1024, 4099]) for d in (0, 1)]
    ctx.rules.append("sort-invsweep (oracle only): every input of n in {500,501,777,...} elements that is sorted (ascending / descending comparator) except for one exchanged adjacent pair, "
                     "at EVERY position, in the default arena and in arenas of 2, 3 and 8 slots, comes out sorted")

    def inv_oracle(c, toks):
        d = "parallel_sort of the %s sequence of %d elements with one adjacent pair exchanged, task_arena(%s)" % ("descending" if c[2] else "ascending", c[1], c[0] or "default")
        if not toks or toks[-1] == "HANG" or toks[0].startswith("CRASH"):
            return ("sort-hang-or-crash", d)
        if toks[0] != "0":
            return ("sort-leaves-inversion", "%s: %s of the %d one-inversion inputs are left unsorted (first: elements %s and %d exchanged)" % (d, toks[0], c[1] - 1, toks[1], int(toks[1]) + 1))
        return None
    pcs = [[A, n, ctx.seed * 10 + j] for j, (A, n) in enumerate([(0, 500), (2, 777), (8, 4099)] if ctx.quick() else [(0, 500), (2, 501), (3, 777), (8, 1024), (0, 4099), (4, 20000)])]
    ctx.rules.append("sort-prefixsweep (oracle only): inputs whose elements from index 9 on are non-decreasing with ties and whose first ten elements run over every non-increasing sequence of {0,1,2,3} "
                     "(286) and 400 seeded sequences of {0..3}, plain and key-only comparison: the result is the sorted permutation")

    def prefix_oracle(c, toks):
        d = "parallel_sort of %d elements, already non-decreasing from index 9 on, first ten elements over {0..3} (every non-increasing sequence + 400 seeded ones), task_arena(%s)" % (c[1], c[0] or "default")
        if not toks or toks[-1] == "HANG" or toks[0].startswith("CRASH"):
            return ("sort-hang-or-crash", d)
        if toks[0] != "0":
            return ("sort-leaves-prefix-unsorted", "%s: %s of %s inputs are left unsorted (first: input #%s)" % (d, toks[0], toks[2], toks[1]))
        return None
    oracle_tie(ctx, "sort-prefixsweep", exe, ["prefixsweep"], pcs, prefix_oracle, bucket=lambda c: "prefixsweep n=%d" % c[1], timeout=900)
    oracle_tie(ctx, "sort-invsweep", exe, ["invsweep"], ic, inv_oracle, bucket=lambda c: "invsweep A=%d" % c[0], describe=lambda c: "one-inversion sweep n=%d arena=%d" % (c[1], c[0]), timeout=900)


def replay(ctx, rep):
    lib, err = ctx.build_lib("tbb")
    exe, err = ctx.build_driver("drv_reduce", libs=[lib])
    if rep.get("tie") == "reduce-tree":
        for _ in range(20):
            print(reduce_tie(ctx, exe, [rep["case"]]))
    for f in ctx.findings:
        print(f.kind, f.key, f.detail)
