"""C10 — concurrent_hash_map."""
import os
import vlib
from vlib import diff_tie, oracle_tie, Finding
from props.common import BASE_TRUSTED

PROP_FILES = ["Properties_C10"]
TRUSTED = BASE_TRUSTED + [
    "modelled: the table of concurrent_hash_map as a sequential object (hash & mask addressing, enable_segment growth incl. the first block, rehash_req_flag, recursive lazy rehashing in "
    "bucket_accessor::acquire / rehash_bucket, insert / erase / find) with hash(k) = k",
    "modelled, not verified: the concurrent protocol (bucket and element spin_rw_mutex locking, upgrade/restart paths, check_mask_race) — explored on the real container under the "
    "deterministic atomic-access gate with a linearizability oracle and accessor-exclusion bookkeeping, and with real threads; spin_rw_mutex itself is the subject of C08",
]
PRELUDE = os.path.join(vlib.VERIF, "harness", "prelude", "verif_atomic.h")


def sdescribe(c):
    ops = [("insert(%d)" % c[i + 1] if c[i] == 1 else "erase(%d)" % c[i + 1] if c[i] == 2 else "find(%d)" % c[i + 1] if c[i] == 3 else "dump") for i in range(0, len(c), 3)]
    return "%d ops: %s%s" % (len(ops), ", ".join(ops[:12]), " ..." if len(ops) > 12 else "")


def seq_oracle(c, toks):
    """the property itself on a sequential history: results equal those of a map"""
    if not toks or toks[0].startswith("CRASH") or toks[-1] == "HANG":
        return ("chmap-crash", sdescribe(c))
    ref = {}
    pos = 0
    for i in range(0, len(c), 3):
        op, k, v = c[i:i + 3]
        if op == 9:
            bits, size = int(toks[pos]), int(toks[pos + 1])
            pos += 2
            seen = []
            for b in range(1 << bits):
                n = int(toks[pos]); pos += 1
                if n >= 0:
                    seen += [int(x) for x in toks[pos:pos + n]]
                    pos += n
            if sorted(seen) != sorted(ref) or size != len(ref):
                return ("chmap-lost-or-duplicated", "%s: after op %d the table holds keys %s (size %d) but the map should hold %s" % (sdescribe(c), i // 3, sorted(seen)[:20], size, sorted(ref)[:20]))
            continue
        r = int(toks[pos]); pos += 1
        if op == 1:
            want = 0 if k in ref else 1
            ref.setdefault(k, v)
        elif op == 2:
            want = 1 if k in ref else 0
            ref.pop(k, None)
        else:
            want = ref.get(k, -1)
        if r != want:
            return ("chmap-wrong-result", "%s: op %d (%s %d) returned %d, a sequential map returns %d" % (sdescribe(c), i // 3, {1: "insert", 2: "erase", 3: "find"}[op], k, r, want))
    return None


def gen_seq(ctx, n):
    rng = ctx.rng
    cases = []
    for _ in range(n):
        nops = rng.choice([5, 20, 60, 300, 300, 900, 2500])
        space = rng.choice([4, 40, 300, 700, 5000, 1 << 20])
        stride = rng.choice([1, 1, 2, 256, 512, 257])     # strides of 256/512 put many keys on one parent chain
        c = []
        for i in range(nops):
            o = rng.choice([1, 1, 1, 1, 2, 3, 3])
            k = (rng.randrange(space) * stride) % (1 << 40)
            c += [o, k, i]
            if rng.random() < 0.01:
                c += [9, 0, 0]
        c += [9, 0, 0]
        cases.append(c)
    return cases


# ---------------- gate ----------------
def gsplit(c):
    npre = c[0]
    return c[1:1 + npre], c[1 + npre:]


def gdescribe(c):
    pre, c = gsplit(c)
    return ("%d keys pre-inserted (%s...); " % (len(pre), pre[:4]) if pre else "") + gdescribe0(c)


def gdescribe0(c):
    n = c[0]
    p = 1
    parts = []
    names = {1: "insert", 2: "erase", 3: "find", 4: "accessor", 5: "const_accessor", 6: "insert+accessor"}
    for t in range(n):
        ln = c[p]
        ops = c[p + 1:p + 1 + 2 * ln]
        parts.append("T%d: %s" % (t, ",".join("%s(%d)" % (names[ops[i]], ops[i + 1]) for i in range(0, len(ops), 2))))
        p += 1 + 2 * ln
    return " || ".join(parts) + "  schedule=" + "".join(map(str, c[p + 1:p + 1 + 120]))


def map_linearizable(ops, left, init=()):
    n = len(ops)
    if n > 12:
        return True
    done_all = (1 << n) - 1
    from functools import lru_cache

    @lru_cache(maxsize=None)
    def go(mask, st):
        if mask == done_all:
            return dict(st) == left
        d = dict(st)
        for i in range(n):
            if mask >> i & 1:
                continue
            if any(not (mask >> j & 1) and j != i and ops[j][5] < ops[i][4] for j in range(n)):
                continue
            tid, op, k, res, inv, resp, _ord = ops[i]
            nd = None
            if op in (1, 6):
                if res == 1 and k not in d:
                    nd = dict(d); nd[k] = tid * 1000 + ops[i][6]
                elif res == 0 and k in d:
                    nd = d
            elif op == 2:
                if res == 1 and k in d:
                    nd = dict(d); del nd[k]
                elif res == 0 and k not in d:
                    nd = d
            else:
                if (res == -1 and k not in d) or (k in d and d[k] == res):
                    nd = d
            if nd is not None and go(mask | 1 << i, tuple(sorted(nd.items()))):
                return True
        return False
    return go(0, tuple(sorted(init)))


def gate_oracle(c, toks):
    if not toks or toks[0].startswith("CRASH"):
        return ("chmap-crash", gdescribe(c) + " " + " ".join(toks)[:100])
    if toks[-1] == "HANG":
        return ("chmap-no-progress", "%s: operations never finish under round-robin completion" % gdescribe(c))
    i = toks.index("FIN")
    v = [int(x) for x in toks[:i]]
    raw = [tuple(v[k:k + 6]) for k in range(0, len(v), 6)]
    # per-thread op ordinal (the value an insert stores is tid*1000 + ordinal)
    cnt = {}
    ops = []
    # the driver records ops in completion order; ordinals follow each thread's script order, which is its completion order too
    for r in raw:
        cnt[r[0]] = cnt.get(r[0], 0) + 1
        ops.append(r + (cnt[r[0]],))
    e = toks.index("EXCL")
    bw, br, dead = int(toks[e + 1]), int(toks[e + 2]), int(toks[e + 3])
    l = toks.index("LEFT"); s = toks.index("SIZE")
    lv = [int(x) for x in toks[l + 1:s]]
    left = {lv[k]: lv[k + 1] for k in range(0, len(lv), 2)}
    size = int(toks[s + 1]); live = int(toks[toks.index("LIVE") + 1])
    if bw or br:
        return ("chmap-accessor-exclusion", "%s: an accessor was held together with another accessor to the same element (%d writer overlaps, %d reader-under-writer overlaps)" % (gdescribe(c), bw, br))
    if dead:
        return ("chmap-element-destroyed-under-accessor", "%s: an element was destroyed while an accessor pointed to it" % gdescribe(c))
    if size != len(left):
        return ("chmap-size", "%s: size() = %d but %d elements are reachable" % (gdescribe(c), size, len(left)))
    if live != 0:
        return ("chmap-leak-or-double-destroy", "%s: %d element objects are alive after the map was destroyed" % (gdescribe(c), live))
    pre, _rest = gsplit(c)
    if not map_linearizable(ops, left, [(k, 999000 + k) for k in pre]):
        return ("chmap-not-linearizable", "%s: history %s with final contents %s is not linearizable to a map" % (gdescribe(c), [(o[0], o[1], o[2], o[3]) for o in ops], left))
    return None


def gen_gate(ctx, n):
    rng = ctx.rng
    cases = []
    for _ in range(n):
        T = rng.randint(2, 3)
        erase_heavy = False
        if rng.random() < 0.4:
            # growth scenario: the table holds 254 (or 510) keys, the next insert doubles it while other threads look up keys
            # whose home bucket changes with the new mask
            big = rng.random() < 0.3
            npre = 510 if big else 254
            hot = [5, 5 + 256, 5 + 512, 5 + 1024] if not big else [5 + 256, 5 + 512, 5 + 1024]
            pre = hot[:rng.randint(1, len(hot))]
            pre += [k for k in range(2000, 2000 + npre - len(pre))]
            keys = hot + [7000, 7001]
            head = [len(pre)] + pre
            longb = True
        elif rng.random() < 0.4:
            # chain scenario: several keys already sit in ONE bucket's chain; the threads erase / look up different keys of
            # that chain at the same time (reader locks on the bucket, racing reader-to-writer upgrades, unlink of non-head nodes)
            base = rng.choice([5, 6, 77])
            keys = [base + 256 * i for i in range(rng.randint(2, 4))]
            pre = keys[:]
            rng.shuffle(pre)
            head = [len(pre)] + pre
            longb = False
            erase_heavy = True
        else:
            keys = rng.choice([[0, 1], [2, 258], [5, 5 + 256, 5 + 512], [3, 7, 259], [0, 256, 1]])
            head = [0]
            longb = rng.random() < 0.3
        c = head + [T]
        for t in range(T):
            ln = rng.randint(1, 4 if T == 2 else 3)
            ops = []
            for _ in range(ln):
                ops += [rng.choice([2, 2, 2, 2, 1, 3, 4]) if erase_heavy else rng.choice([1, 1, 1, 2, 2, 3, 4, 5, 6]), rng.choice(keys)]
            c += [ln] + ops
        c.append(-1)
        sched = []
        L = rng.randint(40, 900)
        while len(sched) < L:
            sched += [rng.randrange(T)] * (rng.choice([1, 3, 10, 40, 120, 300]) if longb else rng.randint(1, 6) if erase_heavy else rng.randint(1, 25))
        cases.append(c + sched)
    return cases


def run(ctx):
    lib, err = ctx.build_lib("tbb")
    if err:
        return ctx.broken("libtbb build", err)
    exe, err = ctx.build_driver("drv_chmap", libs=[lib], extra=["-include", PRELUDE])
    if err:
        return ctx.broken("drv_chmap build (concurrent_hash_map under the atomic prelude)", err)
    ctx.rules.append("chmap-seq: 5-2500 sequential insert/erase/find on the real container with hash(k)=k (key spaces 4..2^20, strides 1/2/256/257/512 to load single parent chains, "
                     "growth up to 4096 buckets), results and white-box bucket dumps (rehash flags, chain order) compared with HashModel")
    diff_tie(ctx, "chmap-seq", exe, ["seq"], "hash", gen_seq(ctx, ctx.scale(150, 2500)), oracle=seq_oracle, describe=sdescribe,
             bucket=lambda c: "seq ops<=%d" % (10 ** len(str(len(c) // 3))))
    ctx.rules.append("chmap-gate: 2-3 logical threads x 1-4 ops (insert/erase/find/accessor hold/const_accessor hold/insert-with-accessor) on keys sharing parent chains, under seeded bursty "
                     "interleavings of every atomic access; oracle = linearizable to a map (exhaustive search), accessor exclusion, no element destroyed under an accessor, size, no leak")
    oracle_tie(ctx, "chmap-gate", exe, ["gate"], gen_gate(ctx, ctx.scale(1200, 40000)), gate_oracle, describe=gdescribe,
               bucket=lambda c: "gate pre=%d" % c[0], timeout=900)
    bad = 0
    n = ctx.scale(8, 120)
    for r in range(n):
        T = 2 + r % 7
        args = ["mt", T, ctx.seed * 1000 + r, 20000, [3, 40, 600, 5000][r % 4]]
        rc, lines, err = ctx.run_driver(exe, args, timeout=300)
        ctx.count(("chmap-mt", r), True, "chmap-mt T=%d" % T)
        t = (lines or ["no output"])[-1].split()
        if rc != 0 or len(t) < 16 or any(x != "0" for x in t[1::2]):
            bad += 1
            ctx.add(Finding("violation", "chmap-mt", "concurrent_hash_map, %d real threads, seed %d, %d keys: %s rc=%s (BALANCE = successful inserts - successful erases != presence; "
                            "BADW/BADR = accessor exclusion broken; DEAD = element destroyed under an accessor; FINDFAIL = find after a completed insert failed)" % (
                                T, args[2], args[4], " ".join(t), rc), {"tie": "chmap-mt", "args": args}))
            break
    ctx.ties.append({"name": "chmap-mt (oracle only)", "cases": n, "disagreements": bad})


def replay(ctx, rep):
    lib, err = ctx.build_lib("tbb")
    exe, err = ctx.build_driver("drv_chmap", libs=[lib], extra=["-include", PRELUDE])
    if rep.get("tie") == "chmap-gate":
        oracle_tie(ctx, "chmap-gate", exe, ["gate"], [rep["case"]], gate_oracle, describe=gdescribe)
    elif rep.get("tie") == "chmap-seq":
        diff_tie(ctx, "chmap-seq", exe, ["seq"], "hash", [rep["case"]], oracle=seq_oracle, describe=sdescribe)
    else:
        print(ctx.run_driver(exe, rep["args"], timeout=300))
    for f in ctx.findings:
        print(f.kind, f.key, f.detail)
