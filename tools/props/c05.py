"""C05 — parallel loops. See DESIGN.md section 4/C05."""
import vlib
from vlib import diff_tie, Finding
from props.common import BASE_TRUSTED

PROP_FILES = ["Properties_C05"]
TRUSTED = BASE_TRUSTED + [
    "modelled: blocked_range::do_split(split) and the simple_partitioner task tree (unbounded sizes); "
    "modelled, not verified (oracle runs on the real library with real threads only): auto/static/affinity partitioners, proportional split, "
    "2d/3d ranges, parallel_for_each with feeder, parallel_invoke",
]
PARTS = {0: "simple", 1: "auto", 2: "static", 3: "affinity"}


def describe_simple(c):
    return "; ".join("parallel_for(blocked_range(%d,%d,%d), simple_partitioner)" % tuple(c[i:i + 3]) for i in range(0, len(c), 3))


def simple_oracle(c, toks):
    if not toks or toks[-1] == "HANG" or toks[0].startswith("CRASH"):
        return ("for-hang-or-crash", describe_simple(c) + ": " + " ".join(toks)[-60:])
    v = [int(t) for t in toks]
    pos = 0
    for i in range(0, len(c), 3):
        b, e, g = c[i:i + 3]
        n = v[pos]
        ch = [(v[pos + 1 + 2 * k], v[pos + 2 + 2 * k]) for k in range(n)]
        pos += 1 + 2 * n
        msg = tiling_error(ch, b, e)
        if not msg and b < e and e - b > g:
            lo = (g + 1) // 2
            badc = [x for x in ch if not (lo <= x[1] - x[0] <= g)]
            if badc:
                msg = "chunk [%d,%d) violates the simple_partitioner bound [%d,%d]" % (badc[0][0], badc[0][1], lo, g)
        if not msg and b < e and e - b <= g and len(ch) != 1:
            msg = "a range that is not divisible was split into %d chunks" % len(ch)
        if msg:
            return ("simple-chunks", "parallel_for(blocked_range(%d,%d,%d), simple_partitioner): %s" % (b, e, g, msg))
    return None


def tiling_error(ch, b, e):
    if b >= e:
        return None if not ch else "body invoked on an empty range"
    pos = b
    for x, y in sorted(ch):
        if x >= y:
            return "empty chunk [%d,%d)" % (x, y)
        if x != pos:
            return "chunks do not tile: expected a chunk starting at %d, got [%d,%d)" % (pos, x, y)
        pos = y
    if pos != e:
        return "chunks end at %d, range ends at %d" % (pos, e)
    return None


def gen_simple(ctx):
    rng = ctx.rng
    cases = []
    sizes = [0, 1, 2, 3, 4, 5, 7, 8, 9, 15, 16, 17, 31, 33, 63, 64, 65, 97, 127, 128, 129, 255, 257, 499, 500, 501, 1000, 1023, 1025, 4099, 65537]
    for _ in range(ctx.scale(120, 3000)):
        c = []
        for _ in range(3):
            kind = rng.random()
            if kind < 0.6:
                s = rng.choice(sizes)
                g = rng.choice([1, 2, 3, 4, 5, 7, 8, 16, 100, s if s else 1, max(1, s - 1), s + 1, max(1, s // 2), max(1, s // 2 + 1)])
                if s // g > 3000:
                    g = s // 3000 + 1
                b = rng.choice([0, 1, 7, 2 ** 32 - 3, 2 ** 40])
            else:  # huge sizes, > 2^24, > 2^32, up to 2^63
                s = rng.choice([2 ** 24 + 1, 2 ** 32 + 5, 2 ** 40 + 7, 2 ** 63 - 1, 2 ** 63, rng.getrandbits(rng.choice([30, 45, 62]))]) or 1
                g = max(1, s // rng.choice([1, 2, 3, 7, 100, 1000]) + rng.choice([0, 1, -1]))
                if g < 1:
                    g = 1
                b = rng.choice([0, 5, 2 ** 62])
            if b + s >= 2 ** 64:
                b = 0
            c += [b, b + s, g]
        cases.append(c)
    return cases


def run(ctx):
    lib, err = ctx.build_lib("tbb")
    if err:
        return ctx.broken("libtbb build", err)
    exe, err = ctx.build_driver("drv_for", libs=[lib], opt="-O2")
    if err:
        return ctx.broken("drv_for build", err)
    ctx.rules.append("simple: blocked_range<uint64> sizes 0,1,2,3, 2^k+-1, primes, 499-501, > 2^24, > 2^32, up to 2^63 x grains 1,2,3,g=size,size+-1,size/2(+1); "
                     "chunk lists compared exactly with the model's leaves; non-trivial = the range is split at least once")
    diff_tie(ctx, "for-simple", exe, ["simple"], "simple", gen_simple(ctx), oracle=simple_oracle, describe=describe_simple,
             nontrivial=lambda c, t: any(c[i + 1] - c[i] > c[i + 2] for i in range(0, len(c), 3)),
             bucket=lambda c: "simple maxbits=%d" % max((c[i + 1] - c[i]).bit_length() for i in range(0, len(c), 3)))
    # ---- the range pool of auto / affinity partitioner (range_vector<Range, 8>), white box, op by op against RvecModel
    prng = ctx.rng
    rcases = []
    for _ in range(ctx.scale(400, 10000)):
        b = prng.choice([0, 0, 5, 100])      # no negative bounds: the output format uses negative markers
        n = prng.choice([1, 2, 7, 100, 1000, 2 ** 20, 2 ** 40])
        g = prng.choice([1, 1, 2, 10])
        c = [b, b + n, g]
        for _ in range(prng.randint(3, 60)):
            r_ = prng.random()
            if r_ < 0.35:
                c += [1, prng.choice([0, 1, 2, 3, 4, 6, 8, 12, 20, 255])]
            elif r_ < 0.7:
                c += [2, 0]
            else:
                c += [3, 0]
        rcases.append(c)

    def rvec_desc(c):
        return "range_vector<blocked_range<long>, 8> over [%d,%d) grain %d: %s" % (c[0], c[1], c[2], " ".join(
            {1: "split_to_fill(%d)" % c[i + 1], 2: "run back / pop_back", 3: "offer front / pop_front"}.get(c[i], "?") for i in range(3, len(c) - 1, 2)))

    def rvec_oracle(c, toks):
        """what was run + offered + still pooled tiles the range: every piece inside the range, non-empty, pairwise disjoint, together the whole range"""
        if "-7" not in toks:
            return ("range-pool-crash", rvec_desc(c)[:400] + ": " + " ".join(toks[-8:]))
        vals = [int(x) for x in toks]
        k = vals.index(-7)
        pieces = []
        i = 0
        p = 3
        while p + 1 < len(c) and i < k:
            op = c[p]; p += 2
            if op == 1:
                i += 3
            elif vals[i] == -1 or vals[i] == -2:
                i += 1
            else:
                pieces.append((vals[i], vals[i + 1])); i += 6
        rest = vals[k + 1:]
        pieces += [(rest[j], rest[j + 1]) for j in range(0, len(rest), 3)]
        pieces.sort()
        pos = c[0]
        for (lo, hi) in pieces:
            if lo != pos or hi <= lo:
                return ("range-pool-not-a-tiling", "%s: the pieces run, offered and still pooled are %s - not a tiling of [%d,%d) (gap, overlap, empty or foreign piece at %d)" % (rvec_desc(c)[:600], pieces[:12], c[0], c[1], pos))
            pos = hi
        if pos != c[1]:
            return ("range-pool-not-a-tiling", "%s: pieces end at %d" % (rvec_desc(c)[:600], pos))
        return None
    ctx.rules.append("range-pool: range_vector<blocked_range<long>, 8> (the pool of auto / affinity partitioner's work_balance) driven white box through split_to_fill(depth 0..255) / back+pop_back / "
                     "front+pop_front scripts of 3-60 operations (the ring wraps many times): my_head, my_tail, my_size, every range and depth handed out and the final pool equal RvecModel's; "
                     "oracle: run + offered + pooled pieces tile the range")
    diff_tie(ctx, "range-pool", exe, ["rvec"], "rvec", rcases, oracle=rvec_oracle, describe=rvec_desc, bucket=lambda c: "rvec n=2^%d" % (c[1] - c[0]).bit_length())
    # ---- strided form parallel_for(first, last, step, f): Index arithmetic of the trip count, at the boundaries of the index types
    LIM = {0: (-2 ** 31, 2 ** 31 - 1), 1: (0, 2 ** 32 - 1), 2: (0, 2 ** 64 - 1), 3: (-2 ** 63, 2 ** 63 - 1)}
    scases = []
    rng = ctx.rng
    for _ in range(ctx.scale(400, 8000)):
        ty = rng.randrange(4)
        lo, hi = LIM[ty]
        if ty in (0, 3):                     # signed: last - first must be representable
            first = rng.choice([0, 1, -5, lo, lo + 1, hi // 2, hi - 100000, rng.randint(lo, hi)])
            first = max(first, lo)
            last = rng.choice([hi, hi - 1, first + 1, first + 2, first + 1000, rng.randint(first, hi)])
            last = min(last, first + hi, hi)
        else:
            first = rng.choice([0, 0, 1, 5, hi - 100000, hi // 2, rng.randint(0, hi)])
            last = rng.choice([hi, hi, hi - 1, hi - 7, first + 1, first + 3, first + 1000, rng.randint(first, hi)])
            last = min(last, hi)
        if last <= first:
            last = min(first + rng.choice([1, 2, 17]), hi)
        dist = last - first
        n = rng.choice([1, 1, 2, 3, 4, 5, 7, 64, 1000, 5000])
        step = max(1, dist // n + rng.choice([-1, 0, 0, 1]))
        if dist // step > 20000:
            step = dist // 20000 + 1
        step = min(step, hi)
        scases.append([ty, rng.randrange(5), rng.choice([1, 2, 4, 8]), first, last, step])
    ctx.rules.append("strided: parallel_for(first,last,step,f) for int / unsigned / size_t / long long with first,last at the ends of the type (last = max, max-1; first = 0, min, max-100000), "
                     "step = distance/n +- 1 (n = 1..5000, at most 20000 calls), five partitioner choices, 1-8 threads; number of calls, smallest and largest index and the sum of the indices "
                     "compared with ForModel.strided_trip / strided_index")
    rc, lines, err = ctx.run_driver(exe, ["strided"], scases, timeout=900)
    model = ctx.modelrun("strided", [c[3:6] for c in scases])
    sbad = 0
    for c, ln, mo in zip(scases, lines + ["MISSING"] * (len(scases) - len(lines)), model):
        ctx.count(("strided",) + tuple(c), True, "strided type=%d" % c[0])
        what = "parallel_for<%s>(first=%d, last=%d, step=%d), partitioner %d, %d threads" % (["int", "unsigned", "size_t", "long long"][c[0]], c[3], c[4], c[5], c[1], c[2])
        toks = ln.split()
        if len(toks) != 4 or not all(t.lstrip("-").isdigit() for t in toks):
            sbad += 1
            ctx.add(Finding("violation", "strided-hang-or-crash", what + ": " + ln[-60:], {"tie": "strided", "case": c}))
            continue
        got = [int(t) for t in toks]
        if got != mo:
            sbad += 1
            if sbad <= 3:
                # the model's answer is what the property demands (theorem strided_loop_indices): a different set of calls is a violation with this input
                ctx.add(Finding("violation", "strided-wrong-indices", "%s: the body was called %d times (indices %d..%d, sum %d); every index first+k*step below last exactly once means %d calls (indices %d..%d, sum %d)" % (
                    what, got[0], got[1], got[2], got[3], mo[0], mo[1], mo[2], mo[3]), {"tie": "strided", "case": c}))
        else:
            ctx.traces_validated += 1
    ctx.ties.append({"name": "strided (trip count and indices of parallel_for(first,last,step) vs ForModel)", "cases": len(scases), "disagreements": sbad})
    # ---- proportional split (binary32 arithmetic, Flocq model evaluated inside Coq)
    rng = ctx.rng
    trip = []
    sizes = [2, 3, 4, 5, 6, 7, 8, 9, 15, 16, 17, 31, 33, 100, 1000, 2 ** 24 - 1, 2 ** 24, 2 ** 24 + 1, 2 ** 24 + 3, 2 ** 25 + 1, 2 ** 32 - 1, 2 ** 32 + 5,
             2 ** 40 + 12345, 2 ** 53 + 1, 2 ** 63 - 1, 2 ** 63, 2 ** 63 + 12345, 2 ** 64 - 1]
    for sz in sizes:
        for n in list(range(2, 20)) + [31, 32, 33, 63, 64, 65, 127, 128, 255, 1000, 4096, 65535]:
            trip += [sz, n - n // 2, n // 2]
    for _ in range(ctx.scale(300, 20000)):
        n = rng.choice([2, 3, 5, 6, 7, 9, 11, 12, 16, 24, 48, 100, 1024])
        trip += [max(2, rng.getrandbits(rng.choice([2, 4, 10, 24, 25, 33, 53, 63, 64]))), n - n // 2, n // 2]
    ncase = len(trip) // 3
    rc, lines, err = ctx.run_driver(exe, ["psplit"], [trip], timeout=300)
    impl = lines[0].split() if lines else []
    try:
        model = []
        CH = 3 * 1000                    # one coqc per 1000 triples: a literal list much longer than that overflows coqc's stack
        for off in range(0, len(trip), CH):
            part = trip[off:off + CH]
            got_part = ctx.coq_eval_list("From OTV Require Import PsplitModel.", "run_psplit [%s]" % "; ".join(map(str, part)))
            if len(got_part) != len(part) // 3:
                raise RuntimeError("PsplitModel returned %d results for %d cases" % (len(got_part), len(part) // 3))
            model += got_part
    except Exception as e:
        ctx.broken("PsplitModel evaluation", str(e))
        model = []
    bad = 0
    for i in range(ncase):
        sz, lf, rt = trip[3 * i:3 * i + 3]
        got = impl[i] if i < len(impl) else "MISSING"
        ctx.count(("psplit", sz, lf, rt), True, "psplit bits=%d" % sz.bit_length())
        what = "blocked_range(0,%d) split by proportional_split(%d,%d)" % (sz, lf, rt)
        if not got.isdigit() or not (1 <= int(got) <= sz - 1):
            bad += 1
            ctx.add(Finding("violation", "psplit-empty-part", "%s: right part has %s elements — one side of the split is empty" % (what, got),
                            {"tie": "psplit", "case": [sz, lf, rt], "impl": got, "model": model[i] if i < len(model) else None}))
            break
        if i < len(model) and int(got) != model[i]:
            bad += 1
            if bad <= 2:
                ctx.add(Finding("broken", "broken:tie:psplit", "%s: implementation %s, binary32 model %d" % (what, got, model[i]),
                                {"tie": "psplit", "case": [sz, lf, rt], "impl": got, "model": model[i]}))
        else:
            ctx.traces_validated += 1
    ctx.ties.append({"name": "psplit (Flocq binary32 model evaluated by vm_compute)", "cases": ncase, "disagreements": bad})
    ctx.rules.append("psplit: sizes 2..9, 2^k+-1, 2^24+-1, > 2^32, up to 2^64-1 x (left,right) = (n-n/2, n/2) for n = 2..19, 31..33, 63..65, ... ; compared with the Flocq model")
    # ---- directed sweep: small ranges x all partitioners x arena concurrency 1..12 (static/affinity divisors are odd there)
    sweep = []
    for P in range(1, 13):
        for part in range(4):
            for sz in list(range(0, 20)) + [31, 48]:
                for g in (1, 2, 3):
                    if ctx.quick() and (sz > 12 and g > 1):
                        continue
                    sweep.append([part, P, 0, sz, g])
    rc, lines, err = ctx.run_driver(exe, ["chunks"], sweep, timeout=600)
    nb = 0
    for case, ln in zip(sweep, lines + ["CRASH"] * (len(sweep) - len(lines))):
        ctx.count(("sweep", tuple(case)), True, "sweep P=%d" % case[1])
        toks = ln.split()
        msg = None
        if not toks or not toks[0].isdigit():
            msg = "driver: " + ln[-60:]
        else:
            v = [int(x) for x in toks]
            msg = tiling_error(list(zip(v[1::2], v[2::2])), case[2], case[3])
        if msg:
            nb += 1
            ctx.add(Finding("violation", "for-chunks", "parallel_for(blocked_range(%d,%d,%d), %s_partitioner) in task_arena(%d): %s" % (case[2], case[3], case[4], PARTS[case[0]], case[1], msg),
                            {"tie": "for-oracle", "mode": "chunks", "case": case}))
            break
    ctx.ties.append({"name": "for-sweep (oracle only)", "cases": len(sweep), "disagreements": nb})
    ctx.rules.append("sweep: every size 0..19,31,48 x grain 1..3 x 4 partitioners x arena concurrency 1..12; predicate = non-empty disjoint covering chunks")
    # ---- oracle runs on the real library (all partitioners, 1d/2d/3d, for_each, invoke)
    bad = 0
    n = ctx.scale(250, 6000)
    for k in range(n):
        part = k % 4
        P = rng.choice([1, 2, 3, 4, 8, 16])
        kind = rng.random()
        if kind < 0.5:
            s = rng.choice([0, 1, 2, 3, 5, 16, 17, 100, 1000, 4097, 100003, 2 ** 24 + 1, 2 ** 32 + 5, 2 ** 50])
            g = rng.choice([1, 2, 3, 7, 64]) if s <= 100003 else max(1, s // rng.choice([3, 50, 700]))
            if part == 0 and s // g > 5000:
                g = s // 5000 + 1
            b = rng.choice([0, 3, 2 ** 33])
            case = [part, P, b, b + s, g]
            rc, lines, err = ctx.run_driver(exe, ["chunks"], [case], timeout=120)
            msg = None
            if rc != 0 or not lines or lines[0].endswith("HANG"):
                msg = "driver rc=%s %s" % (rc, (lines or [""])[0][-40:])
            else:
                v = [int(x) for x in lines[0].split()]
                msg = tiling_error(list(zip(v[1::2], v[2::2])), b, b + s)
            what = "parallel_for(blocked_range(%d,%d,%d), %s_partitioner) in task_arena(%d)" % (b, b + s, g, PARTS[part], P)
            mode = "chunks"
        elif kind < 0.8:
            r0, c0 = rng.choice([0, 5]), rng.choice([0, 9])
            rs, cs = rng.choice([1, 2, 3, 8, 31, 64]), rng.choice([1, 2, 5, 16, 33, 100])
            rg_, cg = rng.choice([1, 2, 4, 7]), rng.choice([1, 3, 8])
            case = [part, P, r0, r0 + rs, rg_, c0, c0 + cs, cg]
            rc, lines, err = ctx.run_driver(exe, ["chunks2d"], [case], timeout=120)
            msg = None
            if rc != 0 or not lines or lines[0].endswith("HANG"):
                msg = "driver rc=%s" % rc
            else:
                v = [int(x) for x in lines[0].split()]
                cells = {}
                for i in range(v[0]):
                    a, b2, cc, d = v[1 + 4 * i:5 + 4 * i]
                    if a >= b2 or cc >= d:
                        msg = "empty 2d chunk"
                    for x in range(a, b2):
                        for y in range(cc, d):
                            cells[(x, y)] = cells.get((x, y), 0) + 1
                want = {(x, y) for x in range(r0, r0 + rs) for y in range(c0, c0 + cs)}
                if not msg and (set(cells) != want or any(n_ != 1 for n_ in cells.values())):
                    msg = "2d chunks do not partition the iteration space"
            what = "parallel_for(blocked_range2d rows[%d,%d)/%d cols[%d,%d)/%d, %s) P=%d" % (r0, r0 + rs, rg_, c0, c0 + cs, cg, PARTS[part], P)
            mode = "chunks2d"
        elif kind < 0.9:
            dims = [(rng.choice([0, 2]), rng.choice([1, 2, 5, 9]), rng.choice([1, 2, 3])) for _ in range(3)]
            case = [part, P] + [x for (b0, s0, g0) in dims for x in (b0, b0 + s0, g0)]
            rc, lines, err = ctx.run_driver(exe, ["chunks3d"], [case], timeout=120)
            msg = None
            if rc != 0 or not lines or lines[0].endswith("HANG"):
                msg = "driver rc=%s" % rc
            else:
                v = [int(x) for x in lines[0].split()]
                cells = {}
                for i in range(v[0]):
                    t = v[1 + 6 * i:7 + 6 * i]
                    for x in range(t[0], t[1]):
                        for y in range(t[2], t[3]):
                            for z in range(t[4], t[5]):
                                cells[(x, y, z)] = cells.get((x, y, z), 0) + 1
                want = {(x, y, z) for x in range(dims[0][0], dims[0][0] + dims[0][1]) for y in range(dims[1][0], dims[1][0] + dims[1][1])
                        for z in range(dims[2][0], dims[2][0] + dims[2][1])}
                if set(cells) != want or any(n_ != 1 for n_ in cells.values()):
                    msg = "3d chunks do not partition the iteration space"
            what = "parallel_for(blocked_range3d %s, %s) P=%d" % (dims, PARTS[part], P)
            mode = "chunks3d"
        else:
            if rng.random() < 0.5:
                case = [P, rng.choice([0, 1, 2, 17, 1000]), 0]
                case[2] = rng.choice([0, min(case[1], 1), case[1] // 2, case[1]])
                mode = "foreach"
                what = "parallel_for_each over %d items, %d fed through the feeder, P=%d" % (case[1], case[2], P)
            else:
                case = [P, rng.choice([2, 3, 4, 5, 7, 10])]
                mode = "invoke"
                what = "parallel_invoke of %d functions P=%d" % (case[1], P)
            rc, lines, err = ctx.run_driver(exe, [mode], [case], timeout=120)
            msg = None
            if rc != 0 or not lines or lines[0].endswith("HANG"):
                msg = "driver rc=%s" % rc
            elif int(lines[0].split()[0]) != 0:
                msg = "%s element(s)/function(s) not executed exactly once (first: %s)" % tuple(lines[0].split()[:2])
        ctx.count((mode, case), True, "oracle " + mode)
        if k < 3:
            ctx.sample({"oracle-run": what})
        if msg:
            bad += 1
            ctx.add(Finding("violation", "for-" + mode, "%s: %s" % (what, msg), {"tie": "for-oracle", "mode": mode, "case": case}))
            break
    ctx.ties.append({"name": "for-oracle (real threads; all partitioners, 1d/2d/3d, for_each, invoke)", "cases": n, "disagreements": bad})
    ctx.rules.append("oracle runs: random (partitioner, arena concurrency 1..16, range shape) on the real library with real threads; predicate = chunks non-empty, disjoint, cover the space / every element exactly once")


def replay(ctx, rep):
    lib, err = ctx.build_lib("tbb")
    exe, err = ctx.build_driver("drv_for", libs=[lib], opt="-O2")
    if rep.get("tie") == "strided":
        c = rep["case"]
        rc, lines, err = ctx.run_driver(exe, ["strided"], [c], timeout=120)
        mo = ctx.modelrun("strided", [c[3:6]])[0]
        print("implementation: calls, smallest, largest, sum =", lines, " model:", mo)
        if not lines or [int(t) for t in lines[0].split() if t.lstrip("-").isdigit()] != mo:
            ctx.add(Finding("violation", "strided-wrong-indices", "parallel_for(first=%d,last=%d,step=%d): implementation %s, required %s" % (c[3], c[4], c[5], lines, mo), {"tie": "strided", "case": c}))
        return
    if rep.get("tie") == "for-oracle":
        rc, lines, err = ctx.run_driver(exe, [rep["mode"]], [rep["case"]], timeout=120)
        print("\n".join(lines))
        return
    if rep.get("tie") == "range-pool":
        return diff_tie(ctx, "range-pool", exe, ["rvec"], "rvec", [rep["case"]])
    diff_tie(ctx, "for-simple", exe, ["simple"], "simple", [rep["case"]], oracle=simple_oracle, describe=describe_simple)
