"""C13 — concurrent_priority_queue. See DESIGN.md section 4/C13."""
from functools import lru_cache
import vlib
from vlib import diff_tie, Finding
from props.common import BASE_TRUSTED

PROP_FILES = ["Properties_C13"]
TRUSTED = BASE_TRUSTED + [
    "modelled: handle_operations (both passes), heapify, reheap with Compare=std::less<long long>; the batch is the op_list the aggregator hands over",
    "modelled: element copy (push) and assignment (pop) failures as per-operation flags; modelled, not verified: the aggregator's pending-stack CAS / handler election",
]


def parse_case(c):
    batches, cur = [], []
    for i in range(0, len(c) - 1, 2):
        if c[i] == 9:
            batches.append(cur)
            cur = []
        else:
            cur.append(("push", c[i + 1]) if c[i] == 1 else ("pop", 0))
    if cur:
        batches.append(cur)
    return batches


def describe(c):
    return " | ".join(" ".join("push(%d)" % v if o == "push" else "try_pop" for o, v in b) for b in parse_case(c))


def batch_linearizable(contents, ops, results):
    """Is there an order of the (pairwise concurrent) ops of one batch under which the sequential
    priority-queue spec yields exactly these results? DFS over subsets with memoisation."""
    n = len(ops)
    base = sorted(contents)

    def contents_after(mask):
        m = list(base)
        for i in range(n):
            if mask >> i & 1 and ops[i][0] == "push":
                m.append(ops[i][1])
        for i in range(n):
            if mask >> i & 1 and ops[i][0] == "pop" and results[i][0] == 1:
                m.remove(results[i][1])
        return m

    @lru_cache(maxsize=None)
    def go(mask):
        if mask == (1 << n) - 1:
            return True
        try:
            m = contents_after(mask)
        except ValueError:
            return False
        for i in range(n):
            if mask >> i & 1:
                continue
            if ops[i][0] == "push":
                ok = results[i][0] == 1
            elif results[i][0] == 1:
                ok = bool(m) and results[i][1] == max(m)
            else:
                ok = not m
            if ok and go(mask | 1 << i):
                return True
        return False
    return go(0)


def oracle(c, toks):
    if toks and (toks[-1] == "HANG" or "SIZE-MISMATCH" in toks or toks[0].startswith("CRASH")):
        return ("cpq-hang-or-size", "%s: %s" % (describe(c), " ".join(toks)[-80:]))
    try:
        v = [int(t) for t in toks]
    except ValueError:
        return ("cpq-bad-output", " ".join(toks)[:200])
    contents = []
    pos = 0
    for b in parse_case(c):
        res = []
        for _ in b:
            res.append((v[pos], v[pos + 1]))
            pos += 2
        size, mark = v[pos], v[pos + 1]
        data = v[pos + 2:pos + 2 + size]
        pos += 2 + size
        if v[pos] != -7:
            return ("cpq-bad-output", "framing")
        pos += 1
        if not batch_linearizable(tuple(contents), tuple(b), tuple(res)):
            return ("cpq-batch-not-linearizable",
                    "%s: batch %s on contents %s answered %s — no order of the batch satisfies the priority-queue spec "
                    "(a pop must return a maximum / fail only when empty)" % (describe(c), b, sorted(contents), res))
        new = list(contents) + [x for (o, x), (st, val) in zip(b, res) if o == "push" and st == 1]
        for (o, x), (st, val) in zip(b, res):
            if o == "pop" and st == 1:
                if val in new:
                    new.remove(val)
                else:
                    return ("cpq-invented-element", "%s: popped %d which is not in the queue" % (describe(c), val))
        if sorted(new) != sorted(data):
            return ("cpq-lost-or-duplicated", "%s: contents after batch %s but pushes-pops give %s" % (describe(c), sorted(data), sorted(new)))
        if mark != size:
            return ("cpq-mark", "%s: mark=%d size=%d after a batch" % (describe(c), mark, size))
        for i in range(1, size):
            if data[(i - 1) // 2] < data[i]:
                return ("cpq-heap-broken", "%s: heap order violated at %d in %s" % (describe(c), i, data))
        contents = new
    return None


def gen_cases(ctx, api):
    rng = ctx.rng
    cases = []
    for _ in range(ctx.scale(1500, 40000)):
        c = []
        shape = rng.choice(["rand", "rand", "mono_up", "mono_down", "dups", "popheavy"])
        nb = rng.randint(1, 6)
        val = rng.randint(-5, 50)
        for _ in range(nb):
            for _ in range(1 if api else rng.choice([1, 2, 3, 4, 6, 8])):
                ppush = 0.35 if shape == "popheavy" else 0.6
                if rng.random() < ppush:
                    if shape == "mono_up":
                        val += rng.randint(0, 3)
                    elif shape == "mono_down":
                        val -= rng.randint(0, 3)
                    elif shape == "dups":
                        val = rng.choice([1, 2, 2, 3])
                    else:
                        val = rng.randint(-20, 60)
                    c += [1, val]
                else:
                    c += [2, 0]
                if api:
                    c += [9, 9]
            if not api:
                c += [9, 9]
        cases.append(c)
    return cases


def run(ctx):
    lib, err = ctx.build_lib("tbb")
    if err:
        return ctx.broken("libtbb build", err)
    exe, err = ctx.build_driver("drv_cpq", libs=[lib])
    if err:
        return ctx.broken("drv_cpq build", err)
    ctx.rules.append("cpq-batch: seeded random batches (1-8 ops, 1-6 batches; shapes random/monotone up/monotone down/duplicates/pop-heavy) handed to the real "
                     "handle_operations; compared: per-op status+value, data array, mark; distinct = distinct op lists")
    nt = lambda c, t: len(c) > 4
    diff_tie(ctx, "cpq-batch", exe, ["batch"], "cpq", gen_cases(ctx, False), oracle=oracle, describe=describe, nontrivial=nt,
             bucket=lambda c: "batch ops=%d" % (sum(1 for i in range(0, len(c), 2) if c[i] != 9)))
    ctx.rules.append("cpq-api: the same through push/try_pop (one op per batch)")
    diff_tie(ctx, "cpq-api", exe, ["api"], "cpq", gen_cases(ctx, True)[:ctx.scale(500, 10000)], oracle=oracle, describe=describe, nontrivial=nt,
             bucket=lambda c: "api")
    run_faults(ctx, exe)


def fdescribe(c):
    names = {1: "push(%d)", 2: "try_pop", 3: "push(%d)[copy throws]", 4: "try_pop[assignment throws]"}
    out, cur = [], []
    for i in range(0, len(c) - 1, 2):
        if c[i] == 9:
            out.append(" ".join(cur)); cur = []
        else:
            cur.append(names[c[i]] % c[i + 1] if "%d" in names[c[i]] else names[c[i]])
    if cur:
        out.append(" ".join(cur))
    return " | ".join(out)


def fault_oracle(c, toks, api=False):
    """Property text: the exception reaches the caller of that operation only; the others are unaffected (answered, queue usable)."""
    if toks and toks[-1] == "HANG":
        return ("cpq-pop-assign-throws", "%s: an operation never returns after an element assignment threw (handler left busy)" % fdescribe(c))
    if "ESCAPED" in toks:
        return ("cpq-pop-assign-throws", "%s: the exception escaped handle_operations on the handler thread; batched operations were left unanswered" % fdescribe(c))
    if toks and toks[0].startswith("CRASH"):
        return ("cpq-fault-crash", fdescribe(c))
    v = [int(t) for t in toks if t.lstrip("-").isdigit()]
    ops = [(c[i], c[i + 1]) for i in range(0, len(c) - 1, 2)]
    pos = 0
    bag = {}            # contents the queue must hold: successfully pushed minus successfully popped (property: none lost, none twice)

    def check_dump(pos):
        n = v[pos]
        data = v[pos + 2: pos + 2 + n]
        have = {}
        for x in data:
            have[x] = have.get(x, 0) + 1
        want = {k: n_ for k, n_ in bag.items() if n_}
        if have != want:
            return ("cpq-fault-element-lost-or-duplicated", "%s: after the batch the queue holds %s but the answered pushes/pops leave %s — an element was lost or duplicated by an operation "
                    "that shared a batch with a throwing one" % (fdescribe(c), sorted(data), sorted(x for k, n_ in want.items() for x in [k] * n_)))
        return None
    popped = []

    def settle():
        for out in popped:
            if not bag.get(out):
                return ("cpq-fault-element-lost-or-duplicated", "%s: a pop returned %d, which is not in the queue (popped twice or never pushed)" % (fdescribe(c), out))
            bag[out] -= 1
        del popped[:]
        return None
    for op, val in ops:
        if op == 9:
            if pos < len(v) and not api:        # state dump after every batch: size mark data[size] -7
                r = settle() or check_dump(pos)
                if r:
                    return r
                pos += 2 + v[pos] + 1
            continue
        if pos + 1 >= len(v):
            return ("cpq-fault-bad-output", fdescribe(c))
        st, out = v[pos], v[pos + 1]
        pos += 2
        if st == 0:
            return ("cpq-pop-assign-throws", "%s: an operation of the batch was never answered" % fdescribe(c))
        if op in (1, 2) and st == 3:   # (a push whose copy throws legitimately reports an exception to its own caller)
            return ("cpq-exception-to-wrong-op", "%s: an operation that did not throw received an exception" % fdescribe(c))
        if op in (1, 3) and st == 1:
            bag[val] = bag.get(val, 0) + 1
        if op in (2, 4) and st == 1:
            popped.append(out)          # operations of one batch overlap: a pop may return an element pushed later in the same batch
        if api:
            r = settle()
            if r:
                return r
    if pos < len(v) and (api or ops and ops[-1][0] != 9):
        r = settle() or check_dump(pos)
        if r:
            return r
    return None


def gen_fault_cases(ctx, api):
    rng = ctx.rng
    cases = []
    for _ in range(ctx.scale(600, 20000)):
        c = []
        for _ in range(rng.randint(1, 5)):
            for _ in range(1 if api else rng.choice([1, 2, 3, 5, 8])):
                r = rng.random()
                if r < 0.45:
                    c += [1, rng.randint(-9, 40)]
                elif r < 0.55:
                    c += [3, rng.randint(-9, 40)]
                elif r < 0.85:
                    c += [2, 0]
                else:
                    c += [4, 0]
                if api:
                    c += [9, 9]
            if not api:
                c += [9, 9]
        cases.append(c)
    return cases


def run_faults(ctx, exe):
    ctx.rules.append("cpq-fault: batches where chosen pushes carry a value whose copy throws and chosen pops a destination whose assignment throws, handed to the real handle_operations "
                     "and through push/try_pop; compared with the fault-aware model (status per op incl. 'exception to this caller', data array); oracle = nobody else gets the exception, every op is answered, no hang")
    diff_tie(ctx, "cpq-faultbatch", exe, ["faultbatch"], "cpqf", gen_fault_cases(ctx, False), oracle=fault_oracle, describe=fdescribe,
             nontrivial=lambda c, t: any(c[i] in (3, 4) for i in range(0, len(c), 2)), bucket=lambda c: "faultbatch")
    api = gen_fault_cases(ctx, True)[:ctx.scale(300, 6000)]
    rc, lines, err = ctx.run_driver(exe, ["faultapi"], api, timeout=600)
    while len(lines) < len(api):
        if not lines or not lines[-1].endswith("HANG"):
            lines.append("CRASH rc=%s" % rc)
        if len(lines) < len(api):
            rc, more, err = ctx.run_driver(exe, ["faultapi"], api[len(lines):], timeout=600)
            lines += more
        if sum(1 for l in lines if l.endswith("HANG")) >= 3:
            break
    model = ctx.modelrun("cpqf", api[:len(lines)])
    bad = 0
    for c, ln, mo in zip(api, lines, model):
        ctx.count(("faultapi", tuple(c)), any(x in (3, 4) for x in c[0::2]), "faultapi")
        toks = ln.split()
        v = fault_oracle(c, toks, api=True)
        if v:
            bad += 1
            if bad <= 2:
                ctx.add(Finding("violation", v[0], "cpq-faultapi: " + v[1], {"tie": "cpq-faultapi", "case": c, "impl": ln[:500]}))
            continue
        # per-op comparison with the model: statuses and popped values (the model prints a state dump per batch; take the op pairs)
        mi, want = 0, []
        for i in range(0, len(c) - 1, 2):
            if c[i] == 9:
                mi += 2 + mo[mi] + 1
            else:
                st, val = mo[mi:mi + 2]
                if c[i] == 3 and st == 2:
                    st = 3          # through the API a failed push surfaces as an exception (bad_alloc) in the pushing caller
                want += [st, val]; mi += 2
        got = [int(x) for x in toks[:len(want)]]
        if got != want:
            bad += 1
            if bad <= 2:
                ctx.add(Finding("broken", "broken:tie:cpq-faultapi", "cpq-faultapi: %s: implementation %s model %s" % (fdescribe(c), got, want), {"tie": "cpq-faultapi", "case": c}))
        else:
            ctx.traces_validated += 1
    ctx.ties.append({"name": "cpq-faultapi", "cases": len(lines), "disagreements": bad})
    # real threads: the aggregator hands operations of one thread to another thread's handler
    nm = ctx.scale(10, 120)
    mbad = 0
    for r in range(nm):
        args = ["mt", [2, 3, 4, 8][r % 4], ctx.seed * 1000 + r, 4000]
        rc, lines2, err = ctx.run_driver(exe, args, timeout=300)
        ctx.count(("cpq-mt", r), True, "cpq-mt T=%d" % args[1])
        t = (lines2 or ["no output"])[-1].split()
        if rc != 0 or len(t) < 8 or t[1::2] != ["0", "0", "0", "0"]:
            mbad += 1
            ctx.add(Finding("violation", "cpq-mt", "concurrent_priority_queue, %d threads x 4000 push / try_pop with slow-copy elements, one in 16 throwing when copied (seed %d): %s rc=%s "
                            "(LATE = an element was read by the handler after its push() had returned; EXC = a throwing push returned normally or a good one threw; CONS = popped + left != pushed; ORDER = final drain not in priority order)" % (
                                args[1], args[2], " ".join(t), rc), {"tie": "cpq-mt", "args": args}))
            break
    ctx.rules.append("cpq-mt (oracle only): 2-8 real threads x 4000 push(copy) / push(move) / try_pop on a queue with spare capacity, elements with a slow copy constructor, one in 16 throwing: "
                     "no element is read after its push returned, exceptions reach exactly the throwing pushes' callers, popped + left = pushed, the final drain is in priority order")
    ctx.ties.append({"name": "cpq-mt (oracle only)", "cases": nm, "disagreements": mbad})


def replay(ctx, rep):
    if rep.get("tie") == "cpq-mt":
        lib, err = ctx.build_lib("tbb")
        exe, err = ctx.build_driver("drv_cpq", libs=[lib])
        print(ctx.run_driver(exe, rep["args"], timeout=300))
        return
    if rep.get("tie", "").startswith("cpq-fault"):
        lib, err = ctx.build_lib("tbb")
        exe, err = ctx.build_driver("drv_cpq", libs=[lib])
        diff_tie(ctx, rep["tie"], exe, ["faultbatch" if rep["tie"] == "cpq-faultbatch" else "faultapi"], "cpqf", [rep["case"]], oracle=fault_oracle, describe=fdescribe)
        return
    lib, err = ctx.build_lib("tbb")
    exe, err = ctx.build_driver("drv_cpq", libs=[lib])
    mode = "api" if rep.get("tie") == "cpq-api" else "batch"
    diff_tie(ctx, rep.get("tie", "replay"), exe, [mode], "cpq", [rep["case"]], oracle=oracle, describe=describe)
