"""C13 — concurrent_priority_queue. See DESIGN.md section 4/C13."""
from functools import lru_cache
import vlib
from vlib import diff_tie, Finding
from props.common import BASE_TRUSTED

PROP_FILES = ["Properties_C13"]
TRUSTED = BASE_TRUSTED + [
    "modelled: handle_operations (both passes), heapify, reheap with Compare=std::less<long long>; the batch is the op_list the aggregator hands over",
    "modelled, not verified: the aggregator's pending-stack CAS / handler election (real-thread oracle runs only), element copy/move exceptions (fault runs)",
]


def parse_case(c):
    batches, cur = [], []
    for i in range(0, len(c) - 1, 2):
        if c[i] == 9:
            batches.append(cur)
            cur = []
        else:
            cur.append(("push", c[i + 1]) if c[i] == 1 else ("pop", 0))
    if cur:
        batches.append(cur)
    return batches


def describe(c):
    return " | ".join(" ".join("push(%d)" % v if o == "push" else "try_pop" for o, v in b) for b in parse_case(c))


def batch_linearizable(contents, ops, results):
    """Is there an order of the (pairwise concurrent) ops of one batch under which the sequential
    priority-queue spec yields exactly these results? DFS over subsets with memoisation."""
    n = len(ops)
    base = sorted(contents)

    def contents_after(mask):
        m = list(base)
        for i in range(n):
            if mask >> i & 1 and ops[i][0] == "push":
                m.append(ops[i][1])
        for i in range(n):
            if mask >> i & 1 and ops[i][0] == "pop" and results[i][0] == 1:
                m.remove(results[i][1])
        return m

    @lru_cache(maxsize=None)
    def go(mask):
        if mask == (1 << n) - 1:
            return True
        try:
            m = contents_after(mask)
        except ValueError:
            return False
        for i in range(n):
            if mask >> i & 1:
                continue
            if ops[i][0] == "push":
                ok = results[i][0] == 1
            elif results[i][0] == 1:
                ok = bool(m) and results[i][1] == max(m)
            else:
                ok = not m
            if ok and go(mask | 1 << i):
                return True
        return False
    return go(0)


def oracle(c, toks):
    if toks and (toks[-1] == "HANG" or "SIZE-MISMATCH" in toks or toks[0].startswith("CRASH")):
        return ("cpq-hang-or-size", "%s: %s" % (describe(c), " ".join(toks)[-80:]))
    try:
        v = [int(t) for t in toks]
    except ValueError:
        return ("cpq-bad-output", " ".join(toks)[:200])
    contents = []
    pos = 0
    for b in parse_case(c):
        res = []
        for _ in b:
            res.append((v[pos], v[pos + 1]))
            pos += 2
        size, mark = v[pos], v[pos + 1]
        data = v[pos + 2:pos + 2 + size]
        pos += 2 + size
        if v[pos] != -7:
            return ("cpq-bad-output", "framing")
        pos += 1
        if not batch_linearizable(tuple(contents), tuple(b), tuple(res)):
            return ("cpq-batch-not-linearizable",
                    "%s: batch %s on contents %s answered %s — no order of the batch satisfies the priority-queue spec "
                    "(a pop must return a maximum / fail only when empty)" % (describe(c), b, sorted(contents), res))
        new = list(contents) + [x for (o, x), (st, val) in zip(b, res) if o == "push" and st == 1]
        for (o, x), (st, val) in zip(b, res):
            if o == "pop" and st == 1:
                if val in new:
                    new.remove(val)
                else:
                    return ("cpq-invented-element", "%s: popped %d which is not in the queue" % (describe(c), val))
        if sorted(new) != sorted(data):
            return ("cpq-lost-or-duplicated", "%s: contents after batch %s but pushes-pops give %s" % (describe(c), sorted(data), sorted(new)))
        if mark != size:
            return ("cpq-mark", "%s: mark=%d size=%d after a batch" % (describe(c), mark, size))
        for i in range(1, size):
            if data[(i - 1) // 2] < data[i]:
                return ("cpq-heap-broken", "%s: heap order violated at %d in %s" % (describe(c), i, data))
        contents = new
    return None


def gen_cases(ctx, api):
    rng = ctx.rng
    cases = []
    for _ in range(ctx.scale(1500, 40000)):
        c = []
        shape = rng.choice(["rand", "rand", "mono_up", "mono_down", "dups", "popheavy"])
        nb = rng.randint(1, 6)
        val = rng.randint(-5, 50)
        for _ in range(nb):
            for _ in range(1 if api else rng.choice([1, 2, 3, 4, 6, 8])):
                ppush = 0.35 if shape == "popheavy" else 0.6
                if rng.random() < ppush:
                    if shape == "mono_up":
                        val += rng.randint(0, 3)
                    elif shape == "mono_down":
                        val -= rng.randint(0, 3)
                    elif shape == "dups":
                        val = rng.choice([1, 2, 2, 3])
                    else:
                        val = rng.randint(-20, 60)
                    c += [1, val]
                else:
                    c += [2, 0]
                if api:
                    c += [9, 9]
            if not api:
                c += [9, 9]
        cases.append(c)
    return cases


def run(ctx):
    lib, err = ctx.build_lib("tbb")
    if err:
        return ctx.broken("libtbb build", err)
    exe, err = ctx.build_driver("drv_cpq", libs=[lib])
    if err:
        return ctx.broken("drv_cpq build", err)
    ctx.rules.append("cpq-batch: seeded random batches (1-8 ops, 1-6 batches; shapes random/monotone up/monotone down/duplicates/pop-heavy) handed to the real "
                     "handle_operations; compared: per-op status+value, data array, mark; distinct = distinct op lists")
    nt = lambda c, t: len(c) > 4
    diff_tie(ctx, "cpq-batch", exe, ["batch"], "cpq", gen_cases(ctx, False), oracle=oracle, describe=describe, nontrivial=nt,
             bucket=lambda c: "batch ops=%d" % (sum(1 for i in range(0, len(c), 2) if c[i] != 9)))
    ctx.rules.append("cpq-api: the same through push/try_pop (one op per batch)")
    diff_tie(ctx, "cpq-api", exe, ["api"], "cpq", gen_cases(ctx, True)[:ctx.scale(500, 10000)], oracle=oracle, describe=describe, nontrivial=nt,
             bucket=lambda c: "api")


def replay(ctx, rep):
    lib, err = ctx.build_lib("tbb")
    exe, err = ctx.build_driver("drv_cpq", libs=[lib])
    mode = "api" if rep.get("tie") == "cpq-api" else "batch"
    diff_tie(ctx, rep.get("tie", "replay"), exe, [mode], "cpq", [rep["case"]], oracle=oracle, describe=describe)
