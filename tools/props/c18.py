"""C18 — tbbmalloc fails cleanly; pools stay inside and give back their raw memory. See DESIGN.md section 4/C18."""
import vlib
from vlib import diff_tie, oracle_tie, Finding
from props.common import BASE_TRUSTED
from props import c17

PROP_FILES = ["Properties_C18"]
TRUSTED = BASE_TRUSTED + [
    "modelled: the overflow/argument guards of scalable_calloc, posix_memalign, aligned_malloc and getFromLLOCache (mod 2^64 arithmetic)",
    "modelled, not verified: the backend's retry ladder after a refused raw allocation, region bookkeeping of memory pools, pool_identify — "
    "covered by fault enumeration (every index k of the raw-allocation trace fails once) with a raw-memory ledger and fill patterns",
]
KN = {1: "calloc", 2: "posix_memalign", 3: "aligned_malloc", 4: "malloc", 5: "realloc-of-malloc"}


def gdesc(c):
    return "; ".join("%s(%d,%d)" % (KN[c[i]], c[i + 1], c[i + 2]) for i in range(0, len(c), 3))


def guards_compare(ctx, exe, cases):
    rc, lines, err = ctx.run_driver(exe, ["guards"], cases, timeout=600)
    while len(lines) < len(cases):
        lines.append("CRASH")
        if len(lines) < len(cases):
            rc, more, err = ctx.run_driver(exe, ["guards"], cases[len(lines):], timeout=600)
            lines += more
    model = ctx.modelrun("guards", cases)
    bad = 0
    for c, ln, mo in zip(cases, lines, model):
        toks = ln.split()
        ctx.count(("guards", tuple(c)), True, "guards")
        if len(ctx.samples) < 3:
            ctx.sample({"tie": "malloc-guards", "case": gdesc(c), "impl": ln[:120], "model": mo})
        if "MSIZE-BELOW-REQUEST" in toks or "OLD-BLOCK-CORRUPTED" in toks or (toks and toks[-1] == "HANG"):
            bad += 1
            j = (len([t for t in toks if t.isdigit()]) // 2)
            cur = c[3 * j:3 * j + 3] if toks[-1] == "HANG" and 3 * j + 2 < len(c) else c
            key = "realloc-near-size-max" if 5 in c[0::3] else "malloc-guard-hang"
            ctx.add(Finding("violation", key, "%s: %s" % (gdesc(cur), "the call never returns (watchdog)" if toks[-1] == "HANG" else
                            "a block smaller than requested was returned / the old block was damaged"), {"tie": "malloc-guards", "case": cur}))
            continue
        if len(toks) != 2 * len(mo):
            bad += 1
            ctx.add(Finding("violation", "malloc-guard-crash", "%s: the allocator crashed / produced no answer (%s)" % (gdesc(c), ln[-60:]), {"tie": "malloc-guards", "case": c}))
            continue
        ok = True
        for j, m in enumerate(mo):
            succ, cls = int(toks[2 * j]), int(toks[2 * j + 1])
            k, a, b = c[3 * j:3 * j + 3]
            what = "%s(%d,%d)" % (KN[k], a, b)
            nbytes = a * b if k == 1 else (max(a, b) if k in (2, 3) else (b if k == 5 else a))
            if succ and not m:
                ok = False
                ctx.add(Finding("violation", "malloc-unrepresentable-request-succeeded",
                                "%s returned a block although the request is invalid or its size computation wraps around (model: refused)" % what,
                                {"tie": "malloc-guards", "case": [k, a, b]}))
            elif not succ and m and nbytes < (1 << 28):
                ok = False
                ctx.add(Finding("violation", "malloc-valid-request-refused", "%s failed although the request is valid and small" % what, {"tie": "malloc-guards", "case": [k, a, b]}))
            elif not succ and cls == 3:
                ok = False
                ctx.add(Finding("violation", "malloc-no-errno", "%s failed without reporting ENOMEM/EINVAL" % what, {"tie": "malloc-guards", "case": [k, a, b]}))
        if ok:
            ctx.traces_validated += 1
        else:
            bad += 1
    ctx.ties.append({"name": "malloc-guards", "cases": len(cases), "disagreements": bad})


def gen_guards(ctx):
    rng = ctx.rng
    M = 1 << 64
    big = [M - 1, M - 2, M - 63, M - 64, M - 65, M - 104, M - 105, M - 168, M - 169, M - 4096, M - 8192, M - 8193, M - 70000, M - (1 << 20), M - (1 << 32),
           (1 << 63), (1 << 63) - 1, (1 << 63) + 1, (1 << 63) - 104, (1 << 63) - 168, (1 << 63) - 169, (1 << 62), 3 << 62, (1 << 60) * 15, (1 << 60) * 15 + 1, 1 << 40, 1 << 33]
    small = [0, 1, 8, 24, 100, 1024, 8128, 8129, 100000]
    cases = []
    cur = []
    def add(k, a, b):
        a, b = a % M, b % M
        if k == 1 and (1 << 27) < a * b < M:
            return   # a representable but huge calloc would really zero gigabytes: not a guard case
        cur.extend([k, a, b])
        if len(cur) >= 30:
            cases.append(list(cur)); cur.clear()
    for s in big + small:
        add(4, s, 0)
        for e in (3, 6, 12, 20, 32, 33, 62, 63):
            add(3, s, 1 << e)
            add(2, 1 << e, s)
    for old in (100, 9000, 1 << 20, 2 << 20, 9 << 20, 40 << 20):   # realloc of small / large / mremap-able blocks to near-SIZE_MAX sizes
        for new in (M - 1, M - 16, M - 17, M - 100000, M - (1 << 20), M - (2 << 20) - 4096, M - (40 << 20), (1 << 63) + 5, 1 << 62, 50, old // 2, old + 1, 3 * old):
            add(5, old, new)
    for a in (0, 1, 2, 3, 4, 6, 7, 12, 24, 100, (1 << 63) + 1, M - 1, 3 << 62):   # invalid alignments
        add(2, a, 100); add(3, 100, a)
    sq = [0, 1, 2, 3, (1 << 32) - 1, 1 << 32, (1 << 32) + 1, 1 << 33, (1 << 31) + 1, 1 << 63, M - 1, M // 3, M // 3 + 1, M // 5 + 1, 1 << 16, 1 << 48, (1 << 48) + 1]
    for x in sq:
        for y in sq:
            add(1, x, y)
    for _ in range(ctx.scale(200, 5000)):
        add(1, rng.getrandbits(rng.choice([16, 31, 32, 33, 48, 64])), rng.getrandbits(rng.choice([2, 16, 31, 32, 33, 48, 64])))
        add(4, M - rng.getrandbits(rng.choice([4, 8, 14, 20, 33])) - 1, 0)
        add(3, M - rng.getrandbits(rng.choice([4, 8, 14, 20, 62])) - 1, 1 << rng.randrange(0, 64))
    if cur:
        cases.append(list(cur))
    return cases


def pdesc(c):
    ops = []
    for i in range(2, len(c) - 1, 2):
        ops.append({1: "pool_malloc(%d)" % c[i + 1], 2: "pool_free(#%d)" % c[i + 1], 5: "pool_reset",
                    6: "[other thread: 5 x pool_malloc(%d), exits]" % c[i + 1]}.get(c[i], "?"))
    kind = ("fixed (2 MB buffer starting %d bytes above a 1 MB boundary)" % ((c[0] - 2) * 512)) if c[0] >= 2 else ("fixed" if c[0] else "growable")
    return "%s pool, raw allocation #%d refused once: %s" % (kind, c[1], "; ".join(ops))


def pool_oracle(c, toks):
    if not toks or toks[0].startswith("CRASH") or toks[-1] == "HANG":
        return ("pool-crash", pdesc(c) + ": " + " ".join(toks)[-80:])
    def val(k):
        return int(toks[toks.index(k) + 1])
    fixed = c[0] != 0
    if val("CORRUPT"):
        return ("pool-live-block-corrupted", "%s: a live block lost its contents" % pdesc(c))
    if val("OUTSIDE"):
        return ("pool-block-outside-raw-memory", "%s: a block lies outside the memory obtained from the pool's raw allocator" % pdesc(c))
    if val("OVERLAP"):
        return ("pool-overlap", "%s: two live blocks overlap" % pdesc(c))
    if val("IDENT"):
        return ("pool-identify", "%s: pool_identify named the wrong pool" % pdesc(c))
    if val("BADFREE"):
        return ("pool-raw-free-twice-or-unknown", "%s: a raw region was returned twice / with a wrong size" % pdesc(c))
    if fixed and val("RAW") > 1:
        return ("pool-fixed-called-raw-twice", "%s: a fixed pool called the raw allocator %d times" % (pdesc(c), val("RAW")))
    if not fixed and (val("LEFTMINE") != 1 or val("LEFT") != 0):
        return ("pool-raw-region-not-returned", "%s: pool_destroy left %d raw region(s) unreturned" % (pdesc(c), val("LEFTMINE") - 1))
    # a malloc that failed because of the injected refusal must succeed on retry (memory is available again)
    body = toks[toks.index("CREATED") + 2:toks.index("RAW")]
    for i in range(0, len(body) - 1, 2):
        if body[i] == "0" and body[i + 1] == "0" and not fixed:
            return ("pool-stays-broken-after-failure", "%s: allocation still fails after the raw allocator recovered" % pdesc(c))
    return None


def run(ctx):
    exe = c17.build(ctx)
    if not exe:
        return
    ctx.rules.append("guards: sizes/alignments near SIZE_MAX, 2^63, header+alignment wrap points, invalid alignments, nobj*size products around 2^64; "
                     "implementation success/refusal compared with the proved guard model")
    guards_compare(ctx, exe, gen_guards(ctx))
    # --- fault enumeration over the raw-allocation trace of pool workloads
    rng = ctx.rng
    cases = []
    for w in range(ctx.scale(25, 400)):
        ops = []
        nal = 0
        for _ in range(rng.randint(2, 14)):
            r = rng.random()
            if r < 0.7 or nal == 0:
                ops += [1, rng.choice([8, 100, 5000, 8128, 8129, 60000, 1 << 20, 3 << 20, 9 << 20])]; nal += 1
            elif r < 0.88:
                ops += [2, rng.randrange(nal)]
            elif r < 0.94:
                ops += [6, rng.choice([8, 64, 100, 1024, 5000])]
            else:
                ops += [5, 0]
        fixed = 1 if rng.random() < 0.25 else 0
        if fixed:
            ops = [x if i % 2 == 0 or x < (1 << 20) else 60000 for i, x in enumerate(ops)]
        cases.append([fixed, -1] + ops)
        for k in range(0, 8):
            cases.append([fixed, k] + ops)
    # directed: slabs orphaned by a finished thread, pool_reset, reuse of the same size class, one refused raw request
    for sz in (8, 64, 1024, 5000):
        for sz2 in (sz, 100, 8128, 60000):
            base = [6, sz, 5, 0] + [1, sz] * 6 + [1, sz2] * 4 + [1, 3 << 20] + [1, sz] * 40
            for k in (-1, 1, 2, 3, 4):
                cases.append([0, k] + base)
    # directed: a FIXED pool over a 2 MB buffer that starts 0..16 KB above a 16 KB boundary is filled to exhaustion with large (39 KB / 8.1 KB) and small objects,
    # holes are punched into the middle, then small objects (each size class needs a fresh 16 KB slab cut out of an unaligned hole) are requested
    for w in range(ctx.scale(30, 400)):
        off = rng.choice([0, 1, 2, 4, 5, 8, 12, 13, 16, 24, 31])            # x 512 bytes
        big = rng.choice([39000, 40000, 39936, 33000, 50000])
        ops = []
        nal = 0
        for i in range(rng.randint(50, 70)):
            ops += [1, big if i % 3 else rng.choice([8129, 8200, 9000])]; nal += 1
        holes = sorted(rng.sample(range(5, nal - 5), rng.randint(1, 4)))
        for h in holes:
            ops += [2, h]
        for _ in range(rng.randint(1, 6)):
            ops += [1, rng.choice([256, 64, 1000, 24, 4000, 8000])]; nal += 1
        if rng.random() < 0.5:
            ops += [2, holes[0] + 1, 1, big, 1, 100]
        cases.append([2 + off, -1] + ops)
    ctx.rules.append("pool fault enumeration: random pool workloads (growable and fixed, with pool_reset), every index k=0..7 of the raw-allocation trace refused once, "
                     "a second pool alive; fixed pools over a misaligned 2 MB buffer filled to exhaustion, holes punched, small objects requested; predicate = live blocks intact, blocks inside own raw memory, pool_identify, every raw region returned exactly once, fixed pool single raw call, recovery after failure")
    oracle_tie(ctx, "pool-faults", exe, ["pool"], cases, pool_oracle, describe=pdesc, bucket=lambda c: "pool fixed=%d failk=%d" % (c[0], c[1]), timeout=300)
    # --- C++ allocator entry points: tbb::cache_aligned_resource padding arithmetic (tie to MallocModel.car_request) and std::bad_alloc on unrepresentable requests
    tlib, err = ctx.build_lib("tbb")
    mlib, err2 = ctx.build_lib("tbbmalloc")
    cexe, err3 = ctx.build_driver("drv_cppalloc", libs=[tlib, mlib], opt="-O1") if not (err or err2) else (None, err or err2)
    if err3 or not cexe:
        ctx.broken("drv_cppalloc build", str(err3))
    else:
        M = 1 << 64
        pairs = []
        for b in [0, 1, 7, 8, 9, 100, 4096, 1 << 20, (1 << 20) - 200] + [M - d for d in (1, 2, 8, 9, 10, 63, 64, 65, 120, 127, 128, 129, 136, 137, 200, 255, 256, 257, 4096, 4097, 5000, 1 << 20)] + [1 << 63, (1 << 63) + 5, M // 2 - 1]:
            for a in (1, 8, 64, 128, 256, 4096):
                pairs.append((b, a))
        for _ in range(ctx.scale(100, 3000)):
            pairs.append((M - rng.getrandbits(rng.choice([3, 7, 8, 9, 13])) - 1, 1 << rng.randrange(0, 13)))
        case = [1, 1] + [x for p_ in pairs for x in p_]
        rc, clines, err = ctx.run_driver(cexe, ["car"], [case], timeout=120)
        toks = (clines or [""])[0].split()
        ctx.rules.append("car: tbb::cache_aligned_resource::allocate(bytes, alignment) over a probing upstream resource, bytes within 1..2^20 of SIZE_MAX and small, alignments 1..4096: the request "
                         "forwarded upstream (or the refusal before it) compared with MallocModel.car_request; a pointer is handed out only if the upstream block holds payload, slack and header")
        ctx.count(("car",), True, "car")
        nums = [t for t in toks if t.lstrip("-").isdigit()]
        cbad = 0
        if "SHORT" in toks or "NULL-WITHOUT-EXCEPTION" in toks or "MISALIGNED" in toks or "OTHER-EXCEPTION" in toks or rc != 0:
            # find the first offending pair for the report
            idx = 0; first = None
            for t in toks:
                if t.lstrip("-").isdigit():
                    idx += 1
                elif first is None:
                    first = (idx - 1, t)
            b, a = ([(1, 1)] + pairs)[first[0]] if first and 0 <= first[0] <= len(pairs) else (None, None)
            cbad += 1
            ctx.add(Finding("violation", "car-overflow-hands-out-short-block", "tbb::cache_aligned_resource(upstream).allocate(bytes=%s, alignment=%s): %s — bytes + padding is not representable in size_t, the wrapped sum is "
                            "requested from the upstream resource and a pointer into that tiny block (header word written in front of it) is returned instead of std::bad_alloc (rc=%s)" % (b, a, first[1] if first else "crash", rc),
                            {"tie": "car", "case": [1, 1, b, a] if b is not None else case[:40]}))
        elif nums:
            cls = int(nums[0]) - 8
            mo = ctx.modelrun("car", [[cls] + case])[0]
            if [int(x) for x in nums] != mo:
                k = next(i for i, (x, y) in enumerate(zip([int(x) for x in nums], mo)) if x != y)
                b, a = ([(1, 1)] + pairs)[k]
                cbad += 1
                ctx.add(Finding("broken", "broken:tie:car", "cache_aligned_resource.allocate(bytes=%d, alignment=%d): upstream request %s, model %s" % (b, a, nums[k], mo[k]), {"tie": "car", "case": [1, 1, b, a]}))
            else:
                ctx.traces_validated += len(mo)
        ctx.ties.append({"name": "car (cache_aligned_resource padding arithmetic)", "cases": len(pairs) + 1, "disagreements": cbad})
        hn = [100, 1 << 20, M - 1, M - 8, M - 100, M - 129, M - 5000, 1 << 63, 1 << 62, 1 << 48, M - 64, M - 65, M - 127, M - 128] + [M - rng.getrandbits(rng.choice([4, 8, 12, 20])) - 1 for _ in range(ctx.scale(20, 300))]
        rc, hlines, err = ctx.run_driver(cexe, ["huge"], [hn], timeout=120)
        ht = (hlines or [""])[0].split()
        ctx.rules.append("cpp-huge: cache_aligned_allocator<char>, tbb_allocator<char>, scalable_allocator<char>, scalable_memory_resource, cache_aligned_resource(scalable) asked for n bytes, n up to SIZE_MAX: "
                         "std::bad_alloc for every n >= 2^48 (never a pointer), a usable block for small n")
        names = ["cache_aligned_allocator<char>", "tbb_allocator<char>", "scalable_allocator<char>", "scalable_memory_resource()", "cache_aligned_resource(scalable_memory_resource())"]
        hbad = 0
        if rc != 0 or len(ht) != 5 * len(hn):
            hbad += 1
            ctx.add(Finding("violation", "cpp-alloc-crash", "C++ allocator entry points with sizes near SIZE_MAX: crash / hang (rc=%s, %s)" % (rc, " ".join(ht)[-80:]), {"tie": "cpp-huge", "case": hn}))
        else:
            for i, n_ in enumerate(hn):
                for w in range(5):
                    r_ = ht[5 * i + w]
                    ctx.count(("cpp-huge", n_, w), True, "cpp-huge")
                    want = "1" if n_ <= (1 << 30) else "2"
                    if r_ != want and hbad < 3:
                        hbad += 1
                        ctx.add(Finding("violation", "cpp-alloc-no-bad-alloc", "%s.allocate(%d bytes): %s" % (names[w], n_, {"1": "returned a block although the size (plus padding/header) is not representable / cannot be satisfied",
                                        "4": "returned a block for a size that cannot be satisfied", "3": "threw something else than std::bad_alloc", "2": "threw std::bad_alloc for a small request"}.get(r_, r_)),
                                        {"tie": "cpp-huge", "case": [n_]}))
        ctx.ties.append({"name": "cpp-huge (oracle only)", "cases": 5 * len(hn), "disagreements": hbad})
    # --- real threads: foreign frees, thread exit with live blocks
    bad = 0
    nmt = ctx.scale(6, 80)
    for r in range(nmt):
        rc, lines, err = ctx.run_driver(exe, ["mt", 2 + r % 4, ctx.seed * 1000 + r, 3000], timeout=300)
        ctx.count(("malloc-mt", r), True, "malloc-mt")
        if rc != 0 or not lines or lines[-1].split()[1::2] != ["0", "0", "0"]:
            bad += 1
            ctx.add(Finding("violation", "malloc-mt", "cross-thread malloc/free run (threads=%d seed=%d): %s rc=%s" % (2 + r % 4, ctx.seed * 1000 + r, (lines or ["no output"])[-1], rc),
                            {"tie": "malloc-mt", "args": ["mt", 2 + r % 4, ctx.seed * 1000 + r, 3000]}))
            break
    ctx.ties.append({"name": "malloc-mt (oracle only)", "cases": nmt, "disagreements": bad})


def replay(ctx, rep):
    exe = c17.build(ctx)
    if rep.get("tie") in ("car", "cpp-huge"):
        tlib, err = ctx.build_lib("tbb"); mlib, err2 = ctx.build_lib("tbbmalloc")
        cexe, err3 = ctx.build_driver("drv_cppalloc", libs=[tlib, mlib], opt="-O1")
        rc, lines, err = ctx.run_driver(cexe, ["car" if rep["tie"] == "car" else "huge"], [rep["case"]], timeout=60)
        print(rc, lines)
        bad = (rep["tie"] == "car" and any(w in (lines or [""])[0] for w in ("SHORT", "NULL", "MISALIGNED"))) or rc != 0 or \
              (rep["tie"] == "cpp-huge" and any(t != ("1" if rep["case"][0] <= (1 << 30) else "2") for t in (lines or [""])[0].split()))
        if bad:
            ctx.add(Finding("violation", "car-overflow-hands-out-short-block" if rep["tie"] == "car" else "cpp-alloc-no-bad-alloc", "replay %s: %s" % (rep["case"][:8], (lines or ["crash"])[0][:200]), {"tie": rep["tie"], "case": rep["case"]}))
        return
    if rep.get("tie") == "pool-faults":
        oracle_tie(ctx, "pool-faults", exe, ["pool"], [rep["case"]], pool_oracle, describe=pdesc)
    elif rep.get("tie") == "malloc-guards":
        guards_compare(ctx, exe, [rep["case"]])
