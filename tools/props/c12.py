"""C12 — concurrent_unordered_* (split-ordered list) and concurrent_set/map (skip list)."""
import os
import vlib
from vlib import diff_tie, oracle_tie, Finding
from props.common import BASE_TRUSTED

PROP_FILES = ["Properties_C12"]
TRUSTED = BASE_TRUSTED + [
    "modelled: the split-ordered list as a sequential object (order keys by 64-bit reversal, dummy/value nodes, lazy recursive bucket initialisation, load-factor doubling, "
    "insert / find for unique and multi containers) with hash(k) = k",
    "modelled, not verified: the lock-free insertion protocol (try_insert CAS, retry) and the whole skip list — explored on the real containers under the deterministic atomic-access gate "
    "and with real threads (one-winner / find-after-insert / traversal oracles); the skip list's level structure is checked by a white-box oracle after sequential inserts",
]
PRELUDE = os.path.join(vlib.VERIF, "harness", "prelude", "verif_atomic.h")
KINDS = {0: "concurrent_unordered_set", 1: "concurrent_unordered_multiset", 2: "concurrent_set", 3: "concurrent_multiset"}


def sdescribe(c):
    ops = [("insert(%d)" % c[i + 1] if c[i] == 1 else "find(%d)" % c[i + 1] if c[i] == 3 else "dump") for i in range(2, len(c), 2)]
    return "%s(%d buckets), %d ops: %s%s" % (KINDS[c[0]], c[1], len(ops), ", ".join(ops[:12]), " ..." if len(ops) > 12 else "")


def seq_oracle(c, toks):
    if not toks or toks[0].startswith("CRASH") or toks[-1] == "HANG":
        return ("assoc-crash", sdescribe(c))
    multi = c[0] == 1
    ref = {}
    pos = 0
    for i in range(2, len(c), 2):
        op, k = c[i], c[i + 1]
        if op == 9:
            bc, size, n = int(toks[pos]), int(toks[pos + 1]), int(toks[pos + 2])
            pos += 3
            nodes = [(int(toks[pos + 2 * j]), int(toks[pos + 2 * j + 1])) for j in range(n)]
            pos += 2 * n
            vals = sorted(k for o, k in nodes if k >= 0)
            want = sorted(k for k, cnt in ref.items() for _ in range(cnt))
            if vals != want or size != len(want):
                return ("assoc-lost-or-duplicated", "%s: after op %d the list holds %s (size %d), expected %s" % (sdescribe(c), (i - 2) // 2, vals[:20], size, want[:20]))
            if any(nodes[j][0] > nodes[j + 1][0] for j in range(n - 1)):
                return ("assoc-order", "%s: the list is not sorted by order key after op %d" % (sdescribe(c), (i - 2) // 2))
            continue
        r = int(toks[pos]); pos += 1
        if op == 1:
            want = 1 if (multi or k not in ref) else 0
            if want:
                ref[k] = ref.get(k, 0) + 1
        else:
            want = 1 if k in ref else 0
        if r != want:
            return ("assoc-wrong-result", "%s: op %d (%s %d) returned %d, expected %d" % (sdescribe(c), (i - 2) // 2, "insert" if op == 1 else "find", k, r, want))
    return None


def gen_seq(ctx, n):
    rng = ctx.rng
    cases = []
    for _ in range(n):
        multi = rng.choice([0, 0, 1])
        bc = rng.choice([1, 2, 8, 8, 8, 64, 1024])
        nops = rng.choice([5, 30, 100, 400, 1500])
        space = rng.choice([4, 40, 500, 5000, 1 << 30, 1 << 62])
        stride = rng.choice([1, 1, 8, 64, 1 << 20])
        c = [multi, bc]
        for i in range(nops):
            k = (rng.randrange(space) * stride) % (1 << 63)
            c += [rng.choice([1, 1, 1, 3]), k]
            if rng.random() < 0.01:
                c += [9, 0]
        c += [9, 0]
        cases.append(c)
    return cases


def skip_oracle(c, toks):
    if toks[:1] != ["OK"]:
        return ("skiplist-structure", "%s after %d sequential inserts: %s (level-0 chain sorted/unique/complete, level i = nodes higher than i in order, nothing above max height)" % (
            KINDS[2 + c[0]], len(c) - 1, " ".join(toks)[:80]))
    return None


# ---------------- gate ----------------
def gparse(c, toks):
    i = toks.index("FIN")
    v = [int(x) for x in toks[:i]]
    ops = []
    p = 0
    while p < len(v):
        tid, op, arg, res, inv, resp, ns = v[p:p + 7]
        seen = v[p + 7:p + 7 + ns]
        ops.append((tid, op, arg, res, inv, resp, seen))
        p += 7 + ns
    l = toks.index("LEFT"); s = toks.index("SIZE")
    left = [int(x) for x in toks[l + 1:s]]
    return ops, left, int(toks[s + 1])


def gdescribe(c):
    kind, bc, npre = c[0], c[1], c[2]
    pre = c[3:3 + npre]
    n = c[3 + npre]
    p = 4 + npre
    parts = []
    for t in range(n):
        ln = c[p]
        ops = c[p + 1:p + 1 + 2 * ln]
        parts.append("T%d: %s" % (t, ",".join("insert(%d)" % ops[i + 1] if ops[i] == 1 else "count(%d)" % ops[i + 1] if ops[i] == 3 else "traverse" for i in range(0, len(ops), 2))))
        p += 1 + 2 * ln
    return "%s(%d buckets%s): " % (KINDS[kind], bc, (", %d keys pre-inserted" % npre) if npre else "") + " || ".join(parts) + "  schedule=" + "".join(map(str, c[p + 1:p + 1 + 100]))


def gate_oracle(c, toks):
    if not toks or toks[0].startswith("CRASH"):
        return ("assoc-crash", gdescribe(c) + " " + " ".join(toks)[:80])
    if toks[-1] == "HANG":
        return ("assoc-no-progress", "%s: operations never finish under round-robin completion" % gdescribe(c))
    kind = c[0]
    multi = kind in (1, 3)
    ordered = kind in (2, 3)
    ops, left, size = gparse(c, toks)
    d = gdescribe(c)
    pre = c[3:3 + c[2]]
    succ = {}
    for k in pre:
        succ.setdefault(k, []).append((-1, 1, k, 1, -2, -1, []))      # pre-inserted: a successful insert that completed before everything
    for o in ops:
        if o[1] == 1 and o[3] == 1:
            succ.setdefault(o[2], []).append(o)
    want = sorted(k for k, l in succ.items() for _ in l)
    if sorted(left) != want:
        return ("assoc-contents", "%s: final contents %s are not the union of the successful inserts %s" % (d, sorted(left), want))
    if size != len(left):
        return ("assoc-size", "%s: size() %d != %d elements" % (d, size, len(left)))
    if ordered and left != sorted(left):
        return ("assoc-order", "%s: iteration order %s is not the comparator order" % (d, left))
    for o in ops:
        tid, op, k, res, inv, resp, seen = o
        started = lambda kk: sum(1 for s in succ.get(kk, []) if s[4] < resp)       # successful inserts that began before this op ended
        done = lambda kk: sum(1 for s in succ.get(kk, []) if s[5] < inv)           # ... that had returned before this op began
        if op == 1:
            if not multi and len(succ.get(k, [])) > 1:
                return ("assoc-two-winners", "%s: two inserts of %d both reported success" % (d, k))
            if res == 0 and (multi or started(k) == 0):
                return ("assoc-insert-failed-on-absent-key", "%s: T%d insert(%d) failed although no successful insert of it had started" % (d, tid, k))
        elif op == 3:
            # concurrent_multiset::count is distance(lower_bound, upper_bound) with the two bounds found by separate searches: an
            # element with a LARGER key inserted in between is walked over as well, so count may exceed the number of equal keys
            # while other keys are being inserted.  The property promises that count is safe and that completed inserts are
            # found, not that count is exact under concurrent inserts of other keys: no upper bound for the ordered multi container.
            # concurrent_unordered_multiset::count is std::distance over an equal_range whose end was fixed earlier (possibly end()):
            # nodes of other keys linked in behind the range in the meantime are counted too — same reasoning, no upper bound
            # for any multi container (found by the thorough tier on the unchanged tree; corrected, see DESIGN.md section 7).
            hi = started(k) if not multi else 10 ** 9
            if not (done(k) <= res <= hi):
                return ("assoc-count", "%s: T%d count(%d) = %d, but %d insert(s) had completed before it began and %d had started before it ended" % (d, tid, k, res, done(k), started(k)))
        else:
            for kk in set(seen) | set(succ):
                cnt = seen.count(kk)
                if not (done(kk) <= cnt <= started(kk)):
                    return ("assoc-traversal", "%s: T%d's traversal saw key %d %d time(s); %d insert(s) of it had completed before the traversal began, %d had started before it ended" % (
                        d, tid, kk, cnt, done(kk), started(kk)))
            if ordered and seen != sorted(seen):
                return ("assoc-order", "%s: T%d's traversal %s is not in comparator order" % (d, tid, seen))
    return None


def gen_gate(ctx, n):
    rng = ctx.rng
    cases = []
    for _ in range(n):
        kind = rng.choice([0, 0, 1, 2, 2, 3])
        bc = rng.choice([1, 2, 8])
        T = rng.randint(2, 3)
        keys = rng.choice([[1, 2], [1, 9, 17], [3, 3 + 8, 3 + 16, 4], [0, 1, 2, 3, 4, 5, 6, 7, 8, 9, 10]])
        longb = rng.random() < 0.3
        if kind in (0, 1) and rng.random() < 0.35:
            # doubling + equal split-order keys: the table (8 buckets) holds 32 keys, the next insert doubles it; the keys 9 and
            # 9 + 2^63 share one split-order key (bit 63 is dropped) and the new bucket 9 is initialised during the run
            bc = 8
            TWIN = 9 - (1 << 63)
            pre = [100 + 16 * j + r for j in range(8) for r in (0, 2, 3, 4)]
            keys = [9, 9, TWIN, 7000 + rng.randrange(50) * 16, 25]
            if rng.random() < 0.6:
                # lookups of keys that are ALREADY there, in buckets whose child bucket (b + 8) gets initialised while the lookup runs:
                # 104 + 16j lies in bucket 0 of 8 and in bucket 8 of 16; 25 / 7000.. make the table double and touch new buckets
                keys = [104 + 16 * rng.randrange(8), 104 + 16 * rng.randrange(8), 100 + 16 * rng.randrange(8), 8 + 16 * rng.randrange(1, 40), 7000 + rng.randrange(50) * 16, 24]
            c = [kind, bc, len(pre)] + pre + [T]
            longb = True
        else:
            c = [kind, bc, 0, T]
        for t in range(T):
            ln = rng.randint(1, 5 if T == 2 else 4)
            ops = []
            for _ in range(ln):
                o = rng.choice([1, 1, 1, 3, 4])
                ops += [o, rng.choice(keys) if o != 4 else 0]
            c += [ln] + ops
        c.append(-1)
        sched = []
        L = rng.randint(40, 600)
        while len(sched) < L:
            sched += [rng.randrange(T)] * (rng.choice([1, 3, 10, 40, 120]) if longb else rng.randint(1, 12))
        cases.append(c + sched)
    # directed "stale reader": a lookup of a key that is already there reads the bucket count, then the table doubles and the key's new
    # bucket (b + 8) gets its dummy node, then the lookup goes on — it must still find the key
    for _ in range(max(40, n // 12)):
        kind = rng.choice([0, 1, 1, 1])
        pre = [100 + 16 * j + r for j in range(8) for r in (0, 2, 3, 4)]
        target = 104 + 16 * rng.randrange(8)
        toucher = rng.choice([8 + 16 * rng.randrange(1, 40), 104 + 16 * rng.randrange(8)])
        t0 = [3, target] * rng.randint(1, 2)
        t1 = [1, 7001 + 16 * rng.randrange(50)] + [rng.choice([1, 3]), toucher] + ([1, 25] if rng.random() < 0.5 else [])
        c = [kind, 8, len(pre)] + pre + [2, len(t0) // 2] + t0 + [len(t1) // 2] + t1 + [-1]
        sched = [0] * rng.randint(1, 14) + [1] * rng.choice([40, 120, 300, 600]) + [0] * 50 + [1] * 600
        cases.append(c + sched)
    return cases


# ---------------------------------------------------------------------------------------------------------------------------------
# skip-gate: step-level tie of the real concurrent_skip_list (unique keys, scripted node heights) with SkipModel
def gen_skipgate(ctx, n):
    rng = ctx.rng
    cases = []
    for i in range(n):
        space = rng.choice([4, 8, 30])
        def hgt():
            r = rng.random()
            return 1 if r < 0.45 else 2 if r < 0.7 else 3 if r < 0.85 else rng.choice([4, 5, 6, 12, 31, 32])
        nodes = [(0, 32)]
        prekeys = rng.sample(range(0, space * 10, 10), rng.randint(0, min(space, 7)))
        pre = []
        for k in prekeys:
            pre.append(len(nodes)); nodes.append((k, hgt()))
        T = rng.choice([2, 2, 3])
        hot = rng.randrange(0, space * 10, 10) + rng.choice([0, 5])
        threads = []
        for t in range(T):
            ops = []
            for _ in range(rng.randint(1, 3)):
                k = hot if rng.random() < 0.5 else rng.randrange(0, space * 10, 5)
                if rng.random() < 0.72:
                    ops += [1, k, len(nodes)]; nodes.append((k, hgt()))
                else:
                    ops += [2, k, 0]
            threads.append(ops)
        sched = []
        style = rng.random()
        while len(sched) < 400:
            t = rng.randrange(T)
            sched += [t] * (1 if style < 0.4 else rng.choice([1, 1, 2, 3, 8, 20]))
        c = [len(nodes)] + [x for kh in nodes for x in kh] + [len(pre)] + pre + [T]
        for ops in threads:
            c += [len(ops) // 3] + ops
        cases.append(c + [-1] + sched)
    return cases


def skip_parse_case(c):
    nn = c[0]; nodes = [(c[1 + 2 * i], c[2 + 2 * i]) for i in range(nn)]
    p = 1 + 2 * nn
    npre = c[p]; pre = c[p + 1:p + 1 + npre]; p += 1 + npre
    T = c[p]; p += 1
    threads = []
    for t in range(T):
        n = c[p]; p += 1
        threads.append([tuple(c[p + 3 * j:p + 3 * j + 3]) for j in range(n)]); p += 3 * n
    return nodes, pre, threads, p       # c[p] == -1


def skip_desc(c):
    nodes, pre, threads, p = skip_parse_case(c)
    return "concurrent_skip_list<long> (unique keys; node heights scripted), pre-inserted %s, threads %s, schedule %s..." % (
        [(nodes[i][0], "h=%d" % nodes[i][1]) for i in pre],
        [[("insert" if o == 1 else "find", k) + (("h=%d" % nodes[x][1],) if o == 1 else ()) for (o, k, x) in th] for th in threads], c[p + 1:p + 40])


def skip_split(toks):
    """-> events (list of 6-tuples), quiescent, maxh, per-thread results, chains {lev: ids}"""
    i = toks.index(-7)
    ev = [tuple(toks[j:j + 6]) for j in range(0, i, 6)]
    quiescent, maxh = toks[i + 1], toks[i + 2]
    rest = toks[i + 3:]
    res, chains = [], {}
    cur = None
    for x in rest:
        if x == -8:
            cur = []; res.append(cur)
        elif x == -9:
            cur = []; chains[len(chains)] = cur
        else:
            cur.append(x)
    chains = {ch[0]: ch[1:] for ch in chains.values()}
    return ev, quiescent, maxh, res, chains


def skipgate_oracle(c, toks):
    """the property on the implementation's own output"""
    nodes, pre, threads, p = skip_parse_case(c)
    ev, quiescent, maxh, res, chains = skip_split(toks)
    l0 = chains.get(0, [])
    keys0 = [nodes[i][0] if 0 <= i < len(nodes) else None for i in l0]
    if any(k is None for k in keys0) or any(keys0[i] >= keys0[i + 1] for i in range(len(keys0) - 1)):
        return ("skip-list-order-or-duplicate", "level-0 chain holds keys %s (not strictly increasing: unsorted, or two equivalent keys in a unique container)" % keys0)
    prekeys = set(nodes[i][0] for i in pre)
    succ = {}
    tried = set()
    for th in res:
        for j in range(0, len(th), 3):
            if th[j] == 1:
                tried.add(th[j + 1]); succ[th[j + 1]] = succ.get(th[j + 1], 0) + th[j + 2]
    for k in tried:
        want = 0 if k in prekeys else 1
        if succ.get(k, 0) != want:
            return ("skip-list-winners", "key %d: %d inserts reported success (expected %d)" % (k, succ.get(k, 0), want))
    if set(keys0) != prekeys | tried:
        return ("skip-list-contents", "final keys %s != pre-inserted + inserted %s" % (keys0, sorted(prekeys | tried)))
    for lev, ch in chains.items():
        want = [i for i in l0 if nodes[i][1] > lev]
        if ch != want:
            return ("skip-list-level-chain", "level %d chain = nodes %s, expected the nodes higher than %d in level-0 order: %s" % (lev, ch, lev, want))
    # finds: a find that started after the key's insertion completed (or of a pre-inserted key) must succeed; a find of a never-inserted key must fail
    for th in res:
        for j in range(0, len(th), 3):
            if th[j] == 2:
                k, r = th[j + 1], th[j + 2]
                if k in prekeys and r != 1:
                    return ("skip-list-find-misses", "find(%d) of a pre-inserted key failed" % k)
                if k not in prekeys and k not in tried and r != 0:
                    return ("skip-list-find-phantom", "find(%d) succeeded for a key nobody inserted" % k)
    return None


def run_skipgate(ctx, exe, cases, replaying=False):
    rc, lines, err = ctx.run_driver(exe, ["skipgate"], cases, timeout=900)
    inputs, metas = [], []
    nbad = 0
    for c, ln in zip(cases, lines):
        toks = ln.split()
        if not toks or toks[-1] == "HANG" or toks[0].startswith("CRASH"):
            nbad += 1
            ctx.add(Finding("violation", "skip-list-hang", skip_desc(c) + ": an operation never returns", {"tie": "skip-gate", "case": c}))
            continue
        toks = [int(t) for t in toks]
        nodes, pre, threads, p = skip_parse_case(c)
        ev = skip_split(toks)[0]
        inputs.append(c[:p + 1] + [e[0] for e in ev])
        metas.append((c, toks))
    if len(lines) < len(cases):
        nbad += 1
        ctx.add(Finding("violation", "skip-list-crash", skip_desc(cases[len(lines)]) + ": the driver died (rc=%s)" % rc, {"tie": "skip-gate", "case": cases[len(lines)]}))
    for (c, toks), m in zip(metas, ctx.modelrun("skip", inputs)):
        nodes, pre, threads, p = skip_parse_case(c)
        ctx.count(("skip-gate", tuple(c)), True, "skip-gate T=%d pre=%d" % (len(threads), len(pre)))
        v = skipgate_oracle(c, toks)
        if v:
            nbad += 1
            ctx.add(Finding("violation", v[0], "%s: %s" % (skip_desc(c), v[1]), {"tie": "skip-gate", "case": c}))
        elif m != toks:
            nbad += 1
            k = next((i for i in range(min(len(m), len(toks))) if m[i] != toks[i]), min(len(m), len(toks)))
            if nbad <= 3:
                ctx.add(Finding("broken", "broken:tie:skip-gate", "%s: the access sequence / results / final chains of the implementation differ from SkipModel at token %d (access #%d): implementation ...%s, model ...%s" % (
                    skip_desc(c), k, k // 6, toks[max(0, k - 12):k + 7], m[max(0, k - 12):k + 7]), {"tie": "skip-gate", "case": c}))
        else:
            ctx.traces_validated += 1
    ctx.ties.append({"name": "skip-gate (every access to my_max_height / next(level) of the real skip list, in execution order, equals SkipModel's step sequence; results and final chains equal)",
                     "cases": len(cases), "disagreements": nbad})


def run(ctx):
    lib, err = ctx.build_lib("tbb")
    if err:
        return ctx.broken("libtbb build", err)
    exe, err = ctx.build_driver("drv_assoc", libs=[lib], extra=["-include", PRELUDE])
    if err:
        return ctx.broken("drv_assoc build (concurrent associative containers under the atomic prelude)", err)
    ctx.rules.append("sol-seq: 5-1500 sequential insert/find on the real concurrent_unordered_set / multiset with hash(k)=k (1-1024 initial buckets, key spaces 4..2^62, strides up to 2^20, "
                     "several doublings); results and white-box dumps of the whole split-ordered list (order keys, dummy nodes) compared with SolModel")
    diff_tie(ctx, "sol-seq", exe, ["seq"], "sol", gen_seq(ctx, ctx.scale(150, 2500)), oracle=seq_oracle, describe=sdescribe,
             bucket=lambda c: "sol %s bc=%d" % ("multi" if c[0] else "unique", c[1]))
    rng = ctx.rng
    sk = []
    for _ in range(ctx.scale(60, 1000)):
        multi = rng.choice([0, 1])
        n = rng.choice([0, 1, 2, 10, 100, 1000])
        space = rng.choice([3, 50, 10 ** 6])
        sk.append([multi] + [rng.randrange(space) for _ in range(n)])
    ctx.rules.append("skip-structure (oracle only): after sequential inserts the real skip list's level-0 chain is sorted/unique/complete and every level-i chain is exactly the nodes higher than i")
    oracle_tie(ctx, "skip-structure", exe, ["skip"], sk, skip_oracle, bucket=lambda c: "skip multi=%d" % c[0], describe=lambda c: "%d inserts" % (len(c) - 1))
    ctx.rules.append("skip-gate: the real concurrent_skip_list (unique keys) with scripted node heights and numbered nodes, 2-3 logical threads x 1-3 insert/find over 0-7 pre-inserted nodes, "
                     "seeded interleavings of every atomic access: the sequence of accesses to my_max_height and to every next(level) pointer (kind, observed value, written value, CAS outcome), "
                     "the results and the final chain of every level equal SkipModel's run under the same order of threads")
    run_skipgate(ctx, exe, gen_skipgate(ctx, ctx.scale(400, 12000)))
    # multiset: index numbers decide the order of equivalent keys on every level; directed: the level-0 predecessor chain is 65 534 / 70 000 nodes long when two equal keys race
    mcases = []
    for N in ([65534] if ctx.quick() else [65534, 65533, 65535, 70000, 131070]):
        for a in range(2, ctx.scale(60, 90), ctx.scale(3, 1)):
            mcases.append([-N, 2, 10 ** 9, 2, 10 ** 9, 2, 0, 2, 1, 1, 10 ** 9, N + 1, 1, 1, 10 ** 9, N + 2, -1] + [0] * a + [1] * 300 + [0] * 300)

    def multi_oracle(c, toks):
        sched = c[c.index(-1, 1) + 1:]
        a = next((i for i, x in enumerate(sched) if x != 0), len(sched))
        d0 = "concurrent_skip_list<long> as a MULTISET: %d ascending keys pre-inserted (the last node's index number is %d), then two threads insert the same key with nodes of height 2; thread 0 runs %d accesses, then thread 1 completes, then thread 0" % (
            -c[0], -c[0], a)
        if not toks or toks[-1] == "HANG" or toks[0].startswith("CRASH") or "-10" not in toks:
            return ("skip-multiset-hang-or-crash", d0 + ": " + " ".join(toks[-6:]))
        k = toks.index("-10")
        levelbad, sortbad, count = int(toks[k + 1]), int(toks[k + 2]), int(toks[k + 3])
        if levelbad or sortbad or count != -c[0] + 2:
            return ("skip-multiset-level-order", "%s: %d level chain(s) are not the level-0 order restricted to the nodes of that height (equivalent keys in different order on different levels), %d unsorted pairs, %d elements (expected %d)" % (
                d0, levelbad, sortbad, count, -c[0] + 2))
        return None
    ctx.rules.append("skip-multiset (oracle only): the real skip list as a multiset, 65 534+ ascending keys pre-inserted so that index numbers pass 2^16, two equal keys of height 2 inserted concurrently under the gate with the "
                     "second thread completing inside every window of the first: every level's chain is the level-0 order restricted to the nodes of that height")
    oracle_tie(ctx, "skip-multiset", exe, ["skipgatem"], mcases, multi_oracle, bucket=lambda c: "skip-multiset N=%d" % -c[0], timeout=1200)
    ctx.rules.append("assoc-gate (oracle only): 2-3 logical threads x 1-5 insert/count/traverse on the four real containers under seeded interleavings of every atomic access; "
                     "oracle = one winner per key, contents = union of successful inserts, count/traversal bounded by completed-before and started-before inserts, ordered iteration")
    oracle_tie(ctx, "assoc-gate", exe, ["gate"], gen_gate(ctx, ctx.scale(1500, 40000)), gate_oracle, describe=gdescribe,
               bucket=lambda c: "gate %s" % KINDS[c[0]], timeout=900)
    bad = 0
    n = ctx.scale(8, 120)
    for r in range(n):
        kind = r % 4
        T = 2 + r % 7
        args = ["mt", kind, T, ctx.seed * 1000 + r, 5000, [3, 40, 600, 5000][(r // 4) % 4]]
        rc, lines, err = ctx.run_driver(exe, args, timeout=300)
        ctx.count(("assoc-mt", r), True, "assoc-mt %s" % KINDS[kind])
        t = (lines or ["no output"])[-1].split()
        if rc != 0 or len(t) < 12 or any(x != "0" for x in t[1::2]):
            bad += 1
            ctx.add(Finding("violation", "assoc-mt", "%s, %d real threads, seed %d, %d keys: %s rc=%s" % (KINDS[kind], T, args[3], args[5], " ".join(t), rc), {"tie": "assoc-mt", "args": args}))
            break
    ctx.ties.append({"name": "assoc-mt (oracle only)", "cases": n, "disagreements": bad})


def replay(ctx, rep):
    lib, err = ctx.build_lib("tbb")
    exe, err = ctx.build_driver("drv_assoc", libs=[lib], extra=["-include", PRELUDE])
    if rep.get("tie") == "assoc-gate":
        oracle_tie(ctx, "assoc-gate", exe, ["gate"], [rep["case"]], gate_oracle, describe=gdescribe)
    elif rep.get("tie") == "skip-gate":
        run_skipgate(ctx, exe, [rep["case"]], replaying=True)
    elif rep.get("tie") == "sol-seq":
        diff_tie(ctx, "sol-seq", exe, ["seq"], "sol", [rep["case"]], oracle=seq_oracle, describe=sdescribe)
    else:
        print(ctx.run_driver(exe, rep.get("args", []), timeout=300))
    for f in ctx.findings:
        print(f.kind, f.key, f.detail)
