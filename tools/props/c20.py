"""C20 — a suspended task resumes exactly once. See DESIGN.md section 4/C20."""
import vlib
from vlib import oracle_tie, diff_tie, Finding
from props.common import BASE_TRUSTED

PROP_FILES = ["Properties_C20"]
TRUSTED = BASE_TRUSTED + [
    "modelled: the m_stack_state handshake (finilize_resume's exchange(suspended) + self-resume, try_notify_resume's exchange(notified))",
    "modelled, not verified: co_context stack switching, the resume task's trip through the arena's task streams, recall_owner / owner recall in one-slot arenas, "
    "arena lifetime references — exercised by real suspend/resume runs (oracle) only; the model is not tied step by step to the code",
]
KEYS = {"NOTONCE": "a suspended task did not continue exactly once", "TWICE": "a suspended task continued twice", "EARLYWAIT": "task_group::wait returned while a covered task was still suspended",
        "TWOTHREADS": "the code after suspend() ran concurrently with the code before it (two threads on one stack)"}


def pdesc(c):
    return "seed %d, task_arena(%d), %d suspending tasks, resume from %s%s" % (c[0], c[1], c[2], ["callback/foreign thread/task (mixed)", "the suspend callback", "a foreign thread", "another task", "a foreign thread 1-40 ms later (the suspending thread has gone to sleep)", "a foreign thread while another task of the arena waits for the suspended task's group",
                                                                                   "a foreign thread while another task waits for the suspended task's group inside this_task_arena::isolate"][c[3]], ", nested suspensions" if c[4] else "")


def oracle(c, toks):
    if not toks or toks[0].startswith("CRASH") or toks[-1] == "HANG":
        return ("suspend-hang-or-crash", pdesc(c) + ": a suspended task was never resumed / the run crashed (" + " ".join(toks)[-40:] + ")")
    d = {toks[i]: int(toks[i + 1]) for i in range(0, len(toks) - 1, 2)}
    for k, msg in KEYS.items():
        if d.get(k):
            return ("suspend-" + k.lower(), "%s: %s (%d)" % (pdesc(c), msg, d[k]))
    return None


def run(ctx):
    lib, err = ctx.build_lib("tbb")
    if err:
        return ctx.broken("libtbb build", err)
    exe, err = ctx.build_driver("drv_suspend", libs=[lib], opt="-O1")
    if err:
        return ctx.broken("drv_suspend build", err)
    # model: all 2-thread schedules of the handshake agree with the theorem (sanity run of the extracted model)
    scheds = [[0, 1], [1, 0], [1, 0, 0], [0, 0, 1], [1, 1, 0, 0], []]
    out = ctx.modelrun("suspend", scheds)
    for s, o in zip(scheds, out):
        ctx.count(("suspend-model", tuple(s)), True, "model")
        if o[-1] != 1:
            ctx.add(Finding("broken", "broken:suspend-model", "extracted model pushes %d resume tasks for schedule %s" % (o[-1], s), {"case": s}))
    rng = ctx.rng
    cases = [[ctx.seed * 1000 + i, rng.choice([1, 2, 3, 4, 8]), rng.choice([1, 2, 8, 40, 200]), rng.choice([0, 0, 1, 2, 3]), rng.randrange(2)] for i in range(ctx.scale(120, 4000))]
    ctx.rules.append("suspend: arenas of 1-8 threads (1 = owner recall), 1-200 tasks each suspending once or twice (nested), resumed from the callback itself, from a foreign thread after a "
                     "seeded 0-20k-iteration delay (races with the stack switch), or from another task; predicate = exactly one continuation, never two threads on the stack, wait covers suspended tasks, no hang")
    oracle_tie(ctx, "suspend", exe, [], cases, oracle, describe=pdesc, bucket=lambda c: "suspend P=%d mode=%d" % (c[1], c[3]), timeout=900)
    late = [[ctx.seed * 1000 + 500000 + i, P, n, 4, nest] for i, (P, n, nest) in enumerate(
        [(1, 1, 0), (1, 2, 0), (1, 1, 1), (1, 3, 1), (2, 1, 0), (2, 3, 1), (4, 2, 0), (1, 8, 0)] * ctx.scale(1, 6))]
    ctx.rules.append("suspend-late: the resume comes from a foreign thread 1-40 ms after the suspension, when the suspending thread has run out of work and sleeps; "
                     "arena(1) has no worker at all, so only the arena's own wake-up can deliver the resume")
    oracle_tie(ctx, "suspend-late", exe, [], late, oracle, describe=pdesc, bucket=lambda c: "suspend-late P=%d" % c[1], timeout=900)


    wcases = [[ctx.seed * 1000 + 700000 + i, P, n, m, 0] for i, (P, n, m) in enumerate(
        [(1, 30, 5), (1, 30, 6), (2, 30, 5), (2, 30, 6), (3, 20, 6), (1, 5, 6), (4, 20, 6), (1, 60, 6)] * ctx.scale(1, 8))]
    ctx.rules.append("suspend-waiter: task A suspends and is resumed by a foreign thread 0-300 us later while task B (same thread on the fresh stack in arena(1), or another thread) waits for A's "
                     "task_group, plainly or inside this_task_arena::isolate — the waiting thread is the only one that can run the resume task")
    oracle_tie(ctx, "suspend-waiter", exe, [], wcases, oracle, describe=pdesc, bucket=lambda c: "suspend-waiter P=%d mode=%d" % (c[1], c[3]), timeout=900)


def replay(ctx, rep):
    lib, err = ctx.build_lib("tbb")
    exe, err = ctx.build_driver("drv_suspend", libs=[lib], opt="-O1")
    oracle_tie(ctx, "suspend", exe, [], [rep["case"]], oracle, describe=pdesc)
