"""C20 — a suspended task resumes exactly once. See DESIGN.md section 4/C20."""
import vlib
from vlib import oracle_tie, diff_tie, Finding
from props.common import BASE_TRUSTED

PROP_FILES = ["Properties_C20"]
TRUSTED = BASE_TRUSTED + [
    "modelled: the m_stack_state handshake (finilize_resume's exchange(suspended) + self-resume, try_notify_resume's exchange(notified))",
    "modelled, not verified: co_context stack switching, the resume task's trip through the arena's task streams, recall_owner / owner recall in one-slot arenas, "
    "arena lifetime references — exercised by real suspend/resume runs (oracle) only",
    "tie: trace conformance of every access to m_stack_state (lock-and-log hooks in a libtbb compiled under the prelude; grouping of the log per suspension in Python, replay in Coq: SuspendModel.sconf)",
]
KEYS = {"NOTONCE": "a suspended task did not continue exactly once", "TWICE": "a suspended task continued twice", "EARLYWAIT": "task_group::wait returned while a covered task was still suspended",
        "TWOTHREADS": "the code after suspend() ran concurrently with the code before it (two threads on one stack)"}


def pdesc(c):
    return "seed %d, task_arena(%d), %d suspending tasks, resume from %s%s" % (c[0], c[1], c[2], ["callback/foreign thread/task (mixed)", "the suspend callback", "a foreign thread", "another task", "a foreign thread 1-40 ms later (the suspending thread has gone to sleep)", "a foreign thread while another task of the arena waits for the suspended task's group",
                                                                                   "a foreign thread while another task waits for the suspended task's group inside this_task_arena::isolate",
                                                                                   "the main thread; the suspensions are at the OUTERMOST level of external threads that keep busy with a spawned task, 1-2 more external threads block in task_group::wait",
                                                                                   "the thread that then waits for the group - after the task's group was CANCELLED while the task was suspended"][c[3]], ", nested suspensions" if c[4] else "")


def oracle(c, toks):
    if toks and toks[0].startswith("CRASH") and "CRASHKIND" in toks and toks[toks.index("CRASHKIND") + 1:toks.index("CRASHKIND") + 2] == ["taskdtor"]:
        # recorded finding (KNOWN_FINDINGS.txt): not specific to this case - it strikes about once in 10 000 suspensions
        return ("suspended-run-task-releases-freed-reference-vertex", pdesc(c) + ": SIGSEGV inside ~function_task (the task of a task_group::run issued on a coroutine releases a wait-tree reference vertex "
                "that died with that coroutine's task_dispatcher)")
    if not toks or toks[0].startswith("CRASH") or toks[-1] == "HANG":
        return ("suspend-hang-or-crash", pdesc(c) + ": a suspended task was never resumed / the run crashed (" + " ".join(toks)[-40:] + ")")
    d = {toks[i]: int(toks[i + 1]) for i in range(0, len(toks) - 1, 2)}
    for k, msg in KEYS.items():
        if d.get(k):
            return ("suspend-" + k.lower(), "%s: %s (%d)" % (pdesc(c), msg, d[k]))
    return None


PRELUDE = vlib.os.path.join(vlib.VERIF, "harness", "prelude", "verif_atomic.h")


def trace_tie(ctx, cases):
    """Trace conformance of the m_stack_state handshake: libtbb and the driver are compiled under the atomic prelude, the accesses to the state
    word of every suspended stack are executed and logged under one lock (all threads), and the log of each suspension is replayed on SuspendModel."""
    glib, err = ctx.build_lib("tbb", gated=True)
    if err:
        return ctx.broken("libtbb build under the atomic prelude", err)
    texe, err = ctx.build_driver("drv_susptrace", libs=[glib], extra=["-include", PRELUDE], opt="-O1")
    if err:
        return ctx.broken("drv_susptrace build", err)
    rc, lines, err = ctx.run_driver(texe, [], cases, timeout=900)
    inputs, owners = [], []
    bad = 0
    for c, ln in zip(cases, lines + ["HANG"] * (len(cases) - len(lines))):
        toks = ln.split()
        ctx.count(("suspend-trace", tuple(c)), True, "suspend-trace P=%d mode=%d" % (c[1], c[3]))
        if not toks or toks[-1] == "HANG" or "-9" not in toks:
            bad += 1
            ctx.add(Finding("violation", "suspend-hang-or-crash", "trace run %s: a suspended task was never resumed / crash" % c, {"tie": "suspend-trace", "case": c}))
            continue
        v = [int(t) for t in toks]
        end = v.index(-9)
        notonce, two = v[end + 1], v[end + 2]
        if notonce or two:
            bad += 1
            ctx.add(Finding("violation", "suspend-notonce", "trace run %s: %d suspension(s) did not continue exactly once, %d times two threads on one stack" % (c, notonce, two), {"tie": "suspend-trace", "case": c}))
            continue
        per = {}
        for i in range(0, end, 4):
            tag, kind, before, after = v[i:i + 4]
            code = {(3, 1): 1, (3, 2): 2, (2, 0): 3, (2, 2): 4}.get((kind, after), 9)
            per.setdefault(tag, []).extend([code, before])
        for tag, ev in per.items():
            inputs.append(ev)
            owners.append((c, tag, ev))
    for (c, tag, ev), mo in zip(owners, ctx.modelrun("suspconf", inputs) if inputs else []):
        if mo[0] != -1 or mo[1] != 1:
            bad += 1
            if bad <= 3:
                names = {1: "exchange(suspended)", 2: "exchange(notified)", 3: "store(active)", 4: "store(notified)", 9: "other access"}
                txt = "; ".join("%s saw %d" % (names[ev[i]], ev[i + 1]) for i in range(0, len(ev), 2))
                ctx.add(Finding("broken", "broken:tie:suspend-trace", "seed %d, task_arena(%d), suspension %d: the accesses to m_stack_state (%s) do not conform to SuspendModel at event #%d "
                                "(complete rounds: %d)" % (c[0], c[1], tag, txt, mo[0], mo[1]), {"tie": "suspend-trace", "case": c}))
        else:
            ctx.traces_validated += 1
    ctx.ties.append({"name": "suspend-trace (every access to m_stack_state of a suspended stack replayed on SuspendModel)", "cases": len(inputs), "disagreements": bad})


def run(ctx):
    lib, err = ctx.build_lib("tbb")
    if err:
        return ctx.broken("libtbb build", err)
    exe, err = ctx.build_driver("drv_suspend", libs=[lib], opt="-O1", extra=["-rdynamic"])
    if err:
        return ctx.broken("drv_suspend build", err)
    # model: all 2-thread schedules of the handshake agree with the theorem (sanity run of the extracted model)
    scheds = [[0, 1], [1, 0], [1, 0, 0], [0, 0, 1], [1, 1, 0, 0], []]
    out = ctx.modelrun("suspend", scheds)
    for s, o in zip(scheds, out):
        ctx.count(("suspend-model", tuple(s)), True, "model")
        if o[-1] != 1:
            ctx.add(Finding("broken", "broken:suspend-model", "extracted model pushes %d resume tasks for schedule %s" % (o[-1], s), {"case": s}))
    rng = ctx.rng
    cases = [[ctx.seed * 1000 + i, rng.choice([1, 2, 3, 4, 8]), rng.choice([1, 2, 8, 40, 200]), rng.choice([0, 0, 1, 2, 3]), rng.randrange(2)] for i in range(ctx.scale(120, 4000))]
    ctx.rules.append("suspend: arenas of 1-8 threads (1 = owner recall), 1-200 tasks each suspending once or twice (nested), resumed from the callback itself, from a foreign thread after a "
                     "seeded 0-20k-iteration delay (races with the stack switch), or from another task; predicate = exactly one continuation, never two threads on the stack, wait covers suspended tasks, no hang")
    oracle_tie(ctx, "suspend", exe, [], cases, oracle, describe=pdesc, bucket=lambda c: "suspend P=%d mode=%d" % (c[1], c[3]), timeout=900)
    late = [[ctx.seed * 1000 + 500000 + i, P, n, 4, nest] for i, (P, n, nest) in enumerate(
        [(1, 1, 0), (1, 2, 0), (1, 1, 1), (1, 3, 1), (2, 1, 0), (2, 3, 1), (4, 2, 0), (1, 8, 0)] * ctx.scale(1, 6))]
    ctx.rules.append("suspend-late: the resume comes from a foreign thread 1-40 ms after the suspension, when the suspending thread has run out of work and sleeps; "
                     "arena(1) has no worker at all, so only the arena's own wake-up can deliver the resume")
    oracle_tie(ctx, "suspend-late", exe, [], late, oracle, describe=pdesc, bucket=lambda c: "suspend-late P=%d" % c[1], timeout=900)


    wcases = [[ctx.seed * 1000 + 700000 + i, P, n, m, 0] for i, (P, n, m) in enumerate(
        [(1, 30, 5), (1, 30, 6), (2, 30, 5), (2, 30, 6), (3, 20, 6), (1, 5, 6), (4, 20, 6), (1, 60, 6)] * ctx.scale(1, 8))]
    ctx.rules.append("suspend-waiter: task A suspends and is resumed by a foreign thread 0-300 us later while task B (same thread on the fresh stack in arena(1), or another thread) waits for A's "
                     "task_group, plainly or inside this_task_arena::isolate — the waiting thread is the only one that can run the resume task")
    oracle_tie(ctx, "suspend-waiter", exe, [], wcases, oracle, describe=pdesc, bucket=lambda c: "suspend-waiter P=%d mode=%d" % (c[1], c[3]), timeout=900)


    ocases = [[ctx.seed * 1000 + 800000 + i, K, n, 7, ex] for i, (K, n, ex) in enumerate([(1, 3, 0), (2, 2, 0), (1, 2, 1), (3, 2, 0), (2, 2, 1)] * ctx.scale(1, 6))]
    ctx.rules.append("suspend-outermost: 1-3 external threads suspend at the outermost level inside arena(K+W[+2], K+W) (no workers / two worker slots) and keep busy with a spawned task; 1-2 external threads block in "
                     "task_group::wait; the main thread resumes the points in seeded order while the owners are busy: every point continues exactly once on its own thread within 6 s (the owner must be recalled)")
    oracle_tie(ctx, "suspend-outermost", exe, [], ocases, oracle, describe=pdesc, bucket=lambda c: "suspend-outermost K=%d extra=%d" % (c[1], c[4]), timeout=900)

    # recorded finding (KNOWN_FINDINGS.txt), rare and not tied to one input: listed on every run; an occurrence in a run above carries the same key
    ctx.add(Finding("violation", "suspended-run-task-releases-freed-reference-vertex", "recorded finding: a task_group::run issued while running on a coroutine takes a reference vertex owned by that coroutine's task_dispatcher, "
                    "which ~task_dispatcher destroys unconditionally (SIGSEGV in ~function_task about once in 10 000 suspensions of the suspend scenario)", {"tie": "suspend", "note": "listed on every run"}))
    kcases = [[ctx.seed * 1000 + 850000 + i, P, n, 8, 0] for i, (P, n) in enumerate([(2, 6), (8, 4), (4, 6), (3, 6)] * ctx.scale(1, 5))]
    ctx.rules.append("suspend-cancelled: the group of a suspended task is cancelled while the task is suspended, then resume() and task_group::wait (a thread of the arena may be busy in a blocking task of another "
                     "group): the suspended code continues exactly once before the wait returns - cancellation skips tasks that have not started, not continuations")
    oracle_tie(ctx, "suspend-cancelled", exe, [], kcases, oracle, describe=pdesc, bucket=lambda c: "suspend-cancelled P=%d" % c[1], timeout=900)

    rng2 = ctx.rng
    tcases = [[ctx.seed * 1000 + 900000 + i, rng2.choice([1, 2, 3, 4, 8]), rng2.choice([1, 2, 4, 8, 20]), rng2.choice([0, 0, 1, 2, 3]), rng2.choice([0, 60, 200])] for i in range(ctx.scale(60, 1500))]
    ctx.rules.append("suspend-trace: the real suspend/resume (library compiled under the atomic prelude), 1-20 suspending tasks in arenas of 1-8 threads, resumed from the callback / a foreign thread / "
                     "another task, seeded delays at the logged accesses; every access to the state word of a suspended stack, in its exact order, must be a step of SuspendModel with the observed old value, "
                     "and every round must end with exactly one resume task pushed")
    trace_tie(ctx, tcases)


def replay(ctx, rep):
    if rep.get("tie") == "suspend-trace":
        return trace_tie(ctx, [rep["case"]])
    lib, err = ctx.build_lib("tbb")
    exe, err = ctx.build_driver("drv_suspend", libs=[lib], opt="-O1", extra=["-rdynamic"])
    oracle_tie(ctx, "suspend", exe, [], [rep["case"]], oracle, describe=pdesc)
