"""C09 — concurrent_queue / concurrent_bounded_queue. See DESIGN.md section 4/C09 and 8(c)."""
import itertools
import os
import vlib
from vlib import diff_tie, oracle_tie, Finding
from props.common import BASE_TRUSTED, boundary64

PROP_FILES = ["Properties_C09"]
TRUSTED = BASE_TRUSTED + [
    "modelled: ticket -> lane arithmetic; the ticket protocol at the level of tail_counter/head_counter (push takes a ticket, publishes; pop takes a ticket, consumes), abort of a blocked pop",
    "modelled, not verified: micro_queue pages/masks/turn counters, invalid entries after a throwing constructor, monitors of the bounded queue — explored with the real concurrent_queue under the "
    "deterministic atomic-access gate (linearizability oracle) and with real threads (conservation / per-producer order oracle)",
]
PRELUDE = os.path.join(vlib.VERIF, "harness", "prelude", "verif_atomic.h")


def parse_hist(toks):
    i = toks.index("FIN")
    v = [int(x) for x in toks[:i]]
    ops = [tuple(v[k:k + 6]) for k in range(0, len(v), 6)]   # tid op arg res inv resp
    left = [int(x) for x in toks[toks.index("LEFT") + 1:]] if "LEFT" in toks else []
    return ops, left


def linearizable(ops, left):
    """Wing-Gong brute force: is there a total order respecting real time (resp_a < inv_b => a before b) under which a FIFO
    queue gives these results and ends with contents `left`?"""
    n = len(ops)
    if n > 12:
        return True
    done_all = (1 << n) - 1
    from functools import lru_cache

    @lru_cache(maxsize=None)
    def go(mask, q):
        if mask == done_all:
            return list(q) == left
        for i in range(n):
            if mask >> i & 1:
                continue
            # i may go next only if no unexecuted op finished before i started
            if any(not (mask >> j & 1) and j != i and ops[j][5] < ops[i][4] for j in range(n)):
                continue
            tid, op, arg, res, inv, resp = ops[i]
            if op == 1:
                if go(mask | 1 << i, q + (arg,)):
                    return True
            else:
                if res == -1:
                    if not q and go(mask | 1 << i, q):
                        return True
                elif q and q[0] == res and go(mask | 1 << i, q[1:]):
                    return True
        return False
    return go(0, ())


def gdescribe(c):
    n = c[0]
    p = 1
    parts = []
    for t in range(n):
        ln = c[p]
        ops = c[p + 1:p + 1 + 2 * ln]
        parts.append("T%d: %s" % (t, ",".join("push(%d)" % ops[i + 1] if ops[i] == 1 else "try_pop" for i in range(0, len(ops), 2))))
        p += 1 + 2 * ln
    return " || ".join(parts) + "  schedule=" + "".join(map(str, c[p + 1:]))


def gate_oracle(c, toks):
    if not toks or toks[0].startswith("CRASH"):
        return ("queue-crash", gdescribe(c))
    if toks[-1] == "HANG":
        return ("queue-no-progress", "%s: operations never finish under round-robin completion" % gdescribe(c))
    ops, left = parse_hist(toks)
    if not linearizable(ops, left):
        return ("queue-not-linearizable", "%s: history %s with final contents %s is not linearizable to a FIFO queue" % (
            gdescribe(c), [("T%d" % o[0], "push(%d)" % o[2] if o[1] == 1 else "try_pop->%d" % o[3]) for o in ops], left))
    return None


# ---------- bounded queue: try_push / try_pop claim loops against BqModel ----------
def bsplit(c):
    cap, n = c[0], c[1]
    p = 2
    scripts = []
    for t in range(n):
        ln = c[p]
        ops = c[p + 1:p + 1 + 2 * ln]
        scripts.append([(ops[i], ops[i + 1]) for i in range(0, len(ops), 2)])
        p += 1 + 2 * ln
    return cap, scripts, c[p + 1:]


def bdescribe(c):
    cap, scripts, sched = bsplit(c)
    return "capacity %d; " % cap + " || ".join("T%d: %s" % (t, ",".join("try_push(%d)" % a if o == 3 else "try_pop" for o, a in sc))
                                               for t, sc in enumerate(scripts)) + "  schedule=" + "".join(map(str, sched))


def bparse(toks):
    i, j, k = toks.index("EV"), toks.index("HIST"), toks.index("FIN")
    ev = [int(x) for x in toks[i + 1:j]]
    ev = [tuple(ev[a:a + 7]) for a in range(0, len(ev), 7)]
    h = [int(x) for x in toks[j + 1:k]]
    hist = [tuple(h[a:a + 6]) for a in range(0, len(h), 6)]
    left = [int(x) for x in toks[toks.index("LEFT") + 1:]] if "LEFT" in toks else []
    return ev, hist, left


def blinearizable(cap, ops, left):
    """FIFO queue of capacity cap: try_push succeeds iff fewer than cap items are stored at its linearization point,
    try_pop fails iff none is."""
    n = len(ops)
    if n > 12:
        return True
    done_all = (1 << n) - 1
    from functools import lru_cache

    @lru_cache(maxsize=None)
    def go(mask, q):
        if mask == done_all:
            return list(q) == left
        for i in range(n):
            if mask >> i & 1:
                continue
            if any(not (mask >> j & 1) and j != i and ops[j][5] < ops[i][4] for j in range(n)):
                continue
            tid, op, arg, res, inv, resp = ops[i]
            if op == 3:
                if res == 1:
                    if len(q) < cap and go(mask | 1 << i, q + (arg,)):
                        return True
                elif len(q) >= cap and go(mask | 1 << i, q):
                    return True
            else:
                if res == -1:
                    if not q and go(mask | 1 << i, q):
                        return True
                elif q and q[0] == res and go(mask | 1 << i, q[1:]):
                    return True
        return False
    return go(0, ())


def bgate_oracle(c, toks):
    if not toks or toks[0].startswith("CRASH"):
        return ("bqueue-crash", bdescribe(c))
    if toks[-1] == "HANG":
        return ("bqueue-no-progress", "%s: operations never finish under round-robin completion" % bdescribe(c))
    ev, hist, left = bparse(toks)
    cap = c[0]
    if not blinearizable(cap, hist, left):
        return ("bqueue-not-linearizable", "%s: history %s with final contents %s is not linearizable to a FIFO queue of capacity %d "
                "(try_push may fail only when full, try_pop only when empty)" % (
                    bdescribe(c), [("T%d" % o[0], "try_push(%d)->%d" % (o[2], o[3]) if o[1] == 3 else "try_pop->%d" % o[3]) for o in hist], left, cap))
    return None


def gen_bgate(ctx, n):
    rng = ctx.rng
    cases = []
    for _ in range(n):
        T = rng.randint(2, 3)
        cap = rng.choice([1, 1, 2, 2, 3])
        c = [cap, T]
        val = 1
        for t in range(T):
            ln = rng.randint(1, 4 if T == 2 else 3)
            ops = []
            for _ in range(ln):
                if rng.random() < 0.6:
                    ops += [3, val]; val += 1
                else:
                    ops += [2, 0]
            c += [ln] + ops
        c.append(-1)
        sched = []
        L = rng.randint(20, 200)
        while len(sched) < L:
            sched += [rng.randrange(T)] * rng.randint(1, 10)
        cases.append(c + sched)
    return cases


def bq_tie(ctx, exe, cases):
    """The real bounded queue runs each case under the gate; its accesses to head_counter / tail_counter, in their
    real global order, become the schedule of BqModel; per thread, the model must produce the same accesses (kind,
    memory order, values seen and written, CAS outcome) and the same results."""
    name = "bq-gate"
    lines = []
    rest = cases
    guard = 0
    while rest and guard < 50:
        guard += 1
        rc, out, err = ctx.run_driver(exe, ["bgate"], rest, timeout=600)
        lines += out
        if len(lines) < len(cases) and (not out or not out[-1].endswith("HANG")):
            lines.append("CRASH rc=%s %s" % (rc, err[-200:].replace("\n", " ")))
        rest = cases[len(lines):]
    minputs = []
    parsed = []
    for c, ln in zip(cases, lines):
        toks = ln.split()
        if not toks or toks[0].startswith("CRASH") or toks[-1] == "HANG":
            parsed.append(None)
            minputs.append([0, 0, -1])
            continue
        ev, hist, left = bparse(toks)
        cap, scripts, _ = bsplit(c)
        mi = [cap, len(scripts)]
        for sc in scripts:
            mi += [len(sc)] + [o for o, a in sc]
        mi += [-1] + [e[0] for e in ev if e[1] in (1, 2)]
        minputs.append(mi)
        parsed.append((ev, hist, left))
    model = ctx.modelrun("bq", minputs)
    nmis = nviol = 0
    for i, c in enumerate(cases):
        toks = lines[i].split()
        ctx.count((name, tuple(c)), True, "bq-gate T=%d cap=%d" % (c[1], c[0]))
        viol = bgate_oracle(c, toks)
        rep = {"tie": name, "case": c, "case_text": bdescribe(c), "impl": lines[i][:2000], "model": " ".join(map(str, model[i]))[:2000]}
        if viol:
            nviol += 1
            if nviol <= 3:
                ctx.add(Finding("violation", viol[0], "%s: %s" % (name, viol[1]), rep))
            continue
        ev, hist, left = parsed[i]
        m = model[i]
        mev = [tuple(m[a:a + 7]) for a in range(0, len(m) - 3, 7)]
        mev = [(e[0], e[1], e[2], e[3], e[4], 0, e[6]) if e[2] >= 100 else e for e in mev]   # the claimed ticket in a note is model-only
        T = c[1]
        ok = m[-1] == 1
        for t in range(T):
            if [e for e in ev if e[0] == t] != [e for e in mev if e[0] == t]:
                ok = False
        if ok:
            ctx.traces_validated += 1
            continue
        nmis += 1
        if nmis <= 3:
            ctx.add(Finding("broken", "broken:tie:" + name, "correspondence %s: the real queue's accesses to head_counter/tail_counter or its results differ from BqModel's "
                            "on %s, and this history is linearizable" % (name, bdescribe(c)), rep))
    ctx.ties.append({"name": name, "cases": len(cases), "disagreements": nmis, "oracle_violations": nviol})
    return nmis, nviol


def gen_gate(ctx, n):
    rng = ctx.rng
    cases = []
    for _ in range(n):
        T = rng.randint(2, 3)
        c = [T]
        val = 1
        total = 0
        for t in range(T):
            ln = rng.randint(1, 4 if T == 2 else 3)
            ops = []
            for _ in range(ln):
                if rng.random() < 0.55:
                    ops += [1, val]; val += 1
                else:
                    ops += [2, 0]
            c += [ln] + ops
            total += ln
        c.append(-1)
        sched = []
        L = rng.randint(20, 200)
        while len(sched) < L:
            sched += [rng.randrange(T)] * rng.randint(1, 12)
        cases.append(c + sched)
    return cases


def run(ctx):
    lib, err = ctx.build_lib("tbb")
    if err:
        return ctx.broken("libtbb build", err)
    exe, err = ctx.build_driver("drv_queue", libs=[lib], extra=["-include", PRELUDE])
    if err:
        return ctx.broken("drv_queue build (concurrent_queue under the atomic prelude)", err)
    b = [x for x in boundary64() if x < 2 ** 63]
    cases = [b[i:i + 16] for i in range(0, len(b), 16)] + [[ctx.rng.getrandbits(ctx.rng.choice([4, 16, 33, 62])) for _ in range(16)] for _ in range(ctx.scale(100, 3000))]
    ctx.rules.append("qidx: tickets 2^k+-2 and random: lane index and lane ticket compared with the model")
    diff_tie(ctx, "qidx", exe, ["qidx"], "qidx", cases, bucket=lambda c: "qidx")
    ctx.rules.append("queue-gate: 2-3 logical threads x 1-4 push/try_pop each on the real concurrent_queue<int> under seeded bursty interleavings of its atomic accesses; "
                     "oracle = the invocation/response history with final contents is linearizable to a FIFO queue (exhaustive Wing-Gong search)")
    oracle_tie(ctx, "queue-gate", exe, ["gate"], gen_gate(ctx, ctx.scale(1500, 50000)), gate_oracle, describe=gdescribe,
               bucket=lambda c: "queue-gate T=%d" % c[0], timeout=600)
    ctx.rules.append("bq-gate: 2-3 logical threads x 1-4 try_push/try_pop on the real concurrent_bounded_queue<int> (capacity 1-3) under seeded bursty interleavings; "
                     "tie = per-thread sequence of head_counter/tail_counter accesses and results equals BqModel's when BqModel is driven by the real global order of those accesses; "
                     "oracle = history linearizable to a bounded FIFO queue (try_push fails only when full, try_pop only when empty)")
    nmis, nviol = bq_tie(ctx, exe, gen_bgate(ctx, ctx.scale(1500, 40000)))
    if nmis and not nviol:
        # search phase: the tie is broken and the first pass found no failing history: more 3-thread small-capacity schedules
        more = [c for c in gen_bgate(ctx, ctx.scale(6000, 60000)) if c[1] == 3]
        oracle_tie(ctx, "bq-gate-search", exe, ["bgate"], more, bgate_oracle, describe=bdescribe, timeout=900)
    # real threads
    bad = 0
    n = ctx.scale(10, 150)
    for r in range(n):
        Q = r % 2
        rc, lines, err = ctx.run_driver(exe, ["mt", Q, 2 + r % 5, ctx.seed * 1000 + r, 20000], timeout=120)
        ctx.count(("queue-mt", r), True, "queue-mt %s" % ("bounded" if Q else "unbounded"))
        if rc != 0 or not lines or lines[-1].split()[1::2] != ["0", "0", "0", "0"]:
            bad += 1
            ctx.add(Finding("violation", "queue-mt", "%s, %d threads, seed %d: %s rc=%s (ORDER = per-producer order broken, DUP/LOST = conservation, OVERCAP = more items stored than the capacity)" % (
                "concurrent_bounded_queue" if Q else "concurrent_queue", 2 + r % 5, ctx.seed * 1000 + r, (lines or ["no output"])[-1], rc),
                {"tie": "queue-mt", "args": ["mt", Q, 2 + r % 5, ctx.seed * 1000 + r, 20000]}))
            break
    ctx.ties.append({"name": "queue-mt (oracle only)", "cases": n, "disagreements": bad})
    # non-blocking calls while blocking calls are parked (head_counter ahead of tail_counter / queue full with producers waiting)
    nb = ctx.scale(8, 60)
    mbad = 0
    for r in range(nb):
        args = ["bmixed", 1 + r % 4, 1 + (r // 4) % 3, ctx.seed * 1000 + r]
        rc, lines, err = ctx.run_driver(exe, args, timeout=120)
        ctx.count(("queue-bmixed", r), True, "queue-bmixed")
        t = (lines or ["no output"])[-1].split()
        if rc != 0 or len(t) < 6 or t[1::2] != ["0", "0", "0"]:
            mbad += 1
            ctx.add(Finding("violation", "bqueue-nonblocking-while-parked", "concurrent_bounded_queue(capacity %d) with %d blocking call(s) parked: %s rc=%s (STUCK = try_pop on an empty queue / try_push on a "
                            "full queue does not return; WRONG = it reports success; ORDER = the parked calls and the following non-blocking calls do not see FIFO order)" % (args[2], args[1], " ".join(t), rc),
                            {"tie": "queue-bmixed", "args": args}))
            break
    ctx.rules.append("queue-bmixed: 1-4 consumers parked in pop() on an empty bounded queue, then try_pop (must fail at once), pushes, FIFO delivery; mirror image with producers parked on a full queue and try_push")
    ctx.ties.append({"name": "queue-bmixed (oracle only)", "cases": nb, "disagreements": mbad})
    # an invalid entry (push whose constructor threw) at every position of the page structure
    rc, lines, err = ctx.run_driver(exe, ["qthrow"], timeout=600)
    ctx.count(("queue-qthrow",), True, "queue-qthrow")
    t = (lines or ["no output"])[-1].split()
    qbad = 0
    if rc != 0 or len(t) < 4 or t[1] != "0":
        qbad = 1
        ctx.add(Finding("violation", "queue-invalid-entry-breaks-fifo", "concurrent_queue / concurrent_bounded_queue, single thread: one push whose element constructor throws at position p among ordinary pushes, then drain, refill and drain "
                        "twice more; the failing position is swept over 0..599 (8-byte elements) and the corresponding spans for 24 / 72 / 136 / 264-byte elements: %s rc=%s (BADFIFO = positions at which the popped values are not exactly "
                        "the pushed values in order; FIRST = queue kind * 100000 + position)" % (" ".join(t), rc), {"tie": "queue-qthrow", "args": ["qthrow"]}))
    ctx.rules.append("queue-qthrow (oracle only): a throwing push at EVERY ticket position (all lanes, first / last slot of a page, five page-size classes, unbounded and bounded queue), then three drain / refill rounds: FIFO of the other values")
    ctx.ties.append({"name": "queue-qthrow (oracle only)", "cases": 1, "disagreements": qbad})
    # blocked calls around operations that fail with an exception
    nt = ctx.scale(6, 40)
    tbad = 0
    for r in range(nt):
        args = ["bthrow", 1 + r % 3, r % 3, ctx.seed * 1000 + r]
        rc, lines, err = ctx.run_driver(exe, args, timeout=120)
        ctx.count(("queue-bthrow", r), True, "queue-bthrow")
        t = (lines or ["no output"])[-1].split()
        if rc != 0 or len(t) < 6 or t[1::2] != ["0", "0", "0"]:
            tbad += 1
            ctx.add(Finding("violation", "bqueue-blocked-call-after-failed-operation", "concurrent_bounded_queue with %d blocked call(s) and an operation that fails with an exception next to successful ones (first good call: %s): %s rc=%s "
                            "(STUCK = a pop() blocked before the items were pushed, or a push() blocked before the space appeared, has not returned 3 s later; LOST/EXTRA = the blocked calls do not get exactly the good items)" % (
                                args[1], ["push", "try_push", "emplace"][args[2]], " ".join(t), rc), {"tie": "queue-bthrow", "args": args}))
            break
    ctx.rules.append("queue-bthrow: 1-3 consumers parked in pop(); a push whose copy throws (before / among the good ones) and as many good push / try_push / emplace calls: every consumer returns with a good item within 3 s; "
                     "1-3 producers parked on a full queue, a pop whose assignment throws, then pops: every producer returns, nothing lost")
    ctx.ties.append({"name": "queue-bthrow (oracle only)", "cases": nt, "disagreements": tbad})
    # known finding: abort of a blocked pop (white-box replay of theorem bqueue_abort_refuted_item_overtaken)
    rc, lines, err = ctx.run_driver(exe, ["abortwb"], timeout=60)
    ctx.count(("abortwb",), True, "abortwb")
    t = (lines or [""])[-1].split()
    if len(t) >= 3 and t[1] == "first_delivered" and t[2] != "100":
        ctx.add(Finding("violation", "bqueue-abort-ticket-reuse",
                        "concurrent_bounded_queue: a blocked pop (ticket 0) is aborted and executes head_counter-- after another pop took ticket 1; push(100); push(200): "
                        "the waiting pop receives %s before 100, size() reports %s with an item inside, item 100 is stranded" % (t[2], t[4] if len(t) > 4 else "?"),
                        {"tie": "abortwb", "args": ["abortwb"], "impl": " ".join(t)}))
    ctx.ties.append({"name": "abortwb (replay of the refutation witness)", "cases": 1, "disagreements": 0})


def replay(ctx, rep):
    lib, err = ctx.build_lib("tbb")
    exe, err = ctx.build_driver("drv_queue", libs=[lib], extra=["-include", PRELUDE])
    if rep.get("tie") in ("bq-gate", "bq-gate-search"):
        print(bq_tie(ctx, exe, [rep["case"]]))
        for f in ctx.findings:
            print(f.kind, f.key, f.detail)
    elif rep.get("tie") == "queue-gate":
        oracle_tie(ctx, "queue-gate", exe, ["gate"], [rep["case"]], gate_oracle, describe=gdescribe)
    else:
        rc, lines, err = ctx.run_driver(exe, rep["args"], timeout=120)
        print(rc, lines)
