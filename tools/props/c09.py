"""C09 — concurrent_queue / concurrent_bounded_queue. See DESIGN.md section 4/C09 and 8(c)."""
import itertools
import os
import vlib
from vlib import diff_tie, oracle_tie, Finding
from props.common import BASE_TRUSTED, boundary64

PROP_FILES = ["Properties_C09"]
TRUSTED = BASE_TRUSTED + [
    "modelled: ticket -> lane arithmetic; the ticket protocol at the level of tail_counter/head_counter (push takes a ticket, publishes; pop takes a ticket, consumes), abort of a blocked pop",
    "modelled, not verified: micro_queue pages/masks/turn counters, invalid entries after a throwing constructor, monitors of the bounded queue — explored with the real concurrent_queue under the "
    "deterministic atomic-access gate (linearizability oracle) and with real threads (conservation / per-producer order oracle)",
]
PRELUDE = os.path.join(vlib.VERIF, "harness", "prelude", "verif_atomic.h")


def parse_hist(toks):
    i = toks.index("FIN")
    v = [int(x) for x in toks[:i]]
    ops = [tuple(v[k:k + 6]) for k in range(0, len(v), 6)]   # tid op arg res inv resp
    left = [int(x) for x in toks[toks.index("LEFT") + 1:]] if "LEFT" in toks else []
    return ops, left


def linearizable(ops, left):
    """Wing-Gong brute force: is there a total order respecting real time (resp_a < inv_b => a before b) under which a FIFO
    queue gives these results and ends with contents `left`?"""
    n = len(ops)
    if n > 12:
        return True
    done_all = (1 << n) - 1
    from functools import lru_cache

    @lru_cache(maxsize=None)
    def go(mask, q):
        if mask == done_all:
            return list(q) == left
        for i in range(n):
            if mask >> i & 1:
                continue
            # i may go next only if no unexecuted op finished before i started
            if any(not (mask >> j & 1) and j != i and ops[j][5] < ops[i][4] for j in range(n)):
                continue
            tid, op, arg, res, inv, resp = ops[i]
            if op == 1:
                if go(mask | 1 << i, q + (arg,)):
                    return True
            else:
                if res == -1:
                    if not q and go(mask | 1 << i, q):
                        return True
                elif q and q[0] == res and go(mask | 1 << i, q[1:]):
                    return True
        return False
    return go(0, ())


def gdescribe(c):
    n = c[0]
    p = 1
    parts = []
    for t in range(n):
        ln = c[p]
        ops = c[p + 1:p + 1 + 2 * ln]
        parts.append("T%d: %s" % (t, ",".join("push(%d)" % ops[i + 1] if ops[i] == 1 else "try_pop" for i in range(0, len(ops), 2))))
        p += 1 + 2 * ln
    return " || ".join(parts) + "  schedule=" + "".join(map(str, c[p + 1:]))


def gate_oracle(c, toks):
    if not toks or toks[0].startswith("CRASH"):
        return ("queue-crash", gdescribe(c))
    if toks[-1] == "HANG":
        return ("queue-no-progress", "%s: operations never finish under round-robin completion" % gdescribe(c))
    ops, left = parse_hist(toks)
    if not linearizable(ops, left):
        return ("queue-not-linearizable", "%s: history %s with final contents %s is not linearizable to a FIFO queue" % (
            gdescribe(c), [("T%d" % o[0], "push(%d)" % o[2] if o[1] == 1 else "try_pop->%d" % o[3]) for o in ops], left))
    return None


def gen_gate(ctx, n):
    rng = ctx.rng
    cases = []
    for _ in range(n):
        T = rng.randint(2, 3)
        c = [T]
        val = 1
        total = 0
        for t in range(T):
            ln = rng.randint(1, 4 if T == 2 else 3)
            ops = []
            for _ in range(ln):
                if rng.random() < 0.55:
                    ops += [1, val]; val += 1
                else:
                    ops += [2, 0]
            c += [ln] + ops
            total += ln
        c.append(-1)
        sched = []
        L = rng.randint(20, 200)
        while len(sched) < L:
            sched += [rng.randrange(T)] * rng.randint(1, 12)
        cases.append(c + sched)
    return cases


def run(ctx):
    lib, err = ctx.build_lib("tbb")
    if err:
        return ctx.broken("libtbb build", err)
    exe, err = ctx.build_driver("drv_queue", libs=[lib], extra=["-include", PRELUDE])
    if err:
        return ctx.broken("drv_queue build (concurrent_queue under the atomic prelude)", err)
    b = [x for x in boundary64() if x < 2 ** 63]
    cases = [b[i:i + 16] for i in range(0, len(b), 16)] + [[ctx.rng.getrandbits(ctx.rng.choice([4, 16, 33, 62])) for _ in range(16)] for _ in range(ctx.scale(100, 3000))]
    ctx.rules.append("qidx: tickets 2^k+-2 and random: lane index and lane ticket compared with the model")
    diff_tie(ctx, "qidx", exe, ["qidx"], "qidx", cases, bucket=lambda c: "qidx")
    ctx.rules.append("queue-gate: 2-3 logical threads x 1-4 push/try_pop each on the real concurrent_queue<int> under seeded bursty interleavings of its atomic accesses; "
                     "oracle = the invocation/response history with final contents is linearizable to a FIFO queue (exhaustive Wing-Gong search)")
    oracle_tie(ctx, "queue-gate", exe, ["gate"], gen_gate(ctx, ctx.scale(1500, 50000)), gate_oracle, describe=gdescribe,
               bucket=lambda c: "queue-gate T=%d" % c[0], timeout=600)
    # real threads
    bad = 0
    n = ctx.scale(10, 150)
    for r in range(n):
        Q = r % 2
        rc, lines, err = ctx.run_driver(exe, ["mt", Q, 2 + r % 5, ctx.seed * 1000 + r, 20000], timeout=120)
        ctx.count(("queue-mt", r), True, "queue-mt %s" % ("bounded" if Q else "unbounded"))
        if rc != 0 or not lines or lines[-1].split()[1::2] != ["0", "0", "0", "0"]:
            bad += 1
            ctx.add(Finding("violation", "queue-mt", "%s, %d threads, seed %d: %s rc=%s (ORDER = per-producer order broken, DUP/LOST = conservation, OVERCAP = more items stored than the capacity)" % (
                "concurrent_bounded_queue" if Q else "concurrent_queue", 2 + r % 5, ctx.seed * 1000 + r, (lines or ["no output"])[-1], rc),
                {"tie": "queue-mt", "args": ["mt", Q, 2 + r % 5, ctx.seed * 1000 + r, 20000]}))
            break
    ctx.ties.append({"name": "queue-mt (oracle only)", "cases": n, "disagreements": bad})
    # known finding: abort of a blocked pop (white-box replay of theorem bqueue_abort_refuted_item_overtaken)
    rc, lines, err = ctx.run_driver(exe, ["abortwb"], timeout=60)
    ctx.count(("abortwb",), True, "abortwb")
    t = (lines or [""])[-1].split()
    if len(t) >= 3 and t[1] == "first_delivered" and t[2] != "100":
        ctx.add(Finding("violation", "bqueue-abort-ticket-reuse",
                        "concurrent_bounded_queue: a blocked pop (ticket 0) is aborted and executes head_counter-- after another pop took ticket 1; push(100); push(200): "
                        "the waiting pop receives %s before 100, size() reports %s with an item inside, item 100 is stranded" % (t[2], t[4] if len(t) > 4 else "?"),
                        {"tie": "abortwb", "args": ["abortwb"], "impl": " ".join(t)}))
    ctx.ties.append({"name": "abortwb (replay of the refutation witness)", "cases": 1, "disagreements": 0})


def replay(ctx, rep):
    lib, err = ctx.build_lib("tbb")
    exe, err = ctx.build_driver("drv_queue", libs=[lib], extra=["-include", PRELUDE])
    if rep.get("tie") == "queue-gate":
        oracle_tie(ctx, "queue-gate", exe, ["gate"], [rep["case"]], gate_oracle, describe=gdescribe)
    else:
        rc, lines, err = ctx.run_driver(exe, rep["args"], timeout=120)
        print(rc, lines)
