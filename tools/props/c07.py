"""C07 — parallel_pipeline. See DESIGN.md section 4/C07."""
import vlib
from vlib import diff_tie, oracle_tie, Finding
from props.common import BASE_TRUSTED

PROP_FILES = ["Properties_C07"]
TRUSTED = BASE_TRUSTED + [
    "modelled: input_buffer (try_put_token / try_to_spawn_task_for_next_token / grow / token assignment) and the input_tokens accounting of stage_task with a serial input filter",
    "modelled, not verified: stage_task::execute_filter control flow around the buffers (which filter an item goes to next, end-of-input handling, parallel input filters, "
    "finalize on cancellation) — exercised by the real-thread pipeline oracle only",
]


def describe(c):
    ops = []
    for i in range(1, len(c) - 3, 4):
        ops.append("put(item%d,token=%d%s)" % (c[i + 1], c[i + 2], "" if c[i + 3] else ",unassigned") if c[i] == 1 else "finish")
    return "%s serial filter: %s" % ("ordered" if c[0] else "unordered", " ".join(ops))


def gen_buf(ctx, n):
    """Legal op sequences only: every token arrives once, finish only while an item is inside."""
    rng = ctx.rng
    cases = []
    for _ in range(n):
        kind = rng.choice(["ready", "ready", "assign", "unordered"])
        N = rng.choice([3, 5, 8, 9, 17, 40])
        c = [0 if kind == "unordered" else 1]
        if kind == "ready":
            # arrival order: a window shuffle (items overtake each other by up to `spread` positions)
            spread = rng.choice([1, 2, 4, 8, 16, 33])
            order = sorted(range(N), key=lambda t: t + rng.uniform(0, spread))
        else:
            order = list(range(N))
        low, running, parked, pending = 0, False, set(), list(order)
        obj = 100
        while pending or running:
            can_finish = running
            if pending and (not can_finish or rng.random() < 0.6):
                t = pending.pop(0)
                c += [1, obj, t if kind == "ready" else 0, 1 if kind == "ready" else 0]
                obj += 1
                if t == low and not running:
                    running = True
                else:
                    parked.add(t)
            else:
                c += [2, 0, 0, 0]
                low += 1
                if low in parked:
                    parked.discard(low)
                    running = True
                else:
                    running = False
        cases.append(c)
    return cases


def buf_oracle(c, toks):
    if not toks or toks[0].startswith("CRASH") or toks[-1] == "HANG":
        return ("pipebuf-crash", describe(c))
    v = [int(t) for t in toks]
    # the property on the implementation's answers: items are let in one at a time in token order
    # (token = pre-assigned token, or arrival index when the filter assigns tokens itself), each exactly once
    admitted, arrivals, pos, i, k = [], [], 0, 1, 0
    while i + 3 < len(c) and pos + 1 < len(v) and v[pos] != -7:
        if c[i] == 1:
            tok = c[i + 2] if c[i + 3] else k
            k += 1
            arrivals.append((tok, c[i + 1]))
            if not v[pos]:
                admitted.append(c[i + 1])
        elif v[pos] != -1:
            admitted.append(v[pos])
        pos += 2
        i += 4
    expect = [o for _, o in sorted(arrivals)]
    if admitted != expect[:len(admitted)]:
        return ("pipebuf-order", "%s: items let into the filter in order %s, token order is %s" % (describe(c), admitted, expect))
    if len(admitted) != len(arrivals):
        return ("pipebuf-lost", "%s: %d items arrived, %d were let in" % (describe(c), len(arrivals), len(admitted)))
    return None


MODES = {0: "parallel", 1: "serial_out_of_order", 2: "serial_in_order"}
PCODE = {"MISSING": "an item skipped a filter", "DUP": "an item passed a filter twice", "ORDER": "serial_in_order filters saw different orders",
         "SERIAL": "two invocations of a serial filter overlapped", "LIVE": "more items in flight than max_number_of_live_tokens", "LEFT": "parallel_pipeline returned while items were in flight"}


def pdesc(c):
    return "parallel_pipeline(max_tokens=%d, %d items, filters=%s) in task_arena(%d), seed %d" % (c[2], c[3], "+".join(MODES[m] for m in c[5:5 + c[4]]), c[1], c[0])


def pipe_oracle(c, toks):
    if not toks or toks[0].startswith("CRASH") or toks[-1] == "HANG":
        return ("pipeline-hang-or-crash", pdesc(c) + ": " + " ".join(toks)[-60:])
    d = {toks[i]: int(toks[i + 1]) for i in range(0, len(toks) - 1, 2)}
    for k, msg in PCODE.items():
        if d.get(k):
            return ("pipeline-" + k.lower(), "%s: %s (%d)" % (pdesc(c), msg, d[k]))
    return None


def run(ctx):
    lib, err = ctx.build_lib("tbb")
    if err:
        return ctx.broken("libtbb build", err)
    exe, err = ctx.build_driver("drv_pipe", libs=[lib], extra=["-D__TBB_BUILD"])
    if err:
        return ctx.broken("drv_pipe build", err)
    ctx.rules.append("pipebuf: legal arrival/finish sequences on the real input_buffer (tokens pre-assigned and shuffled within windows 1..33, assigned on arrival, unordered; "
                     "3-40 items so that the ring doubles up to 3 times); compared per op: parked?, token, woken item, final size/low/high")
    diff_tie(ctx, "pipebuf", exe, ["buf"], "pipebuf", gen_buf(ctx, ctx.scale(1500, 60000)), oracle=buf_oracle, describe=describe,
             nontrivial=lambda c, t: "1" in t[0:len(t):2], bucket=lambda c: "pipebuf ordered=%d ops=%d" % (c[0], len(c) // 4 // 10 * 10))
    rng = ctx.rng
    cases = []
    for i in range(ctx.scale(150, 5000)):
        nf = rng.randint(1, 4)
        cases.append([ctx.seed * 100000 + i, rng.choice([1, 2, 3, 4, 8, 16]), rng.choice([1, 1, 2, 3, 4, 8]), rng.choice([0, 1, 2, 7, 50, 300]), nf] + [rng.randrange(3) for _ in range(nf)])
    # directed: serial_in_order filters separated by stages where items overtake each other (parallel, serial_out_of_order): the common order must survive
    for j, modes in enumerate([[2, 0, 1, 2], [2, 1, 2], [2, 1, 0, 2], [2, 0, 1, 0, 2], [2, 0, 2, 1, 2], [0, 2, 1, 2], [2, 0, 1, 2], [2, 1, 1, 2]] * ctx.scale(1, 6)):
        cases.append([ctx.seed * 100000 + 90000 + j, [4, 8, 16][j % 3], [4, 8, 3][j % 3], [60, 200, 300][j % 3], len(modes)] + modes)
    ctx.rules.append("pipeline: all filter-mode sequences of length 1-4 (plus directed ones where serial_in_order filters are separated by parallel / serial_out_of_order stages), token limits 1-8, 0-300 items, arena concurrency 1-16, seeded per-item stage delays, real threads; "
                     "predicate = each item through each filter once, serial exclusion, common order of serial_in_order filters, live items <= limit, nothing in flight at return")
    oracle_tie(ctx, "pipeline", exe, ["pipe"], cases, pipe_oracle, describe=pdesc, bucket=lambda c: "pipe filters=%d" % c[4], timeout=1500)


def replay(ctx, rep):
    lib, err = ctx.build_lib("tbb")
    exe, err = ctx.build_driver("drv_pipe", libs=[lib], extra=["-D__TBB_BUILD"])
    if rep.get("tie") == "pipeline":
        oracle_tie(ctx, "pipeline", exe, ["pipe"], [rep["case"]], pipe_oracle, describe=pdesc)
    else:
        diff_tie(ctx, "pipebuf", exe, ["buf"], "pipebuf", [rep["case"]], oracle=buf_oracle, describe=describe)
