"""C15 — flow-graph buffering / ordering / joining / limiting nodes."""
import vlib
from vlib import diff_tie, oracle_tie, Finding
from props.common import BASE_TRUSTED

PROP_FILES = ["Properties_C15"]
TRUSTED = BASE_TRUSTED + [
    "modelled: the reservable item_buffer window (slot states, head/tail, capacity growth) and the put / get / reserve / release / consume handlers of buffer_node, queue_node and sequencer_node, "
    "driven sequentially (the node's aggregator serialises all operations)",
    "modelled, not verified (oracle runs on the real library only): priority_queue_node, limiter_node, join_node (queueing / reserving / key_matching), forwarding to successors, and all of them under real threads",
]
KN = {0: "buffer_node", 1: "queue_node", 2: "sequencer_node", 3: "priority_queue_node"}
ON = {1: "try_put", 2: "try_get", 3: "try_reserve", 4: "try_release", 5: "try_consume", 9: "dump"}


def sdescribe(c):
    ops = ["%s(%d)" % (ON[c[i]], c[i + 1]) if c[i] == 1 else ON[c[i]] for i in range(1, len(c), 2)]
    return "%s: %s%s" % (KN[c[0]], ", ".join(ops[:30]), " ..." if len(ops) > 30 else "")


class Ref:
    """the property as a sequential specification"""
    def __init__(self, kind):
        self.kind, self.items, self.res, self.next = kind, [], None, 0     # items: buffered values; res: reserved value; next: sequencer head
        self.slots = {}

    def step(self, op, v):
        k = self.kind
        if op == 1:
            if k == 2:
                if v < self.next or v in self.slots:
                    return 0
                self.slots[v] = True
                return 1
            self.items.append(v)
            return 1
        if op in (2, 3):
            if self.res is not None and (k != 0 or op == 3):
                return -1
            if k == 2:
                if self.next not in self.slots:
                    return -1
                x = self.next
                if op == 2:
                    del self.slots[x]; self.next += 1
                else:
                    self.res = x
                return x
            cand = [x for x in self.items]
            if k == 0 and self.res is not None:
                cand = list(self.items)
                cand.remove(self.res)
            if not cand:
                return -1
            if k == 1:
                x = self.items[0]
            elif k == 0:
                x = None            # any buffered, unreserved item is acceptable (decided by the caller)
            else:
                x = max(cand)
            return ("any", cand) if x is None else self._take(op, x)
        if op == 4:
            if self.res is None:
                return 0
            self.res = None
            return 1
        if op == 5:
            if self.res is None:
                return 0
            x = self.res
            self.res = None
            if k == 2:
                del self.slots[x]; self.next += 1
            else:
                self.items.remove(x)
            return 1

    def _take(self, op, x):
        if op == 2:
            self.items.remove(x)
        else:
            self.res = x
        return x


def seq_oracle(c, toks):
    dead = (not toks) or toks[0].startswith("CRASH") or toks[-1] == "HANG"
    if dead:
        toks = [t for t in toks if t.lstrip("-").isdigit()]
    ref = Ref(c[0])
    pos = 0
    for i in range(1, len(c), 2):
        op, v = c[i], c[i + 1]
        if op == 9 and c[0] == 3:
            continue
        if pos >= len(toks):
            return ("fgbuf-hang-or-crash", "%s: the node never returns from op %d (%s) or crashes" % (sdescribe(c), i // 2, ON[op]))
        if op == 9:
            if c[0] == 3:
                continue
            hd, tl = int(toks[pos]), int(toks[pos + 1])
            pos += 4 + 2 * max(0, tl - hd)
            continue
        r = int(toks[pos]); pos += 1
        want = ref.step(op, v)
        if isinstance(want, tuple):
            cand = want[1]
            if r not in cand:
                return ("fgbuf-wrong-result", "%s: op %d (%s) returned %d; the unreserved buffered items are %s%s" % (
                    sdescribe(c), i // 2, ON[op], r, cand[:10], " (the only buffered item is reserved by an earlier try_reserve)" if r == ref.res else ""))
            ref._take(op, r)
            continue
        if r != want:
            return ("fgbuf-wrong-result", "%s: op %d (%s%s) returned %d, the node's contract gives %d (buffered %s, reserved %s)" % (
                sdescribe(c), i // 2, ON[op], "(%d)" % v if op == 1 else "", r, want, (ref.items or sorted(ref.slots))[:10], ref.res))
    return None


def gen_seq(ctx, n, kinds=(0, 1, 2, 3)):
    """scripts that respect the reservation protocol of the node contract (release/consume only while a reservation is pending);
    the generator tracks the contract state exactly (counts suffice)"""
    rng = ctx.rng
    cases = []
    for _ in range(n):
        kind = rng.choice(kinds)
        nops = rng.choice([3, 8, 20, 60, 200])
        c = [kind]
        reserved = False
        count = 0          # buffered items (incl. the reserved one); sequencer: see slots/next
        slots, nxt = set(), 0
        val = 100
        tags = list(range(rng.choice([4, 10, 40])))
        rng.shuffle(tags)
        puts = 0
        for i in range(nops):
            o = rng.choice([4, 5, 5, 1, 2, 3]) if reserved else rng.choice([1, 1, 1, 2, 2, 3, 3])
            if o == 1:
                if kind == 2:
                    v = tags.pop() if tags and rng.random() < 0.8 else rng.randrange(45)
                    if v >= nxt and v not in slots:
                        slots.add(v)
                else:
                    v = rng.randrange(1000) if kind == 3 else val
                    val += 1
                    count += 1
                puts += 1
                c += [1, v]
            elif o == 2:
                c += [2, 0]
                if kind == 2:
                    if not reserved and nxt in slots:
                        slots.discard(nxt); nxt += 1
                elif kind == 0:
                    if count - (1 if reserved else 0) > 0:
                        count -= 1
                elif not reserved and count > 0:
                    count -= 1
            elif o == 3:
                c += [3, 0]
                if not reserved and ((kind == 2 and nxt in slots) or (kind != 2 and count > 0)):
                    reserved = True
            else:
                c += [o, 0]
                reserved = False
                if o == 5:
                    if kind == 2:
                        slots.discard(nxt); nxt += 1
                    else:
                        count -= 1
            if rng.random() < 0.05:
                c += [9, 0]
        if reserved:
            c += [4, 0]
        c += [9, 0]
        c += [2, 0] * (min(puts, 60) + 2)
        cases.append(c)
    # directed: the smallest reservation scenarios on every kind
    for kind in kinds:
        for tail in ([4, 0], [5, 0]):
            first = 0 if kind == 2 else 7
            cases.append([kind, 1, first, 3, 0, 2, 0] + tail + [9, 0, 1, first + 1, 2, 0, 2, 0, 9, 0])
            cases.append([kind, 1, first, 1, first + 1, 3, 0, 2, 0, 2, 0] + tail + [2, 0, 2, 0, 9, 0])
            # a reservation held across growth of the ring (4 -> 8 -> 16) and a drain by try_get
            for extra in (2, 3, 4, 5, 9, 17):
                c = [kind, 1, first, 3, 0]
                for j in range(extra):
                    c += [1, first + 1 + j]
                c += [9, 0] + [2, 0] * (extra + 1) + tail + [9, 0, 1, first + 40, 2, 0, 2, 0, 9, 0]
                cases.append(c)
    return cases


def model_cases(cases):
    return cases


def run(ctx):
    lib, err = ctx.build_lib("tbb")
    if err:
        return ctx.broken("libtbb build", err)
    exe, err = ctx.build_driver("drv_fgbuf", libs=[lib])
    if err:
        return ctx.broken("drv_fgbuf build", err)
    ctx.rules.append("fgbuf-seq: 3-200 sequential try_put / try_get / try_reserve / try_release / try_consume on the real buffer_node, queue_node and sequencer_node (shuffled, duplicate and stale tags), "
                     "with white-box dumps of head/tail/capacity/slot states, compared with BufModel; oracle = the node contracts (FIFO, exact sequence order, reservation protocol, conservation)")
    cases = gen_seq(ctx, ctx.scale(400, 6000), kinds=(0, 1, 2))
    diff_tie(ctx, "fgbuf-seq", exe, ["seq"], "buf", cases, oracle=seq_oracle, describe=sdescribe, bucket=lambda c: "seq %s" % KN[c[0]])
    ctx.rules.append("fgbuf-prio (oracle only): the same scripts on priority_queue_node: try_get / try_reserve give the largest buffered item, reservation protocol, conservation")
    oracle_tie(ctx, "fgbuf-prio", exe, ["seq"], gen_seq(ctx, ctx.scale(150, 2000), kinds=(3,)), seq_oracle, describe=sdescribe, bucket=lambda c: "seq prio")
    # limiter_node counters, op by op, against LimModel
    lrng = ctx.rng
    lcases = []
    for _ in range(ctx.scale(200, 5000)):
        th = lrng.choice([1, 1, 2, 3, 4, 6])
        c = [th]
        for _ in range(lrng.randint(2, 14)):
            r_ = lrng.random()
            if r_ < 0.55:
                c += [1, 0]
                for _ in range(lrng.choice([0, 0, 1, 1, 2])):
                    c += [4, lrng.randint(1, th + 2)]
                c += [3 if lrng.random() < 0.15 else 2, 0]
            else:
                c += [4, lrng.randint(1, th + 2)]
        lcases.append(c)
    ctx.rules.append("limiter-seq: limiter_node<int,int> (threshold 1-6) with a scripted successor: puts, integral decrements 1..threshold+2 between puts and from inside a put, successor accepting or "
                     "rejecting; result, my_count, my_tries, my_future_decrement after every operation compared with LimModel")
    diff_tie(ctx, "limiter-seq", exe, ["limseq"], "lim", lcases, describe=lambda c: "limiter_node<int,int>(threshold %d): %s" % (c[0], " ".join(
        {1: "put[", 2: "]accepted", 3: "]rejected", 4: "decrement(%d)" % c[i + 1]}.get(c[i], "?") for i in range(1, len(c) - 1, 2))), bucket=lambda c: "limiter th=%d" % c[0])
    # priority_queue_node: several operations in ONE aggregator batch (white box)
    pcases = []
    for _ in range(ctx.scale(300, 8000)):
        c = []
        sim_items, sim_res = [], None          # release / consume are only legal while a reservation is held: simulate to know
        for _ in range(lrng.randint(1, 6)):
            for _ in range(lrng.randint(1, 6)):
                r_ = lrng.random()
                if r_ < 0.45:
                    v_ = lrng.randint(1, 60); c += [1, v_]; sim_items.append(v_)
                elif r_ < 0.6:
                    c += [2, 0]
                    if sim_res is None and sim_items:
                        sim_items.remove(max(sim_items))
                elif r_ < 0.78 or sim_res is None:
                    c += [3, 0]
                    if sim_res is None and sim_items:
                        sim_res = max(sim_items); sim_items.remove(sim_res)
                elif r_ < 0.9:
                    c += [5, 0]; sim_res = None
                else:
                    c += [4, 0]; sim_items.append(sim_res); sim_res = None
            c += [9, 0]
        pcases.append(c)

    def pbdesc(c):
        nm = {1: "put(%d)", 2: "get", 3: "reserve", 4: "release", 5: "consume", 9: "|"}
        return "priority_queue_node<long>, operations handed to the aggregator handler in batches (| = end of batch): " + " ".join((nm[c[i]] % c[i + 1]) if c[i] == 1 else nm[c[i]] for i in range(0, len(c) - 1, 2))

    def prio_batch_oracle(c, toks):
        """The operations of one batch are all pending together, so any order of them is a legal linearization: a get / reserve may return an item put in the same batch or
        the largest item that was buffered before the batch and is still there - never a smaller old item while a larger old one is available; every item put is delivered exactly once."""
        if not toks or toks[-1] == "HANG" or toks[0].startswith("CRASH") or "-7" not in toks:
            return ("prio-batch-hang-or-crash", pbdesc(c)[:600])
        vals = [int(x) for x in toks]
        k7 = vals.index(-7)
        drained = vals[k7 + 1:]
        old, new_in_batch, reserved, k = [], [], None, 0          # old = buffered before this batch and still there; new_in_batch = put in this batch and still there
        delivered, allput = [], []
        for i in range(0, len(c) - 1, 2):
            op, v = c[i], c[i + 1]
            if op == 9:
                old += new_in_batch; new_in_batch = []
                continue
            if 2 * k + 1 >= k7:
                return ("prio-batch-short-output", pbdesc(c)[:600])
            st, val = vals[2 * k], vals[2 * k + 1]; k += 1
            if op == 1:
                new_in_batch.append(v); allput.append(v)
            elif op in (2, 3):
                if st == 1:
                    if old and val == max(old):
                        old.remove(val)          # equal values: taking the old maximum is always legal and keeps more options open than taking the equal new item
                    elif val in new_in_batch:
                        new_in_batch.remove(val)
                    elif val in old:
                        if val != max(old):
                            return ("prio-batch-not-highest", "%s: operation #%d returned %d although %d, buffered before this batch, was available" % (pbdesc(c)[:900], k - 1, val, max(old)))
                        old.remove(val)
                    else:
                        return ("prio-batch-foreign-item", "%s: operation #%d returned %d, which is not buffered (buffered: %s)" % (pbdesc(c)[:900], k - 1, val, sorted(old + new_in_batch)))
                    if op == 2:
                        delivered.append(val)
                    else:
                        if reserved is not None:
                            return ("prio-batch-two-reservations", "%s: operation #%d reserved an item while %d was still reserved" % (pbdesc(c)[:900], k - 1, reserved))
                        reserved = val
                elif reserved is None and old:
                    return ("prio-batch-refused", "%s: operation #%d failed although %s was buffered before the batch and nothing is reserved" % (pbdesc(c)[:900], k - 1, sorted(old)))
            elif op == 4:
                if reserved is not None:
                    new_in_batch.append(reserved); reserved = None
            else:
                if reserved is not None:
                    delivered.append(reserved); reserved = None
        if sorted(delivered + drained) != sorted(allput):
            return ("prio-batch-conservation", "%s: put %s, delivered by get / consumed reservations %s, drained at the end %s - every item must come out exactly once" % (pbdesc(c)[:900], sorted(allput), sorted(delivered), drained))
        if drained != sorted(drained, reverse=True):
            return ("prio-batch-drain-order", "%s: the final drain (one get at a time) returned %s, not in priority order" % (pbdesc(c)[:900], drained))
        return None
    ctx.rules.append("prio-batch (oracle only): priority_queue_node<long>, 1-6 batches of 1-6 put / get / reserve / release / consume records handed to the node's handle_operations as ONE batch each (what happens "
                     "when several threads queue operations behind an active handler): a get / reserve returns an item put in the same batch (all operations of a batch are concurrent) or the largest item buffered before it; every item put comes out exactly once (the node is drained at the end, in priority order)")
    oracle_tie(ctx, "prio-batch", exe, ["priobatch"], pcases, prio_batch_oracle, describe=pbdesc, bucket=lambda c: "prio-batch ops=%d" % (len(c) // 2))
    # join_node (queueing), op by op, against JoinModel
    jcases = []
    for _ in range(ctx.scale(250, 6000)):
        N = lrng.choice([2, 2, 3])
        c = [N]
        val = [0] * N
        for _ in range(lrng.randint(3, 30)):
            r_ = lrng.random()
            if r_ < 0.68:
                p_ = lrng.randrange(N) if lrng.random() < 0.7 else 0
                val[p_] += 1
                c += [1, p_, 1000 * (p_ + 1) + val[p_]]
            elif r_ < 0.76:
                c += [3, 0, 0]
            elif r_ < 0.84:
                c += [2, 0, 0]
            elif r_ < 0.92:
                c += [4, 0, 0]
            else:
                c += [6, 0, 0]
        jcases.append(c)

    def jdesc(c):
        names = {2: "successor accepts", 3: "successor rejects", 4: "successor pulls (try_get)", 6: "successor registers again"}
        return "join_node<tuple of %d, queueing> with a scripted successor: %s" % (c[0], ", ".join(
            ("port%d.put(%d)" % (c[i + 1], c[i + 2])) if c[i] == 1 else names.get(c[i], "?") for i in range(1, len(c) - 2, 3)))

    def join_oracle(c, toks):
        """i-th tuple = i-th message of every port; nothing delivered twice"""
        if "-7" not in toks:
            return ("join-hang-or-crash", jdesc(c) + ": " + " ".join(toks[-6:]))
        N = c[0]
        out = [int(x) for x in toks[toks.index("-7") + 1:]]
        puts = [[c[i + 2] for i in range(1, len(c) - 2, 3) if c[i] == 1 and c[i + 1] == p_] for p_ in range(N)]
        tuples = [out[k:k + N] for k in range(0, len(out), N)]
        for k, t in enumerate(tuples):
            want = [puts[p_][k] if k < len(puts[p_]) else None for p_ in range(N)]
            if t != want:
                return ("join-tuple-mismatch", "%s: tuple #%d delivered is %s, the %d-th messages of the ports are %s" % (jdesc(c), k, t, k, want))
        return None
    ctx.rules.append("join-seq: join_node<tuple<long,long[,long]>, queueing> with a scripted successor (accepting / rejecting, pulling with try_get, registering again), 3-30 operations, drained after each: "
                     "result, ports_with_no_items, forwarder_busy, successor registered, tuples delivered and every port's buffer size after every operation, and all tuples, compared with JoinModel; "
                     "oracle: the i-th tuple is the i-th message of every port")
    diff_tie(ctx, "join-seq", exe, ["joinseq"], "join", jcases, oracle=join_oracle, describe=jdesc, bucket=lambda c: "join N=%d" % c[0])
    # join_node (reserving) fed by queue_nodes, op by op, against JoinRModel
    rcases_j = []
    for _ in range(ctx.scale(250, 6000)):
        N = lrng.choice([2, 2, 3])
        c = [N]
        val = [0] * N
        for _ in range(lrng.randint(3, 30)):
            r_ = lrng.random()
            if r_ < 0.68:
                p_ = lrng.randrange(N) if lrng.random() < 0.7 else N - 1
                val[p_] += 1
                c += [1, p_, 1000 * (p_ + 1) + val[p_]]
            elif r_ < 0.76:
                c += [3, 0, 0]
            elif r_ < 0.84:
                c += [2, 0, 0]
            elif r_ < 0.92:
                c += [4, 0, 0]
            else:
                c += [6, 0, 0]
        rcases_j.append(c)

    def jrdesc(c):
        return jdesc(c).replace("queueing", "reserving (one queue_node per port)")

    def joinr_oracle(c, toks):
        if "-7" not in toks or "-8" not in toks:
            return ("join-hang-or-crash", jrdesc(c) + ": " + " ".join(toks[-6:]))
        k8 = len(toks) - 2
        if toks[k8] != "-8" or toks[k8 + 1] != "0":
            return ("join-reservation-left-pending", "%s: after an operation completed a port or a sender still holds a reservation (%s observations) - reservations must be consumed together or all released" % (jrdesc(c), toks[k8 + 1]))
        return join_oracle(c, toks[:k8])
    ctx.rules.append("joinr-seq: join_node<tuple<long,long[,long]>, reserving> fed by one queue_node per port, scripted successor, drained after each of 3-30 operations: result, ports_with_no_inputs, forwarder_busy, "
                     "successor registered, tuples delivered, every sender's buffer size and whether it is in the port's predecessor cache, and all tuples, compared with JoinRModel; oracle: the i-th tuple is the i-th "
                     "message of every port and no reservation is pending after an operation")
    diff_tie(ctx, "joinr-seq", exe, ["joinrseq"], "joinr", rcases_j, oracle=joinr_oracle, describe=jrdesc, bucket=lambda c: "joinr N=%d" % c[0])
    # real threads
    runs = []
    for r in range(ctx.scale(6, 60)):
        P = [1, 2, 4, 16][r % 4]
        s = ctx.seed * 100 + r
        runs += [(["mtqueue", P, s, 3000], "queue_node fed by 1-3 threads into a serial rejecting function_node: per-producer order, no loss/duplicate"),
                 (["mtseq", P, s, 2000], "sequencer_node fed shuffled tags by 1-4 threads: exactly 0..n-1 in order; duplicates refused"),
                 (["mtlimiter", P, s, 2000], "limiter_node with decrementer: never more than threshold bodies in flight, nothing lost"),
                 (["mtjoin", P, s, 1500, r % 3], "join_node (queueing/reserving/key_matching by turns) fed by two threads: only matching complete tuples")]
    runs += [(["simplenodes", [2, 4, 8][j % 3], ctx.seed * 10 + j, 40], "overwrite_node / write_once_node (latest / first value to present and future successors, clear), broadcast_node (1-3 putting threads, "
              "1-4 successors: all, per producer in order), split_node and indexer_node (every element / tagged message to the matching port)") for j in range(ctx.scale(2, 12))]
    runs += [(["limdec", 2, ctx.seed, 0], "limiter_node<int,int> with thresholds 1-6, 0..threshold messages outstanding, integral decrements 1..threshold+1 sent from inside the put, by a second thread "
                                       "during the put, or between puts: forwarded minus ALL requested decrements never exceeds the threshold"),
             (["limdec", 4, ctx.seed + 1, 0], "limiter_node<int,int> integral decrements (as above)")]
    bad = 0
    ctx.rules.append("fgbuf-mt (oracle only): queue / sequencer / limiter / join graphs with real threads, 1-16 workers")
    for args, what in runs:
        rc, lines, err = ctx.run_driver(exe, args, timeout=300)
        ctx.count(("fgbuf-mt", tuple(args)), True, "mt %s" % args[0])
        t = (lines or ["no output"])[-1].split()
        if rc != 0 or len(t) < 4 or any(x != "0" for x in t[1::2]):
            bad += 1
            ctx.add(Finding("violation", "fgbuf-mt-" + args[0], "%s (P=%d, seed %d): %s rc=%s" % (what, args[1], args[2], " ".join(t), rc), {"tie": "fgbuf-mt", "args": args}))
            if bad >= 3:
                break
    ctx.ties.append({"name": "fgbuf-mt (oracle only)", "cases": len(runs), "disagreements": bad})


def replay(ctx, rep):
    lib, err = ctx.build_lib("tbb")
    exe, err = ctx.build_driver("drv_fgbuf", libs=[lib])
    if rep.get("tie") == "fgbuf-seq":
        diff_tie(ctx, "fgbuf-seq", exe, ["seq"], "buf", [rep["case"]], oracle=seq_oracle, describe=sdescribe)
    elif rep.get("tie") == "limiter-seq":
        diff_tie(ctx, "limiter-seq", exe, ["limseq"], "lim", [rep["case"]])
    elif rep.get("tie") == "joinr-seq":
        diff_tie(ctx, "joinr-seq", exe, ["joinrseq"], "joinr", [rep["case"]])
    elif rep.get("tie") == "join-seq":
        diff_tie(ctx, "join-seq", exe, ["joinseq"], "join", [rep["case"]])
    elif rep.get("tie") == "fgbuf-prio":
        oracle_tie(ctx, "fgbuf-prio", exe, ["seq"], [rep["case"]], seq_oracle, describe=sdescribe)
    else:
        print(ctx.run_driver(exe, rep["args"], timeout=300))
    for f in ctx.findings:
        print(f.kind, f.key, f.detail)
