"""C04 — cancellation reaches every descendant context and nothing else. See DESIGN.md section 4/C04 and 8(a)."""
import vlib
from vlib import Finding
from props.common import BASE_TRUSTED

PROP_FILES = ["Properties_C04"]
TRUSTED = BASE_TRUSTED + [
    "modelled (hand-written, lock-block granularity): cancel_group_execution, cancellation_disseminator::propagate_task_group_state, thread_data::propagate_task_group_state, bind_to_impl",
    "the model is NOT tied step by step to the code (no gated whole-library run yet): the tie is the real-thread directed replay of the refutation witness and random real-thread runs",
    "partial: the general theorem 'every bound descendant is cancelled' for the repaired protocol is established only for small configurations by exhaustive evaluation inside Coq",
]


def run(ctx):
    lib, err = ctx.build_lib("tbb")
    if err:
        return ctx.broken("libtbb build", err)
    exe, err = ctx.build_driver("drv_ctx", libs=[lib], opt="-O2")
    if err:
        return ctx.broken("drv_ctx build", err)
    # directed replay of the Coq witness (cancel_reaches_descendants_refuted_for_two_mutexes) on the real library:
    # 10^6 filler contexts keep the propagator busy in the parent's thread list while another thread binds a child
    ctx.rules.append("wide-window replay: root ctx1, ctx2 beneath it on the main thread, N filler contexts in the same thread list, a second thread binds a child beneath ctx2 "
                     "d microseconds after a third thread started cancelling ctx1; verdict after all calls returned; N in {0, 3e5, 1e6}, d in {0, 500, 2000, 10000, 100000}")
    bad = 0
    for nfill in (0, 300000, 1000000):
        for delay in (0, 500, 2000, 10000, 100000):
            reps = ctx.scale(1, 4)
            for r in range(reps):
                rc, lines, err = ctx.run_driver(exe, ["wide", nfill, delay], timeout=120)
                ctx.count(("wide", nfill, delay, r), True, "wide nfill=%d" % nfill)
                if len(ctx.samples) < 3:
                    ctx.sample({"replay": "wide nfill=%d delay_us=%d" % (nfill, delay), "impl": (lines or ["?"])[-1]})
                msg = None
                if rc != 0 or not lines:
                    msg = "driver rc=%s %s" % (rc, err[-100:])
                else:
                    t = lines[-1].split()
                    if t[1] == "0" and t[3] == "1":
                        msg = "a context bound beneath ctx2 while the cancellation of ctx2's parent was propagating stays uncancelled after every call returned (child=0, parent=1)"
                if msg:
                    bad += 1
                    if bad <= 1:
                        ctx.add(Finding("violation", "bind-during-propagation-misses-cancel",
                                        "contexts ctx1 > ctx2 > child; %d filler contexts; child bound %d us after cancel(ctx1) started: %s" % (nfill, delay, msg),
                                        {"tie": "ctx-wide", "args": ["wide", nfill, delay]}))
    ctx.ties.append({"name": "ctx-wide (directed replay of the Coq witness)", "cases": ctx.evaluations, "disagreements": bad})
    n = ctx.scale(60, 2000)
    bad2 = 0
    for i in range(n):
        rc, lines, err = ctx.run_driver(exe, ["rand", ctx.seed * 100000 + i], timeout=60)
        ctx.count(("rand", i), True, "rand")
        if rc != 0 or not lines or lines[-1].split()[1::2] != ["0", "0"]:
            bad2 += 1
            ctx.add(Finding("violation", "ctx-rand", "random context tree seed %d: %s rc=%s" % (ctx.seed * 100000 + i, (lines or ["no output"])[-1], rc),
                            {"tie": "ctx-rand", "args": ["rand", ctx.seed * 100000 + i]}))
            break
    ctx.ties.append({"name": "ctx-rand (oracle only)", "cases": n, "disagreements": bad2})
    nr = ctx.scale(3, 40)
    bad3 = 0
    for i in range(nr):
        rc, lines, err = ctx.run_driver(exe, ["race", ctx.seed * 1000 + i], timeout=120)
        ctx.count(("race", i), True, "race")
        if rc != 0 or not lines or lines[-1].split()[1::2] != ["0", "0", "0"]:
            bad3 += 1
            ctx.add(Finding("violation", "ctx-cancel-race", "2-6 threads cancel one context at once (300 rounds, seed %d): %s rc=%s (BAD = not exactly one caller got true / a cancelled context answered true again / "
                            "reset did not make it cancellable again; SPURIOUS = sibling, isolated or parent context marked; STICKY = not cancelled afterwards / still cancelled after reset)" % (
                                ctx.seed * 1000 + i, (lines or ["no output"])[-1], rc), {"tie": "ctx-race", "args": ["race", ctx.seed * 1000 + i]}))
            break
    nl = ctx.scale(3, 30)
    bad4 = 0
    for i in range(nl):
        rc, lines, err = ctx.run_driver(exe, ["life", ctx.seed * 1000 + 500 + i, 40], timeout=120)
        ctx.count(("life", i), True, "life")
        if rc != 0 or not lines or lines[-1].split()[1::2] != ["0", "0"]:
            bad4 += 1
            ctx.add(Finding("violation", "ctx-cancel-after-reset-misses-bound-descendant", "a context tree used over several rounds (contexts stay bound while an ancestor is reset - explicitly or by task_group::wait - "
                            "and cancelled again; 40 rounds, seed %d): %s rc=%s (MISSED = after cancel_group_execution of an ancestor returned, a context still bound beneath it is not cancelled; RESETBAD = still cancelled after reset())" % (
                                ctx.seed * 1000 + 500 + i, (lines or ["no output"])[-1], rc), {"tie": "ctx-life", "args": ["life", ctx.seed * 1000 + 500 + i, 40]}))
            break
    ctx.rules.append("life: chains of 1-3 explicit contexts beneath an isolated one, bound once, then 1-3 cycles of reset-all / cancel one ancestor: every context still bound beneath it is cancelled; "
                     "a task_group (wait() resets its context) with a long-lived child context bound beneath it in the first round and reused in the second, cancelled through tg.cancel()")
    ctx.ties.append({"name": "ctx-life (oracle only)", "cases": nl, "disagreements": bad4})
    ctx.rules.append("race: 2-6 threads call cancel_group_execution on one fresh bound context at once: exactly one true; it stays cancelled until reset(); sibling / isolated / parent contexts untouched")
    ctx.ties.append({"name": "ctx-race (oracle only)", "cases": nr, "disagreements": bad3})
    # directed replay of the second refutation witness (cancel_misses_child_of_parentless_context_refuted): libtbb compiled under the prelude, delays injected before the accesses to the child's flag
    import os
    glib, err = ctx.build_lib("tbb", gated=True)
    if err:
        return ctx.broken("gated libtbb build", err)
    rexe, err = ctx.build_driver("drv_ctxroot", libs=[glib], extra=["-include", os.path.join(vlib.VERIF, "harness", "prelude", "verif_atomic.h")], opt="-O1")
    if err:
        return ctx.broken("drv_ctxroot build", err)
    rcases = [[ctx.seed * 10 + i, ctx.scale(8000, 60000), p] for i, p in enumerate([64, 160, 96])]
    ctx.rules.append("ctx-root: a context is bound beneath a parent-less (isolated) context while that context is cancelled by another thread; libtbb runs under the atomic prelude and seeded delays are injected before "
                     "every access to the child's my_cancellation_requested (this widens the window between bind_to_impl's load of the parent's flag and its store); 3 x 8000 rounds (thorough: 3 x 60000): "
                     "once cancel_group_execution has returned and the child is bound beneath the cancelled context, the child is cancelled")

    def root_oracle(c, toks):
        if not toks or toks[0].startswith("CRASH") or toks[-1] == "HANG" or len(toks) < 4:
            return ("ctx-root-hang-or-crash", "bind beneath a parent-less context racing with its cancellation: " + " ".join(toks)[-80:])
        if toks[1] != "0":
            return ("bind-beneath-parentless-context-misses-cancel", "isolated context `root`; thread A binds a child context beneath it (parallel_for with an explicit bound context inside a body running under `root`), "
                    "thread B calls root.cancel_group_execution(); delays of up to 120 us injected before accesses to the child's flag (probability %d/256, seed %d): in %s of %s rounds the cancel call has returned, "
                    "the child is bound beneath `root` and child.is_group_execution_cancelled() is false" % (c[2], c[0], toks[1], toks[3]))
        return None
    vlib.oracle_tie(ctx, "ctx-root", rexe, [], rcases, root_oracle, bucket=lambda c: "ctx-root perturb=%d" % c[2], timeout=1500)
    ctx.rules.append("rand: 2-4 threads building nested context chains beneath a common root while one of them cancels the root or a sibling subtree; "
                     "verdict at quiescence: level-1 contexts beneath a cancelled root are cancelled, an unrelated isolated context never is")


def replay(ctx, rep):
    if rep.get("tie") == "ctx-root":
        import os
        glib, err = ctx.build_lib("tbb", gated=True)
        rexe, err = ctx.build_driver("drv_ctxroot", libs=[glib], extra=["-include", os.path.join(vlib.VERIF, "harness", "prelude", "verif_atomic.h")], opt="-O1")
        print(ctx.run_driver(rexe, [], [rep["case"]], timeout=1500))
        return
    lib, err = ctx.build_lib("tbb")
    exe, err = ctx.build_driver("drv_ctx", libs=[lib], opt="-O2")
    rc, lines, err = ctx.run_driver(exe, rep["args"], timeout=120)
    print(rc, lines)
