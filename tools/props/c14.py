"""C14 — flow graph: conservation, node limits, wait_for_all means idle."""
import vlib
from vlib import Finding
from props.common import BASE_TRUSTED

PROP_FILES = ["Properties_C14"]
TRUSTED = BASE_TRUSTED + [
    "modelled: function_input_base — concurrency counter, input queue of the queueing policy, the handler operations tryput_bypass / app_body_bypass / try_fwd (serialised by the node's aggregator)",
    "modelled, not verified (oracle runs on the real library only): successor caches and fan-out, input_node, multifunction/continue/async nodes, reserve_wait, cancellation and exceptions in a graph, "
    "graph::wait_for_all (checked to return only after every body has finished)",
]


def describe(c):
    ops = ["try_put(%d)" % c[i + 1] if c[i] == 1 else "a body finishes" for i in range(2, len(c), 2)]
    return "function_node(concurrency %d, %s): %s%s" % (c[0], "queueing" if c[1] else "rejecting", ", ".join(ops[:25]), " ..." if len(ops) > 25 else "")


def gen(ctx, n):
    rng = ctx.rng
    cases = []
    for _ in range(n):
        maxc = rng.choice([1, 1, 2, 3, 4])
        q = rng.choice([1, 1, 0])
        nops = rng.choice([4, 10, 25, 60])
        c = [maxc, q]
        val = 1
        for i in range(nops):
            if rng.random() < 0.6:
                c += [1, val]; val += 1
            else:
                c += [2, 0]
        cases.append(c)
    return cases


def run(ctx):
    lib, err = ctx.build_lib("tbb")
    if err:
        return ctx.broken("libtbb build", err)
    exe, err = ctx.build_driver("drv_fnode", libs=[lib])
    if err:
        return ctx.broken("drv_fnode build", err)
    name = "fnode-seq"
    cases = gen(ctx, ctx.scale(120, 2500))
    ctx.rules.append("fnode-seq: scripts of try_put / 'a body finishes' on a real function_node (concurrency 1-4, queueing and rejecting) whose bodies block until the script releases them; per op the "
                     "result and the number of bodies started, at the end my_concurrency, queue length and the start order are compared with FnModel; oracle: running bodies <= limit, every accepted "
                     "message finished once, wait_for_all did not return while a body was running")
    lines = []
    guard = 0
    while len(lines) < len(cases) and guard < 20:
        guard += 1
        rc, out, err = ctx.run_driver(exe, ["seq"], cases[len(lines):], timeout=900)
        lines += out
        if len(lines) < len(cases) and (not out or not out[-1].endswith("HANG")):
            lines.append("CRASH rc=%s" % rc)
    model = ctx.modelrun("fnode", cases)
    nmis = nviol = 0
    for i, c in enumerate(cases):
        ctx.count((name, tuple(c)), True, "fnode max=%d %s" % (c[0], "queueing" if c[1] else "rejecting"))
        toks = lines[i].split()
        rep = {"tie": name, "case": c, "case_text": describe(c), "impl": lines[i][:2000], "model": " ".join(map(str, model[i]))[:2000]}
        viol = None
        if not toks or toks[0].startswith("CRASH") or toks[-1] == "HANG" or "MAXRUN" not in toks:
            viol = ("fnode-hang-or-crash", "%s: %s" % (describe(c), " ".join(toks)[-80:]))
        else:
            k = toks.index("MAXRUN")
            maxrun, acc, fin, early = int(toks[k + 1]), int(toks[k + 3]), int(toks[k + 4]), int(toks[k + 6])
            if maxrun > c[0]:
                viol = ("fnode-limit-exceeded", "%s: %d bodies ran at once" % (describe(c), maxrun))
            elif acc != fin:
                viol = ("fnode-lost-or-duplicated", "%s: %d messages accepted, %d bodies finished when wait_for_all returned" % (describe(c), acc, fin))
            elif early:
                viol = ("fnode-wait-for-all-early", "%s: wait_for_all returned while a body was still running" % describe(c))
        if viol:
            nviol += 1
            if nviol <= 3:
                ctx.add(Finding("violation", viol[0], "%s: %s" % (name, viol[1]), rep))
            continue
        if toks[:k] == [str(x) for x in model[i]]:
            ctx.traces_validated += 1
            continue
        nmis += 1
        if nmis <= 3:
            ctx.add(Finding("broken", "broken:tie:" + name, "correspondence %s: %s: results / start counts / start order differ from FnModel (limit, conservation and wait_for_all oracles hold on this run)" % (name, describe(c)), rep))
    ctx.ties.append({"name": name, "cases": len(cases), "disagreements": nmis, "oracle_violations": nviol})
    # ---- rejecting node behind a buffering sender: quiescent white-box states compared with PullModel
    rng = ctx.rng
    pcases = []
    for _ in range(ctx.scale(60, 1500)):
        mx = rng.choice([1, 1, 2, 3])
        c = [mx]
        v = 10
        running = 0
        for _ in range(rng.randint(3, 24)):
            if rng.random() < 0.6:
                c += [1, v]
                v += 1
            else:
                c += [2, 0]
        pcases.append(c)
    ctx.rules.append("fnode-pull: queue_node -> rejecting function_node (limit 1-3) with script-released bodies; after every put / body release the graph settles and my_concurrency, items in the queue, "
                     "'queue registered as predecessor', forwarder_busy and the bodies started are compared with PullModel (settled after each external operation); nothing may be left in the queue at the end")

    def pull_oracle(c, toks):
        if not toks or toks[-1] == "HANG" or toks[0].startswith("CRASH"):
            return ("fnode-pull-hang", "queue_node -> rejecting function_node(limit %d), ops %s: hang/crash" % (c[0], c[1:]))
        if "LEFT" in toks and toks[toks.index("LEFT") + 1] != "0":
            return ("fnode-message-stranded", "queue_node -> rejecting function_node(limit %d), ops %s: wait_for_all returned with %s message(s) left in the queue" % (c[0], c[1:], toks[toks.index("LEFT") + 1]))
        return None
    rc, plines, err = ctx.run_driver(exe, ["pullseq"], pcases, timeout=900)
    pmodel = ctx.modelrun("pull", pcases)
    pbad = 0
    for c, ln, mo in zip(pcases, plines + ["CRASH"] * (len(pcases) - len(plines)), pmodel):
        ctx.count(("fnode-pull", tuple(c)), True, "fnode-pull limit=%d" % c[0])
        toks = ln.split()
        v = pull_oracle(c, toks)
        if v:
            pbad += 1
            ctx.add(Finding("violation", v[0], v[1], {"tie": "fnode-pull", "case": c}))
            continue
        k = toks.index("LEFT") if "LEFT" in toks else len(toks)
        if toks[:k] != [str(x) for x in mo]:
            pbad += 1
            if pbad <= 3:
                ctx.add(Finding("broken", "broken:tie:fnode-pull", "queue_node -> rejecting function_node(limit %d), ops %s: settled states (concurrency, queued, pull mode, forwarder_busy, started)* = %s differ from PullModel's %s" % (
                    c[0], c[1:], " ".join(toks[:k]), " ".join(str(x) for x in mo)), {"tie": "fnode-pull", "case": c}))
        else:
            ctx.traces_validated += 1
    ctx.ties.append({"name": "fnode-pull", "cases": len(pcases), "disagreements": pbad})
    bad = 0
    runs = []
    for r in range(ctx.scale(10, 150)):
        runs.append(["mt", [1, 2, 4, 16][r % 4], ctx.seed * 100 + r, 3000, [1, 2, 3, 0][(r // 4) % 4], 1 + r % 3])
    ctx.rules.append("fnode-mt (oracle only): 1-3 threads feed a function_node of concurrency 1/2/3/unlimited that broadcasts to 1-3 serial/unlimited successors: limit respected, each message "
                     "processed once, each output delivered once to every successor, wait_for_all returns idle")
    for r in range(ctx.scale(12, 120)):
        runs.append(["mtmix", [1, 2, 4, 16][r % 4], ctx.seed * 100 + r, 400, r % 3, (r // 3) % 2])
    ctx.rules.append("fnode-mtmix (oracle only): a function_node broadcasts to a queueing serial, an unlimited and a REJECTING successor (rejecting serial function_node or a full limiter_node) connected "
                     "first / in the middle / last: the queueing and unlimited successors receive every output exactly once whatever the rejecting one does")
    for r in range(ctx.scale(8, 100)):
        runs.append(["zoo", [1, 2, 4, 8][r % 4], ctx.seed * 100 + r, [1, 10, 100, 400][(r // 4) % 4]])
    ctx.rules.append("fnode-zoo (oracle only): input_node -> limited function_node -> multifunction_node routing even/odd; continue_node with 1-4 predecessors; async_node with reserve_wait / gateway "
                     "results from foreign threads; an exception in a body: every produced value once on the right port, one firing per complete set of signals, wait_for_all not before release_wait, nothing starts after the throw")
    for r in range(ctx.scale(3, 20)):
        runs.append(["greset", 0, ctx.seed * 100 + 70 + r, 0])
    ctx.rules.append("fnode-greset (oracle only): graphs run, reset (default / rf_reset_bodies / rf_reset_protocol; after a normal run, a cancellation, an exception) and run again twice: a continue_node joining 2-4 "
                     "edge-connected predecessors fires exactly once per round, a limiter with a continue_msg decrementer still lets everything through, a queue -> function pipeline delivers everything once")
    for r in range(ctx.scale(6, 60)):
        runs.append(["latedge", [2, 4, 8][r % 3], ctx.seed * 100 + r, [64, 300][r % 2], ctx.scale(150, 1500)])
    ctx.rules.append("fnode-latedge (oracle only): senders that keep an untaken message offer it again when a successor registers later / again: input_node activated without successors + try_get then make_edge; "
                     "input_node whose item a reserving join port rejected, then a second consumer attached; input_node -> rejecting serial function_node (edge flips push/pull, 150-1500 graphs); "
                     "queue / buffer / priority_queue / sequencer / overwrite / write_once nodes filled before their first successor is attached: everything produced or put is processed exactly once")
    for r in range(ctx.scale(12, 150)):
        runs.append(["mtpull", [2, 4, 4, 8][r % 4], ctx.seed * 100 + r, 1500, 1 + (r // 4) % 2])
    ctx.rules.append("fnode-mtpull (oracle only): queue_node -> REJECTING function_node of concurrency 1/2; after a preparation in which the node's forwarder ran while the node was full, 1500 rounds put "
                     "messages at about the time the running bodies return (rejection / predecessor registration racing with the last body finishing); after every round wait_for_all must mean idle: "
                     "everything put processed exactly once, nothing left in the queue")
    for args in runs:
        rc, lines2, err = ctx.run_driver(exe, args, timeout=300)
        ctx.count(("fnode-mt", tuple(args)), True, "fnode-%s" % args[0])
        t = (lines2 or ["no output"])[-1].split()
        if rc != 0 or len(t) < 6 or any(x != "0" for x in t[1::2]):
            bad += 1
            what = ("function_node(limit %d) -> %d successors" % (args[4], args[5])) if args[0] == "mt" else ("queue_node -> rejecting function_node(concurrency %d), %d rounds" % (args[4], args[3])) if args[0] == "mtpull" else "graphs reset and run again (CONT = a continue_node with several edge-connected predecessors does not fire exactly once per round after graph::reset; LIM = limiter with continue_msg decrementer; FLOW = queue -> function_node)" if args[0] == "greset" else ("late / repeated successor registration (A: input_node try_get then make_edge, B: after a reserving join rejected, C: %d graphs input_node -> rejecting function_node of %d items, LATE: buffering nodes filled before make_edge)" % (args[4], args[3])) if args[0] == "latedge" else ("input / multifunction / continue / async nodes and an exception, %d items" % args[3]) if args[0] == "zoo" else (
                "function_node broadcasting to [queueing, unlimited] plus a %s connected %s" % (["rejecting serial function_node", "full limiter_node"][args[5]], ["first", "in the middle", "last"][args[4]]))
            ctx.add(Finding("violation", "fnode-" + args[0], "%s, %d worker threads, seed %d: %s rc=%s" % (what, args[1], args[2], " ".join(t), rc), {"tie": "fnode-mt", "args": args}))
            if bad >= 3:
                break
    ctx.ties.append({"name": "fnode-mt (oracle only)", "cases": len(runs), "disagreements": bad})


def replay(ctx, rep):
    lib, err = ctx.build_lib("tbb")
    exe, err = ctx.build_driver("drv_fnode", libs=[lib])
    if rep.get("tie") == "fnode-pull":
        print(ctx.run_driver(exe, ["pullseq"], [rep["case"]], timeout=300)[1])
        print(ctx.modelrun("pull", [rep["case"]]))
        return
    if rep.get("tie") == "fnode-seq":
        print(ctx.run_driver(exe, ["seq"], [rep["case"]], timeout=300)[1])
        print(ctx.modelrun("fnode", [rep["case"]]))
    else:
        print(ctx.run_driver(exe, rep["args"], timeout=300))
