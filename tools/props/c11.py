"""C11 — concurrent_vector growth. See DESIGN.md section 4/C11."""
import vlib
from vlib import diff_tie, Finding
from props.common import BASE_TRUSTED, boundary64

PROP_FILES = ["Properties_C11"]
TRUSTED = BASE_TRUSTED + [
    "modelled: segment_index_of/segment_base/segment_size and the size bookkeeping of push_back/grow_by/grow_to_at_least "
    "(one atomic RMW on my_size fixes a call's range, so interleavings = call sequences)",
    "modelled, not verified: segment allocation protocol (first-block election, table extension, failure tagging) — explored (not proved) by "
    "running the real vector under the deterministic atomic-access gate with a throwing allocator and by real-thread oracle runs; "
    "element construction is observed through an allocator-level construct() hook",
]


def describe(c):
    names = {0: "grow_by", 1: "push_back", 2: "grow_to_at_least"}
    return "vector(size0=%d): " % c[0] + "; ".join("%s(%d)" % (names.get(c[i], "?"), c[i + 1]) for i in range(1, len(c) - 1, 2))


def vec_oracle(c, toks):
    """Property text on the implementation's output: ranges tile [0,size) in call order; grow_to_at_least(n)
    leaves size >= n with everything below n constructed; no call hangs."""
    if toks and toks[-1] == "HANG":
        k = (len(toks) - 1) // 3
        op, arg = c[1 + 2 * k], c[2 + 2 * k]
        key = "g2al-no-return-ge-2^31" if (op == 2 and arg >= 2 ** 31) else "vec-call-hangs"
        return (key, "%s: call #%d does not return (watchdog) — elements below n are never constructed" % (describe(c), k))
    if "ADDR-MISMATCH" in toks or any(t.startswith("CRASH") for t in toks):
        return ("vec-crash-or-address", "%s: %s" % (describe(c), " ".join(toks)[:200]))
    try:
        v = [int(t) for t in toks]
    except ValueError:
        return ("vec-bad-output", " ".join(toks)[:200])
    nops = (len(c) - 1) // 2
    if len(v) != 3 * nops + 1:
        return ("vec-bad-output", "wrong arity")
    pos = c[0]
    for k in range(nops):
        s, e, st = v[3 * k:3 * k + 3]
        op, arg = c[1 + 2 * k], c[2 + 2 * k]
        if s != -1:
            if s != pos or e <= s:
                return ("vec-ranges-do-not-tile", "%s: call #%d constructed [%d,%d) but the previous size was %d" % (describe(c), k, s, e, pos))
            pos = e
        if op == 2 and arg > pos:
            return ("g2al-not-covered", "%s: after grow_to_at_least(%d) only [0,%d) is constructed" % (describe(c), arg, pos))
        if op == 0 and arg > 0 and s == -1:
            return ("vec-grow-by-constructs-nothing", "%s: call #%d" % (describe(c), k))
    if v[-1] != pos:
        return ("vec-size-mismatch", "%s: size()=%d but constructed prefix is %d" % (describe(c), v[-1], pos))
    return None


def gen_vec_cases(ctx):
    rng = ctx.rng
    cases = []
    b = [x for x in boundary64() if x <= 70000]
    for _ in range(ctx.scale(400, 6000)):
        ops = [0]
        total = 0
        for _ in range(rng.randint(1, 8)):
            op = rng.choice([0, 0, 1, 2, 2])
            if op == 0:
                a = rng.choice(b) if rng.random() < 0.7 else rng.randint(0, 300)
            elif op == 1:
                a = 0
            else:
                a = rng.choice([0, max(0, total - rng.randint(0, 5)), total + rng.choice(b[:40]), rng.choice(b)])
            total = max(total, a) if op == 2 else total + (a if op == 0 else 1)
            if total > 3_000_000:
                break
            ops += [op, a]
        cases.append(ops)
    return cases


def run(ctx):
    lib, err = ctx.build_lib("tbb")
    if err:
        ctx.broken("libtbb build", err)
        return
    exe, err = ctx.build_driver("drv_vec", libs=[lib], opt="-O2")
    if err:
        ctx.broken("drv_vec build", err)
        return
    # --- tie 1: index arithmetic on boundary-dense 64-bit indices
    b = boundary64()
    cases = [b[i:i + 16] for i in range(0, len(b), 16)]
    for _ in range(ctx.scale(200, 5000)):
        cases.append([ctx.rng.getrandbits(ctx.rng.choice([3, 8, 16, 31, 32, 33, 63, 64])) for _ in range(16)])
    ctx.rules.append("segidx: every 2^k+{-2..2} index below 2^64 plus seeded random indices of 3..64 bits; distinct = distinct input tuples")
    diff_tie(ctx, "segidx", exe, ["segidx"], "segidx", cases, bucket=lambda c: "segidx")
    # --- tie 2: growth bookkeeping, sequential op lists (exact ranges compared with the model)
    cases = gen_vec_cases(ctx)
    # directed big cases (aimed at the int-cast boundary of grow_to_at_least)
    big = [[0, 2, 2 ** 31 - 1], [0, 2, 2 ** 31]]
    if not ctx.quick():
        big += [[0, 0, 5, 2, 2 ** 32 + 3], [0, 2, 2 ** 31 + 7, 2, 2 ** 32], [0, 0, 2 ** 31 + 1, 1, 0, 2, 2 ** 31 + 5]]
    ctx.rules.append("vec: seeded random sequences of grow_by/push_back/grow_to_at_least with boundary-dense arguments "
                     "(2^k, 2^k+-1, segment and embedded-table limits) + directed n = 2^31-1, 2^31 (thorough: > 2^32); non-trivial = at least one constructing call")
    alt = [("vec_intcast", "g2al-no-return-ge-2^31",
            "grow_to_at_least behaves like the int-cast decision refuted by grow_to_at_least_intcast_refuted (n >= 2^31 skips growth)")]
    wd = {"VERIF_WATCHDOG": "20"}
    diff_tie(ctx, "vec-seq", exe, ["vec"], "vec", cases, oracle=vec_oracle, describe=describe,
             nontrivial=lambda c, t: any(x not in ("-1", "0") for x in t[:-1]), bucket=lambda c: "vec-seq len %d" % ((len(c) - 1) // 2), env=wd)
    diff_tie(ctx, "vec-big", exe, ["vec"], "vec", big, oracle=vec_oracle, describe=describe, bucket=lambda c: "vec-big", env=wd,
             alt_runners=alt, timeout=300)
    # --- an element constructor throws inside a growth call, at every call index
    crng = ctx.rng
    ccases = []
    for pre in (0, 1, 2, 3, 5, 8, 9, 33):
        for n in (1, 2, 3, 7, 30, 100, 300):
            for kind in (0, 1, 2, 3):
                ks = sorted(set([1, 2, 3, n] + [crng.randint(1, n) for _ in range(ctx.scale(1, 6))]))
                for k in ks:
                    if k <= n:
                        ccases.append([pre, n, kind, k])
    KN = ["grow_by(n, value)", "grow_by(first, last)", "grow_to_at_least(n, value)", "n x push_back"]

    def ct_desc(c):
        return "concurrent_vector with %d elements, %s with n = %d, the copy constructor throws at its call #%d" % (c[0], KN[c[2]], c[1], c[3])

    def ct_oracle(c, toks):
        if toks == ["OK"]:
            return None
        if toks and toks[0] == "CRASH":
            return ("vec-ctor-throw-crash", "%s: the process dies with signal %s (the clean-up touches memory of segments that were never allocated)" % (ct_desc(c), toks[1] if len(toks) > 1 else "?"))
        return ("vec-ctor-throw-" + (toks[1] if len(toks) > 1 else "bad"), "%s: %s" % (ct_desc(c), " ".join(toks)))
    ctx.rules.append("vec-ctorthrow (oracle only): 0-33 elements, then grow_by(n, value) / grow_by(first, last) / grow_to_at_least(n, value) / n x push_back with n up to 300 (several segments, the last one allocated "
                     "eagerly) whose element copy constructor throws at call #k (k = 1, 2, 3, n and seeded others): no crash, the exception reaches the caller, old elements unchanged, at(i) works or throws for every "
                     "i < size(), no garbage, the vector is destructible; every case in a forked child")
    vlib.oracle_tie(ctx, "vec-ctorthrow", exe, ["ctorthrow"], ccases, ct_oracle, describe=ct_desc, bucket=lambda c: "ctorthrow %s" % KN[c[2]], timeout=900)
    # --- oracle runs with real threads (tiling + values + grow_to_at_least coverage)
    nruns = ctx.scale(40, 600)
    bad = 0
    for r in range(nruns):
        T = 2 + r % 3
        rc, lines, err = ctx.run_driver(exe, ["mt", T, ctx.seed * 100000 + r, 60], timeout=120)
        ctx.count(("mt", T, r), True, "mt %d threads" % T)
        msg = None
        if rc != 0 or not lines:
            msg = "driver rc=%s %s" % (rc, err[-200:])
        else:
            unc = [l for l in lines if l.startswith("SIZE-BELOW-N")] + ["an element changed its address during growth: " + l for l in lines if l.startswith("MOVED")]
            v = [int(x) for x in lines[-1].split()]
            size, recs = v[0], sorted(zip(v[1::3], v[2::3], v[3::3]))
            pos = 0
            for s, l, ok in recs:
                if s != pos or l <= 0 or not ok:
                    msg = "ranges handed to concurrent growers do not tile / wrong values at [%d,+%d) (expected start %d)" % (s, l, pos)
                    break
                pos += l
            if not msg and pos != size:
                msg = "ranges cover [0,%d) but size()=%d" % (pos, size)
            if not msg and unc:
                msg = unc[0]
        if msg:
            bad += 1
            ctx.add(Finding("violation", "vec-mt-tiling", "real threads T=%d seed=%d: %s" % (T, ctx.seed * 100000 + r, msg),
                            {"tie": "vec-mt", "args": ["mt", T, ctx.seed * 100000 + r, 60]}))
            break
    ctx.ties.append({"name": "vec-mt (oracle only)", "cases": nruns, "disagreements": bad})
    run_gate(ctx)
    ctx.rules.append("vec-mt: 2-4 real threads x 60 random growth calls on one vector; oracle = ranges tile [0,size), each element holds its call's value, nothing below n unconstructed after grow_to_at_least")


PRELUDE = vlib.os.path.join(vlib.VERIF, "harness", "prelude", "verif_atomic.h")
GOPS = {0: "grow_by", 1: "push_back", 2: "grow_to_at_least"}


def gate_describe(c):
    failk, n = c[0], c[1]
    p = 2
    parts = []
    for t in range(n):
        ln = c[p]
        ops = c[p + 1:p + 1 + 2 * ln]
        parts.append("T%d: %s" % (t, ",".join("%s(%d)" % (GOPS[ops[i]], ops[i + 1]) for i in range(0, len(ops), 2))))
        p += 1 + 2 * ln
    return "allocator throws at element-allocation #%d; %s; schedule=%s" % (failk, " || ".join(parts), "".join(map(str, c[p + 1:])))


def gate_oracle(c, toks):
    if toks and toks[0].startswith("CRASH"):
        return ("vec-gate-crash", gate_describe(c) + ": " + " ".join(toks)[:120])
    def val(k):
        return int(toks[toks.index(k) + 1]) if k in toks else 0
    if val("WILD"):
        return ("vec-construct-in-unallocated-memory", "%s: %d element(s) constructed outside any live allocation" % (gate_describe(c), val("WILD")))
    if val("DOUBLE"):
        return ("vec-element-constructed-twice", "%s: an element address was constructed twice" % gate_describe(c))
    if val("G2ALUNALLOC"):
        return ("vec-g2al-returns-before-allocation", "%s: grow_to_at_least(n) returned while a segment below n (owned by a growth call of another thread that is still in flight) "
                "is not allocated: capacity() < n, size() < n and v[i] for such i < n dereferences a null segment" % gate_describe(c))
    if val("NOSTORE"):
        return ("vec-size-covers-unallocated", "%s: size() covers %d index(es) that have no storage (segment missing after a failed allocation): v[i] for i < size() touches unallocated memory" % (gate_describe(c), val("NOSTORE")))
    if val("ACCBAD"):
        return ("vec-access-unallocated", "%s: at(i) returned an address outside live memory" % gate_describe(c))
    if toks and toks[-1] == "HANG":
        if c[0] < 0:
            return ("vec-growth-hangs", "%s: growth calls never finish although no allocation failed" % gate_describe(c))
        return None   # after an injected allocation failure a *growth* call of another thread may wait forever; outside the property text
    # (LEAK = allocations not returned by the destructor after an injected failure is reported by the driver but is not part of the property text)
    return None


def gen_gate(ctx, n):
    rng = ctx.rng
    cases = []
    for _ in range(n):
        T = rng.randint(2, 3)
        failk = rng.choice([-1, -1, 0, 1, 1, 2, 2, 3, 4])
        c = [failk, T]
        for t in range(T):
            ln = rng.randint(1, 4)
            ops = []
            for _ in range(ln):
                op = rng.choice([0, 1, 1, 2])
                a = rng.choice([1, 2, 3, 5, 7, 9, 17, 24, 56]) if op == 0 else (rng.choice([2, 4, 8, 9, 16, 17, 20, 33, 64]) if op == 2 else 0)
                ops += [op, a]
            c += [ln] + ops
        c.append(-1)
        sched = []
        while len(sched) < rng.randint(20, 160):
            sched += [rng.randrange(T)] * rng.randint(1, 9)
        cases.append(c + sched)
    # directed: the owner of a segment's first index is late.  T0 fills [0,B) (B a segment boundary beyond the embedded table), T1's push_back takes index B
    # (it has to allocate the segment starting there) and stops after its fetch_add, T2 takes the rest of that segment and stops, T3's grow_to_at_least(n)
    # lies wholly in later segments: it must still not return before T1's segment exists.
    for B, n_ in ((16, 40), (16, 33), (32, 70), (8, 20), (64, 130), (16, 48)):
        for k1 in (1, 2):
            cases.append([-1, 4, 1, 0, B, 1, 1, 0, 1, 0, B - 1, 1, 2, n_, -1] + [0] * (40 * B + 200) + [1] * k1 + [2] * 1 + [3] * (30 * n_ + 400))
    for _ in range(n // 6):
        B = rng.choice([8, 16, 32])
        c = [-1, 4, 1, 0, B, 1, 1, 0, 1, rng.choice([0, 1]), rng.choice([B - 1, 3, 1]), 1, 2, rng.choice([B + B // 2, 2 * B + 1, 2 * B + 8, 3 * B]), -1] + [0] * (40 * B + 200)
        sched = []
        while len(sched) < rng.randint(10, 400):
            sched += [rng.choice([1, 2, 3, 3])] * rng.randint(1, 12)
        cases.append(c + sched)
    return cases


def run_gate(ctx):
    lib, err = ctx.build_lib("tbb")
    exe, err = ctx.build_driver("drv_vecgate", extra=["-include", PRELUDE], libs=[lib])
    if err:
        return ctx.broken("drv_vecgate build (concurrent_vector under the atomic prelude)", err)
    ctx.rules.append("vec-gate: 2-3 logical threads growing one concurrent_vector under seeded bursty interleavings of its atomic accesses, element allocator throwing at "
                     "allocation #k (k in -1..4); oracle = no construction outside live memory, no element constructed twice, at(i) works or throws, the destructor runs, "
                     "no hang unless an allocation failed, grow_to_at_least(n) does not return while a segment below n is unallocated; directed cases: the thread owning the first index of a "
                     "segment is stopped right after taking its index while another thread's grow_to_at_least lands wholly in later segments")
    vlib.oracle_tie(ctx, "vec-gate", exe, [], gen_gate(ctx, ctx.scale(1200, 40000)), gate_oracle, describe=gate_describe,
                    bucket=lambda c: "vec-gate failk=%d" % c[0], timeout=1800)


def replay(ctx, rep):
    if rep.get("tie") == "vec-gate":
        lib, err = ctx.build_lib("tbb")
        exe, err = ctx.build_driver("drv_vecgate", extra=["-include", PRELUDE], libs=[lib])
        vlib.oracle_tie(ctx, "vec-gate", exe, [], [rep["case"]], gate_oracle, describe=gate_describe)
        return
    lib, err = ctx.build_lib("tbb")
    exe, err = ctx.build_driver("drv_vec", libs=[lib], opt="-O2")
    if rep.get("tie") == "vec-mt":
        rc, lines, err = ctx.run_driver(exe, rep["args"], timeout=120)
        print("\n".join(lines))
        return
    runner = {"segidx": "segidx"}.get(rep.get("tie"), "vec")
    mode = "segidx" if runner == "segidx" else "vec"
    diff_tie(ctx, rep.get("tie", "replay"), exe, [mode], runner, [rep["case"]], oracle=None if mode == "segidx" else vec_oracle,
             describe=describe if mode == "vec" else None, env={"VERIF_WATCHDOG": "20"})
