"""C16 — arenas: bounded concurrency, unique slots, worker budget. See DESIGN.md section 4/C16."""
import vlib
from vlib import diff_tie, oracle_tie, Finding
from props.common import BASE_TRUSTED

PROP_FILES = ["Properties_C16"]
TRUSTED = BASE_TRUSTED + [
    "modelled: market::update_allotment / adjust_demand / set_active_num_workers, pm_client::update_request, arena::update_request (pure arithmetic, under the market mutex)",
    "modelled, not verified: slot occupation (try_occupy), observers, isolation filters, global_control bookkeeping, what RML does with the estimate — "
    "exercised by real-thread oracle runs (concurrency bound, distinct slot indices, observer balance) only",
]


def describe(c):
    soft, n = c[0], c[1]
    ar = ["arena%d(prio=%d,max_workers=%d)" % (i, c[2 + 2 * i], c[3 + 2 * i]) for i in range(n)]
    ops = c[2 + 2 * n:]
    o = []
    for i in range(0, len(ops) - 3, 4):
        o.append("adjust_demand(arena%d,mandatory%+d,workers%+d)" % (ops[i + 1], ops[i + 2], ops[i + 3]) if ops[i] == 0 else "set_active_num_workers(%d)" % ops[i + 1])
    return "soft_limit=%d; %s; %s" % (soft, ", ".join(ar), "; ".join(o))


def oracle(c, toks, liveness=False):
    """The property text on the implementation's output: granted workers sum to min(total demand, limit), nobody gets
    more than requested, higher priority first; with limit 0 at most the one mandatory worker."""
    if not toks or toks[0].startswith("CRASH") or toks[-1] == "HANG":
        return ("allot-crash", describe(c) + ": " + " ".join(toks)[:100])
    v = [int(t) for t in toks]
    soft, n = c[0], c[1]
    prio = [c[2 + 2 * i] for i in range(n)]
    maxnw = [c[3 + 2 * i] for i in range(n)]
    mand = [0] * n
    tot = [0] * n
    ops = c[2 + 2 * n:]
    pos = 0
    for k in range(0, len(ops) - 3, 4):
        if ops[k] == 0:
            i = ops[k + 1]
            mand[i] += ops[k + 2]
            tot[i] += ops[k + 3]
        else:
            soft = ops[k + 1]
        req = []
        for i in range(n):
            hi = 1 if (mand[i] > 0 and maxnw[i] == 0) else maxnw[i]
            req.append(min(max(tot[i], 0), hi))
        allot = [v[pos + 1 + 2 * i] for i in range(n)]
        pos += 1 + 2 * n
        total = sum(req)
        anymand = sum(mand) > 0
        where = "%s — after op #%d requests=%s granted=%s limit=%d" % (describe(c), k // 4, req, allot, soft)
        if any(a < 0 or a > r for a, r in zip(allot, req)):
            return ("allot-more-than-requested", where)
        if soft >= 1:
            if sum(allot) != min(total, soft):
                return ("allot-sum", where + ": granted workers must sum to min(total demand, limit) = %d" % min(total, soft))
            left = min(total, soft)
            for p in (0, 1, 2):
                dp = sum(r for r, q in zip(req, prio) if q == p)
                gp = sum(a for a, q in zip(allot, prio) if q == p)
                if gp != min(dp, left):
                    return ("allot-priority", where + ": priority level %d got %d, should get min(%d,%d)" % (p, gp, dp, left))
                left -= gp
        else:
            if sum(allot) > 1 or (sum(allot) == 1 and not anymand):
                return ("allot-limit0", where + ": with limit 0 only one mandatory worker may be granted")
            if any(a == 1 and mand[i] <= 0 for i, a in enumerate(allot)):
                return ("allot-limit0", where + ": the mandatory worker went to an arena without enqueued work")
            if liveness and any(m > 0 and r > 0 for m, r in zip(mand, req)) and sum(allot) != 1:
                return ("allot-mandatory-worker-missing", where + ": an arena has enqueued work (mandatory concurrency requested) but with limit 0 no worker at all is granted - the enqueued task can never run unless somebody waits in that arena")
    return None


def gen(ctx, count):
    rng = ctx.rng
    cases = []
    for _ in range(count):
        n = rng.randint(1, 5)
        soft = rng.choice([0, 1, 2, 3, 4, 7, 8, 15])
        c = [soft, n]
        maxnw = []
        for i in range(n):
            mx = rng.choice([0, 1, 1, 2, 3, 4, 7, 15])
            maxnw.append(mx)
            c += [rng.choice([0, 1, 1, 2]), mx]
        mand = [0] * n
        for _ in range(rng.randint(1, 14)):
            if rng.random() < 0.2:
                c += [1, rng.choice([0, 0, 1, 2, 3, 5, 8, 15]), 0, 0]
            else:
                i = rng.randrange(n)
                md = rng.choice([0, 0, 1, -1])
                if mand[i] + md < 0:
                    md = 0
                mand[i] += md
                wd = rng.choice([0, 1, -1, maxnw[i], -maxnw[i], 2, -2])
                if md == 1 and maxnw[i] == 0:
                    wd = 1
                c += [0, i, md, wd]
        cases.append(c)
    return cases


def run(ctx):
    lib, err = ctx.build_lib("tbb")
    if err:
        return ctx.broken("libtbb build", err)
    exe, err = ctx.build_driver("drv_allot", libs=[lib], extra=["-D__TBB_BUILD"])
    if err:
        return ctx.broken("drv_allot build", err)
    ctx.rules.append("allot: 1-5 arenas (priority, max workers incl. 0 = workerless) x soft limits 0..15 x random adjust_demand/set_active_num_workers sequences on the real market object; "
                     "compared after every call: notified delta, per-arena allotment and top-priority flag; non-trivial = some arena is granted a worker")
    diff_tie(ctx, "allot", exe, [], "allot", gen(ctx, ctx.scale(3000, 120000)), oracle=oracle, describe=describe,
             nontrivial=lambda c, t: any(x not in ("0", "-1") for x in t[1::2]), bucket=lambda c: "allot arenas=%d limit=%d" % (c[1], c[0]))
    run_arena(ctx)


CODES = {1: "current_thread_index outside [0, max_concurrency)", 2: "two threads hold the same slot index at once", 3: "more threads inside the arena than max_concurrency",
         4: "a worker thread occupies a reserved slot", 5: "observer exit without matching entry on the same thread", 6: "more workers execute user work than the global_control limit allows",
         7: "enqueued work never ran"}


def arena_oracle(c, toks):
    if not toks or toks[0].startswith("CRASH") or toks[-1] == "HANG":
        return ("arena-hang-or-crash", "arenas seed=%d K=%d T=%d limit=%d: %s" % (c[0], c[1], c[2], c[3], " ".join(toks)[-80:]))
    n, code = int(toks[1]), int(toks[2])
    if n:
        return ("arena-code-%d" % code, "arenas seed=%d K=%d external threads=%d global limit=%d: %s (%d observations)" % (c[0], c[1], c[2], c[3], CODES.get(code, "?"), n))
    return None


PRE = {0: "", 1: " (after a re-entrant execute() on the same arena inside the region)", 2: " (after a trip into another arena inside the region)", 3: " (after a nested isolate inside the region)",
       4: " (after a task_group wait inside the region)", 5: " (after execute() + task_group wait on the same arena inside the region)"}


def run_arena(ctx):
    lib, err = ctx.build_lib("tbb")
    exe, err = ctx.build_driver("drv_arena", libs=[lib], opt="-O2")
    if err:
        return ctx.broken("drv_arena build", err)
    rng = ctx.rng
    cases = [[ctx.seed * 10000 + i, rng.randint(1, 4), rng.randint(1, 5), rng.choice([0, 0, 1, 2, 3, 4]), rng.choice([20, 40])] for i in range(ctx.scale(40, 1500))]
    ctx.rules.append("arena-oracle: 1-4 task_arenas (max_concurrency 1-6, reserved 0..mc), 1-5 external threads doing execute(parallel_for)/enqueue, observers, optional global_control limit 1-4; "
                     "every body samples its slot index and the set of threads inside; predicate = the six clauses of the property")
    oracle_tie(ctx, "arena-oracle", exe, [], cases, arena_oracle, bucket=lambda c: "arena limit=%d" % c[3], timeout=1200)
    icases = [[ctx.seed * 1000 + 600 + i, P, N, M, pre] for i, (P, N, M, pre) in enumerate(
        [(2, 40, 40, 0), (4, 60, 30, 0), (8, 100, 20, 0), (4, 8, 200, 0), (16, 200, 10, 0), (3, 30, 60, 0),
         (4, 300, 24, 1), (8, 400, 16, 1), (4, 200, 24, 2), (4, 200, 24, 3), (4, 200, 24, 4), (8, 300, 16, 5), (3, 200, 30, 1)] * ctx.scale(1, 6))]
    ctx.rules.append("arena-isolate: outer parallel_for whose bodies run an inner parallel_for inside this_task_arena::isolate (2-16 threads), optionally after a re-entrant execute() on the same arena, "
                     "a trip into another arena, a nested region or a task_group wait inside the region: a thread inside an isolated region never starts an outer body nor an inner body of another region; nothing is lost")

    def iso_oracle(c, toks):
        if not toks or toks[-1] == "HANG" or toks[0].startswith("CRASH"):
            return ("arena-isolate-hang", "isolate scenario %s: hang/crash" % c)
        d = {toks[i]: int(toks[i + 1]) for i in range(0, len(toks) - 1, 2)}
        if d.get("OUTERINISO") or d.get("FOREIGNINNER"):
            return ("arena-isolation-broken", "task_arena(%d), %d outer x %d inner iterations%s: a thread waiting inside this_task_arena::isolate started %d outer task(s) and %d inner task(s) of another "
                    "isolation scope" % (c[1], c[2], c[3], PRE.get(c[4] if len(c) > 4 else 0, ""), d.get("OUTERINISO", 0), d.get("FOREIGNINNER", 0)))
        if d.get("LOST"):
            return ("arena-isolate-lost", "task_arena(%d): %d inner iterations never ran" % (c[1], d["LOST"]))
        return None
    oracle_tie(ctx, "arena-isolate", exe, ["isolate"], icases, iso_oracle, bucket=lambda c: "arena-isolate P=%d" % c[1], timeout=600)
    mcases = [[ctx.seed * 1000 + 800 + i, P, iso, ns] for i, (P, iso, ns) in enumerate([(4, 1, 8), (2, 1, 3), (4, 0, 8), (8, 1, 20), (3, 1, 1), (4, 1, 0)] * ctx.scale(1, 5))]
    ctx.rules.append("arena-mandatory: max_allowed_parallelism = 1; a task enqueued into an arena of 2-8 slots (mandatory worker) while spawned tasks sit there and the caller waits plainly or inside "
                     "isolate; 250 ms after all enqueued work finished only the caller may execute a parallel_for in that arena (three measurements, the last two count)")

    def mand_oracle(c, toks):
        if not toks or toks[-1] == "HANG" or toks[0].startswith("CRASH"):
            return ("arena-mandatory-hang", "max_allowed_parallelism=1, task_arena(%d), enqueue with %d spawned tasks, caller waits %s: hang/crash" % (c[1], c[3], "inside isolate" if c[2] else "plainly"))
        d = {toks[i]: int(toks[i + 1]) for i in range(0, len(toks) - 1, 2)}
        if d.get("FOREIGN"):
            return ("arena-limit-exceeded-after-enqueue", "max_allowed_parallelism=1, task_arena(%d): after an enqueued task ran while %d spawned tasks sat in the arena and the caller waited %s, "
                    "a worker still executes user work (%d of 200 parallel_for iterations) although no enqueued work exists any more — at most L-1 = 0 workers may" % (
                        c[1], c[3], "inside this_task_arena::isolate" if c[2] else "plainly", d["FOREIGN"]))
        if d.get("LOST"):
            return ("arena-mandatory-lost-task", "task_arena(%d): a spawned or enqueued task never ran" % c[1])
        return None
    oracle_tie(ctx, "arena-mandatory", exe, ["mandatory"], mcases, mand_oracle, bucket=lambda c: "arena-mandatory P=%d iso=%d" % (c[1], c[2]), timeout=600)


def replay(ctx, rep):
    if rep.get("tie") in ("arena-oracle", "arena-mandatory", "arena-isolate"):
        lib, err = ctx.build_lib("tbb")
        exe, err = ctx.build_driver("drv_arena", libs=[lib], opt="-O2")
        if rep.get("tie") == "arena-isolate":
            rc, lines, err = ctx.run_driver(exe, ["isolate"], [rep["case"]], timeout=120)
            print(lines)
            if lines and lines[0].split()[1::2] != ["0", "0", "0"]:
                ctx.add(Finding("violation", "arena-isolation-broken", "replay %s: %s" % (rep["case"], lines[0]), {"tie": "arena-isolate", "case": rep["case"]}))
            return
        if rep.get("tie") == "arena-mandatory":
            rc, lines, err = ctx.run_driver(exe, ["mandatory"], [rep["case"]], timeout=120)
            print(lines)
            if lines and "FOREIGN 0" not in lines[0]:
                ctx.add(Finding("violation", "arena-limit-exceeded-after-enqueue", "replay %s: %s" % (rep["case"], lines[0]), {"tie": "arena-mandatory", "case": rep["case"]}))
            return
        oracle_tie(ctx, "arena-oracle", exe, [], [rep["case"]], arena_oracle)
        return
    lib, err = ctx.build_lib("tbb")
    exe, err = ctx.build_driver("drv_allot", libs=[lib], extra=["-D__TBB_BUILD"])
    diff_tie(ctx, "allot", exe, [], "allot", [rep["case"]], oracle=oracle, describe=describe)
