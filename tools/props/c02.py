"""C02 — no lost wake-up; enqueued work eventually runs."""
import sys
import vlib
from vlib import diff_tie, Finding
from props.common import BASE_TRUSTED

PROP_FILES = ["Properties_C02"]
TRUSTED = BASE_TRUSTED + [
    "modelled: r1::concurrent_monitor_base — prepare_wait (incl. pumping a skipped wake-up), the predicate check, commit_wait, cancel_wait, notify_all, the epoch and the wait set; "
    "one model step = one call / lock-protected block, all interleavings of any number of waiters and notifiers",
    "modelled, not verified: the memory fences, the monitor's own mutex, binary_semaphore/futex, notify_one and predicate notifications, thread_control_monitor, address_waiter, "
    "rw_mutex/mutex waits, the arena's wake-up of workers and thread_request_serializer — covered by real-thread runs only (monitor stress, arena enqueue without waiters; blocked "
    "concurrent_bounded_queue operations run under C09, suspended tasks incl. late resume in a worker-less arena under C20)",
]


def describe(c):
    return "%d waiter(s), %d notifier(s), schedule %s" % (c[0], c[1], "".join(map(str, c[2:])))


def gen(ctx, n):
    rng = ctx.rng
    cases = []
    for _ in range(n):
        nw = rng.randint(1, 4)
        nn = rng.randint(1, 3)
        sched = []
        # notifier entries: one for the condition, later an adjacent pair (emptiness check + notify_all are one call in the real code)
        slots = []
        for t in range(nw):
            slots += [[t]] * rng.randint(4, 14)
        for k in range(nn):
            slots += [[nw + k]]
        rng.shuffle(slots)
        for k in range(nn):
            pos = max(i for i, s in enumerate(slots) if s == [nw + k])
            ins = rng.randint(pos + 1, len(slots))
            slots.insert(ins, [nw + k, nw + k])
        for s in slots:
            sched += s
        # let everybody finish
        for r in range(8):
            sched += list(range(nw))
        cases.append([nw, nn] + sched)
    return cases


def describe1(c):
    nw, nn = c[0], c[1]
    return "%d waiter(s) on addresses %s, %d notifier(s) of addresses %s (notify_one with predicate), schedule %s" % (nw, c[2:2 + nw], nn, c[2 + nw:2 + nw + nn], "".join(map(str, c[2 + nw + nn:])))


def gen1(ctx, n):
    rng = ctx.rng
    cases = []
    for _ in range(n):
        nw = rng.randint(2, 4)
        nn = rng.randint(1, 3)
        ctxs = [rng.randrange(2) for _ in range(nw)]
        addrs = [rng.randrange(2) for _ in range(nn)]
        slots = []
        for t in range(nw):
            slots += [[t]] * rng.randint(3, 10)
        rng.shuffle(slots)
        # most waiters are asleep before the notifiers come: the wait set then holds waiters of several addresses
        singles = [[nw + k] for k in range(nn)]
        pairs = [[nw + k, nw + k] for k in range(nn)]       # emptiness check + notification are one call in the real code: keep them adjacent
        rng.shuffle(singles); rng.shuffle(pairs)
        tail = singles + pairs
        sched = [t for s in slots for t in s] + [t for s in tail for t in s]
        for r in range(6):
            sched += list(range(nw))
        cases.append([nw, nn] + ctxs + addrs + sched)
    return cases


def oracle1(c, toks):
    """a notification for address a issued while a waiter of address a is asleep in the wait set must wake one such waiter"""
    if not toks or toks[-1] == "HANG" or toks[0].startswith("CRASH"):
        return ("monitor-hang", describe1(c))
    nw, nn = c[0], c[1]
    ctxs = c[2:2 + nw]
    addrs = c[2 + nw:2 + nw + nn]
    k = toks.index("-7")
    ev = [int(x) for x in toks[:k]]
    inset = set()
    for i in range(0, len(ev), 3):
        t, code, v = ev[i:i + 3]
        if code == 1:
            inset.add(t)
        elif code == 6 or code == 4:
            inset.discard(t)
        elif code == 9:
            a = addrs[t - nw]
            cand = [w for w in inset if ctxs[w] == a]
            if cand and v == -1:
                return ("monitor-notify-one-missed", "%s: notifier %d (address %d) woke nobody although waiter(s) %s of that address were in the wait set" % (describe1(c), t, a, sorted(cand)))
            if v >= 0:
                if ctxs[v] != a:
                    return ("monitor-notify-one-wrong", "%s: notifier %d (address %d) woke waiter %d of address %d" % (describe1(c), t, a, v, ctxs[v]))
                inset.discard(v)
    return None


def oracle(c, toks):
    """the property on this run: after all notifiers are done every waiter has returned (the tail of the schedule gives each waiter 8 more steps)"""
    if not toks or toks[-1] == "HANG" or toks[0].startswith("CRASH"):
        return ("monitor-hang", describe(c))
    k = toks.index("-7")
    done = toks[k + 1:k + 1 + c[0] + c[1]]
    if any(d != "1" for d in done):
        ev = [int(x) for x in toks[:k]]
        blocked = [ev[i] for i in range(0, len(ev), 3) if ev[i + 1] == 5]
        return ("monitor-lost-wakeup", "%s: thread(s) %s never returned from wait although every notifier had finished (blocked steps of threads %s)" % (
            describe(c), [i for i, d in enumerate(done) if d != "1"], sorted(set(blocked))))
    return None


def run(ctx):
    lib, err = ctx.build_lib("tbb")
    if err:
        return ctx.broken("libtbb build", err)
    exe, err = ctx.build_driver("drv_monitor", libs=[lib])
    if err:
        return ctx.broken("drv_monitor build (src/tbb/concurrent_monitor.h)", err)
    ctx.rules.append("monitor-seq: one OS thread plays 1-4 waiters and 1-3 notifiers on the REAL r1::concurrent_monitor with counting wait nodes, one schedule entry = one call; "
                     "the sequence of events (prepared/pumped, predicate, committed or cancelled, skipped wake-up, woke, would-block, notified count, epoch) is compared with MonModel; "
                     "oracle: every waiter has returned at the end")
    diff_tie(ctx, "monitor-seq", exe, ["seq"], "mon", gen(ctx, ctx.scale(800, 20000)), oracle=oracle, describe=describe,
             bucket=lambda c: "monitor W=%d N=%d" % (c[0], c[1]))
    ctx.rules.append("monitor-seq1: the same on-one-thread drive with waiters of two different addresses in one wait set and notifiers calling notify_one_relaxed(predicate) "
                     "(the tbb::mutex / address-waiter path): events compared with Mon1Model; oracle: a notification for an address with a sleeping waiter wakes one waiter of that address")
    diff_tie(ctx, "monitor-seq1", exe, ["seq1"], "mon1", gen1(ctx, ctx.scale(600, 15000)), oracle=oracle1, describe=describe1,
             bucket=lambda c: "monitor1 W=%d N=%d" % (c[0], c[1]))
    bad = 0
    runs = []
    for r in range(ctx.scale(6, 80)):
        runs.append((["mt", 1 + r % 6, ctx.seed * 100 + r, ctx.scale(150, 1500)], "LOST", "concurrent_monitor::wait / notify_all with real threads and sleep_nodes, flag set before notify"))
    for r in range(ctx.scale(2, 20)):
        runs.append((["enq", [2, 4, 16][r % 3], ctx.scale(40, 400)], "NOTRUN", "task_arena::enqueue into an arena in which nobody waits"))
    for r in range(ctx.scale(6, 30)):
        runs.append((["enqprio", 1 + r % 2, r % 3, (r // 3) % 2], "NOTRUN", "task_arena::enqueue into a normal-priority arena in which nobody waits, while an arena of %s priority has worker demand (%s), max_allowed_parallelism = %d" % (
            ["high", "normal", "low"][r % 3], ["a thread busy inside execute() with spawned tasks", "left over from a finished parallel_for"][(r // 3) % 2], 1 + r % 2)))
    for r in range(ctx.scale(6, 24)):
        P, K, R_, W = [(2, 1, 0, 1), (1, 1, 0, 1), (2, 2, 0, 2), (2, 2, 1, 1), (1, 2, 1, 2), (2, 3, 0, 3)][r % 6]
        runs.append((["execwait", P, K, R_, W], "STUCK", "task_arena(%d,%d) with every slot taken by threads inside execute(), %d more thread(s) asleep in execute(); the occupants leave; max_allowed_parallelism = %d "
                     "(%s): every waiter must get in within 4 s" % (K, R_, W, P, "no workers" if P == 1 else "the only worker is busy in another arena")))
    for r in range(ctx.scale(6, 18)):
        A, R = [(1, 1), (2, 1), (4, 1), (1, 1), (3, 1), (3, 0)][r % 6]
        runs.append((["enqafter", A, R, r % 3], "NOTRUN", "task_arena(%d,%d) used before (%s), then a fire-and-forget enqueue with nobody joining the arena must run exactly once within 6 s" % (
            A, R, ["a thread spawned there and idled in task_group::wait", "a parallel_for ran there", "an earlier enqueue ran there"][r % 3])))
    for r in range(ctx.scale(6, 60)):
        runs.append((["bq", 1 + r % 3, 1 + r % 2, 2 + r % 2, ctx.seed * 100 + r], "BADITEMS", "concurrent_bounded_queue: blocked pushes, abort() (holes), later blocked pushes, pops: every producer must be woken when its slot is free"))
    ctx.rules.append("monitor-mt / arena-enqueue / bounded-queue wake-up (oracle only): real threads; every waiter returns (watchdog), every enqueued task runs within 2 s without any waiting call")
    for args, key, what in runs:
        rc, lines, err = ctx.run_driver(exe, args, timeout=300)
        ctx.count(("c02-mt", tuple(args)), True, "mt %s" % args[0])
        t = (lines or ["no output"])[-1].split()
        if rc != 0 or len(t) < 2 or t[0] != key or any(x != "0" for x in t[1::2]):
            bad += 1
            ctx.add(Finding("violation", "c02-" + args[0], "%s (%s): %s rc=%s" % (what, " ".join(map(str, args)), " ".join(t), rc), {"tie": "c02-mt", "args": args}))
            if bad >= 3:
                break
    ctx.ties.append({"name": "monitor-mt / arena-enqueue (oracle only)", "cases": len(runs), "disagreements": bad})
    # the mandatory worker at the level of the market's allotment (model: AllotModel, theorem mandatory_worker_is_granted): with soft limit 0 an arena with enqueued work gets the one worker
    from props import c16
    aexe, err = ctx.build_driver("drv_allot", libs=[lib], extra=["-D__TBB_BUILD"])
    if err:
        return ctx.broken("drv_allot build", err)
    acases = [c for c in c16.gen(ctx, ctx.scale(4000, 60000)) if c[0] == 0 or any(c[k] == 1 and c[k + 1] == 0 for k in range(2 + 2 * c[1], len(c) - 3, 4))]
    ctx.rules.append("allot-mandatory (oracle only): the real market object with 1-5 arenas of mixed priorities under soft limit 0: whenever an arena has enqueued work exactly one worker is granted, to such an arena")
    vlib.oracle_tie(ctx, "allot-mandatory", aexe, [], acases, lambda c, toks: c16.oracle(c, toks, liveness=True), describe=c16.describe, bucket=lambda c: "allot-mandatory arenas=%d" % c[1], timeout=900)


def replay(ctx, rep):
    lib, err = ctx.build_lib("tbb")
    exe, err = ctx.build_driver("drv_monitor", libs=[lib])
    if rep.get("tie") == "monitor-seq":
        diff_tie(ctx, "monitor-seq", exe, ["seq"], "mon", [rep["case"]], oracle=oracle, describe=describe)
        for f in ctx.findings:
            print(f.kind, f.key, f.detail)
    else:
        print(ctx.run_driver(exe, rep["args"], timeout=300))
