"""C08 — mutexes. See DESIGN.md section 4/C08."""
import os
import vlib
from vlib import diff_tie, Finding
from props.common import BASE_TRUSTED

PROP_FILES = ["Properties_C08"]
TRUSTED = BASE_TRUSTED + [
    "harness/prelude/verif_atomic.h + harness/gate/gate.h: every std::atomic access of the real lock is a scheduling point; the real code runs exactly the given interleaving",
    "sequential consistency: interleaving theorems are SC theorems; memory orders are compared event by event but their necessity under TSO is not proved",
    "modelled: spin_rw_mutex (all eight operations incl. upgrade/downgrade), spin_mutex; modelled, not verified: queuing_mutex, queuing_rw_mutex, mutex/rw_mutex futex waiting, RTM speculation",
]
PRELUDE = os.path.join(vlib.VERIF, "harness", "prelude", "verif_atomic.h")
OPN = {1: "lock", 2: "try_lock", 3: "unlock", 4: "lock_shared", 5: "try_lock_shared", 6: "unlock_shared", 7: "upgrade", 8: "downgrade"}


def split_case(c):
    n = c[0]
    p = 1
    scripts = []
    for _ in range(n):
        ln = c[p]
        scripts.append(c[p + 1:p + 1 + ln])
        p += 1 + ln
    return scripts, c[p + 1:]


def describe(c):
    scripts, sched = split_case(c)
    return " || ".join("T%d: %s" % (i, ",".join(OPN.get(o, "?") for o in s)) for i, s in enumerate(scripts)) + "  schedule=" + "".join(map(str, sched))


def events(toks):
    v = toks[:-1] if toks and toks[-1] == "HANG" else toks
    return [tuple(v[i:i + 7]) for i in range(0, len(v) - 1, 7)]


def oracle(c, toks):
    if toks and toks[0].startswith("CRASH"):
        return ("lock-crash", describe(c) + ": " + " ".join(toks)[:200])
    for e in events(toks):
        if len(e) == 7 and e[2] == "150":
            return ("rw-writer-not-exclusive", "%s: a writer entered while %s writer(s)/%s reader(s) were inside" % (describe(c), e[4], e[5]))
        if len(e) == 7 and e[2] == "151":
            return ("rw-reader-with-writer", "%s: a reader entered while a writer was inside" % describe(c))
        if len(e) == 7 and e[2] == "152":
            return ("rw-upgrade-untruthful", "%s: upgrade returned true although a writer ran since the read acquisition" % describe(c))
    if toks and toks[-1] == "HANG":
        return ("lock-no-progress", "%s: threads never finish under round-robin completion (lost hand-off / deadlock)" % describe(c))
    return None


def gen(ctx, n_cases, ops, maxthreads=4):
    rng = ctx.rng
    cases = []
    for _ in range(n_cases):
        n = rng.randint(2, maxthreads)
        c = [n]
        for t in range(n):
            k = rng.randint(1, 5)
            style = rng.random()
            if style < 0.25:      # upgrade-heavy readers
                sc = [rng.choice([4, 5]), 7, rng.choice([3, 8]), 6] * rng.randint(1, 2)
            else:
                sc = [rng.choice(ops) for _ in range(k * 2)]
            sc = sc + [6, 3]
            c += [len(sc)] + sc
        c.append(-1)
        L = rng.randint(10, 90)
        mode = rng.random()
        if mode < 0.5:
            sched = [rng.randrange(n) for _ in range(L)]
        else:  # bursts: a thread runs several accesses in a row (PCT-like)
            sched = []
            while len(sched) < L:
                sched += [rng.randrange(n)] * rng.randint(1, 7)
        cases.append(c + sched)
    return cases


def nontrivial(c, toks):
    # at least two threads performed an access before the round-robin completion started
    ev = events(toks)
    return len({e[0] for e in ev[:len(split_case(c)[1])]}) >= 2


def reschedule(c, rng):
    scripts, sched = split_case(c)
    n = c[0]
    head = c[:len(c) - len(sched)]
    new = []
    while len(new) < max(30, len(sched)):
        new += [rng.randrange(n)] * rng.randint(1, 6)
    return head + new


def run(ctx):
    exe, err = ctx.build_driver("drv_rw", extra=["-include", PRELUDE])
    if err:
        return ctx.broken("drv_rw build (spin_rw_mutex under the atomic prelude)", err)
    ctx.rules.append("rw-gate: 2-4 logical threads, static scripts over the 8 operations of spin_rw_mutex (inapplicable ops skipped, so every run is a legal use), "
                     "random and bursty schedules of 10-90 atomic accesses then round-robin completion; compared event by event "
                     "(thread, access kind, memory order, value before/after, CAS success, operation results); non-trivial = >=2 threads interleave inside the schedule")
    cases = gen(ctx, ctx.scale(1500, 60000), [1, 2, 3, 4, 5, 6, 7, 8])
    diff_tie(ctx, "rw-gate", exe, [], "rw", cases, oracle=oracle, describe=describe, nontrivial=nontrivial,
             bucket=lambda c: "rw threads=%d" % c[0], timeout=1800, search=(reschedule, ctx.scale(1500, 20000)))


    run_mix(ctx)


MKINDS = ["spin_mutex", "queuing_mutex", "mutex", "speculative_spin_mutex", "spin_rw_mutex", "queuing_rw_mutex", "rw_mutex", "speculative_spin_rw_mutex", "null_mutex",
          "queuing_mutex (queue order)", "queuing_rw_mutex writers (queue order)"]


def mdesc(c):
    return "%s: %d threads x %d acquisitions (blocking / try, reused scoped_lock objects, two mutexes%s), seed %d" % (
        MKINDS[c[0]], c[1], c[2], ", reader/writer, upgrade, downgrade" if c[0] >= 4 else "", c[3])


def mix_oracle(c, toks):
    if not toks or toks[0].startswith("CRASH") or toks[-1] == "HANG":
        return ("mutex-lost-handoff", mdesc(c) + ": an acquirer never gets the lock although all holders released (hang), or the run crashed")
    d = {toks[i]: int(toks[i + 1]) for i in range(0, len(toks) - 1, 2)}
    if d.get("EXCL"):
        return ("mutex-exclusion", "%s: %d times a writer was inside together with another holder" % (mdesc(c), d["EXCL"]))
    if d.get("UPG"):
        return ("mutex-upgrade-downgrade", "%s: %d times upgrade_to_writer returned true although another writer ran in between, or a writer got in during downgrade_to_reader" % (mdesc(c), d["UPG"]))
    if d.get("FIFO"):
        return ("mutex-queue-order", "%s: blocked acquirers that queued one after the other did not get the lock in queue order (%d of the rounds)" % (mdesc(c), d["FIFO"]))
    if d.get("LOST"):
        return ("mutex-lost-update", "%s: %d updates of the plain counter protected by the lock were lost" % (mdesc(c), d["LOST"]))
    return None


def run_mix(ctx):
    lib, err = ctx.build_lib("tbb")
    if err:
        return ctx.broken("libtbb build", err)
    exe, err = ctx.build_driver("drv_mutex", libs=[lib], opt="-O1")
    if err:
        return ctx.broken("drv_mutex build", err)
    rng = ctx.rng
    cases = [[k, rng.choice([2, 3, 4, 8]), rng.choice([2000, 6000]), ctx.seed * 1000 + i * 8 + k] for i in range(ctx.scale(2, 40)) for k in range(8)]
    cases += [[9, 3 + i % 4, 4, ctx.seed * 1000 + 900 + i] for i in range(ctx.scale(2, 20))] + [[10, 3 + i % 4, 4, ctx.seed * 1000 + 950 + i] for i in range(ctx.scale(2, 20))]
    ctx.rules.append("mutex-mix (oracle only): all eight mutex types, 2-8 real threads, each with ONE scoped_lock object used again and again on two mutexes, blocking and try acquisitions mixed, "
                     "reader/writer with upgrade_to_writer / downgrade_to_reader (upgrade 'true' only if no writer ran in between; no writer during downgrade); queuing_mutex / queuing_rw_mutex: 3-6 acquirers queued one after the other are served in queue order; predicate = never a writer together with another holder, no lost update of a plain counter, every acquirer gets the lock (watchdog)")
    vlib.oracle_tie(ctx, "mutex-mix", exe, [], cases, mix_oracle, describe=mdesc, bucket=lambda c: "mutex-mix %s" % MKINDS[c[0]], timeout=900)


def replay(ctx, rep):
    if rep.get("tie") == "mutex-mix":
        lib, err = ctx.build_lib("tbb")
        exe, err = ctx.build_driver("drv_mutex", libs=[lib], opt="-O1")
        return vlib.oracle_tie(ctx, "mutex-mix", exe, [], [rep["case"]], mix_oracle, describe=mdesc)
    exe, err = ctx.build_driver("drv_rw", extra=["-include", PRELUDE])
    diff_tie(ctx, rep.get("tie", "replay"), exe, [], "rw", [rep["case"]], oracle=oracle, describe=describe)
