"""C17 — tbbmalloc blocks disjoint, aligned, big enough, content-preserving. See DESIGN.md section 4/C17."""
import os
import vlib
from vlib import diff_tie, oracle_tie, Finding
from props.common import BASE_TRUSTED

PROP_FILES = ["Properties_C17"]
TRUSTED = BASE_TRUSTED + [
    "modelled: size classes, slab bump/free-list placement of the active block, aligned-allocation strategy, findObjectToFree, large-object placement (getFromLLOCache)",
    "modelled, not verified: backend (coalescing, bins, regions), back-reference table, large-object cache, block switching after a slab is full, "
    "foreign-thread frees (public free list), orphaned slabs — exercised by the shadow-map/pattern oracle on every run only",
]
MALLOC_FLAGS = ["-D__TBBMALLOC_BUILD", "-I" + os.path.join(vlib.REPO, "src", "tbbmalloc")]


def build(ctx):
    lib, err = ctx.build_lib("tbbmalloc")
    if err:
        ctx.broken("tbbmalloc build", err)
        return None
    exe, err = ctx.build_driver("drv_malloc", libs=[lib], extra=MALLOC_FLAGS)
    if err:
        ctx.broken("drv_malloc build", err)
        return None
    return exe


def describe(c):
    out, i = [], 0
    while i < len(c):
        if c[i] == 1:
            out.append("malloc(%d)" % c[i + 1]); i += 2
        elif c[i] == 2:
            out.append("free(#%d)" % c[i + 1]); i += 2
        elif c[i] == 3:
            out.append("aligned_malloc(%d,%d)" % (c[i + 1], c[i + 2])); i += 3
        else:
            out.append("realloc(#%d,%d)" % (c[i + 1], c[i + 2])); i += 3
    return "fresh pool: " + "; ".join(out)


def parse_seq(c, toks):
    """-> list of per-op records from the implementation's output, and the trailer dict"""
    recs, i, p = [], 0, 0
    while i < len(c):
        op = c[i]
        if op in (1, 3):
            kind = int(toks[p])
            if kind == 1:
                recs.append(("large",) + tuple(int(x) for x in toks[p + 1:p + 8])); p += 8
            else:
                recs.append(("small" if kind == 0 else "null",) + tuple(int(x) for x in toks[p + 1:p + 5])); p += 5
            i += 2 if op == 1 else 3
        elif op == 2:
            recs.append(("free",)); p += 1; i += 2
        else:
            recs.append(("realloc", int(toks[p + 1]))); p += 2; i += 3
    tr = {}
    rest = toks[p:]
    for k in range(0, len(rest) - 1, 2):
        tr[rest[k]] = int(rest[k + 1])
    return recs, tr


def seq_oracle(c, toks):
    if not toks or toks[0].startswith("CRASH") or toks[-1] == "HANG":
        return ("malloc-crash", describe(c) + ": " + " ".join(toks)[-80:])
    try:
        recs, tr = parse_seq(c, toks)
    except (ValueError, IndexError):
        return ("malloc-bad-output", describe(c))
    if tr.get("OVERLAP"):
        return ("malloc-overlap", "%s: %d allocation(s) overlap a live block" % (describe(c), tr["OVERLAP"]))
    if tr.get("OUTSIDE"):
        return ("malloc-outside-pool", "%s: block outside the pool's raw memory" % describe(c))
    if tr.get("CORRUPT"):
        return ("malloc-corrupt", "%s: a live block lost its contents (allocator wrote into it, or realloc dropped the prefix)" % describe(c))
    i = 0
    for r in recs:
        if r[0] in ("small", "large") and r[-1 if r[0] == "small" else 5] == 0:
            return ("malloc-align-or-msize", "%s: a returned block is misaligned or msize < requested (%s)" % (describe(c), r))
        if r[0] == "realloc" and r[1] == 0:
            return ("malloc-realloc", "%s: realloc failed or msize < new size" % describe(c))
    return None


def gen_seq(ctx, n):
    rng = ctx.rng
    cases = []
    bsz = [1, 7, 8, 9, 15, 16, 17, 24, 32, 33, 48, 63, 64, 65, 79, 80, 81, 96, 112, 128, 129, 160, 255, 256, 257, 320, 512, 640, 1000, 1024, 1025,
           1792, 1793, 2688, 2689, 4032, 4033, 5376, 5377, 8000, 8128]
    large = [8129, 9000, 16384, 65536, 100000, 1 << 20, (1 << 20) + 1, 8 * 1024 * 1024 - 200, 8 * 1024 * 1024 + 5, 40 * 1024 * 1024]
    for _ in range(n):
        c, nalloc, live = [], 0, []
        style = rng.random()
        for _ in range(rng.randint(2, 25)):
            r = rng.random()
            if r < 0.5 or not live:
                s = rng.choice(bsz) if rng.random() < 0.85 else rng.choice(large)
                if style < 0.3:
                    s = rng.choice([24, 24, 100, 5000, 8128])   # few classes, many objects: fills slabs
                c += [1, s]; live.append(nalloc); nalloc += 1
            elif r < 0.65:
                s = rng.choice(bsz + large[:5])
                a = 1 << rng.choice([3, 4, 5, 6, 7, 8, 9, 10, 11, 12, 13, 16, 20])
                c += [3, s, a]; live.append(nalloc); nalloc += 1
            elif r < 0.9:
                k = live.pop(rng.randrange(len(live)))
                c += [2, k]
            else:
                k = rng.choice(live)
                c += [4, k, rng.choice(bsz + large[:6])]
        cases.append(c)
    return cases


def run(ctx):
    exe = build(ctx)
    if not exe:
        return
    # --- size classes: exhaustive
    sizes = list(range(1, 8129))
    cases = [sizes[i:i + 64] for i in range(0, len(sizes), 64)]
    ctx.rules.append("sizes: every request size 1..8128 (exhaustive): bin index and object size compared with the model")
    diff_tie(ctx, "malloc-sizes", exe, ["sizes"], "msizes", cases, bucket=lambda c: "sizes")
    # --- allocation sequences on a fresh pool: exact slab offsets vs model + shadow-map oracle
    seqs = gen_seq(ctx, ctx.scale(1500, 60000))
    rc_all = 0
    impl_lines = []
    rc, lines, err = ctx.run_driver(exe, ["seq"], seqs, timeout=1800)
    progressed = len(lines) > 0
    while len(lines) < len(seqs):
        if not (rc == -9 and progressed):        # rc -9 = our own batch time-out (loaded machine): the case in progress did not crash, run the rest again
            lines.append("CRASH rc=%s" % rc)
        if len(lines) < len(seqs):
            rc, more, err = ctx.run_driver(exe, ["seq"], seqs[len(lines):], timeout=1800)
            progressed = len(more) > 0
            lines += more
    model = ctx.modelrun("mseq", seqs)
    llo_cases, llo_expect = [], []
    bad = 0
    for c, ln, mo in zip(seqs, lines, model):
        toks = ln.split()
        ctx.count(("mseq", tuple(c)), len(c) > 4, "mseq ops=%d" % (len(c) // 2))
        v = seq_oracle(c, toks)
        if v:
            bad += 1
            if bad <= 3:
                ctx.add(Finding("violation", v[0], "malloc-seq: " + v[1], {"tie": "malloc-seq", "case": c, "impl": ln[:1500]}))
            continue
        recs, tr = parse_seq(c, toks)
        # compare small-object placements with the model (model prints 0 osz off msize | 1 | -2)
        mi = 0
        i = 0
        mism = None
        for r in recs:
            if r[0] == "realloc":
                break   # realloc is oracle-only (the model does not track moved blocks)
            if r[0] == "free":
                if mo[mi] != -2:
                    mism = "free"
                mi += 1
            elif r[0] == "large":
                if mo[mi] != 1:
                    mism = "model expected a small object, implementation returned a large one"
                mi += 1
                unaligned, off, ms, ok, lmb, idxb, idxa = r[1:8]
                # placement inside the raw block: checked against llo_place below
                op_i = [k for k in range(len(recs)) if recs[k] is r][0]
                llo_cases.append((c, r))
            elif r[0] == "small":
                if mo[mi] != 0:
                    mism = "model expected a large object"
                    break
                osz, off, ms = mo[mi + 1:mi + 4]
                if off != -9 and (osz, off, ms) != (r[1], r[2], r[3]):
                    mism = "small object placement: implementation (objectSize,offset,msize)=%s model=%s" % ((r[1], r[2], r[3]), (osz, off, ms))
                    break
                if off == -9 and osz != r[1]:
                    mism = "object size class: implementation %d model %d" % (r[1], osz)
                    break
                mi += 4
            else:
                break
        if mism:
            bad += 1
            if bad <= 3:
                ctx.add(Finding("broken", "broken:tie:malloc-seq", "correspondence malloc-seq: %s: %s" % (describe(c), mism), {"tie": "malloc-seq", "case": c, "impl": ln[:1500], "model": mo}))
        else:
            ctx.traces_validated += 1
    ctx.ties.append({"name": "malloc-seq", "cases": len(seqs), "disagreements": bad})
    ctx.rules.append("malloc-seq: random malloc/aligned_malloc/free/realloc sequences (size-class boundaries 8..64 step 8, segregated bins, fitting sizes, 8129+, bin steps around 8MB, "
                     "alignments 8..2^20) on a fresh memory pool, single thread; small-object (objectSize, slab offset, msize) compared exactly with the model; "
                     "oracle = shadow interval map + fill patterns (no overlap, inside the pool, contents kept, aligned, msize >= request)")
    # --- large-object placement vs llo_place
    if llo_cases:
        req = []
        for c, r in llo_cases:
            # find the request that produced r: re-derive size/alignment from the op list by position
            recs, _ = parse_seq(c, [l for cc, l in zip(seqs, lines) if cc is c][0].split())
            i, k = 0, 0
            size = align = None
            while i < len(c):
                op = c[i]
                if op in (1, 3):
                    if recs[k] is r or recs[k] == r:
                        size = c[i + 1] if c[i + 1] else 8
                        align = max(64, c[i + 2]) if op == 3 else 64
                        break
                    i += 2 if op == 1 else 3
                else:
                    i += 2 if op == 2 else 3
                k += 1
            req.append((size, align))
        flat, exp = [], []
        for (c, r), (size, align) in zip(llo_cases, req):
            unaligned, off, ms, ok, lmb, idxb, idxa = r[1:8]
            flat += [lmb, unaligned, size, align, idxa, 1]
            exp.append(off)
        got = ctx.modelrun("llo", [flat])[0]
        nb = 0
        for g, e, (c, r) in zip(got, exp, llo_cases):
            ctx.count(("llo", r[1:8]), True, "llo")
            if g != e:
                nb += 1
                if nb <= 2:
                    ctx.add(Finding("broken", "broken:tie:malloc-llo", "large-object placement: implementation offset %d, model %d for %s" % (e, g, r), {"tie": "malloc-llo", "case": list(r[1:8])}))
            else:
                ctx.traces_validated += 1
        ctx.ties.append({"name": "malloc-llo", "cases": len(exp), "disagreements": nb})
    run_cross_thread(ctx, exe)


def xdesc(c):
    return "thread A: %d x %s; thread B frees every other block%s; thread A: %d x malloc(%d)" % (
        c[2], ("aligned_malloc(%d,%d)" % (c[0], c[1])) if c[1] else "malloc(%d)" % c[0], " (B stays alive)" if c[4] else " and exits", c[2], c[3])


def xfree_oracle(c, toks):
    if not toks or toks[0].startswith("CRASH") or toks[-1] == "HANG":
        return ("malloc-xfree-crash", xdesc(c) + ": the allocator crashed (" + " ".join(toks)[-40:] + ")")
    d = {toks[i]: int(toks[i + 1]) for i in range(0, len(toks) - 1, 2)}
    for k, msg in (("OVERLAP", "a new block overlaps a live block"), ("MSIZE", "scalable_msize below the requested size"),
                   ("MISALIGNED", "misaligned block"), ("CORRUPT", "a live block lost its contents")):
        if d.get(k):
            return ("malloc-xfree-" + k.lower(), "%s: %s (%d)" % (xdesc(c), msg, d[k]))
    return None


def run_cross_thread(ctx, exe):
    rng = ctx.rng
    cases = []
    fit = [1792, 2688, 4032, 5376, 8128]
    for f in fit:
        for al in (0, 128, 256, 512, 1024, 2048, 4096):
            for size in {f - al - 64 if f - al - 64 > 1024 else 1100, 1100, 1500, 3000}:
                if al and not (size + al <= 8128):
                    continue
                if ctx.quick() and rng.random() < 0.5:
                    continue
                cases.append([size, al, rng.choice([12, 24, 96]), rng.choice(fit + [f - 100]), rng.randrange(2)])
    for _ in range(ctx.scale(40, 1500)):
        cases.append([rng.choice([8, 24, 100, 512, 1024, 1500, 2600, 5000, 9000]), rng.choice([0, 16, 64, 128, 1024, 4096]), rng.choice([8, 40, 200]),
                      rng.choice([8, 24, 100, 1792, 2600, 8128, 9000]), rng.randrange(2)])
    ctx.rules.append("cross-thread: thread A allocates N (aligned) blocks of every fitting class x alignment 128..4096, thread B frees every other one (and exits or stays), "
                     "A allocates again; shadow-map / msize / alignment / pattern oracle")
    # every C entry point (calloc zero-fill, aligned_realloc, posix_memalign, msize, realloc preservation) against a shadow map
    arng = ctx.rng
    acases = []
    SZ = [0, 1, 7, 8, 9, 16, 24, 48, 64, 65, 100, 128, 255, 256, 257, 1000, 1024, 1025, 1792, 2688, 4032, 4033, 5376, 8064, 8128, 8129, 10000, 20000, 65536, 100000, 1 << 20, (1 << 20) + 1, 3 << 20]
    for _ in range(ctx.scale(300, 8000)):
        ops, nsl = [], 0
        for _ in range(arng.randint(3, 30)):
            r_ = arng.random()
            if r_ < 0.2 or nsl == 0:
                ops += [1, arng.choice(SZ), 0]; nsl += 1
            elif r_ < 0.32:
                ops += [3, arng.choice(SZ[1:]), 1 << (arng.randrange(3, 15) if arng.random() < 0.8 else arng.choice([20, 24, 30, 31, 32, 33, 34, 36]))]; nsl += 1
            elif r_ < 0.44:
                nn = arng.choice([1, 1, 2, 3, 16, 100]); ops += [5, nn, arng.choice(SZ[:26])]; nsl += 1
            elif r_ < 0.52:
                ops += [7, arng.randrange(3, 15) if arng.random() < 0.8 else arng.choice([21, 30, 32, 33, 35]), arng.choice(SZ[1:])]; nsl += 1
            elif r_ < 0.68:
                ops += [2, arng.randrange(nsl), 0]
            elif r_ < 0.84:
                ops += [4, arng.randrange(nsl), arng.choice(SZ[1:])]
            elif r_ < 0.96:
                ops += [6, arng.randrange(nsl), ((arng.randrange(3, 13) if arng.random() < 0.8 else arng.choice([22, 31, 32, 33])) << 32) | arng.choice(SZ[1:27])]
            else:
                ops += [8, arng.randrange(nsl), 0]
        acases.append(ops)
    # directed: realloc of a huge object (alone in its region: the mremap path) to sizes just below bin boundaries, by a thread whose large-object shuffle index has advanced
    MB = 1 << 20
    dir_cases = []
    for W in ([37, 300] if ctx.quick() else [0, 37, 300]):
        for S1 in ([41 * MB] if ctx.quick() else [20 * MB, 41 * MB]):
            for M in ([3 * MB, 12 * MB, 24 * MB] if ctx.quick() else [2 * MB, 3 * MB, 6 * MB, 12 * MB, 16 * MB, 24 * MB]):
                for d in ([40, 168, 1000] if ctx.quick() else [8, 40, 168, 1000, 8200]):
                    ops = []
                    for w in range(W):
                        ops += [1, 65536 + (w * 7919) % (900 * 1024), 0]
                    for w in range(W):
                        ops += [2, w, 0]
                    ops += [1, S1, 0, 4, W, M - d, 8, W, 0, 4, W, M + 64 * 1024 - d]
                    dir_cases.append(ops)
    acases += dir_cases
    ctx.rules.append("malloc-api, directed: a thread that made 0-300 earlier large allocations allocates 20 / 41 MB (alone in its region) and reallocs it to sizes 8..8200 bytes below 2..32 MB (the mremap path of "
                     "Backend::remap), then again a little larger: the block is filled and checked like every other block (a tail outside the mapping crashes)")
    ctx.rules.append("malloc-api (oracle only): random sequences over malloc / calloc / realloc / aligned_malloc / aligned_realloc / posix_memalign / free / msize with sizes at the class and route "
                     "boundaries and alignments 8..16384 and, one time in five, 2^20..2^36 (such a request may be refused; a block that is returned must be backed by accessible memory): no overlap with live blocks, alignment, msize >= size, calloc zero-filled, realloc keeps min(old,new) bytes, live blocks keep their pattern")

    def api_oracle(c, toks):
        if not toks or toks[0].startswith("CRASH") or toks[-1] == "HANG":
            return ("malloc-api-crash", "malloc-api sequence %s: crash/hang" % c[:60])
        d = {toks[i]: int(toks[i + 1]) for i in range(0, len(toks) - 1, 2)}
        msg = {"OVERLAP": "a new block overlaps a live block", "MISALIGNED": "a block is not aligned as requested", "MSIZE": "scalable_msize is below the requested size", "NONZERO": "calloc memory is not zero",
               "LOSTDATA": "realloc lost part of the first min(old,new) bytes", "CORRUPT": "a live block was written by the allocator", "BADRET": "posix_memalign failed for a valid alignment",
               "WILD": "a block returned for an alignment above 2^20 is not backed by accessible memory"}
        for k, m_ in msg.items():
            if d.get(k):
                names = {1: "malloc", 2: "free#", 3: "aligned_malloc", 4: "realloc#", 5: "calloc", 6: "aligned_realloc#", 7: "posix_memalign 2^", 8: "msize#"}
                return ("malloc-api-" + k.lower(), "%s: %s" % ("; ".join("%s(%d,%d)" % (names.get(c[i], "?"), c[i + 1], c[i + 2] if c[i] != 6 else c[i + 2] & 0xffffffff) for i in range(0, len(c), 3))[:900], m_))
        return None
    oracle_tie(ctx, "malloc-api", exe, ["api"], acases, api_oracle, bucket=lambda c: "api ops=%d" % (len(c) // 30 * 10), timeout=900)
    oracle_tie(ctx, "malloc-xfree", exe, ["xfree"], cases, xfree_oracle, describe=xdesc, bucket=lambda c: "xfree align=%d" % c[1], timeout=900)
    bad = 0
    nmt = ctx.scale(6, 80)
    for r in range(nmt):
        rc, lines, err = ctx.run_driver(exe, ["mt", 2 + r % 4, ctx.seed * 1000 + r, 3000], timeout=300)
        ctx.count(("malloc-mt", r), True, "malloc-mt")
        if rc != 0 or not lines or lines[-1].split()[1::2] != ["0", "0", "0"]:
            bad += 1
            ctx.add(Finding("violation", "malloc-mt", "cross-thread malloc/free run (threads=%d seed=%d): %s rc=%s" % (2 + r % 4, ctx.seed * 1000 + r, (lines or ["no output"])[-1], rc),
                            {"tie": "malloc-mt", "args": ["mt", 2 + r % 4, ctx.seed * 1000 + r, 3000]}))
            break
    ctx.ties.append({"name": "malloc-mt (oracle only)", "cases": nmt, "disagreements": bad})


def replay(ctx, rep):
    if rep.get("tie") == "malloc-api":
        rc, lines, err = ctx.run_driver(build(ctx), ["api"], [rep["case"]], timeout=60)
        print(lines)
        toks = (lines or ["CRASH"])[0].split()
        if toks[0] == "CRASH" or any(x != "0" for x in toks[1::2]):
            ctx.add(Finding("violation", "malloc-api", "replay: %s" % " ".join(toks), rep))
        return
    if rep.get("tie") == "malloc-xfree":
        oracle_tie(ctx, "malloc-xfree", build(ctx), ["xfree"], [rep["case"]], xfree_oracle, describe=xdesc)
        return
    exe = build(ctx)
    if rep.get("tie") == "malloc-seq":
        rc, lines, err = ctx.run_driver(exe, ["seq"], [rep["case"]])
        v = seq_oracle(rep["case"], lines[0].split()) if lines else ("malloc-crash", "no output")
        if v:
            ctx.add(Finding("violation", v[0], v[1], rep))
        print(lines, ctx.modelrun("mseq", [rep["case"]]))
