#!/usr/bin/env python3
"""Writes /verif/MANIFEST.json from the table below (keeps it schema-valid at all times)."""
import json, os, sys
sys.path.insert(0, os.path.dirname(os.path.abspath(__file__)))
VERIF = os.path.dirname(os.path.dirname(os.path.abspath(__file__)))

CLAIMS = {
    "C11": dict(
        technique="Coq proof (induction + Z.log2 arithmetic) over an executable model; differential correspondence with the real concurrent_vector via extracted OCaml",
        text="Theorems seg_bijection (all 64-bit indices), grow_ranges_tile (any call sequence = any interleaving of the single RMW per call), "
             "grow_to_at_least_covers (every n < 2^64) and the refutation of the historical int-cast decision are proved in Coq over the model; "
             "the model is run against the real segment_table/concurrent_vector on boundary-dense indices and growth sequences incl. n >= 2^31 on every run.",
        note="Trusted: Coq kernel, extraction (ExtrOcamlBasic), dump_params, drivers. Modelled not verified: segment allocation/first-block election/"
             "table extension and allocation-failure handling (exercised only by the real-thread oracle runs).",
        ref="4/C11"),
}

REASONS_TODO = "check not built yet in this round; the design (DESIGN.md section 4) applies and it is planned — listed here only because no check is registered"


def main():
    props = [json.loads(l) for l in open(os.path.join(VERIF, "properties.jsonl"))]
    checks, na = [], []
    for p in props:
        pid = p["id"]
        if pid in CLAIMS:
            c = CLAIMS[pid]
            checks.append({
                "property_id": pid,
                "quick_cmd": "python3 tools/check.py %s --tier quick" % pid,
                "thorough_cmd": "python3 tools/check.py %s --tier thorough" % pid,
                "evidence_file": "/verif/evidence/%s.json" % pid,
                "replay_cmd_template": "python3 tools/check.py %s --replay {path}" % pid,
                "engine": "coq-proof+correspondence",
                "level_claimed": {"category": "proof", "text": c["text"], "design_ref": c["ref"]},
                "level_note": c["note"],
                "technique": c["technique"],
            })
        else:
            na.append({"property_id": pid, "reason": REASONS_TODO})
    m = {
        "version": 1,
        "setup_cmd": "python3 tools/check.py --setup",
        "hooks": {
            "guard": "ONEAPI_SRC_ONETBB_VERIF",
            "enable": "drivers are compiled by tools/vlib.py with -DONEAPI_SRC_ONETBB_VERIF=1 against /repo's working tree (no source hook is currently needed: "
                      "observation goes through -fno-access-control, a force-included std::atomic prelude and .cpp inclusion)",
            "baseline_off_cmd": "cmake -G Ninja -B /repo/_build -S /repo -DCMAKE_BUILD_TYPE=RelWithDebInfo -DTBB_TEST=ON -DCMAKE_CXX_FLAGS=-Wno-error && cmake --build /repo/_build && ctest --test-dir /repo/_build -j8 --timeout 900",
            "source_commits": [],
            "add_only": True,
        },
        "engines": [{"name": "coq-proof+correspondence", "path": "tools/check.py",
                     "serves_properties": sorted(CLAIMS),
                     "kind_free_text": "Coq 8.16.1 theorems over executable Gallina models (coq/theories), extracted to OCaml (ocaml/), "
                                       "run against drivers compiled from /repo's working tree (harness/)"}],
        "checks": checks,
        "not_applicable": na,
        "notes": "fix: commits in /repo are recorded in KNOWN_FINDINGS.txt as 'fixed:' lines.",
    }
    json.dump(m, open(os.path.join(VERIF, "MANIFEST.json"), "w"), indent=1)
    print("MANIFEST.json: %d checks, %d not_applicable" % (len(checks), len(na)))


if __name__ == "__main__":
    main()
