#!/usr/bin/env python3
"""Writes /verif/MANIFEST.json from the table below (keeps it schema-valid at all times)."""
import json, os, sys
sys.path.insert(0, os.path.dirname(os.path.abspath(__file__)))
VERIF = os.path.dirname(os.path.dirname(os.path.abspath(__file__)))

CLAIMS = {
    "C11": dict(
        technique="Coq proof (induction + Z.log2 arithmetic) over an executable model; differential correspondence with the real concurrent_vector via extracted OCaml",
        text="Theorems seg_bijection (all 64-bit indices), grow_ranges_tile (any call sequence = any interleaving of the single RMW per call), "
             "grow_to_at_least_covers (every n < 2^64) and the refutation of the historical int-cast decision are proved in Coq over the model; "
             "the model is run against the real segment_table/concurrent_vector on boundary-dense indices and growth sequences incl. n >= 2^31 on every run. Gate exploration of the real vector "
             "(2-4 logical threads, throwing allocator, directed 'late segment owner' schedules): no construction outside live memory, no element constructed twice, at(i) works or throws, "
             "grow_to_at_least(n) does not return while a segment below n is unallocated, every index below size() has storage; real threads: tiling, values, element addresses stable while the vector grows. A throwing element constructor at every call index of grow_by / grow_to_at_least / push_back (each case in a forked child): no crash, safe accesses, destructible. Three defects found and repaired (fix: bc8f980 int-cast decision; fix: d40e28d early return of the growing call; fix: 145e9bf clean-up after a throwing constructor wrote through unallocated segments).",
        note="Trusted: Coq kernel, extraction (ExtrOcamlBasic), dump_params, drivers. Modelled not verified: segment allocation/first-block election/"
             "table extension and allocation-failure handling (gate exploration and real-thread oracle runs only); 'constructed' is checked as 'segment allocated and this call's own elements hold its value' — "
             "elements of other calls still in flight may be under construction, as the library documents.",
        ref="4/C11"),
    "C13": dict(
        technique="Coq proof (induction over both passes of handle_operations) over an executable model; differential correspondence with the real handle_operations and public API; spec-level linearizability oracle",
        text="Theorems batch_accounting (every op of a batch answered exactly once; size changes by successful pushes minus pops; mark = size after every batch) "
             "and pop_fails_only_when_empty are proved for every queue state and every batch; batch_is_a_priority_queue_history: for every heap-ordered queue and every batch there is an order of the batch's operations "
             "(all pending together, so any order respects real time) that is a legal sequential priority-queue history from the contents before to the contents after — each successful pop returns an element >= all "
             "elements present at its point, a pop fails only on empty contents, nothing lost or duplicated — and heapify/reheap restore the binary-heap order (sift-up / sift-down invariants proved); "
             "all_batches_form_a_priority_queue_history lifts this to any sequence of batches from the empty queue; exception isolation (a throwing element copy / assignment is answered to its own operation, "
             "queue and other results identical to the batch without it) is proved for both passes. The model (both passes, heapify, reheap, faults) is compared with the real "
             "handle_operations on the exact data array after every batch; a brute-force priority-queue linearizability oracle decides violations. Defect found and repaired (fix: 60f5e0e).",
        note="Not modelled: the aggregator (pending-stack CAS, handler election) — that operations of one batch overlap in real time and batches are executed one after the other is taken from the code by reading "
             "and exercised by the real-thread linearizability oracle only; Compare = std::less<int> in the model. Real threads (cpq-mt, oracle only): no element read after its push returned, exceptions reach exactly the failing callers, conservation, final priority order.",
        ref="4/C13"),
    "C08": dict(
        technique="Coq proof of an inductive invariant over all interleavings (N threads) of an access-level small-step model (spin_rw_mutex); step-level correspondence with the real lock under a deterministic atomic-access gate; real-thread exclusion / hand-off oracle for all eight mutex types",
        text="spin_rw_mutex: mutual exclusion (writer excludes writers and readers) and state-word consistency are proved for any number of threads, any scripts over all "
             "eight operations incl. upgrade/downgrade and any interleaving of the individual atomic accesses. The real spin_rw_mutex.h runs under a force-included "
             "std::atomic prelude so that it executes exactly a given interleaving; its event trace (access kind, memory order, values, results) must equal the model's. "
             "All eight mutex types (spin, queuing, mutex, speculative; their rw variants): 2-8 real threads, each re-using ONE scoped_lock object on two mutexes, blocking and try acquisitions mixed, upgrade/downgrade: never a writer with another holder, no lost update, every acquirer served (watchdog).",
        note="SC only (memory orders are compared, not proved necessary). Modelled: spin_rw_mutex only; spin_mutex, queuing_mutex, queuing_rw_mutex, mutex/rw_mutex waiting, RTM variants are oracle-only (mutex-mix); "
             "upgrade-truthfulness and no-lost-hand-off are checked by the harness oracle (critical-section bookkeeping, round-robin completion), not yet theorems.",
        ref="4/C08"),
    "C05": dict(
        technique="Coq proof (induction on a logarithmic fuel bound) that the simple_partitioner chunk tree tiles the range with the documented size bounds, for unbounded sizes; differential correspondence with the real parallel_for; tiling oracle on all partitioners",
        text="simple_chunks is proved for every begin<end and every grain (no size bound): termination, in-order contiguous tiling, non-empty chunks, non-divisible ranges never split, "
             "chunk sizes in [ceil(g/2), g]. The model's leaves are compared exactly with the chunks the real parallel_for(simple_partitioner) hands to the body, incl. sizes > 2^32 and 2^63. "
             "Strided form parallel_for(first,last,step,f): strided_loop_indices proves that the trip count / index formula visits exactly the progression below last, each index once; tied at the ends of int / unsigned / size_t / long long. "
             "Proportional split: Flocq binary32 model evaluated inside Coq, tied for sizes up to 2^64-1. All other partitioners / 2d / 3d / for_each / invoke are exercised by real-thread runs with the exactly-once/tiling predicate. Range pool of auto / affinity partitioner (RvecModel, ring indices explicit): for every non-empty range and every sequence of split_to_fill / run-back / offer-front the pieces run, offered and still pooled are non-empty and tile the range (range_pool_tiles_the_range); tie range-pool: the real range_vector<blocked_range<long>,8> white box, op by op, over ring-wrapping scripts.",
        note="Partial: auto/static/affinity partitioner state machines, the float proportional split and the nd ranges are not yet modelled in Coq (oracle-only).",
        ref="4/C05"),
    "C16": dict(
        technique="Coq proof (induction over clients and priority levels, nia for the proportional division) of the worker-allotment arithmetic for every demand vector; differential correspondence with the real market object; real-thread oracle for slots/limits/observers",
        text="For every demand vector and soft limit L>=1 the theorems give: granted workers sum to min(total demand, L), nobody gets more than requested, priority level i receives "
             "min(D_i, remainder), the rounding carry is 0 at every level end; for L=0 at most one mandatory worker, only to an arena with enqueued work. The model of "
             "adjust_demand/set_active_num_workers/update_request is compared with the real market+arena objects after every call.",
        note="Partial: slot uniqueness, concurrency bound, reserved slots, observer pairing, global_control worker bound (arena-oracle), isolation (arena-isolate) and the mandatory worker's withdrawal (arena-mandatory) are checked by real-thread oracle runs, not proved "
             "(no Coq model of try_occupy / observers yet); the write-back glue of reallot (which client receives which result) is tied only by the differential check.",
        ref="4/C16"),
    "C17": dict(
        technique="Coq proofs: exhaustive vm_compute sweeps lifted by lemma for the finite size-class domain, induction/arithmetic for slab geometry, bin invariant and large-object placement (all alignments up to 2^63); differential correspondence with the real front end in a fresh pool",
        text="Proved: size classes (every request 1..8127: big enough, idempotent, monotone, 16/8-byte aligned, index in range), slab objects never overlap header or each other for every k, "
             "a bin never hands out a live object (free-list/bump-pointer invariant for any legal alloc/free order), aligned small requests are that aligned, free() recovers the real object of an "
             "aligned fitting-size pointer, large-object user area lies inside its raw block for every size/alignment/shuffle index incl. the 32-bit ptrDelta. "
             "Tie: exact (objectSize, slab offset, msize) of every small object and exact placement of every large object in random alloc/free/aligned/realloc sequences, plus a shadow-map/pattern oracle, also over every C entry point (calloc zero fill, aligned_realloc, posix_memalign, msize, realloc prefix preservation: malloc-api) and cross-thread frees (malloc-xfree).",
        note="Not modelled: backend, back-references, large-object cache, block switching after a slab fills (model marks the bin untracked), public free list / orphaned slabs "
             "(covered only by the shadow-map oracle and the cross-thread run in C18's check).",
        ref="4/C17"),
    "C18": dict(
        technique="Coq proofs of the overflow/argument guards in mod-2^64 arithmetic (calloc product test exact; large-object wrap test complete for every size and alignment); fault enumeration over the raw-allocation trace of memory pools with a raw-memory ledger",
        text="Proved: scalable_calloc refuses exactly the overflowing products; a large request that passes getFromLLOCache's test was computed with no wrap in size+headers+alignment nor in alignToBin. "
             "The guard model is compared with malloc/calloc/posix_memalign/aligned_malloc near SIZE_MAX. Pools: every index k of the raw-allocation trace is refused once; live blocks stay intact, "
             "blocks stay inside own raw memory, pool_identify is right, every raw region is returned exactly once, fixed pools call the raw allocator once, allocation recovers afterwards; fixed pools over a misaligned 2 MB buffer "
             "are filled to exhaustion, holes punched and small objects requested. Realloc near SIZE_MAX (remap guard, proved, defect fixed 8db2ca4). C++ entry points: tbb::cache_aligned_resource padding arithmetic modelled and proved "
             "(cache_aligned_resource_guard_complete; unguarded version refuted — defect fixed eb338c8), tied by the request forwarded to a probing upstream resource; cache_aligned_allocator / tbb_allocator / scalable_allocator / "
             "scalable_memory_resource throw std::bad_alloc for every unsatisfiable size (oracle).",
        note="The pool part is fault enumeration with an oracle, not a theorem (the backend is not modelled). OS-level refusal (mmap failure) is injected only through pool raw callbacks, not for the default pool.",
        ref="4/C18"),
    "C07": dict(
        technique="Coq proof of a representation invariant for the ring buffer (incl. grow) and of an abstract serial-filter machine driven by an arbitrary environment; token-count invariant; differential correspondence with the real input_buffer; real-thread pipeline oracle",
        text="Proved for every legal arrival/finish sequence (any arrival order, any buffering, any number of array doublings): items enter a serial filter in token order 0,1,2,... "
             "(admission_in_order), never while another is inside (serial_exclusion), a waiting item is never lost or overwritten (parked_items_not_lost); and items in flight + idle tokens = "
             "max_number_of_live_tokens in every reachable state (pipe_token_bound, serial input filter). The buffer model is compared op by op with the real input_buffer; whole pipelines run with real threads under the property oracle.",
        note="Not modelled: execute_filter's control flow around the buffers, parallel input filters' token handling, end-of-input and cancellation paths (oracle runs only).",
        ref="4/C07"),
    "C04": dict(
        technique="Coq: executable small-step model of the bind/propagate protocol with both mutex disciplines; refutation theorem (explicit interleaving) for the code as found; sound exhaustive exploration (checked closed state sets, Lib/Explore.v, soundness lemma proved) of ALL interleavings of four scenarios for the repaired protocol, and a theorem that the same exploration fails for the protocol as found; real-thread directed replay of the witness",
        text="The model refutes 'every bound descendant is cancelled' for the two-mutex protocol with an explicit schedule (theorem), which the check replays on the real library with a widened race window "
             "(defect found, repaired by fix: commit 27dc20e). A second defect was found while writing the invariant for a general proof: a context bound beneath a parent-less context registered itself and then copied the parent's flag with load + store, overwriting a concurrently propagated cancellation (theorem cancel_misses_child_of_parentless_context_refuted, replayed on real threads with injected delays: ctx-root; repaired by fix: commit d826452). For the repaired protocol every interleaving of the six listed small configurations (up to 4 contexts, 3 threads, incl. contexts bound beneath a parent-less context) is shown inside Coq (theorem cancel_reaches_descendants_all_interleavings over every reachable configuration, not a schedule prefix) to keep: "
             "once quiescent, all bound descendants of a cancelled context are cancelled and nothing else is. Real-thread oracles: random context trees with concurrent cancels (ctx-rand); 2-6 threads cancelling one context at once (ctx-race: exactly one caller gets true, sticky until reset(), cancellable again after it, sibling / isolated / parent contexts untouched).",
        note="PARTIAL: the general (unbounded) theorem for the repaired protocol, one-winner and no-spurious for arbitrary trees are not yet proved; the model is hand-written at lock-block granularity and is tied "
             "to the code only through the directed replay and random real-thread runs, not step by step. SC only.",
        ref="4/C04, 8(a)"),
    "C09": dict(
        technique="Coq proof over a ticket-level state machine (invariant by induction over arbitrary step sequences, any number of threads); refutation theorems for the abort path; gate-driven exploration of the real concurrent_queue with an exhaustive linearizability oracle",
        text="Proved: lane arithmetic (n_queue consecutive tickets -> distinct lanes, per-lane turn counter steps by n_queue); for the ticket protocol without abort, for any number of threads and any "
             "interleaving: the pop holding ticket k receives exactly the k-th pushed value, every item at most once, live pops hold distinct tickets, the push order is stable. "
             "Refuted (theorem + real replay, recorded as known finding): abort of a blocked pop breaks ticket uniqueness and strands an item. "
             "concurrent_bounded_queue try_push/try_pop claim loops (BqModel, any number of threads, any interleaving of head/tail accesses): outstanding tickets never exceed the capacity, "
             "try_push reports full / try_pop reports empty only at an access where that is true, tickets are handed out once each in order; tied per access to the real queue under the gate (bq-gate). "
             "The real concurrent_queue runs under the atomic-access gate with random interleavings and a Wing-Gong linearizability oracle; both queues run with real threads under a conservation/order/capacity oracle.",
        note="PARTIAL: the model is at ticket level; micro_queue internals (pages, masks, per-lane counters, invalid entries, throwing constructors) and the bounded queue's monitors are explored, not modelled; "
             "try_pop-empty truthfulness is checked by the linearizability oracle only. KNOWN-FINDING bqueue-abort-ticket-reuse is printed on every run.",
        ref="4/C09, 8(c)"),
    "C06": dict(
        technique="Coq proof: invariant over every sequence of atomic actions of parallel_reduce's task tree (tree-structured state, induction on the tree and on the op list), free-monoid Body; "
                  "split/join tree of deterministic reduce as a total function; real runs replayed as model op sequences",
        text="Proved for every range, every splitting pattern and every order of task starts / body runs / offers / finishes / folds: caller's body ++ pending = lo..hi-1 in order at all times, hence the "
             "folded result is the sequential left fold for any associative join (monoid lemma, no commutativity); a right body is joined only by its own node into that node's left body after both subtrees "
             "finished; a right child feeds the left body only when m_ref_count shows the left subtree finished. Deterministic reduce (simple_partitioner): the tree is dsplit(range, grain), its leaves cover the "
             "range in order and are at most grain long. Tie: real parallel_reduce runs (4 partitioners, 1-16 threads) are logged (body splits, body runs, joins, offer_work via the guarded hook) and replayed "
             "as ops of the model, which must accept all of them and end with the same body; real deterministic-reduce trees are compared with dsplit.",
        note="PARTIAL: parallel_scan and parallel_sort are covered by oracle runs only (exactly one final pass per element with the right prefix; sorted permutation around the 500/4000 thresholds, ties, "
             "pre-sortedness probe covers every adjacent pair; every one-inversion input at every position for several n, both directions, default arena and arenas of 2/3/8 slots comes out sorted); no theorem about sum_node/final_sum or quick_sort_range::split_range. Cancellation of a reduction is not modelled. The log replayer (Python) is trusted.",
        ref="4/C06"),
    "C10": dict(
        technique="Coq proof: sequential refinement of the hash table (hash & mask addressing, growth, lazy recursive rehashing) to a finite map, by an invariant on bucket placement along parent chains; "
                  "white-box differential tie; gate-driven exploration of the real container with an exhaustive linearizability oracle",
        text="Proved for every sequence of insert/erase/find with any keys, through any number of doublings and any pattern of rehashed / not yet rehashed buckets: every result equals a finite map's "
             "(insert succeeds iff absent, erase iff present, find returns the stored value), keys stay unique, every key sits on its parent chain with all deeper buckets still flagged, rehashing a bucket "
             "changes no key/value. Tie: sequential runs of the real container (hash(k)=k) compared with the model result by result and bucket by bucket (flags and chain order) up to 4096 buckets. "
             "Concurrency: the real container runs under the atomic-access gate (2-3 threads, incl. pre-filled tables that double during the run) with a map linearizability oracle, per-element accessor "
             "exclusion bookkeeping, destroyed-under-accessor and leak checks; real threads with a balance / one-winner / exclusion oracle.",
        note="PARTIAL: the concurrent protocol (bucket/element locks, upgrade and restart paths, check_mask_race) is explored, not proved; the element locks are spin_rw_mutex, whose exclusion is proved under C08. "
             "Iteration, rehash(), clear(), swap and move are not modelled.",
        ref="4/C10"),
    "C12": dict(
        technique="Coq proof: sequential refinement of the split-ordered list (sorted list with dummy/value nodes, lazy bucket initialisation, doubling) to a set; bit-reversal arithmetic of the split order "
                  "proved for all 64-bit hashes; white-box differential tie; gate-driven exploration of the four real containers",
        text="Proved for every initial bucket count and every sequence of insert/find: results equal a set's, the list stays sorted by order key, value nodes carry pairwise different keys and are exactly the "
             "successfully inserted keys (a traversal meets each once). Proved for all 64-bit hashes and all power-of-two bucket counts: a bucket's dummy node precedes the value node of every hash of that bucket, "
             "a bucket's dummy follows its parent's, and searching from such a dummy equals searching the whole list. Tie: sequential runs of the real unordered set / multiset (hash(k)=k) compared with the "
             "model result by result and node by node (order keys, dummy nodes, bucket count). Concurrency: unordered set/multiset and concurrent_set/multiset run under the atomic-access gate with a one-winner / "
             "contents / count / traversal oracle, and with real threads; the skip list's level structure is checked white-box after sequential inserts. Ordered containers (SkipModel: the lock-free skip list of concurrent_set/map at the granularity of single accesses to my_max_height and next(level)): proved for ANY number of threads, scripts, node heights and interleavings - the level-0 chain is strictly increasing (no two equivalent keys, comparator order), every upper chain is ordered and a sub-chain of the one below (skip_list_unique_and_ordered); per key, nodes present = initial + successful inserts <= 1 and = 1 once any insert of it returned (skip_list_one_winner_per_key); a find that reports a key found it, a find started after an insert of the key returned reports it (skip_list_find_is_truthful, skip_list_returned_insert_is_visible). Tie skip-gate: the real concurrent_skip_list with scripted node heights and numbered nodes runs under the gate; the sequence of ALL accesses to my_max_height / next pointers (kind, observed value, written value, CAS outcome), the results and the final chain of every level equal the model's.",
        note="PARTIAL: the lock-free insertion protocol (CAS retry) is explored, not proved; the skip-list model covers unique keys (multiset/multimap index numbers are oracle-only) and SC only; the unordered containers' CAS protocol has no step-level model; unsafe_erase, merge, "
             "rehash/reserve and multimap ordering of equal keys are outside the model's theorems (multi containers are tied but only the unique container is proved).",
        ref="4/C12"),
    "C15": dict(
        technique="Coq proof: invariants by induction over arbitrary operation sequences on the reservable item_buffer model (queue FIFO/conservation, sequencer exact order, buffer conservation, "
                  "reservation discipline); white-box differential tie; node-contract oracle; real-thread oracle runs for limiter/join/queue/sequencer graphs",
        text="Proved for every sequence of try_put / try_get / try_reserve / try_release / try_consume: queue_node: delivered ++ buffered = accepted puts, in order; sequencer_node: the delivered items are "
             "exactly 0,1,2,... in order and each buffered item sits in the slot of its number (stale and duplicate tags refused); buffer_node: delivered + buffered is a permutation of the accepted puts; "
             "all three: the reservation flag is set iff the front slot is the single reserved slot. Tie: the real nodes are driven sequentially through their public interface and compared with the model "
             "result by result and slot by slot (head, tail, capacity, slot states). Found and fixed: buffer_node::try_get handed out the item held by a pending reservation (6d233aa). "
             "limiter_node (LimModel): theorem limiter_never_exceeds_threshold - for any sequence of puts, successor accept/reject outcomes and positive decrements (also from inside the put) my_count + my_tries <= threshold "
             "and forwarded - requested decrements <= threshold; tie limiter-seq compares result, my_count, my_tries and my_future_decrement with the real node after every operation. join_node, queueing policy (JoinModel): for every number of ports and every sequence of puts, successor accept / reject / try_get / re-registration and forward-task runs the i-th tuple is the i-th message of every port, nothing lost or used twice, ports_with_no_items = number of empty ports (join_queueing_ith_with_ith), and no complete tuple is stranded while the successor is registered and no forward task is pending (join_complete_tuple_not_stranded); tie join-seq: result, ports_with_no_items, forwarder_busy, successor registered, tuples delivered, every port's buffer size after every operation and all tuples equal the model's. Reserving join fed by queue_nodes (JoinRModel): inputs are consumed only as complete tuples, i-th with i-th, every refused or incomplete attempt releases all reservations (join_reserving_all_or_nothing), no complete tuple stranded (join_reserving_tuple_not_stranded); tie joinr-seq additionally compares each sender's buffer and predecessor-cache membership and checks that no reservation is pending after an operation.",
        note="PARTIAL: priority_queue_node, limiter_node, join_node (queueing / reserving / key_matching), overwrite/write_once/broadcast/split/indexer nodes and forwarding to successors have no Coq model; "
             "priority_queue_node is checked against the node contract sequentially, queue/sequencer/limiter/join graphs with real threads (order, threshold, matching tuples, conservation). "
             "Concurrency inside one node is serialised by its aggregator (not modelled).",
        ref="4/C15"),
    "C14": dict(
        technique="Coq proof: invariant by induction over arbitrary operation sequences of the function-node input stage (concurrency counter + input queue); scripted differential tie with blocking bodies; "
                  "real-thread oracle runs for fan-out and wait_for_all",
        text="Proved for every concurrency limit, both policies and every sequence of try_put / body completion / forwarder runs: running bodies never exceed the limit (serial: never two); started ++ queued = "
             "accepted messages in order (each accepted message started exactly once, in arrival order, none dropped or duplicated); a message is queued only while the node is saturated, so an idle node "
             "has an empty queue; a rejecting node never queues. Tie: a real function_node whose bodies block until the script releases them is driven op by op; results, start counts, start order, "
             "my_concurrency and queue length are compared with the model; oracles: observed concurrency <= limit, accepted = finished at wait_for_all, wait_for_all does not return while a body runs. "
             "Push/pull edge protocol of a limited REJECTING node behind a buffering sender (PullModel: rejection, register_predecessor arriving at any later moment, forwarder_busy / forwarder task, pull at body completion, flip back to push): "
             "proved for every operation sequence (rejected_message_is_not_stranded): limit, started ++ waiting = put in order, forwarder_busy set exactly while a forwarder exists, a message waits only while a registration, a running body or a forwarder is still bound to act, idle => everything started; "
             "tie fnode-pull: settled white-box states (my_concurrency, queue size, predecessor registered, forwarder_busy, started) after every put / body release.",
        note="PARTIAL: only function_input_base is modelled. Successor caches / broadcast fan-out, input_node, multifunction/continue/async nodes, reserve_wait, cancellation and exceptions in a graph, and the re-offering of kept messages on late / repeated successor registration (latedge: input_node, buffering nodes) are "
             "covered by real-thread oracle runs only (limit, exactly-once per node, once per successor, idle at wait_for_all); the sender of the pull protocol is abstracted to a FIFO buffer (queue_node); its own forwarding task and the window between a failed try_get and the re-registration as successor are not modelled.",
        ref="4/C14"),
    "C02": dict(
        technique="Coq proof: inductive invariant over all interleavings (any number of waiters and notifiers) of the concurrent_monitor wait/notify protocol; step-level differential tie against the real "
                  "r1::concurrent_monitor driven by one OS thread with counting wait nodes; real-thread oracle runs",
        text="Proved: in every reachable configuration the wait set holds exactly the waiters between prepare_wait and return, a waiter in it has no wake-up pending and a waiter removed by a notifier has exactly "
             "one, semaphore counts never go negative; a waiter that committed to sleep with nothing pending is still in the wait set and no notifier has finished; hence once every notifier (set condition, then "
             "notify_all) has finished, the condition is true and no waiter is blocked (no lost wake-up), including the skipped-wake-up path pumped by the next prepare_wait. Tie: the real monitor's "
             "prepare_wait / commit_wait / cancel_wait / notify_all are called in scripted orders for 1-4 logical waiters and 1-3 notifiers; every observable event and the epoch are compared with the model. notify_one_relaxed(predicate) (used by tbb::mutex / rw_mutex address waiting): "
             "proved that whenever a waiter in the set matches the predicate exactly one matching waiter is removed and woken; tied the same way (monitor-seq1) with waiters of several contexts.",
        note="PARTIAL: the model is sequentially consistent at call granularity: fences, the monitor's mutex, binary_semaphore/futex, thread_control_monitor, "
             "the address_waiter hash table (rw_mutex, mutex), the arena's worker wake-up and thread_request_serializer are not modelled; they are exercised by real-thread runs (monitor stress, enqueue into an arena "
             "nobody waits in, blocked bounded-queue operations under C09, late resume in a worker-less arena under C20). Liveness is stated as 'no waiter is blocked once notifiers are done'; fairness of the OS scheduler is assumed.",
        ref="4/C02"),
    "C01": dict(
        technique="Coq: access-level small-step model of the arena_slot deque; exhaustive exploration of finite configurations INSIDE Coq with a proved soundness lemma (a checked closed set contains every "
                  "reachable configuration); access-by-access differential tie against the real arena_slot under the gate; real-thread exactly-once oracles on the scheduler",
        text="The model reproduces every atomic access (kind, memory order, values, CAS outcome) of spawn / get_task (incl. isolation filtering, holes, re-publication) / steal_task on head, tail and the task_pool lock word; the real arena_slot (arena_slot.cpp "
             "compiled under the atomic prelude) is run under seeded interleavings and compared event by event. Proved for seven configurations (owner and thief racing for the last task, two and three tasks, "
             "reset and re-publication of the pool, two thieves contending for the lock, an isolated owner skipping foreign-tagged tasks with its own task last / leaving a hole), for ALL their interleavings: no task is handed out twice, only spawned tasks are handed out, and at quiescence every "
             "spawned task was handed out exactly once or is still in [head, tail). Real scheduler, 1-32 threads: task_group trees, arena enqueue/execute, affinity replay, isolation, cancellation, nested "
             "groups from external threads, task_handle: every unit exactly once (cancelled: at most once), waits cover transitive work.",
        note="PARTIAL: the exactly-once theorem is exhaustive per configuration, not for arbitrary scripts / thief counts (no general inductive proof). task_proxy/mailbox arbitration, task_stream, the "
             "reference-counting wait tree, critical tasks and pool relocation are not modelled (real-thread oracles only). 'The waiter sees all writes' is checked by reading counters after the wait, "
             "not proved (memory model not formalised).",
        ref="4/C01"),
    "C03": dict(
        technique="Coq proof: inductive invariant over all interleavings (any number of tasks, any subset of throwing bodies) of the exception-capture protocol of one task_group_context; "
                  "real-thread oracle runs over nine constructs",
        text="Proved: when the waiting call leaves its wait with result r, every task of the group has finished or was skipped; r names a task that really ran and threw; r <> 0 whenever some body threw "
             "(nothing is swallowed); while the wait is pending at most one exception is captured (one winner of the cancellation exchange, my_exception written once); after the reset the group is not "
             "cancelled, holds no exception and has no outstanding reference. Oracle runs (task_group, parallel_for/reduce/for_each/invoke, pipeline, flow graph, task_arena::execute, nested): exactly one "
             "exception reaches the caller iff a body threw, it is one that was thrown, no body is running then and none starts afterwards, functor copies are destroyed once, every exception object constructed is destroyed (throwers rendezvous so several catch blocks race), the object is reusable.",
        note="PARTIAL: the correspondence between model and code is outcome-level only (the dispatch loop cannot be driven step by step without the scheduler); context trees are covered by C04; "
             "exception_ptr allocation, the algorithm-specific cancellation paths, flow-graph/pipeline internals and destruction of the library's own task objects are covered by the oracle runs only.",
        ref="4/C03"),
    "C20": dict(
        technique="Coq proof: exact characterisation of the reachable configurations of the suspend/resume handshake (inductive invariant, all interleavings); TRACE CONFORMANCE tie: libtbb compiled under the atomic prelude, every access to m_stack_state of a suspended stack executed and logged under one lock (all threads, seeded delays) and replayed on the model inside Coq (SuspendModel.sconf); real suspend/resume runs with racing resumers, late resumes and waiting threads (plain / isolated) under an exactly-once oracle",
        text="For every interleaving of the suspending thread's exchange(suspended)/self-resume with a resume() from anywhere (incl. the suspend callback itself): at most one resume task is pushed, "
             "none before the suspending thread left the stack, exactly one at quiescence, and the handshake is never stuck (theorems). Real tasks suspend in arenas of 1-8 threads and are resumed from the "
             "callback, a foreign thread with a racing delay, or another task; oracle: one continuation per suspension, no two threads on a stack, wait covers suspended tasks.",
        note="PARTIAL: the model covers only the m_stack_state handshake (tied by trace conformance on the schedules real threads produce); stack switching, the resume task's route through the arena, owner recall and arena "
             "lifetime are exercised by the oracle runs only. KNOWN-FINDING suspended-run-task-releases-freed-reference-vertex (a task_group::run issued on a coroutine can crash in ~function_task when that coroutine's "
             "task_dispatcher has been destroyed; rare, keyed by the crash's backtrace shape) is printed on every run.",
        ref="4/C20"),
    "C19": dict(
        technique="Coq proof: inductive invariant (OnceInv.J, nine components with counting of helpers inside the reference window / pinned to a runner) over ALL interleavings for ANY number of callers and any pattern of throwing attempts, at the granularity of single accesses to m_state / m_ref_count; in addition exhaustive exploration of five small configurations (Lib/Explore.v); TRACE CONFORMANCE tie: the real collaborative_call_once (header compiled under the atomic prelude) runs with real threads, every access to m_state and to a published runner's m_ref_count is executed and logged under one lock and the log is replayed access by access on the model inside the extracted Coq function OnceConf.conform; real-thread oracle runs for call_once; for the thread-id table of enumerable_thread_specific/combinable: Coq proof of an inductive invariant over all interleavings of the deciding accesses (EtsModel/EtsProofs), sequential differential tie, real-thread oracle with lined-up growth",
        text="Proved for any number of callers, any throw pattern, every reachable configuration: no access to a destroyed runner, at most one successful execution, a caller that returned normally did so after the successful execution with the flag done "
             "(call_once_safety); no configuration is stuck — if no thread can step every caller has returned, i.e. every spin-wait of the protocol has somebody who can release it (call_once_never_stuck); when all callers have returned: exactly one success and done, "
             "or every attempt threw, each such caller got its exception, and the flag is back to not-called (call_once_outcome). Also, for 2 and 3 callers (with and without throwing attempts) every reachable configuration (all interleavings, no depth bound; theorem call_once_all_interleavings) has at most one successful execution, no caller past the flag before "
             "that execution completed, and is not stuck; completed to quiescence: exactly one success, every caller returned (the throwing attempt's caller with the exception), final state done. Thread-id table (any number of threads and accesses, any interleaving): no array is ever filled above one half, so every probe ends at an empty slot (ets_arrays_at_most_half_full — the counting argument: a thread with number c only ever inserts into arrays of at least 2c slots, numbers are distinct); a thread is given at most one element and finds its key again however the table grew (ets_one_element_per_thread, ets_key_is_found_again); nobody ever waits (ets_lookup_never_blocks). Real threads: one success, no overlapping executions, return only after completion, "
             "exceptions delivered to the right callers; enumerable_thread_specific/combinable: one element per thread, stable addresses, one initialiser call, iteration/combine exactly once (2-130 threads across table doublings).",
        note="PARTIAL: the tie is trace conformance on the schedules real threads produce (with seeded delays at the logged accesses), not an exhaustive schedule enumeration; each caller calls once (a runner object is never reused); the arena work inside assist() is abstracted to waiting for the winner's function; "
             "the thread-id table model abstracts an array to (size, key set): hash positions, the probe order and the non-atomic ptr store after the claim are not modelled; its concurrent behaviour is tied to the code only sequentially (ets-seq) and through oracle runs (ets, ets-grow).",
        ref="4/C19"),
}

REASONS_TODO = "check not built yet in this round; the design (DESIGN.md section 4) applies and it is planned — listed here only because no check is registered"


def main():
    props = [json.loads(l) for l in open(os.path.join(VERIF, "properties.jsonl"))]
    checks, na = [], []
    for p in props:
        pid = p["id"]
        if pid in CLAIMS:
            c = CLAIMS[pid]
            checks.append({
                "property_id": pid,
                "quick_cmd": "python3 tools/check.py %s --tier quick" % pid,
                "thorough_cmd": "python3 tools/check.py %s --tier thorough" % pid,
                "evidence_file": "/verif/evidence/%s.json" % pid,
                "replay_cmd_template": "python3 tools/check.py %s --replay {path}" % pid,
                "engine": "coq-proof+correspondence",
                "level_claimed": {"category": "proof", "text": c["text"], "design_ref": c["ref"]},
                "level_note": c["note"],
                "technique": c["technique"],
            })
        else:
            na.append({"property_id": pid, "reason": REASONS_TODO})
    m = {
        "version": 1,
        "setup_cmd": "python3 tools/check.py --setup",
        "hooks": {
            "guard": "ONEAPI_SRC_ONETBB_VERIF",
            "enable": "drivers are compiled by tools/vlib.py with -DONEAPI_SRC_ONETBB_VERIF=1 against /repo's working tree ; most observation goes through "
                      "-fno-access-control, a force-included std::atomic prelude and .cpp inclusion; the one source hook is the macro __TBB_VERIF_REDUCE_OFFER in "
                      "include/oneapi/tbb/parallel_reduce.h, which harness/drv/drv_reduce.cpp defines before including the header)",
            "baseline_off_cmd": "cmake -G Ninja -B /repo/_build -S /repo -DCMAKE_BUILD_TYPE=RelWithDebInfo -DTBB_TEST=ON -DCMAKE_CXX_FLAGS=-Wno-error && cmake --build /repo/_build && ctest --test-dir /repo/_build -j8 --timeout 900",
            "source_commits": ["5a0ee5e"],
            "add_only": True,
        },
        "engines": [{"name": "coq-proof+correspondence", "path": "tools/check.py",
                     "serves_properties": sorted(CLAIMS),
                     "kind_free_text": "Coq 8.16.1 theorems over executable Gallina models (coq/theories), extracted to OCaml (ocaml/), "
                                       "run against drivers compiled from /repo's working tree (harness/)"}],
        "checks": checks,
        "not_applicable": na,
        "notes": "fix: commits in /repo are recorded in KNOWN_FINDINGS.txt as 'fixed:' lines.",
    }
    json.dump(m, open(os.path.join(VERIF, "MANIFEST.json"), "w"), indent=1)
    print("MANIFEST.json: %d checks, %d not_applicable" % (len(checks), len(na)))


if __name__ == "__main__":
    main()
