#!/usr/bin/env python3
"""Entry point of every check:  tools/check.py <ID> [--tier quick|thorough] [--replay FILE]
                                tools/check.py --setup
Exit 0 = property held on everything explored; exit 1 + "VIOLATION property=<id> replay=<path>" otherwise."""
import argparse
import importlib
import json
import os
import sys
import traceback

sys.path.insert(0, os.path.dirname(os.path.abspath(__file__)))
import vlib  # noqa: E402

ALL = ["C%02d" % i for i in range(1, 21)]


def available():
    d = os.path.join(os.path.dirname(os.path.abspath(__file__)), "props")
    import re
    return sorted(f[:-3].upper() for f in os.listdir(d) if re.fullmatch(r"c\d\d\.py", f))


def setup():
    ctx = vlib.Ctx("SETUP", "quick", 1)
    err = ctx.gen_params()
    if err:
        print("setup: " + err)
    props = ["Properties_" + p for p in available()]
    res = ctx.coq_build(props)
    for e in res["errors"]:
        print("setup: coq: " + e[-2000:])
    print("setup: coq obligations=%d discharged=%d" % (res["obligations"], res["discharged"]))
    for which, gated in (("tbb", False),):
        lib, e = ctx.build_lib(which, gated)
        print("setup: lib %s gated=%s -> %s %s" % (which, gated, lib, e or ""))
    return 0


def main():
    ap = argparse.ArgumentParser()
    ap.add_argument("pid", nargs="?")
    ap.add_argument("--tier", default=os.environ.get("VERIF_TIER", "quick"))
    ap.add_argument("--replay")
    ap.add_argument("--setup", action="store_true")
    a = ap.parse_args()
    if a.setup:
        return setup()
    pid = a.pid.upper()
    tier = "thorough" if a.tier.startswith("t") else "quick"
    seed = int(os.environ.get("VERIF_SEED", "1") or 1)
    mod = importlib.import_module("props." + pid.lower())
    ctx = vlib.Ctx(pid, tier, seed)
    try:
        err = ctx.gen_params()
        if err:
            ctx.broken("Params.v generation (tools/dump_params.cpp)", err)
        res = ctx.coq_build(mod.PROP_FILES)
        if res["errors"] or res["discharged"] != res["obligations"]:
            ctx.broken("Coq obligations of %s" % ",".join(mod.PROP_FILES),
                       "obligations=%d discharged=%d\n%s" % (res["obligations"], res["discharged"], "\n".join(res["errors"])))
        if a.replay:
            mod.replay(ctx, json.load(open(a.replay)))
        else:
            mod.run(ctx)
    except Exception:
        ctx.broken("check machinery of %s raised" % pid, traceback.format_exc())
    # a broken obligation/tie accompanied by a concrete violation is reported through the violation only
    if any(f.kind == "violation" for f in ctx.findings):
        ctx.findings = [f for f in ctx.findings if f.kind == "violation"]
    return vlib.finish(ctx, mod.TRUSTED, getattr(mod, "extra_cov", lambda c: None)(ctx))


if __name__ == "__main__":
    sys.exit(main())
