"""Shared machinery for /verif/tools/check.py (trusted glue; see DESIGN.md section 7).

Everything that touches /repo is rebuilt from /repo's *working tree*; build products are cached
under /verif/.cache/<tree-hash>/ keyed by a content hash of /repo/include and /repo/src.
"""
import fcntl
import hashlib
import json
import os
import random
import re
import shutil
import subprocess
import sys
import time
from concurrent.futures import ThreadPoolExecutor

VERIF = os.path.dirname(os.path.dirname(os.path.abspath(__file__)))
REPO = os.environ.get("VERIF_REPO", "/repo")
COQ = os.path.join(VERIF, "coq")
CACHE = os.path.join(VERIF, ".cache")
EVID = os.path.join(VERIF, "evidence")
GUARD = "ONEAPI_SRC_ONETBB_VERIF"
NPROC = os.cpu_count() or 4

# axioms declared by the Coq standard library / installed libraries that a theorem may depend on
ALLOWED_AXIOMS = {
    "functional_extensionality_dep", "FunctionalExtensionality.functional_extensionality_dep",
    "proof_irrelevance", "ProofIrrelevance.proof_irrelevance", "classic", "Classical_Prop.classic",
    "JMeq_eq", "JMeq.JMeq_eq", "Eqdep.Eq_rect_eq.eq_rect_eq", "eq_rect_eq",
    "ClassicalDedekindReals.sig_forall_dec", "ClassicalDedekindReals.sig_not_dec",
    "sig_forall_dec", "sig_not_dec", "constructive_indefinite_description",
    "propositional_extensionality",
}

FORBIDDEN = re.compile(
    r"\b(Admitted|admit|Axiom|Axioms|Parameter|Parameters|Conjecture|Conjectures|Hypothesis|Hypotheses|"
    r"Variable|Variables|Context|Unset\s+Guard|bypass_check|Admit\s+Obligations|type-in-type|impredicative-set|"
    r"Unset\s+Positivity|Unset\s+Universe)\b")


def sh(cmd, cwd=None, timeout=None, env=None, input=None):
    """Run a command; returns (rc, stdout, stderr). rc = -9 on timeout."""
    try:
        p = subprocess.run(cmd, cwd=cwd, timeout=timeout, env=env, input=input,
                           stdout=subprocess.PIPE, stderr=subprocess.PIPE, text=True,
                           shell=isinstance(cmd, str))
        return p.returncode, p.stdout, p.stderr
    except subprocess.TimeoutExpired as e:
        out = e.stdout.decode() if isinstance(e.stdout, bytes) else (e.stdout or "")
        err = e.stderr.decode() if isinstance(e.stderr, bytes) else (e.stderr or "")
        return -9, out, err


class Lock:
    def __init__(self, name):
        os.makedirs(CACHE, exist_ok=True)
        self.path = os.path.join(CACHE, name + ".lock")

    def __enter__(self):
        self.f = open(self.path, "w")
        fcntl.flock(self.f, fcntl.LOCK_EX)
        return self

    def __exit__(self, *a):
        fcntl.flock(self.f, fcntl.LOCK_UN)
        self.f.close()


def tree_hash():
    h = hashlib.sha256()
    for top in ("include", "src"):
        base = os.path.join(REPO, top)
        for root, dirs, files in os.walk(base):
            dirs.sort()
            for fn in sorted(files):
                p = os.path.join(root, fn)
                h.update(os.path.relpath(p, REPO).encode())
                try:
                    with open(p, "rb") as f:
                        h.update(hashlib.sha256(f.read()).digest())
                except OSError:
                    pass
    return h.hexdigest()[:16]


def file_hash(*paths_or_strings):
    h = hashlib.sha256()
    for p in paths_or_strings:
        if os.path.exists(p):
            with open(p, "rb") as f:
                h.update(f.read())
        else:
            h.update(p.encode())
    return h.hexdigest()[:12]


class Finding:
    """A property violation (with a concrete replay) or a broken obligation/correspondence."""

    def __init__(self, kind, key, detail, replay=None):
        self.kind = kind          # 'violation' (concrete failing case) | 'broken' (proof or tie no longer checks)
        self.key = key            # canonical key used for KNOWN_FINDINGS matching
        self.detail = detail
        self.replay = replay or {}


class Ctx:
    def __init__(self, pid, tier, seed):
        self.pid, self.tier, self.seed = pid, tier, seed
        self.t0 = time.time()
        self.rng = random.Random(seed * 7919 + sum(map(ord, pid)))
        self.thash = tree_hash()
        self.cdir = os.path.join(CACHE, self.thash)
        os.makedirs(self.cdir, exist_ok=True)
        self._prune_cache()
        self.findings = []
        self.evaluations = 0
        self.distinct = set()
        self.samples = []
        self.traces_validated = 0
        self.hist = {}
        self.ties = []
        self.notes = []
        self.coq = None
        self.rules = []

    # ---------------------------------------------------------------- cache
    def _prune_cache(self, keep=3):
        try:
            with Lock("prune"):
                os.utime(self.cdir, None)
                ents = [os.path.join(CACHE, d) for d in os.listdir(CACHE)
                        if os.path.isdir(os.path.join(CACHE, d)) and re.fullmatch(r"[0-9a-f]{16}", d)]
                ents.sort(key=lambda p: os.path.getmtime(p), reverse=True)
                now = time.time()
                for old in ents[keep:]:
                    # never remove a tree's cache that was used during the last 90 minutes: a check of that tree may still be running (several trees can be checked at once)
                    if now - os.path.getmtime(old) > 5400:
                        shutil.rmtree(old, ignore_errors=True)
        except OSError:
            pass

    def log(self, msg):
        print("[%s %6.1fs] %s" % (self.pid, time.time() - self.t0, msg), flush=True)

    def quick(self):
        return self.tier == "quick"

    def scale(self, q, t):
        return q if self.quick() else t

    # ---------------------------------------------------------------- Coq
    def gen_params(self):
        """Regenerate coq/theories/Params.v from the current tree. Returns error text or None."""
        with Lock("params-" + self.thash):
            exe = os.path.join(self.cdir, "dump_params")
            src = os.path.join(VERIF, "tools", "dump_params.cpp")
            inc = os.path.join(VERIF, "tools", "dump_params_extra.inc")
            stamp = exe + ".stamp"
            want = file_hash(src, inc)
            if not (os.path.exists(exe) and os.path.exists(stamp) and open(stamp).read() == want):
                rc, out, err = sh(["g++", "-std=c++17", "-O0", "-w", "-fno-access-control", "-D%s=1" % GUARD,
                                   "-D__TBB_BUILD", "-D__TBB_DYNAMIC_LOAD_ENABLED=0", "-mrtm", "-mwaitpkg",
                                   "-I" + os.path.join(REPO, "include"), "-I" + os.path.join(REPO, "src"),
                                   "-I" + os.path.join(REPO, "src", "tbb"), "-I" + os.path.join(REPO, "src", "tbbmalloc"),
                                   "-I" + os.path.join(VERIF, "tools"), src, "-o", exe, "-lpthread", "-ldl"], timeout=300)
                if rc != 0:
                    return "dump_params does not compile against the current tree:\n" + err[-3000:]
                open(stamp, "w").write(want)
            rc, out, err = sh([exe], timeout=60)
            if rc != 0:
                return "dump_params failed: " + err[-2000:]
            # tbbmalloc constants live in frontend.cpp: printed by the malloc driver (which #includes it)
            mlib, e2 = self.build_lib("tbbmalloc")
            if e2:
                return e2
            mexe, e2 = self.build_driver("drv_malloc", libs=[mlib], extra=["-D__TBBMALLOC_BUILD", "-I" + os.path.join(REPO, "src", "tbbmalloc")])
            if e2:
                return e2
            rc, out2, err = sh([mexe, "params"], timeout=60)
            if rc != 0:
                return "drv_malloc params failed: " + err[-2000:]
            out += "\n" + out2
        with Lock("coq"):
            p = os.path.join(COQ, "theories", "Params.v")
            old = open(p).read() if os.path.exists(p) else None
            if old != out:
                open(p, "w").write(out)
                self.notes.append("Params.v regenerated with different content")
        return None

    def coq_build(self, prop_files, extract=True):
        """make the property files (+ extraction), then re-run coqc on each property file to capture
        Print Assumptions. Returns dict(obligations, discharged, theorems{name: [axioms]|None}, errors[])."""
        res = {"obligations": 0, "discharged": 0, "theorems": {}, "errors": [], "cmds": []}
        with Lock("coq"):
            vfiles = sorted(os.path.relpath(os.path.join(r, f), COQ)
                            for r, _, fs in os.walk(os.path.join(COQ, "theories")) for f in fs if f.endswith(".v"))
            mk = os.path.join(COQ, "Makefile")
            lst = os.path.join(COQ, ".vfiles")
            if not os.path.exists(mk) or not os.path.exists(lst) or open(lst).read() != "\n".join(vfiles):
                sh(["coq_makefile", "-f", "_CoqProject"] + vfiles + ["-o", "Makefile"], cwd=COQ, timeout=120)
                open(lst, "w").write("\n".join(vfiles))
            targets = ["theories/%s.vo" % p for p in prop_files]
            if extract:
                targets.append("theories/Extract.vo")
            cmd = ["make", "-k", "-j%d" % NPROC] + targets
            res["cmds"].append("cd coq && timeout 1500 " + " ".join(cmd))
            rc, out, err = sh(cmd, cwd=COQ, timeout=1500)
            if rc != 0:
                res["errors"].append("make: rc=%d\n%s" % (rc, (out + err)[-4000:]))
            # forbidden constructs anywhere in the development
            for vf in vfiles:
                txt = open(os.path.join(COQ, vf)).read()
                txt = re.sub(r"\(\*.*?\*\)", "", txt, flags=re.S)
                for m in FORBIDDEN.finditer(txt):
                    word = m.group(1)
                    if word in ("Variable", "Variables", "Hypothesis", "Hypotheses", "Context"):
                        # allowed only inside a Section
                        before = txt[:m.start()]
                        if len(re.findall(r"^\s*Section\s", before, flags=re.M)) > len(re.findall(r"^\s*End\s", before, flags=re.M)):
                            continue
                    res["errors"].append("forbidden construct %r in %s" % (word, vf))
            for p in prop_files:
                src = os.path.join(COQ, "theories", p + ".v")
                txt = open(src).read()
                thms = re.findall(r"^\s*Theorem\s+([A-Za-z0-9_']+)", txt, flags=re.M)
                prints = re.findall(r"^\s*Print Assumptions\s+([A-Za-z0-9_']+)\s*\.", txt, flags=re.M)
                res["obligations"] += len(thms)
                for t in thms:
                    res["theorems"][t] = None
                if set(thms) - set(prints):
                    res["errors"].append("%s: theorems without Print Assumptions: %s" % (p, sorted(set(thms) - set(prints))))
                if not os.path.exists(os.path.join(COQ, "theories", p + ".vo")):
                    res["errors"].append("%s.vo was not produced" % p)
                    continue
                cmd = ["coqc", "-Q", "theories", "OTV", "-w", "-notation-overridden", "theories/%s.v" % p]
                res["cmds"].append("cd coq && " + " ".join(cmd))
                rc, out, err = sh(cmd, cwd=COQ, timeout=900)
                if rc != 0:
                    res["errors"].append("coqc %s: %s" % (p, err[-3000:]))
                    continue
                blocks = re.split(r"^(?=Closed under the global context|Axioms:)", out, flags=re.M)
                blocks = [b for b in blocks if b.startswith("Closed under") or b.startswith("Axioms:")]
                if len(blocks) != len(prints):
                    res["errors"].append("%s: %d Print Assumptions outputs for %d commands" % (p, len(blocks), len(prints)))
                    continue
                for name, b in zip(prints, blocks):
                    if b.startswith("Closed under"):
                        ax = []
                    else:
                        ax = re.findall(r"^([A-Za-z0-9_.']+)\s*:", b, flags=re.M)
                    if name in res["theorems"]:
                        res["theorems"][name] = ax
                        bad = [a for a in ax if a not in ALLOWED_AXIOMS and a.split(".")[-1] not in ALLOWED_AXIOMS]
                        if bad:
                            res["errors"].append("theorem %s depends on non-library axioms %s" % (name, bad))
                        else:
                            res["discharged"] += 1
            if extract:
                err = self._build_modelrun()
                if err:
                    res["errors"].append(err)
        self.coq = res
        return res

    def _build_modelrun(self):
        ml, mli = os.path.join(COQ, "model.ml"), os.path.join(COQ, "model.mli")
        if not (os.path.exists(ml) and os.path.exists(mli)):
            return "extraction produced no model.ml"
        od = os.path.join(VERIF, "ocaml")
        exe = os.path.join(od, "_build", "modelrun")
        want = file_hash(ml, mli, os.path.join(od, "driver.ml"))
        stamp = exe + ".stamp"
        if os.path.exists(exe) and os.path.exists(stamp) and open(stamp).read() == want:
            return None
        bd = os.path.join(od, "_build")
        os.makedirs(bd, exist_ok=True)
        for f in (ml, mli, os.path.join(od, "driver.ml")):
            shutil.copy(f, bd)
        rc, out, err = sh(["ocamlfind", "ocamlopt", "-w", "-a", "-O2", "model.mli", "model.ml", "driver.ml", "-o", "modelrun"],
                          cwd=bd, timeout=600)
        if rc != 0:
            return "ocaml build of the extracted model failed: " + (out + err)[-3000:]
        open(stamp, "w").write(want)
        return None

    def modelrun(self, runner, cases, timeout=600):
        """cases: list of list of ints -> list of list of ints (one per case)."""
        exe = os.path.join(VERIF, "ocaml", "_build", "modelrun")
        inp = "\n".join(" ".join(str(x) for x in c) for c in cases) + "\n"
        # the extracted model recurses structurally (not tail-recursively) over long op lists: give it a large stack
        def big_stack():
            import resource
            soft, hard = resource.getrlimit(resource.RLIMIT_STACK)
            want = 4 << 30
            resource.setrlimit(resource.RLIMIT_STACK, (want if hard == resource.RLIM_INFINITY else min(want, hard), hard))
        try:
            p = subprocess.run([exe, runner], input=inp, timeout=timeout, stdout=subprocess.PIPE, stderr=subprocess.PIPE, text=True, preexec_fn=big_stack)
            rc, out, err = p.returncode, p.stdout, p.stderr
        except subprocess.TimeoutExpired:
            rc, out, err = -9, "", "timeout"
        if rc != 0:
            raise RuntimeError("modelrun %s failed rc=%s: %s" % (runner, rc, err[-1000:]))
        lines = out.split("\n")
        if lines and lines[-1] == "":
            lines.pop()
        return [[int(t) for t in ln.split()] for ln in lines]

    def coq_eval_list(self, imports, expr, timeout=600):
        """Evaluate a closed Gallina expression of type list Z inside Coq (vm_compute) and return the integers.
        Used for models that are not extracted (Flocq)."""
        d = os.path.join(self.cdir, "coqeval_%d" % os.getpid())
        os.makedirs(d, exist_ok=True)
        f = os.path.join(d, "Cases.v")
        open(f, "w").write("From Coq Require Import ZArith List. Import ListNotations. Local Open Scope Z_scope.\n%s\nEval vm_compute in (%s).\n" % (imports, expr))
        with Lock("coq"):
            rc, out, err = sh(["coqc", "-Q", os.path.join(COQ, "theories"), "OTV", f], cwd=d, timeout=timeout)
        shutil.rmtree(d, ignore_errors=True)
        if rc != 0:
            raise RuntimeError("coq evaluation failed: " + err[-1500:])
        body = out[out.index("["):out.rindex("]") + 1] if "[" in out else ""
        return [int(x) for x in re.findall(r"-?\d+", body)]

    # ---------------------------------------------------------------- C++ builds
    def cxx_flags(self, std="c++17", opt="-O1"):
        return ["g++", "-std=" + std, opt, "-g0", "-w", "-fno-access-control", "-D%s=1" % GUARD, "-pthread",
                "-mrtm", "-mwaitpkg",
                "-I" + os.path.join(REPO, "include"), "-I" + os.path.join(REPO, "src"),
                "-I" + os.path.join(VERIF, "harness", "drv"), "-I" + os.path.join(VERIF, "harness")]

    def build_lib(self, which="tbb", gated=False, opt="-O1"):
        """Compile src/tbb (or src/tbbmalloc) of the working tree into a static archive. Returns (path, err)."""
        tag = "%s%s%s" % (which, "_gated" if gated else "", opt.replace("-", "_"))
        with Lock("lib-%s-%s" % (self.thash, tag)):
            out = os.path.join(self.cdir, "lib%s.a" % tag)
            prelude = os.path.join(VERIF, "harness", "prelude", "verif_atomic.h")
            stamp = out + ".stamp"
            want = file_hash(prelude) if gated else "plain"
            if os.path.exists(out) and os.path.exists(stamp) and open(stamp).read() == want:
                return out, None
            srcdir = os.path.join(REPO, "src", which)
            srcs = sorted(f for f in os.listdir(srcdir) if f.endswith(".cpp"))
            if which == "tbbmalloc":
                srcs = [s for s in srcs if s in ("backend.cpp", "backref.cpp", "frontend.cpp", "large_objects.cpp", "tbbmalloc.cpp")]
            od = os.path.join(self.cdir, "obj_" + tag)
            os.makedirs(od, exist_ok=True)
            base = self.cxx_flags(opt=opt) + ["-fPIC", "-D__TBB_BUILD", "-D__TBB_DYNAMIC_LOAD_ENABLED=0",
                                             "-D__TBB_SOURCE_DIRECTLY_INCLUDED=1", "-D__TBB_USE_ITT_NOTIFY=0"]
            if which == "tbbmalloc":
                base = [b for b in base if b != "-D__TBB_BUILD"] + ["-D__TBBMALLOC_BUILD", "-fno-rtti", "-fno-exceptions"]
            if gated:
                base += ["-include", prelude]

            def one(s):
                o = os.path.join(od, s[:-4] + ".o")
                rc, so, se = sh(base + ["-c", os.path.join(srcdir, s), "-o", o], timeout=900)
                return (s, rc, se, o)
            with ThreadPoolExecutor(NPROC) as ex:
                rs = list(ex.map(one, srcs))
            bad = [(s, se) for s, rc, se, o in rs if rc != 0]
            if bad:
                return None, "library source %s does not compile: %s" % (bad[0][0], bad[0][1][-3000:])
            if os.path.exists(out):
                os.remove(out)
            rc, so, se = sh(["ar", "rcs", out] + [o for _, _, _, o in rs], timeout=120)
            if rc != 0:
                return None, "ar failed: " + se
            shutil.rmtree(od, ignore_errors=True)
            open(stamp, "w").write(want)
            return out, None

    def build_driver(self, name, extra=(), libs=(), std="c++17", opt="-O1", srcs=None):
        """Compile harness/drv/<name>.cpp against the working tree. Returns (exe, err)."""
        src = srcs or [os.path.join(VERIF, "harness", "drv", name + ".cpp")]
        hdrs = []
        for d in ("drv", "prelude", "gate", "mockr1"):
            dd = os.path.join(VERIF, "harness", d)
            if os.path.isdir(dd):
                hdrs += [os.path.join(dd, f) for f in sorted(os.listdir(dd)) if f.endswith((".h", ".inc"))]
        want = file_hash(*(src + hdrs + [" ".join(extra), " ".join(libs), std, opt]))
        with Lock("drv-%s-%s" % (self.thash, name)):
            exe = os.path.join(self.cdir, name)
            stamp = exe + ".stamp"
            if os.path.exists(exe) and os.path.exists(stamp) and open(stamp).read() == want:
                return exe, None
            cmd = self.cxx_flags(std=std, opt=opt) + list(extra) + src + ["-o", exe] + list(libs) + ["-lpthread", "-ldl"]
            rc, so, se = sh(cmd, timeout=900)
            if rc != 0:
                return None, "driver %s does not compile against the current tree:\n%s" % (name, se[-4000:])
            open(stamp, "w").write(want)
            return exe, None

    def run_driver(self, exe, args, cases=None, timeout=600, env=None):
        """Returns (rc, list of output lines (str))."""
        inp = None
        if cases is not None:
            inp = "\n".join(" ".join(str(x) for x in c) for c in cases) + "\n"
        e = dict(os.environ)
        if env:
            e.update(env)
        try:
            os.utime(self.cdir, None)          # keep this tree's cache fresh while the check is running (see _prune_cache)
        except OSError:
            pass
        rc, out, err = sh([exe] + [str(a) for a in args], input=inp, timeout=timeout, env=e)
        lines = out.split("\n")
        if lines and lines[-1] == "":
            lines.pop()
        elif rc == -9 and lines:
            lines.pop()         # killed by our time-out in the middle of a line: drop the incomplete line
        return rc, lines, err

    # ---------------------------------------------------------------- accounting
    def count(self, case_key, nontrivial=True, bucket=None):
        self.evaluations += 1
        if nontrivial:
            self.distinct.add(hashlib.md5(repr(case_key).encode()).digest()[:8])
        if bucket is not None:
            self.hist[bucket] = self.hist.get(bucket, 0) + 1

    def sample(self, s, limit=6):
        if len(self.samples) < limit:
            self.samples.append(s)

    def add(self, finding):
        self.findings.append(finding)

    def broken(self, what, detail):
        self.add(Finding("broken", "broken:" + what, detail, {"no_longer_checks": what, "detail": detail[-4000:]}))


# --------------------------------------------------------------------------- known findings
def load_known():
    p = os.path.join(VERIF, "KNOWN_FINDINGS.txt")
    known = []
    if os.path.exists(p):
        for ln in open(p):
            ln = ln.strip()
            if not ln or ln.startswith("#") or ln.startswith("fixed:"):
                continue
            m = re.match(r"property=(\S+)\s+key=(\S+)\s+(.*)", ln)
            if m:
                known.append((m.group(1), m.group(2), m.group(3)))
    return known


def finish(ctx, level_text_trusted, extra_cov=None):
    """Write evidence, print VIOLATION / KNOWN-FINDING lines, return exit code."""
    os.makedirs(os.path.join(EVID, "replay"), exist_ok=True)
    known = load_known()
    viol = 0
    seen = set()
    for f in ctx.findings:
        if f.key in seen:
            continue
        seen.add(f.key)
        k = [x for x in known if x[0] == ctx.pid and x[1] == f.key]
        if k and f.kind == "violation":
            print("KNOWN-FINDING: property=%s %s" % (ctx.pid, k[0][2]), flush=True)
            continue
        viol += 1
        h = hashlib.md5((f.key + f.detail).encode()).hexdigest()[:10]
        rp = os.path.join(EVID, "replay", "%s-%s.json" % (ctx.pid, h))
        rep = {"property": ctx.pid, "kind": f.kind, "key": f.key, "detail": f.detail, "seed": ctx.seed,
               "tier": ctx.tier, "tree_hash": ctx.thash}
        rep.update(f.replay)
        with open(rp, "w") as fo:
            json.dump(rep, fo, indent=1, default=str)
        tail = "" if f.kind == "violation" else " no-failing-input-found"
        print("VIOLATION property=%s replay=%s%s" % (ctx.pid, rp, tail), flush=True)
        print("   " + f.detail.replace("\n", "\n   ")[:1500], flush=True)
    coq = ctx.coq or {"obligations": 0, "discharged": 0, "theorems": {}, "errors": [], "cmds": []}
    cov = {
        "obligations": coq["obligations"], "discharged": coq["discharged"],
        "checker_cmd": " ; ".join(coq["cmds"]) or "none",
        "trusted_base": level_text_trusted,
        "theorems": {k: ("NOT CHECKED" if v is None else (v or "closed under the global context")) for k, v in coq["theorems"].items()},
        "evaluations": ctx.evaluations, "distinct_nontrivial": len(ctx.distinct),
        "traces_validated_against_impl": ctx.traces_validated,
        "rule": " | ".join(ctx.rules) or "n/a",
        "samples": ctx.samples or ["(none)"],
        "input_distribution": ctx.hist, "ties": ctx.ties, "notes": ctx.notes,
        "proof_errors": [e[-600:] for e in coq["errors"]],
    }
    if extra_cov:
        cov.update(extra_cov)
    ev = {"property_id": ctx.pid, "tier": ctx.tier, "seed": ctx.seed, "level": "proof", "coverage": cov,
          "assumptions": level_text_trusted, "wall_s": round(time.time() - ctx.t0, 2), "violations": viol}
    os.makedirs(EVID, exist_ok=True)
    with open(os.path.join(EVID, ctx.pid + ".json"), "w") as fo:
        json.dump(ev, fo, indent=1, default=str)
    ctx.log("evidence written: obligations=%d discharged=%d evaluations=%d distinct=%d violations=%d wall=%.1fs" % (
        cov["obligations"], cov["discharged"], cov["evaluations"], cov["distinct_nontrivial"], viol, ev["wall_s"]))
    return 1 if viol else 0


# --------------------------------------------------------------------------- generic differential tie
def diff_tie(ctx, name, exe, args, runner, cases, oracle=None, nontrivial=None, bucket=None,
             timeout=900, describe=None, env=None, alt_runners=(), search=None):
    """Run `cases` on the implementation driver and on the extracted model; compare line by line.
    oracle(case, impl_tokens) -> None | (key, description): the property itself as a predicate on the
    implementation's observable behaviour; used to decide whether a disagreement is a violation.
    alt_runners: [(runner_name, key, text)] — models of known-bad variants (the *_refuted theorems); if the
    implementation agrees with one of them on a case where it disagrees with the proved model, the case is the
    failing input."""
    rc, lines, err = ctx.run_driver(exe, args, cases, timeout=timeout, env=env)
    # a driver that aborted (watchdog HANG) stops early; re-run the remaining cases
    impl = list(lines)
    guard = 0
    progressed = len(impl) > 0
    while len(impl) < len(cases) and guard < 50:
        guard += 1
        # rc == -9: OUR batch time-out killed the driver (a loaded machine, a very large batch) — that is not a crash of the case it was working on,
        # as long as the batch made progress: run the remaining cases again.  A driver that produced nothing within a whole time-out window is stuck.
        if rc == -9 and progressed:
            pass
        elif not impl or not impl[-1].endswith("HANG"):
            impl.append("CRASH rc=%s %s" % (rc, err[-200:].replace("\n", " ")))
        if len(impl) >= len(cases):
            break
        rc, more, err = ctx.run_driver(exe, args, cases[len(impl):], timeout=timeout, env=env)
        progressed = len(more) > 0
        impl += more
    model = ctx.modelrun(runner, cases)
    alts = [(ctx.modelrun(r, cases), k, t) for r, k, t in alt_runners]
    nmis = 0
    for i, c in enumerate(cases):
        itoks = impl[i].split()
        mtoks = [str(x) for x in model[i]]
        ctx.count((name, c), nontrivial(c, itoks) if nontrivial else True, bucket(c) if bucket else None)
        if i < 2:
            ctx.sample({"tie": name, "case": describe(c) if describe else c, "impl": impl[i][:300], "model": " ".join(mtoks)[:300]})
        viol = oracle(c, itoks) if oracle else None
        agree = itoks == mtoks
        if itoks and itoks[-1] == "HANG":
            # compare the prefix; the hang itself is a violation unless the model says the call is stuck
            pre = itoks[:-1]
            agree = False
        if agree and not viol:
            ctx.traces_validated += 1
            continue
        nmis += 1
        rep = {"tie": name, "case": c, "case_text": describe(c) if describe else None, "impl": impl[i], "model": " ".join(mtoks),
               "driver": os.path.basename(exe), "args": [str(a) for a in args]}
        if viol:
            ctx.add(Finding("violation", viol[0], "%s: %s" % (name, viol[1]), rep))
            continue
        hit = False
        for am, k, t in alts:
            at = [str(x) for x in am[i]]
            if itoks == at or (itoks and itoks[-1] == "HANG" and itoks[:-1] == at[:len(itoks) - 1]):
                ctx.add(Finding("violation", k, "%s: %s" % (name, t), rep))
                hit = True
                break
        if hit:
            continue
        if itoks and itoks[-1] == "HANG":
            ctx.add(Finding("violation", name + ":hang", "%s: the implementation does not return on this input (watchdog)" % name, rep))
        elif nmis <= 3:
            ctx.add(Finding("broken", "broken:tie:" + name,
                            "correspondence %s: implementation and model disagree and the property oracle finds no violation in the implementation's output" % name, rep))
    searched = 0
    brk = [f for f in ctx.findings if f.kind == "broken" and f.key == "broken:tie:" + name]
    if brk and search and oracle and not any(f.kind == "violation" for f in ctx.findings):
        # search phase: the tie is broken and no failing input is known yet — explore the neighbourhood of the
        # first disagreements on the implementation with the property oracle only
        mutate, count = search
        extra = []
        for f in brk[:3]:
            for _ in range(count):
                extra.append(mutate(f.replay["case"], ctx.rng))
        rc, lines, err = ctx.run_driver(exe, args, extra, timeout=timeout, env=env)
        impl2 = list(lines)
        guard = 0
        while len(impl2) < len(extra) and guard < 200:
            guard += 1
            if not impl2 or not impl2[-1].endswith("HANG"):
                impl2.append("CRASH rc=%s" % rc)
            if len(impl2) >= len(extra):
                break
            rc, more, err = ctx.run_driver(exe, args, extra[len(impl2):], timeout=timeout, env=env)
            impl2 += more
        for c, ln in zip(extra, impl2):
            searched += 1
            viol = oracle(c, ln.split())
            if viol:
                ctx.add(Finding("violation", viol[0], "%s (found by the search phase after the tie broke): %s" % (name, viol[1]),
                                {"tie": name, "case": c, "case_text": describe(c) if describe else None, "impl": ln,
                                 "driver": os.path.basename(exe), "args": [str(a) for a in args]}))
                break
    ctx.ties.append({"name": name, "cases": len(cases), "disagreements": nmis, "search_cases": searched})
    return nmis


def oracle_tie(ctx, name, exe, args, cases, oracle, nontrivial=None, bucket=None, timeout=900, describe=None, env=None, max_viol=3):
    """Run cases on the implementation only and evaluate the property oracle (exploration / failing-input search;
    never stands in for a theorem). Handles drivers that exit after a HANG line; stops after max_viol violations."""
    bad = 0
    done = 0
    guard = 0
    t_end = time.time() + timeout
    while done < len(cases) and guard < 300 and bad < max_viol and time.time() < t_end:
        guard += 1
        rc, more, err = ctx.run_driver(exe, args, cases[done:], timeout=max(30, t_end - time.time()), env=env)
        if rc == -9 and more:
            pass        # the time budget of this tie ran out in the middle of the batch (loaded machine): the case in progress is not a crash; the rest is not run
        elif not more or (len(more) < len(cases) - done and not more[-1].endswith("HANG")):
            more.append("CRASH rc=%s %s" % (rc, err[-200:].replace("\n", " ")))
        for ln in more:
            if done >= len(cases):
                break
            c = cases[done]
            done += 1
            toks = ln.split()
            ctx.count((name, c), nontrivial(c, toks) if nontrivial else True, bucket(c) if bucket else None)
            if done <= 2:
                ctx.sample({"oracle-run": name, "case": describe(c) if describe else c, "impl": ln[:300]})
            viol = oracle(c, toks)
            if viol:
                bad += 1
                ctx.add(Finding("violation", viol[0], "%s: %s" % (name, viol[1]),
                                {"tie": name, "case": c, "case_text": describe(c) if describe else None, "impl": ln[:2000],
                                 "driver": os.path.basename(exe), "args": [str(a) for a in args]}))
                if bad >= max_viol:
                    break
    ctx.ties.append({"name": name + " (oracle only)", "cases": done, "disagreements": bad})
    return bad
