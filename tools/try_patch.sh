#!/bin/sh
# usage: try_patch.sh <patch.diff> <ID> [tier]  — apply a seeded change to /repo, run the check, undo it.
set -u
p=$(readlink -f "$1"); id=$2; tier=${3:-quick}
cd /verif
git -C /repo apply "$p" || { echo "patch does not apply"; exit 2; }
python3 tools/check.py "$id" --tier "$tier" > /tmp/try_patch.$$.log 2>&1; rc=$?
git -C /repo checkout -- . 
grep -E "^(VIOLATION|KNOWN-FINDING)" -A2 /tmp/try_patch.$$.log | head -${LINES_MAX:-12}; tail -1 /tmp/try_patch.$$.log
echo "exit=$rc"; rm -f /tmp/try_patch.$$.log
