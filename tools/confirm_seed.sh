#!/bin/bash
# usage: confirm_seed.sh <ID> <ctest-regex> [name]   — confirms a sub-agent's seeded change in its scratch worktree /tmp/wt_<name>
# (tests pass with the patch, demo fails with it and passes without it) and stores it under /verif/seeded/<name>/.
set -u
id=$1; rx=$2; name=${3:-$id}; wt=/tmp/wt_$name; sd=$wt/seed_demo
L=$wt/_build/gnu_12.2_cxx11_64_relwithdebinfo
cd $wt || exit 2
git diff -- include src > /tmp/seed_$name.diff
[ -s /tmp/seed_$name.diff ] || { echo "no patch applied in worktree"; exit 2; }
needlib=$(grep -c '^+++ b/src/' /tmp/seed_$name.diff)
tg=$(ctest --test-dir _build -N -R "$rx" 2>/dev/null | sed -n 's/.*Test *#[0-9]*: *//p' | tr '\n' ' ')
echo "== tests with patch ($tg)"; cmake --build _build -j8 --target tbb tbbmalloc $tg 2>&1 | tail -1
ctest --test-dir _build -R "$rx" --timeout 900 -j8 2>&1 | tail -4 | tee /tmp/seed_$name.tests
build_demo() { g++ -std=c++17 -O1 -fno-access-control -I$wt/include -I$wt/src $sd/demo.cpp -o $sd/demo -L$L -ltbb -ltbbmalloc -lpthread 2>&1 | tail -3; }
echo "== demo with patch"; build_demo; w=0; for i in 1 2 3; do LD_LIBRARY_PATH=$L timeout 300 $sd/demo >/tmp/seed_$name.out 2>&1; r=$?; tail -2 /tmp/seed_$name.out; [ $r -ne 0 ] && w=$((w+1)); grep -q FAIL /tmp/seed_$name.out && [ $r -eq 0 ] && w=$((w+1)); done; echo "failed-with-patch=$w/3"
git apply -R /tmp/seed_$name.diff
[ "$needlib" != 0 ] && cmake --build _build --target tbb tbbmalloc 2>&1 | tail -1
echo "== demo without patch"; build_demo; wo=0; for i in 1 2 3; do LD_LIBRARY_PATH=$L timeout 300 $sd/demo >/tmp/seed_$name.out 2>&1; r=$?; tail -1 /tmp/seed_$name.out; [ $r -eq 0 ] && ! grep -q FAIL /tmp/seed_$name.out && wo=$((wo+1)); done; echo "passed-without-patch=$wo/3"
git apply /tmp/seed_$name.diff
mkdir -p /verif/seeded/$name
cp /tmp/seed_$name.diff /verif/seeded/$name/patch.diff; cp $sd/demo.cpp /verif/seeded/$name/; cp $sd/README.txt /verif/seeded/$name/README.txt 2>/dev/null
echo "with=$w without=$wo"
