(* C05 — parallel loops.  Property theorems only; proofs live in ForProofs.v. *)
From OTV Require Import Lib.Tac Params ForModel ForProofs RvecModel RvecProofs.
Local Open Scope Z_scope.

(* simple_partitioner over blocked_range, every begin < end (no bound on the size), every grain >= 1:
   the recursion terminates within the stated fuel, the chunks handed to the body are in order, contiguous and
   tile [begin,end) exactly (hence non-empty, pairwise disjoint, nothing outside); a non-divisible range is
   never split; and when the range is larger than the grain every chunk has size in [ceil(g/2), g]. *)
Theorem simple_chunks : forall b e g,
  b < e -> 1 <= g ->
  exists ls, simple_leaves (fuel_for (mkrng b e g)) (mkrng b e g) = Some ls /\
    tiles b ls e /\
    Forall (fun x => 1 <= rsize x) ls /\
    (e - b <= g -> ls = [mkrng b e g]) /\
    (g < e - b -> Forall (fun x => ceil_half g <= rsize x <= g) ls).
Proof. exact simple_chunks_proof. Qed.
Print Assumptions simple_chunks.

Example simple_chunks_example :
  simple_leaves (fuel_for (mkrng 0 10 3)) (mkrng 0 10 3)
  = Some [mkrng 0 2 3; mkrng 2 5 3; mkrng 5 7 3; mkrng 7 10 3].
Proof. vm_compute. reflexivity. Qed.

(* parallel_for(first, last, step, f) with step > 0 and first < last (any magnitudes): the body is called for the indices
   first + i*step, 0 <= i < trip — all of them lie in [first, last), the next member of the progression does not, no index is
   produced twice, and every member of the progression below last is produced. *)
Theorem strided_loop_indices : forall first last step, 0 < step -> first < last ->
  0 < strided_trip first last step /\
  (forall i, 0 <= i < strided_trip first last step -> first <= strided_index first step i < last) /\
  last <= strided_index first step (strided_trip first last step) /\
  (forall i j, strided_index first step i = strided_index first step j -> i = j) /\
  (forall k, 0 <= k -> strided_index first step k < last -> k < strided_trip first last step).
Proof.
  intros f l s Hs Hl. destruct (strided_exact f l s Hs Hl) as (A & B & C & D).
  repeat split; auto; try (apply B; auto). intros k Hk Hx. exact (strided_complete f l s k Hs Hl Hk Hx).
Qed.
Print Assumptions strided_loop_indices.


(* The range pool of auto_partitioner / affinity_partitioner (range_vector<Range, 8>, RvecModel: the ring indices are explicit).
   For EVERY non-empty range with grain >= 1 and EVERY sequence of split_to_fill(any depth) / run-back-and-pop / offer-front-and-pop:
   the ranges the body was run on tile [begin, lo) in ascending order, the ranges offered to thieves tile [hi, end) (each the next
   piece below the previous one), the ranges still pooled tile [lo, hi) from front() down to back() - all pieces non-empty: every
   subrange handed out is non-empty, they are pairwise disjoint, and together with the pool they cover exactly the range. *)
Theorem range_pool_tiles_the_range : forall r ops, rb r < re r -> 1 <= rg r ->
  let '(v, ran, off) := rexec (rv_init r) ops [] [] in
  v = fst (rrun (rv_init r) ops) /\
  exists lo hi, asc_chain (rb r) ran lo /\ desc_chain (rg r) hi (live v) lo /\ desc_r (re r) off hi.
Proof.
  intros r ops H1 H2.
  assert (Hp := rexec_same_pool ops (rv_init r) [] []).
  assert (Ht := rexec_tiles (rb r) (re r) (rg r) ops (rv_init r) [] [] (rb r) (re r) (PInv_init r H1 H2) eq_refl eq_refl).
  destruct (rexec (rv_init r) ops [] []) as [[v ran] off]. cbn [fst] in Hp. split; [auto|].
  destruct Ht as (lo & hi & (_ & _ & HC) & HA & HD). exists lo, hi. auto.
Qed.
Print Assumptions range_pool_tiles_the_range.

(* non-vacuity: this script wraps the ring; input and output were produced by the real range_vector<blocked_range<long>, 8> (driver mode rvec) *)
Example range_pool_example :
  run_rvec [0; 1000; 1;  1; 8;  3; 0;  3; 0;  1; 8;  2; 0;  3; 0;  1; 12;  2; 0;  2; 0;  3; 0;  1; 255;  2; 0] =
  [7; 0; 8; 500; 1000; 1; 7; 1; 7; 250; 500; 2; 7; 2; 6; 0; 2; 7; 0; 3; 8; 7; 2; 6; 125; 250; 3; 7; 3; 5; 1; 3; 7; 3; 4; 10; 0; 3; 6; 4; 5; 10; 7; 3; 5;
   62; 125; 4; 7; 4; 4; 0; 4; 5; 5; 6; 10; 7; 4; 4; -7; 31; 62; 5; 15; 31; 6; 7; 15; 7; 6; 7; 10].
Proof. vm_compute. reflexivity. Qed.
