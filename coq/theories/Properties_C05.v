(* C05 — parallel loops.  Property theorems only; proofs live in ForProofs.v. *)
From OTV Require Import Lib.Tac Params ForModel ForProofs.
Local Open Scope Z_scope.

(* simple_partitioner over blocked_range, every begin < end (no bound on the size), every grain >= 1:
   the recursion terminates within the stated fuel, the chunks handed to the body are in order, contiguous and
   tile [begin,end) exactly (hence non-empty, pairwise disjoint, nothing outside); a non-divisible range is
   never split; and when the range is larger than the grain every chunk has size in [ceil(g/2), g]. *)
Theorem simple_chunks : forall b e g,
  b < e -> 1 <= g ->
  exists ls, simple_leaves (fuel_for (mkrng b e g)) (mkrng b e g) = Some ls /\
    tiles b ls e /\
    Forall (fun x => 1 <= rsize x) ls /\
    (e - b <= g -> ls = [mkrng b e g]) /\
    (g < e - b -> Forall (fun x => ceil_half g <= rsize x <= g) ls).
Proof. exact simple_chunks_proof. Qed.
Print Assumptions simple_chunks.

Example simple_chunks_example :
  simple_leaves (fuel_for (mkrng 0 10 3)) (mkrng 0 10 3)
  = Some [mkrng 0 2 3; mkrng 2 5 3; mkrng 5 7 3; mkrng 7 10 3].
Proof. vm_compute. reflexivity. Qed.

(* parallel_for(first, last, step, f) with step > 0 and first < last (any magnitudes): the body is called for the indices
   first + i*step, 0 <= i < trip — all of them lie in [first, last), the next member of the progression does not, no index is
   produced twice, and every member of the progression below last is produced. *)
Theorem strided_loop_indices : forall first last step, 0 < step -> first < last ->
  0 < strided_trip first last step /\
  (forall i, 0 <= i < strided_trip first last step -> first <= strided_index first step i < last) /\
  last <= strided_index first step (strided_trip first last step) /\
  (forall i j, strided_index first step i = strided_index first step j -> i = j) /\
  (forall k, 0 <= k -> strided_index first step k < last -> k < strided_trip first last step).
Proof.
  intros f l s Hs Hl. destruct (strided_exact f l s Hs Hl) as (A & B & C & D).
  repeat split; auto; try (apply B; auto). intros k Hk Hx. exact (strided_complete f l s k Hs Hl Hk Hx).
Qed.
Print Assumptions strided_loop_indices.
