(* C05 — parallel loops.  Property theorems only; proofs live in ForProofs.v. *)
From OTV Require Import Lib.Tac Params ForModel ForProofs.
Local Open Scope Z_scope.

(* simple_partitioner over blocked_range, every begin < end (no bound on the size), every grain >= 1:
   the recursion terminates within the stated fuel, the chunks handed to the body are in order, contiguous and
   tile [begin,end) exactly (hence non-empty, pairwise disjoint, nothing outside); a non-divisible range is
   never split; and when the range is larger than the grain every chunk has size in [ceil(g/2), g]. *)
Theorem simple_chunks : forall b e g,
  b < e -> 1 <= g ->
  exists ls, simple_leaves (fuel_for (mkrng b e g)) (mkrng b e g) = Some ls /\
    tiles b ls e /\
    Forall (fun x => 1 <= rsize x) ls /\
    (e - b <= g -> ls = [mkrng b e g]) /\
    (g < e - b -> Forall (fun x => ceil_half g <= rsize x <= g) ls).
Proof. exact simple_chunks_proof. Qed.
Print Assumptions simple_chunks.

Example simple_chunks_example :
  simple_leaves (fuel_for (mkrng 0 10 3)) (mkrng 0 10 3)
  = Some [mkrng 0 2 3; mkrng 2 5 3; mkrng 5 7 3; mkrng 7 10 3].
Proof. vm_compute. reflexivity. Qed.
