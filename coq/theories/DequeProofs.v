(* C01: exactly-once for the arena_slot deque model — sound exhaustive exploration of finite configurations. *)
From OTV Require Import Lib.Tac Lib.Conc DequeModel.
Local Open Scope Z_scope.

(* ---------- a generic, checked reachability argument: a finite set that contains the initial configuration and is closed
   under every thread's step contains every reachable configuration ---------- *)
Section Explore.
  Variables G L : Type.
  Variable tstep : nat -> G -> L -> option (G * L * list Z).
  Variable cfg_dec : forall a b : G * list L, {a = b} + {a <> b}.

  Definition succs (c : G * list L) : list (G * list L) :=
    flat_map (fun i => match step_at tstep c i with Some (c', _) => [c'] | None => [] end) (seq 0 (length (snd c))).
  Definition memb (c : G * list L) (V : list (G * list L)) : bool := if in_dec cfg_dec c V then true else false.
  Definition closed (V : list (G * list L)) : bool := forallb (fun c => forallb (fun c' => memb c' V) (succs c)) V.

  Lemma closed_sound V c0 : closed V = true -> In c0 V -> forall c, reach tstep c0 c -> In c V.
  Proof.
    intros HC H0 c Hr. induction Hr as [|c1 i c2 ev Hr IH Hs]; auto.
    unfold closed in HC. rewrite forallb_forall in HC. specialize (HC c1 IH). rewrite forallb_forall in HC.
    assert (Hin : In c2 (succs c1)).
    { unfold succs. apply in_flat_map. exists i. split.
      - apply in_seq. unfold step_at in Hs. destruct (nth_error (snd c1) i) eqn:E; [|discriminate].
        assert (i < length (snd c1))%nat by (apply nth_error_Some; congruence). lia.
      - rewrite Hs. left. reflexivity. }
    specialize (HC c2 Hin). unfold memb in HC. destruct (in_dec cfg_dec c2 V); [auto|discriminate].
  Qed.

  (* the (untrusted) generator of the candidate set *)
  Fixpoint bfs (fuel : nat) (frontier visited : list (G * list L)) : list (G * list L) :=
    match fuel with
    | O => visited ++ frontier
    | S f => match frontier with
             | [] => visited
             | c :: rest => if memb c visited then bfs f rest visited else bfs f (rest ++ succs c) (c :: visited)
             end
    end.
End Explore.

(* ---------- decidable equality of deque configurations ---------- *)
Lemma dpc_dec (a b : dpc) : {a = b} + {a <> b}.
Proof. decide equality; try apply Z.eq_dec; try apply bool_dec. Defined.
Lemma dl_dec (a b : dl) : {a = b} + {a <> b}.
Proof. decide equality; [apply dpc_dec | apply list_eq_dec; decide equality; apply Z.eq_dec]. Defined.
Lemma dg_dec (a b : dg) : {a = b} + {a <> b}.
Proof. decide equality; try apply Z.eq_dec; apply list_eq_dec; apply Z.eq_dec. Defined.
Lemma dcfg_dec (a b : dg * list dl) : {a = b} + {a <> b}.
Proof. decide equality; [apply list_eq_dec; apply dl_dec | apply dg_dec]. Defined.

(* ---------- the property on one configuration ---------- *)
Fixpoint nodupb (l : list Z) : bool :=
  match l with [] => true | x :: tl => negb (existsb (Z.eqb x) tl) && nodupb tl end.
Definition finished (l : dl) : bool := match d_pc l, d_script l with DIdle, [] => true | _, _ => false end.
Definition remaining (g : dg) : list Z :=
  map (fun i => pool_at g (d_head g + Z.of_nat i)) (seq 0 (Z.to_nat (d_tail g - d_head g))).
Definition count (x : Z) (l : list Z) : nat := length (filter (Z.eqb x) l).

(* no task handed out twice, nothing handed out that was not spawned; when every thread has finished: each spawned task
   was handed out exactly once or is still in the deque, and the indices are consistent *)
Definition good (spawned : list Z) (c : dg * list dl) : bool :=
  let g := fst c in
  nodupb (d_ret g) && forallb (fun x => existsb (Z.eqb x) spawned) (d_ret g) &&
  (if forallb finished (snd c)
   then (d_head g <=? d_tail g) && forallb (fun x => Nat.eqb (count x (d_ret g ++ remaining g)) 1) spawned
   else true).

Definition spawned_of (owner : list (Z * Z)) : list Z := map snd (filter (fun o => fst o =? 1) owner).

Definition explore (owner : list (Z * Z)) (thieves : list nat) (fuel : nat) : bool :=
  let c0 := dinit owner thieves in
  let V := bfs _ _ dstep dcfg_dec fuel [c0] [] in
  memb _ _ dcfg_dec c0 V && closed _ _ dstep dcfg_dec V && forallb (good (spawned_of owner)) V.

Theorem explore_sound owner thieves fuel :
  explore owner thieves fuel = true ->
  forall c, reach dstep (dinit owner thieves) c -> good (spawned_of owner) c = true.
Proof.
  unfold explore. intros H c Hr. apply andb_prop in H. destruct H as [H Hg]. apply andb_prop in H. destruct H as [Hm Hc].
  unfold memb in Hm. destruct (in_dec dcfg_dec (dinit owner thieves) _) as [Hin|]; [|discriminate].
  rewrite forallb_forall in Hg. apply Hg. eapply closed_sound; eauto.
Qed.

(* ---------- the configurations explored exhaustively ---------- *)
(* good: no task is handed out twice (owner pop vs thief steal vs a second thief), only spawned tasks are handed out, and
   when all threads have finished every spawned task was handed out exactly once or is still in [head, tail) *)
Definition C_last_task := ([(1, 1); (2, 0)], [1%nat]).                                   (* owner and thief race for the only task *)
Definition C_two_tasks := ([(1, 1); (1, 2); (2, 0); (2, 0)], [2%nat]).
Definition C_reset_republish := ([(1, 1); (2, 0); (1, 2); (2, 0)], [2%nat]).             (* pool emptied, reset, published again *)
Definition C_two_thieves := ([(1, 1); (1, 2); (2, 0)], [1%nat; 1%nat]).                  (* thieves contend for the pool lock *)
Definition C_three_tasks := ([(1, 1); (1, 2); (1, 3); (2, 0); (2, 0); (2, 0)], [2%nat]).
(* isolation: the owner waits in region 1, skips the foreign task 201 lying above its own task 101 at the head of the deque,
   takes 101 as the last task (pool reset) and re-publishes only the skipped one *)
Definition C_isolation_last := ([(1, 101); (1, 201); (2, 1); (2, 0)], [1%nat]).
(* isolation: the matching task is in the middle: a hole is made and the tail goes back above the skipped task *)
Definition C_isolation_hole := ([(1, 201); (1, 101); (1, 202); (2, 1); (2, 0); (2, 0)], [2%nat]).

Definition deque_configs := [C_last_task; C_two_tasks; C_reset_republish; C_two_thieves; C_three_tasks; C_isolation_last; C_isolation_hole].

(* evaluated once when this file is compiled (about a minute) *)
Lemma deque_configs_explored : forallb (fun cfg => explore (fst cfg) (snd cfg) 60000) deque_configs = true.
Proof. vm_compute. reflexivity. Qed.

