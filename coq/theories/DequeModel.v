(* C01: executable small-step model of the per-thread ready deque r1::arena_slot (src/tbb/arena_slot.h, arena_slot.cpp):
   owner spawn / get_task and thief steal_task on head, tail and the task_pool lock word, without isolation and
   without mailed proxies (no skipped tasks), pool capacity never exhausted.  One step = one atomic access,
   the granularity of harness/gate.  Thread 0 is the owner, the others are thieves. *)
From OTV Require Import Lib.Tac Lib.Conc.
Local Open Scope Z_scope.

(* task_pool word: 0 = EmptyTaskPool, 1 = LockedTaskPool, 2 = pointer to the owner's array (published) *)
(* d_ret is ghost state: the tasks handed out so far by get_task / steal_task, in order *)
Record dg := MkDg { d_head : Z; d_tail : Z; d_lock : Z; d_pool : list Z; d_ret : list Z }.

(* loop state of get_task: iso = isolation tag of the caller (0 = none), T0 = upper bound of the tasks to restore, om = tasks_omitted *)
Inductive dpc :=
| DIdle
| SpLoadTail (t : Z) | SpStoreTail (t T : Z) | SpLoadPool | SpPublish
| GtCheckPub (iso : Z) | GtLoadTail (iso : Z) | GtDecTail (iso T0 : Z) (om : bool) | GtLoadHead (iso T0 : Z) (om : bool) (T : Z)
| AqCheckPub (iso T0 : Z) (om : bool) (T : Z) | AqLoad (iso T0 : Z) (om : bool) (T : Z) | AqCas (iso T0 : Z) (om : bool) (T : Z)
| GtLoadHead2 (iso T0 : Z) (om : bool) (T : Z)
| RsTail (iso T0 : Z) (om : bool) (T H0 : Z) (take : bool) | RsHead (iso T0 : Z) (om : bool) (T H0 : Z) (take : bool)
| RsLeave (iso T0 : Z) (om : bool) (T H0 : Z) (take : bool)
| RlLoad (iso T0 : Z) (om : bool) (T : Z) | RlStore (iso T0 : Z) (om : bool) (T : Z)
| EpHead (res H0 T0 : Z) | EpTail (res T0 : Z) | EpPub (res : Z) | EpHoleTail (res T0 : Z)
| EpAdvFence (res : Z) | EpAdvLoad (res : Z)     (* arena::advertise_new_work<wakeup>: a fence and a load of the arena's pool state (not on the deque's variables) *)
| LkLoad | LkCas | StLoadHead | StIncHead (H0 : Z) | StLoadTail (H0 H : Z) | StRestore (H0 : Z) | StUnlock (res : Z).

(* owner script: list of (op, arg): 1 t = spawn task t (t >= 1, isolation tag t / 100) | 2 iso = get_task with isolation tag iso (0 = none);
   thief script: (3, _) = one steal attempt (no isolation: a thief may take any task) *)
Record dl := mkdl { d_script : list (Z * Z); d_pc : dpc }.

Definition VH := 1. Definition VT := 2. Definition VL := 3.
Definition KLoad := 1. Definition KStore := 2. Definition KCas := 4. Definition KAdd := 5. Definition KSub := 6.
Definition ORlx := 0. Definition OAcq := 2. Definition ORel := 3. Definition OSeq := 5.
Definition dev (tid : nat) (var kind order before after ok : Z) : list Z := [Z.of_nat tid; var; kind; order; before; after; ok].
Definition dnote (tid : nat) (op res : Z) : list Z := [Z.of_nat tid; 0; 100 + op; 0; res; 0; 1].

Definition pool_at (g : dg) (i : Z) : Z := nth (Z.to_nat i) (d_pool g) 0.
Definition fin (tid : nat) (l : dl) (op res : Z) : dl * list Z := (mkdl (tl (d_script l)) DIdle, dnote tid op res).

Definition tag_of (t : Z) : Z := t / 100.
Definition give_to (r : Z) (g1 : dg) : dg :=
  if r =? 0 then g1 else MkDg (d_head g1) (d_tail g1) (d_lock g1) (d_pool g1) (d_ret g1 ++ [r]).

(* the end of get_task once the loop is left with result r: restore the bounds of the skipped tasks / make a hole *)
Definition epilogue (tid : nat) (g : dg) (l : dl) (e : list Z) (r : Z) (om empty : bool) (T T0 H0 : Z) : dg * dl * list Z :=
  if om then
    if empty then
      let H0' := if r =? 0 then H0 else H0 + 1 in
      if H0' <? T0 then (g, mkdl (d_script l) (EpHead r H0' T0), e)
      else let '(l', n) := fin tid l 2 r in (give_to r g, l', e ++ n)
    else (* a task was obtained: hole at T, tail back to T0 *)
      (MkDg (d_head g) (d_tail g) (d_lock g) (set_nth (d_pool g) (Z.to_nat T) 0) (d_ret g), mkdl (d_script l) (EpHoleTail r T0), e)
  else let '(l', n) := fin tid l 2 r in (give_to r g, l', e ++ n).

(* get_task_impl(T) followed by the loop test *)
Definition after_impl (tid : nat) (g : dg) (l : dl) (e : list Z) (iso T0 : Z) (om : bool) (T : Z) (empty : bool) (H0 : Z) : dg * dl * list Z :=
  let x := pool_at g T in
  let omit := negb (x =? 0) && negb (iso =? 0) && negb (iso =? tag_of x) in
  let r := if (x =? 0) || omit then 0 else x in
  let om' := om || omit in
  let T0' := if negb (r =? 0) || om' then T0 else T in
  if negb (r =? 0) then epilogue tid g l e r om' empty T T0' H0
  else if empty then epilogue tid g l e 0 om' true T T0' H0
  else (g, mkdl (d_script l) (GtDecTail iso T0' om'), e).

Definition dexec (tid : nat) (g : dg) (l : dl) (p : dpc) : dg * dl * list Z :=
  let stay q := mkdl (d_script l) q in
  let h := d_head g in let t := d_tail g in let k := d_lock g in let pl := d_pool g in
  let mkdg h t k pl := MkDg h t k pl (d_ret g) in
  let give := give_to in
  match p with
  | DIdle => (g, l, [])
  (* spawn *)
  | SpLoadTail x => (g, stay (SpStoreTail x t), dev tid VT KLoad ORlx t t 1)
  | SpStoreTail x T => (mkdg h (T + 1) k (set_nth pl (Z.to_nat T) x), stay SpLoadPool, dev tid VT KStore ORel t (T + 1) 1)
  | SpLoadPool => let e := dev tid VL KLoad ORlx k k 1 in
                  if k =? 0 then (g, stay SpPublish, e) else let '(l', n) := fin tid l 1 0 in (g, l', e ++ n)
  | SpPublish => let '(l', n) := fin tid l 1 0 in (mkdg h t 2 pl, l', dev tid VL KStore ORel k 2 1 ++ n)
  (* get_task *)
  | GtCheckPub iso => let e := dev tid VL KLoad ORlx k k 1 in
                  if k =? 0 then let '(l', n) := fin tid l 2 0 in (g, l', e ++ n) else (g, stay (GtLoadTail iso), e)
  | GtLoadTail iso => (g, stay (GtDecTail iso t false), dev tid VT KLoad ORlx t t 1)
  | GtDecTail iso T0 om => (mkdg h (t - 1) k pl, stay (GtLoadHead iso T0 om (t - 1)), dev tid VT KSub OSeq t (t - 1) 1)
  | GtLoadHead iso T0 om T => let e := dev tid VH KLoad OAcq h h 1 in
                    if h >? T then (g, stay (AqCheckPub iso T0 om T), e)
                    else after_impl tid g l e iso T0 om T false 0
  | AqCheckPub iso T0 om T => let e := dev tid VL KLoad ORlx k k 1 in
                    if k =? 0 then (g, stay (GtLoadHead2 iso T0 om T), e) else (g, stay (AqLoad iso T0 om T), e)
  | AqLoad iso T0 om T => let e := dev tid VL KLoad ORlx k k 1 in
                if k =? 1 then (g, stay (AqLoad iso T0 om T), e) else (g, stay (AqCas iso T0 om T), e)
  | AqCas iso T0 om T => if k =? 2 then (mkdg h t 1 pl, stay (GtLoadHead2 iso T0 om T), dev tid VL KCas OSeq 2 1 1)
               else (g, stay (AqLoad iso T0 om T), dev tid VL KCas OSeq k 1 0)
  | GtLoadHead2 iso T0 om T => let e := dev tid VH KLoad ORlx h h 1 in
                     if h >? T then (g, stay (RsTail iso T0 om T h false), e)
                     else if h =? T then (g, stay (RsTail iso T0 om T h true), e)
                     else (g, stay (RlLoad iso T0 om T), e)
  | RsTail iso T0 om T H0 tk => (mkdg h 0 k pl, stay (RsHead iso T0 om T H0 tk), dev tid VT KStore ORlx t 0 1)
  | RsHead iso T0 om T H0 tk => (mkdg 0 t k pl, stay (RsLeave iso T0 om T H0 tk), dev tid VH KStore ORlx h 0 1)
  | RsLeave iso T0 om T H0 tk =>
      let g1 := mkdg h t 0 pl in let e := dev tid VL KStore ORlx k 0 1 in
      if tk then after_impl tid g1 l e iso T0 om T true H0
      else epilogue tid g1 l e 0 om true T T0 H0           (* the thief has not backed off: nothing to grab *)
  | RlLoad iso T0 om T => let e := dev tid VL KLoad ORlx k k 1 in
                if k =? 0 then after_impl tid g l e iso T0 om T false 0 else (g, stay (RlStore iso T0 om T), e)
  | RlStore iso T0 om T => after_impl tid (mkdg h t 2 pl) l (dev tid VL KStore ORel k 2 1) iso T0 om T false 0
  | EpHead r H0 T0 => (mkdg H0 t k pl, stay (EpTail r T0), dev tid VH KStore ORlx h H0 1)
  | EpTail r T0 => (mkdg h T0 k pl, stay (EpPub r), dev tid VT KStore ORlx t T0 1)
  | EpPub r => (mkdg h t 2 pl, stay (EpAdvFence r), dev tid VL KStore ORel k 2 1)
  | EpHoleTail r T0 => (mkdg h T0 k pl, stay (EpAdvFence r), dev tid VT KStore ORel t T0 1)
  | EpAdvFence r => (g, stay (EpAdvLoad r), [])
  | EpAdvLoad r => let '(l', n) := fin tid l 2 r in (give r g, l', n)
  (* steal_task *)
  | LkLoad => let e := dev tid VL KLoad ORlx k k 1 in
              if k =? 0 then let '(l', n) := fin tid l 3 0 in (g, l', e ++ n)
              else if k =? 1 then (g, stay LkLoad, e) else (g, stay LkCas, e)
  | LkCas => if k =? 2 then (mkdg h t 1 pl, stay StLoadHead, dev tid VL KCas OSeq 2 1 1)
             else (g, stay LkLoad, dev tid VL KCas OSeq k 1 0)
  | StLoadHead => (g, stay (StIncHead h), dev tid VH KLoad ORlx h h 1)
  | StIncHead H0 => (mkdg (h + 1) t k pl, stay (StLoadTail H0 (h + 1)), dev tid VH KAdd OSeq h (h + 1) 1)
  | StLoadTail H0 H => let e := dev tid VT KLoad OAcq t t 1 in
                       if H >? t then (g, stay (StRestore H0), e)
                       else if pool_at g (H - 1) =? 0 then (g, stay (StIncHead H), e)      (* a hole: clean it up and go on *)
                       else (g, stay (StUnlock (pool_at g (H - 1))), e)
  | StRestore H0 => (mkdg H0 t k pl, stay (StUnlock 0), dev tid VH KStore ORlx h H0 1)
  | StUnlock r => let '(l', n) := fin tid l 3 r in (give r (mkdg h t 2 pl), l', dev tid VL KStore ORel k 2 1 ++ n)
  end.

Definition dfirst (o : Z * Z) : dpc :=
  if fst o =? 1 then SpLoadTail (snd o) else if fst o =? 2 then GtCheckPub (snd o) else LkLoad.

Definition dstep (tid : nat) (g : dg) (l : dl) : option (dg * dl * list Z) :=
  match d_pc l with
  | DIdle => match d_script l with
             | [] => None
             | o :: _ => Some (dexec tid g l (dfirst o))
             end
  | p => Some (dexec tid g l p)
  end.

Definition POOL : nat := 64.
Definition dinit (owner : list (Z * Z)) (thieves : list nat) : dg * list dl :=
  (MkDg 0 0 0 (repeat 0 POOL) [],
   mkdl owner DIdle :: map (fun n => mkdl (repeat (3, 0) n) DIdle) thieves).

(* ---- flat interface: nthreads, owner script length, (op arg)*, then per thief its number of steals, -1, schedule ----
   output: events of the schedule and of the round-robin completion, then -7, head, tail, lock word, 1/0 = all finished,
   number of tasks still in [head, tail) (holes excluded) *)
Fixpoint dpairs (n : nat) (l : list Z) : list (Z * Z) * list Z :=
  match n with
  | O => ([], l)
  | S n' => match l with a :: b :: tl => let '(r, rest) := dpairs n' tl in ((a, b) :: r, rest) | _ => ([], []) end
  end.
Definition run_deque (inp : list Z) : list Z :=
  match inp with
  | nt :: len :: tl =>
      let '(owner, rest) := dpairs (Z.to_nat len) tl in
      let thieves := map Z.to_nat (firstn (Z.to_nat nt - 1) rest) in
      let sched := map Z.to_nat (match skipn (Z.to_nat nt - 1) rest with _ :: s => s | [] => [] end) in
      let '(c1, evs1) := run dstep (dinit owner thieves) sched in
      let '(c2, evs2, ok) := finish dstep 4000 c1 4000 in
      let g2 := fst c2 in
      let live := length (filter (fun i => negb (pool_at g2 (d_head g2 + Z.of_nat i) =? 0)) (seq 0 (Z.to_nat (d_tail g2 - d_head g2)))) in
      evs1 ++ evs2 ++ [-7; d_head g2; d_tail g2; d_lock g2; if ok then 1 else 0; Z.of_nat live]
  | _ => []
  end.
