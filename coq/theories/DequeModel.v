(* C01: executable small-step model of the per-thread ready deque r1::arena_slot (src/tbb/arena_slot.h, arena_slot.cpp):
   owner spawn / get_task and thief steal_task on head, tail and the task_pool lock word, without isolation and
   without mailed proxies (no skipped tasks), pool capacity never exhausted.  One step = one atomic access,
   the granularity of harness/gate.  Thread 0 is the owner, the others are thieves. *)
From OTV Require Import Lib.Tac Lib.Conc.
Local Open Scope Z_scope.

(* task_pool word: 0 = EmptyTaskPool, 1 = LockedTaskPool, 2 = pointer to the owner's array (published) *)
(* d_ret is ghost state: the tasks handed out so far by get_task / steal_task, in order *)
Record dg := MkDg { d_head : Z; d_tail : Z; d_lock : Z; d_pool : list Z; d_ret : list Z }.

Inductive dpc :=
| DIdle
| SpLoadTail (t : Z) | SpStoreTail (t T : Z) | SpLoadPool | SpPublish
| GtCheckPub | GtLoadTail | GtDecTail | GtLoadHead (T : Z)
| AqCheckPub (T : Z) | AqLoad (T : Z) | AqCas (T : Z) | GtLoadHead2 (T : Z)
| RsTail (T : Z) (take : bool) | RsHead (T : Z) (take : bool) | RsLeave (T : Z) (take : bool)
| RlLoad (T : Z) | RlStore (T : Z)
| LkLoad | LkCas | StLoadHead | StIncHead (H0 : Z) | StLoadTail (H0 H : Z) | StRestore (H0 : Z) | StUnlock (res : Z).

(* owner script: list of (op, arg): 1 t = spawn task t (t >= 1) | 2 _ = get_task;  thief script: (3, _) = one steal attempt *)
Record dl := mkdl { d_script : list (Z * Z); d_pc : dpc }.

Definition VH := 1. Definition VT := 2. Definition VL := 3.
Definition KLoad := 1. Definition KStore := 2. Definition KCas := 4. Definition KAdd := 5. Definition KSub := 6.
Definition ORlx := 0. Definition OAcq := 2. Definition ORel := 3. Definition OSeq := 5.
Definition dev (tid : nat) (var kind order before after ok : Z) : list Z := [Z.of_nat tid; var; kind; order; before; after; ok].
Definition dnote (tid : nat) (op res : Z) : list Z := [Z.of_nat tid; 0; 100 + op; 0; res; 0; 1].

Definition pool_at (g : dg) (i : Z) : Z := nth (Z.to_nat i) (d_pool g) 0.
Definition fin (tid : nat) (l : dl) (op res : Z) : dl * list Z := (mkdl (tl (d_script l)) DIdle, dnote tid op res).

Definition dexec (tid : nat) (g : dg) (l : dl) (p : dpc) : dg * dl * list Z :=
  let stay q := mkdl (d_script l) q in
  let h := d_head g in let t := d_tail g in let k := d_lock g in let pl := d_pool g in
  let mkdg h t k pl := MkDg h t k pl (d_ret g) in
  let give (r : Z) (g1 : dg) := if r =? 0 then g1 else MkDg (d_head g1) (d_tail g1) (d_lock g1) (d_pool g1) (d_ret g1 ++ [r]) in
  match p with
  | DIdle => (g, l, [])
  (* spawn *)
  | SpLoadTail x => (g, stay (SpStoreTail x t), dev tid VT KLoad ORlx t t 1)
  | SpStoreTail x T => (mkdg h (T + 1) k (set_nth pl (Z.to_nat T) x), stay SpLoadPool, dev tid VT KStore ORel t (T + 1) 1)
  | SpLoadPool => let e := dev tid VL KLoad ORlx k k 1 in
                  if k =? 0 then (g, stay SpPublish, e) else let '(l', n) := fin tid l 1 0 in (g, l', e ++ n)
  | SpPublish => let '(l', n) := fin tid l 1 0 in (mkdg h t 2 pl, l', dev tid VL KStore ORel k 2 1 ++ n)
  (* get_task *)
  | GtCheckPub => let e := dev tid VL KLoad ORlx k k 1 in
                  if k =? 0 then let '(l', n) := fin tid l 2 0 in (g, l', e ++ n) else (g, stay GtLoadTail, e)
  | GtLoadTail => (g, stay GtDecTail, dev tid VT KLoad ORlx t t 1)
  | GtDecTail => (mkdg h (t - 1) k pl, stay (GtLoadHead (t - 1)), dev tid VT KSub OSeq t (t - 1) 1)
  | GtLoadHead T => let e := dev tid VH KLoad OAcq h h 1 in
                    if h >? T then (g, stay (AqCheckPub T), e)
                    else let '(l', n) := fin tid l 2 (pool_at g T) in (give (pool_at g T) g, l', e ++ n)
  | AqCheckPub T => let e := dev tid VL KLoad ORlx k k 1 in
                    if k =? 0 then (g, stay (GtLoadHead2 T), e) else (g, stay (AqLoad T), e)
  | AqLoad T => let e := dev tid VL KLoad ORlx k k 1 in
                if k =? 1 then (g, stay (AqLoad T), e) else (g, stay (AqCas T), e)
  | AqCas T => if k =? 2 then (mkdg h t 1 pl, stay (GtLoadHead2 T), dev tid VL KCas OSeq 2 1 1)
               else (g, stay (AqLoad T), dev tid VL KCas OSeq k 1 0)
  | GtLoadHead2 T => let e := dev tid VH KLoad ORlx h h 1 in
                     if h >? T then (g, stay (RsTail T false), e)
                     else if h =? T then (g, stay (RsTail T true), e)
                     else (g, stay (RlLoad T), e)
  | RsTail T tk => (mkdg h 0 k pl, stay (RsHead T tk), dev tid VT KStore ORlx t 0 1)
  | RsHead T tk => (mkdg 0 t k pl, stay (RsLeave T tk), dev tid VH KStore ORlx h 0 1)
  | RsLeave T tk => let '(l', n) := fin tid l 2 (if tk then pool_at g T else 0) in
                    (give (if tk then pool_at g T else 0) (mkdg h t 0 pl), l', dev tid VL KStore ORlx k 0 1 ++ n)
  | RlLoad T => let e := dev tid VL KLoad ORlx k k 1 in
                if k =? 0 then let '(l', n) := fin tid l 2 (pool_at g T) in (give (pool_at g T) g, l', e ++ n) else (g, stay (RlStore T), e)
  | RlStore T => let '(l', n) := fin tid l 2 (pool_at g T) in (give (pool_at g T) (mkdg h t 2 pl), l', dev tid VL KStore ORel k 2 1 ++ n)
  (* steal_task *)
  | LkLoad => let e := dev tid VL KLoad ORlx k k 1 in
              if k =? 0 then let '(l', n) := fin tid l 3 0 in (g, l', e ++ n)
              else if k =? 1 then (g, stay LkLoad, e) else (g, stay LkCas, e)
  | LkCas => if k =? 2 then (mkdg h t 1 pl, stay StLoadHead, dev tid VL KCas OSeq 2 1 1)
             else (g, stay LkLoad, dev tid VL KCas OSeq k 1 0)
  | StLoadHead => (g, stay (StIncHead h), dev tid VH KLoad ORlx h h 1)
  | StIncHead H0 => (mkdg (h + 1) t k pl, stay (StLoadTail H0 (h + 1)), dev tid VH KAdd OSeq h (h + 1) 1)
  | StLoadTail H0 H => let e := dev tid VT KLoad OAcq t t 1 in
                       if H >? t then (g, stay (StRestore H0), e) else (g, stay (StUnlock (pool_at g (H - 1))), e)
  | StRestore H0 => (mkdg H0 t k pl, stay (StUnlock 0), dev tid VH KStore ORlx h H0 1)
  | StUnlock r => let '(l', n) := fin tid l 3 r in (give r (mkdg h t 2 pl), l', dev tid VL KStore ORel k 2 1 ++ n)
  end.

Definition dfirst (o : Z * Z) : dpc :=
  if fst o =? 1 then SpLoadTail (snd o) else if fst o =? 2 then GtCheckPub else LkLoad.

Definition dstep (tid : nat) (g : dg) (l : dl) : option (dg * dl * list Z) :=
  match d_pc l with
  | DIdle => match d_script l with
             | [] => None
             | o :: _ => Some (dexec tid g l (dfirst o))
             end
  | p => Some (dexec tid g l p)
  end.

Definition POOL : nat := 64.
Definition dinit (owner : list (Z * Z)) (thieves : list nat) : dg * list dl :=
  (MkDg 0 0 0 (repeat 0 POOL) [],
   mkdl owner DIdle :: map (fun n => mkdl (repeat (3, 0) n) DIdle) thieves).

(* ---- flat interface: nthreads, owner script length, (op arg)*, then per thief its number of steals, -1, schedule ----
   output: events of the schedule and of the round-robin completion, then -7, head, tail, lock word, 1/0 = all finished *)
Fixpoint dpairs (n : nat) (l : list Z) : list (Z * Z) * list Z :=
  match n with
  | O => ([], l)
  | S n' => match l with a :: b :: tl => let '(r, rest) := dpairs n' tl in ((a, b) :: r, rest) | _ => ([], []) end
  end.
Definition run_deque (inp : list Z) : list Z :=
  match inp with
  | nt :: len :: tl =>
      let '(owner, rest) := dpairs (Z.to_nat len) tl in
      let thieves := map Z.to_nat (firstn (Z.to_nat nt - 1) rest) in
      let sched := map Z.to_nat (match skipn (Z.to_nat nt - 1) rest with _ :: s => s | [] => [] end) in
      let '(c1, evs1) := run dstep (dinit owner thieves) sched in
      let '(c2, evs2, ok) := finish dstep 4000 c1 4000 in
      evs1 ++ evs2 ++ [-7; d_head (fst c2); d_tail (fst c2); d_lock (fst c2); if ok then 1 else 0]
  | _ => []
  end.
