(* C02 — no lost wake-up in concurrent_monitor.  Property theorems only; proofs live in MonProofs.v. *)
From OTV Require Import Lib.Tac Lib.Conc MonModel MonProofs Mon1Model.
Local Open Scope Z_scope.

(* For ANY number of waiters (each running concurrent_monitor::wait(pred, node)) and notifiers (each making the
   condition true and then calling notify_all), and ANY interleaving of their calls / lock-protected blocks:
   once every notifier has finished, the condition is true and no waiter is blocked — a waiter that sleeps has its
   wake-up pending, a waiter that must pump a skipped wake-up has it pending — so every waiter's next step makes
   progress and it returns.  (A waiter that committed to sleep with nothing pending is always still in the wait set
   and no notifier has finished yet: the notifier that makes the condition true will find and wake it.) *)
Theorem no_lost_wakeup : forall nw nn c,
  (1 <= nn)%nat -> reach mstep (minit nw nn) c ->
  (forall n ln, nth_error (snd c) n = Some ln -> is_w (m_pc ln) = false -> m_pc ln = NDone) ->
  m_cond (fst c) = true /\
  forall w l, nth_error (snd c) w = Some l ->
    (m_pc l = WSleep -> 1 <= sem_of (fst c) w) /\
    (m_pc l = WStart -> m_skipped l = true -> 1 <= sem_of (fst c) w).
Proof.
  intros nw nn c Hnn Hr Hdone.
  destruct (reach_inv nw nn c Hr) as [(I1 & I2 & I3 & I4 & I5 & I6 & I7 & I8) HL].
  assert (Hex : exists ln, nth_error (snd c) nw = Some ln).
  { destruct (nth_error (snd c) nw) eqn:E; eauto. apply nth_error_None in E. lia. }
  destruct Hex as [ln Hln].
  assert (Hlw : is_w (m_pc ln) = false) by (rewrite (I2 _ _ Hln); apply Nat.ltb_irrefl).
  assert (HlD : m_pc ln = NDone) by (apply (Hdone nw ln Hln Hlw)).
  split.
  - destruct (m_cond (fst c)) eqn:Ec; auto. assert (X := I7 eq_refl nw ln Hln Hlw). congruence.
  - intros w l Hl. split.
    + intros Hp. destruct (Z.eq_dec (sem_of (fst c) w) 0) as [E|E].
      * exfalso. apply (I5 w l Hl (or_intror Hp) E nw ln Hln HlD).
      * assert (X := I8 w). lia.
    + intros Hp Hsk. rewrite (I6 w l Hl Hp), Hsk. lia.
Qed.
Print Assumptions no_lost_wakeup.

(* the structural facts behind it, in every reachable configuration: the wait set holds exactly waiters that are
   between prepare_wait and their return; a waiter there has no wake-up pending, a waiter removed by a notifier has
   exactly one; semaphore counts never go negative (no wake-up is consumed twice) *)
Theorem monitor_invariant : forall nw nn c,
  reach mstep (minit nw nn) c -> Inv nw c.
Proof. intros nw nn c Hr. apply (reach_inv nw nn c Hr). Qed.
Print Assumptions monitor_invariant.

Theorem monitor_run_is_reachable : forall nw nn sched c evs,
  run mstep (minit nw nn) sched = (c, evs) -> reach mstep (minit nw nn) c.
Proof. intros. eapply run_reach; eauto. Qed.
Print Assumptions monitor_run_is_reachable.

(* the predicate form used by tbb::mutex / address waiters (notify_one_relaxed(predicate)): whatever other waiters are queued, if a
   waiter of the notified address is in the wait set, the backward scan finds a waiter of that address (Mon1Model.last_match) *)
Theorem notify_one_finds_a_matching_waiter : forall ctx a ws w,
  In w ws -> nth w ctx 0 = a -> exists x, last_match ctx a ws = Some x /\ In x ws /\ nth x ctx 0 = a.
Proof. exact last_match_some. Qed.
Print Assumptions notify_one_finds_a_matching_waiter.

(* non-vacuity: the waiter commits to sleep, the notifier sets the condition and wakes it, the waiter returns;
   and the racy variant where the notifier bumps the epoch between prepare and commit (skipped wake-up, pumped) *)
Example monitor_example_sleep_and_wake :
  run_mon [1; 1;  0; 0; 0;  1; 1; 1;  0; 0] = [0;1;0; 0;2;0; 0;3;1; 1;7;1; 1;8;0; 1;9;1; 0;4;1; -7; 1; 1; 1].
Proof. vm_compute. reflexivity. Qed.
