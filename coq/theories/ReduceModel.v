(* C06: executable model of the task tree of tbb::parallel_reduce (include/oneapi/tbb/parallel_reduce.h:63-232,
   detail/_task.h fold_tree).  The Body is the free monoid: operator()(r) appends the elements of r to the body,
   the splitting constructor makes an empty body, join(l, r) appends r to l — so the order of operands is visible.

   A tree position is one of
     Fresh lo hi      a start_reduce task spawned for [lo,hi) (right child), not yet executed; it holds a POINTER to
                      the body of the task it was split from
     Run p hi         an executing task: everything of its range before p has been fed to its body; [p,hi) is left
     Done             finished (finalize has decremented the parent's reference count)
     Nd mid rc l r z  a reduction_tree_node: reference count rc, left/right subtree, z = the right "zombie" body
                      living in the node (has_right_zombie) with its current content
   The body a subtree feeds is positional: the root feeds the caller's body; in Nd the left subtree feeds the body
   inherited by the node, the right subtree feeds z if it exists and otherwise THE SAME inherited body.
   One op = one atomic action of some thread; ops address tasks by position in the iteration space. *)
From OTV Require Import Lib.Tac.
Local Open Scope Z_scope.

Definition zseq (lo hi : Z) : list Z := map (fun k => lo + Z.of_nat k) (seq 0 (Z.to_nat (hi - lo))).

Inductive rt :=
| Fresh (lo hi : Z)
| Run (p hi : Z)
| Done
| Nd (mid rc : Z) (l r : rt) (z : option (list Z)).

Inductive rop :=
| OStartZ (a : Z)      (* right child [a,..) starts executing and sees m_ref_count == 2: splits a new body into the node *)
| OStartS (a : Z)      (* task [a,..) starts executing and keeps the body pointer it was given *)
| OProc (a q : Z)      (* the running task whose next element is a runs the body on [a,q) *)
| OSplit (a m : Z)     (* the running task whose next element is a gives [m,hi) away: offer_work *)
| OFin (h : Z)         (* the running task with range end h has processed everything: finalize *)
| OFold (m : Z).       (* fold_tree reaches the node split at m with reference count 0: join, go up *)

Inductive res := NotFound | Bad | Ok (t : rt) (b : list Z) (fin : bool).

Definition dec (fin : bool) (rc : Z) : Z := if fin then rc - 1 else rc.

(* does op o start the Fresh right child r? *)
Definition starts (o : rop) (r : rt) : option bool :=   (* Some true = with zombie, Some false = shared *)
  match r, o with
  | Fresh lo _, OStartZ a => if a =? lo then Some true else None
  | Fresh lo _, OStartS a => if a =? lo then Some false else None
  | _, _ => None
  end.

Fixpoint apply (o : rop) (t : rt) (b : list Z) : res :=
  match t with
  | Done => NotFound
  | Fresh lo hi =>     (* reached only for the root task: is_right_child = false, it keeps the caller's body *)
      match o with
      | OStartS a => if a =? lo then Ok (Run lo hi) b false else NotFound
      | _ => NotFound
      end
  | Run p hi =>
      match o with
      | OProc a q => if (a =? p) && (p <? hi) then (if (p <=? q) && (q <=? hi) then Ok (Run q hi) (b ++ zseq p q) false else Bad)
                     else NotFound
      | OSplit a m => if (a =? p) && (p <? hi) then (if (p <=? m) && (m <=? hi) then Ok (Nd m 2 (Run p m) (Fresh m hi) None) b false else Bad)
                      else NotFound
      | OFin h => if h =? hi then (if p =? hi then Ok Done b true else Bad) else NotFound
      | _ => NotFound
      end
  | Nd mid rc l r z =>
      let descend :=
        match apply o l b with
        | Ok l' b' fin => Ok (Nd mid (dec fin rc) l' r z) b' false
        | Bad => Bad
        | NotFound =>
            match z with
            | Some zb => match apply o r zb with
                         | Ok r' zb' fin => Ok (Nd mid (dec fin rc) l r' (Some zb')) b false
                         | Bad => Bad | NotFound => NotFound end
            | None => match apply o r b with        (* the right subtree feeds the inherited body *)
                      | Ok r' b' fin => Ok (Nd mid (dec fin rc) l r' None) b' false
                      | Bad => Bad | NotFound => NotFound end
            end
        end in
      match starts o r with
      | Some true =>    (* start_reduce::execute: is_right_child && my_parent->m_ref_count == 2 *)
          match r with
          | Fresh lo hi => if rc =? 2 then Ok (Nd mid rc l (Run lo hi) (Some [])) b false else Bad
          | _ => Bad
          end
      | Some false =>
          match r with
          | Fresh lo hi => if rc =? 2 then Bad else Ok (Nd mid rc l (Run lo hi) z) b false
          | _ => Bad
          end
      | None =>
          match o with
          | OFold m =>
              if m =? mid then
                (if rc =? 0 then Ok Done (match z with Some zb => b ++ zb | None => b end) true else Bad)
              else descend
          | _ => descend
          end
      end
  end.

(* run a list of ops; stops at the first op that is not applicable: returns (index of the offending op or -1, tree, body) *)
Fixpoint rrun (ops : list rop) (t : rt) (b : list Z) (i : Z) : Z * rt * list Z :=
  match ops with
  | [] => (-1, t, b)
  | o :: tl => match apply o t b with
               | Ok t' b' _ => rrun tl t' b' (i + 1)
               | _ => (i, t, b)
               end
  end.

(* ---- parallel_deterministic_reduce with simple_partitioner: the split/join tree is a function of range and grain ---- *)
Inductive dtree := DLeaf (lo hi : Z) | DJoin (l r : dtree).
Fixpoint dsplit (fuel : nat) (lo hi g : Z) : dtree :=
  match fuel with
  | O => DLeaf lo hi
  | S f => if g <? hi - lo then let m := lo + (hi - lo) / 2 in DJoin (dsplit f lo m g) (dsplit f m hi g)
           else DLeaf lo hi
  end.
Definition dfuel (lo hi : Z) : nat := Z.to_nat (Z.log2_up (Z.max 1 (hi - lo))) + 1.
Fixpoint dflat (t : dtree) : list Z :=      (* preorder encoding: 0 lo hi | 1 left right *)
  match t with
  | DLeaf lo hi => [0; lo; hi]
  | DJoin l r => 1 :: dflat l ++ dflat r
  end.
Fixpoint dleaves (t : dtree) : list Z :=
  match t with
  | DLeaf lo hi => zseq lo hi
  | DJoin l r => dleaves l ++ dleaves r
  end.

(* ---- flat interfaces ---- *)
Fixpoint decode_ops (l : list Z) (fuel : nat) : list rop :=
  match fuel with
  | O => []
  | S f =>
    match l with
    | c :: a :: q :: tl =>
        (if c =? 1 then OStartZ a else if c =? 2 then OStartS a else if c =? 3 then OProc a q
         else if c =? 4 then OSplit a q else if c =? 5 then OFin a else OFold a) :: decode_ops tl f
    | _ => []
    end
  end.

(* input: lo hi then (code a q)*; output: index of the first inapplicable op (-1: none), 1/0 = tree is Done, body *)
Definition run_reduce (inp : list Z) : list Z :=
  match inp with
  | lo :: hi :: tl =>
      let '(bad, t, b) := rrun (decode_ops tl (length tl)) (Fresh lo hi) [] 0 in
      bad :: (match t with Done => 1 | _ => 0 end) :: b
  | _ => []
  end.

(* input: partitioner threads lo hi grain (the first two are ignored); output: preorder encoding of the split/join tree *)
Definition run_dreduce (inp : list Z) : list Z :=
  match inp with
  | _ :: _ :: lo :: hi :: g :: _ => dflat (dsplit (dfuel lo hi) lo hi g)
  | _ => []
  end.
