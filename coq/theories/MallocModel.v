(* C17/C18: executable model of tbbmalloc's front-end arithmetic (src/tbbmalloc/frontend.cpp):
   size classes (getSmallObjectIndex / getIndexOrObjectSize, 806-872), slab object placement
   (Block::allocateFromBumpPtr / allocateFromFreeList / freeOwnObject / restoreBumpPtr), the aligned-allocation
   strategy (allocateAligned 2368-2398, findObjectToFree 1755-1776), large-object placement and the overflow
   guards (getFromLLOCache 2283-2340, scalable_calloc 3074-3092, posix_memalign / aligned_malloc validation).
   size_t is 64 bit: wrap-around is explicit where the property is about it. *)
From OTV Require Import Lib.Tac Params.
Local Open Scope Z_scope.

Definition W64 : Z := 2 ^ 64.
Definition w64 (x : Z) : Z := x mod W64.
Definition align_up (x a : Z) : Z := ((x + a - 1) / a) * a.
Definition align_down (x a : Z) : Z := (x / a) * a.
Definition is_pow2 (a : Z) : bool := (0 <? a) && (a =? 2 ^ Z.log2 a).

(* ---- size classes ---- *)
Definition small_index (s : Z) : Z := let r := (s - 1) / 8 in if r =? 0 then 0 else Z.lor r 1.
Definition obj_size (s : Z) : Z :=
  if s <=? mal_maxSmallObjectSize then (small_index s + 1) * 8
  else if s <=? mal_maxSegregatedObjectSize then
    let order := Z.log2 (s - 1) in align_up s (128 / 2 ^ (9 - order))
  else if s <=? mal_fittingSize1 then mal_fittingSize1
  else if s <=? mal_fittingSize2 then mal_fittingSize2
  else if s <=? mal_fittingSize3 then mal_fittingSize3
  else if s <=? mal_fittingSize4 then mal_fittingSize4
  else mal_fittingSize5.
Definition obj_index (s : Z) : Z :=
  if s <=? mal_maxSmallObjectSize then small_index s
  else if s <=? mal_maxSegregatedObjectSize then
    let order := Z.log2 (s - 1) in
    mal_minSegregatedObjectIndex - 4 * 6 - 4 + 4 * order + (s - 1) / 2 ^ (order - 2)
  else if s <=? mal_fittingSize1 then mal_minFittingIndex
  else if s <=? mal_fittingSize2 then mal_minFittingIndex + 1
  else if s <=? mal_fittingSize3 then mal_minFittingIndex + 2
  else if s <=? mal_fittingSize4 then mal_minFittingIndex + 3
  else mal_minFittingIndex + 4.

Definition objs_per_slab (osz : Z) : Z := (mal_slabSize - mal_sizeof_Block) / osz.
(* k-th object handed out by the bump pointer (k = 1 is the first): slab + slabSize - k*objectSize *)
Definition bump_offset (osz k : Z) : Z := mal_slabSize - k * osz.

(* ---- one bin of one thread, while its first block is the active one ---- *)
Record bin := mkbin { b_bump : Z; b_free : list Z; b_count : Z; b_tainted : bool }.
Definition empty_bin := mkbin 0 [] 0 false.

(* allocation from the active block: free list first, then the bump pointer; returns offset or -9 when the
   model no longer tracks this bin (its first block became full) *)
Definition bin_alloc (osz : Z) (b : bin) : bin * Z :=
  if b_tainted b then (b, -9)
  else match b_free b with
       | off :: tl => (mkbin (b_bump b) tl (b_count b + 1) false, off)
       | [] => if b_bump b <? objs_per_slab osz
               then (mkbin (b_bump b + 1) [] (b_count b + 1) false, bump_offset osz (b_bump b + 1))
               else (mkbin (b_bump b) [] (b_count b) true, -9)
       end.
(* free by the owning thread: the last object of the block resets the bump pointer and drops the free list *)
Definition bin_free (b : bin) (off : Z) : bin :=
  if b_tainted b then b
  else if b_count b =? 1 then mkbin 0 [] 0 false
  else mkbin (b_bump b) (off :: b_free b) (b_count b - 1) false.

(* ---- aligned allocation strategy ---- *)
Inductive route := RSmall (request : Z) | RFit (request : Z) (alignment : Z) | RLarge (size : Z) (alignment : Z).
Definition aligned_route (size alignment : Z) : route :=
  if (size <=? mal_maxSegregatedObjectSize) && (alignment <=? mal_maxSegregatedObjectSize)
  then RSmall (align_up (if size =? 0 then 8 else size) alignment)
  else if size <? mal_minLargeObjectSize then
    if alignment <=? mal_fittingAlignment then RSmall size
    else if size + alignment <? mal_minLargeObjectSize then RFit (size + alignment) alignment
    else RLarge size (Z.max mal_largeObjectAlignment alignment)
  else RLarge size (Z.max mal_largeObjectAlignment alignment).
Definition malloc_route (size : Z) : route :=
  let size := if size =? 0 then 8 else size in
  if size <? mal_minLargeObjectSize then RSmall size else RLarge size mal_largeObjectAlignment.

(* findObjectToFree for an address inside a slab: recovers the start of the real object *)
Definition find_object (osz off : Z) : Z :=
  if osz <=? mal_maxSegregatedObjectSize then off
  else if negb (off mod (2 * mal_fittingAlignment) =? 0) then off
  else (* findAllocatedObject: distance from the slab end, 16-bit arithmetic as in the code *)
    let offset := (mal_slabSize - off) mod 65536 in
    let rem := offset mod osz in
    off - (if rem =? 0 then 0 else osz - rem).

(* ---- large objects ---- *)
Definition align_to_bin (size : Z) : Z :=
  if size <? mal_maxLargeSize then w64 (align_up size mal_largeCacheStep)
  else w64 (align_up size (2 ^ (Z.log2 size - mal_hugeStepFactorExp))).
(* allocationSize of getFromLLOCache and its wrap-around guard: None = refused *)
Definition llo_alloc_size (size alignment : Z) : option Z :=
  let a := align_to_bin (w64 (size + mal_headersSize + alignment)) in
  if a <? size then None else Some a.
(* placement inside the raw block [lmb, lmb+unaligned): returns the user address *)
Definition llo_place (lmb unaligned size alignment idx_after : Z) (has_tls : bool) : Z :=
  let area := align_up (lmb + mal_headersSize) alignment in
  let right := align_down (lmb + unaligned - size) alignment in
  let delta := (right - area) mod 2 ^ 32 in           (* unsigned ptrDelta *)
  if (negb (delta =? 0)) && has_tls then
    let n := delta / alignment in
    area + (idx_after mod 2 ^ 32 mod n) * alignment
  else area.

(* ---- entry-point guards (C18) ---- *)
Definition calloc_refuses (nobj size : Z) : bool :=
  let m := 2 ^ 32 in
  let arr := w64 (nobj * size) in
  ((m <=? nobj) || (m <=? size)) && (negb (nobj =? 0)) && (negb (arr / nobj =? size)).
Definition memalign_valid (alignment : Z) : bool := is_pow2 alignment && (8 <=? alignment).   (* isPowerOfTwoAtLeast(a, sizeof(void* )) *)
Definition aligned_malloc_valid (size alignment : Z) : bool := is_pow2 alignment && negb (size =? 0).

(* ================= flat interfaces ================= *)
Definition run_msizes (l : list Z) : list Z := flat_map (fun s => [obj_index s; obj_size s]) l.

(* seq: state = bins (assoc by index) and slots (per allocation: index, object size, object offset; -1 = large/freed) *)
Fixpoint get_bin (bs : list (Z * bin)) (i : Z) : bin :=
  match bs with [] => empty_bin | (j, b) :: tl => if j =? i then b else get_bin tl i end.
Fixpoint set_bin (bs : list (Z * bin)) (i : Z) (b : bin) : list (Z * bin) :=
  match bs with
  | [] => [(i, b)]
  | (j, x) :: tl => if j =? i then (i, b) :: tl else (j, x) :: set_bin tl i b
  end.

Record slot := mkslot { s_idx : Z; s_osz : Z; s_off : Z }.   (* s_idx = -1: not a tracked small object *)

(* output of a small allocation: 0 objsize offset msize *)
Definition small_alloc (bs : list (Z * bin)) (request : Z) (align_fit : Z) : list (Z * bin) * slot * list Z :=
  let idx := obj_index request in
  let osz := obj_size request in
  let '(b', off) := bin_alloc osz (get_bin bs idx) in
  let user := if off =? -9 then -9 else if align_fit =? 0 then off else align_up off align_fit in
  (set_bin bs idx b', mkslot idx osz off, [0; osz; user; if off =? -9 then -9 else osz - (user - off)]).

Fixpoint run_seq_ops (fuel : nat) (bs : list (Z * bin)) (slots : list slot) (l : list Z) : list Z :=
  match fuel with
  | O => []
  | S f =>
    match l with
    | 1 :: s :: tl =>
        match malloc_route s with
        | RSmall r => let '(bs', sl, out) := small_alloc bs r 0 in out ++ run_seq_ops f bs' (slots ++ [sl]) tl
        | _ => [1] ++ run_seq_ops f bs (slots ++ [mkslot (-1) 0 0]) tl
        end
    | 3 :: s :: a :: tl =>
        match aligned_route s a with
        | RSmall r => let '(bs', sl, out) := small_alloc bs r 0 in out ++ run_seq_ops f bs' (slots ++ [sl]) tl
        | RFit r al => let '(bs', sl, out) := small_alloc bs r al in out ++ run_seq_ops f bs' (slots ++ [sl]) tl
        | RLarge _ _ => [1] ++ run_seq_ops f bs (slots ++ [mkslot (-1) 0 0]) tl
        end
    | 2 :: k :: tl =>
        let sl := nth (Z.to_nat k) slots (mkslot (-1) 0 0) in
        let bs' := if s_idx sl =? -1 then bs else set_bin bs (s_idx sl) (bin_free (get_bin bs (s_idx sl)) (s_off sl)) in
        let slots' := map (fun p => if Nat.eqb (fst p) (Z.to_nat k) then mkslot (-1) 0 0 else snd p)
                          (combine (seq 0 (length slots)) slots) in
        [-2] ++ run_seq_ops f bs' slots' tl
    | _ => []
    end
  end.
Definition run_mseq (l : list Z) : list Z := run_seq_ops (length l) [] [] l.

(* llo: (lmb unaligned size alignment idx_after has_tls)* -> user offset from lmb *)
Fixpoint run_llo (l : list Z) : list Z :=
  match l with
  | lmb :: un :: sz :: al :: idx :: tls :: tl => (llo_place lmb un sz al idx (negb (tls =? 0)) - lmb) :: run_llo tl
  | _ => []
  end.

(* guards: (kind a b)* -> 1 accepted by the guards / 0 refused.
   1 calloc(nobj,size)  2 posix_memalign(align,size)  3 aligned_malloc(size,align)  4 malloc(size)  5 realloc(malloc(a), b)
   For accepted large requests the wrap-around guard of getFromLLOCache is applied as well. *)
Definition large_ok (r : route) : bool :=
  match r with RLarge s a => match llo_alloc_size s a with Some _ => true | None => false end | _ => true end.
Fixpoint run_guards (l : list Z) : list Z :=
  match l with
  | k :: a :: b :: tl =>
      (if k =? 1 then (if calloc_refuses a b then 0 else if large_ok (malloc_route (w64 (a * b))) then 1 else 0)
       else if k =? 2 then (if memalign_valid a then (if large_ok (aligned_route b a) then 1 else 0) else 0)
       else if k =? 3 then (if aligned_malloc_valid a b then (if large_ok (aligned_route a b) then 1 else 0) else 0)
       else if k =? 5 then (if b <=? a then 1 else if large_ok (malloc_route b) then 1 else 0)   (* realloc(malloc(a), b) *)
       else (if large_ok (malloc_route a) then 1 else 0)) :: run_guards tl
  | _ => []
  end.

(* tbb::cache_aligned_resource::do_allocate (include/oneapi/tbb/cache_aligned_allocator.h): the request handed to the upstream memory
   resource is correct_size(bytes) + max(alignment, cache line size), computed in size_t.  [guard] = the representability test is present. *)
Definition car_request (guard : bool) (bytes al cls : Z) : option Z :=
  let a := Z.max al cls in
  let size := Z.max bytes 8 in          (* correct_size: at least one pointer, for the header word *)
  if guard && (W64 - 1 - a <? size) then None else Some (w64 (size + a)).
(* flat interface: cls, then (bytes al)* -> per pair the upstream request, -1 = refused before the upstream resource is asked *)
Fixpoint run_car_pairs (cls : Z) (l : list Z) : list Z :=
  match l with
  | b :: a :: tl => (match car_request true b a cls with Some s => s | None => -1 end) :: run_car_pairs cls tl
  | _ => []
  end.
Definition run_car (l : list Z) : list Z := match l with cls :: tl => run_car_pairs cls tl | [] => [] end.
