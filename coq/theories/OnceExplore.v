(* C19: exhaustive exploration (all interleavings, checked closed sets) of small collaborative_call_once configurations. *)
From OTV Require Import Lib.Tac Lib.Conc Lib.Explore OnceModel.
Local Open Scope Z_scope.

Lemma word_dec (a b : word) : {a = b} + {a <> b}.
Proof. decide equality; [apply Z.eq_dec | apply Nat.eq_dec]. Defined.
Lemma opc_dec (a b : opc) : {a = b} + {a <> b}.
Proof. decide equality; try apply bool_dec; try apply Nat.eq_dec; try apply word_dec. Defined.
Lemma oloc_dec (a b : oloc) : {a = b} + {a <> b}.
Proof. decide equality; [apply list_eq_dec; apply bool_dec | apply opc_dec]. Defined.
Lemma oshared_dec (a b : oshared) : {a = b} + {a <> b}.
Proof. decide equality; try apply Z.eq_dec; try (apply list_eq_dec; apply bool_dec); try (apply list_eq_dec; apply Z.eq_dec); apply word_dec. Defined.
Lemma ocfg_dec (a b : oshared * list oloc) : {a = b} + {a <> b}.
Proof. decide equality; [apply list_eq_dec; apply oloc_dec | apply oshared_dec]. Defined.

Definition returned (l : oloc) : bool := match ol_pc l with ORetOk | ORetExc => true | _ => false end.
Definition ret_ok (l : oloc) : bool := match ol_pc l with ORetOk => true | _ => false end.

(* in every configuration: no access to a destroyed runner; at most one successful execution; a caller that returned normally
   did so after the successful execution; no stuck state (if somebody has not returned, somebody can step); when everybody
   has returned: exactly one success and the flag is done — or, if every caller's own attempt threw, no success and the flag
   is back in the not-called state *)
Definition once_good (c : oshared * list oloc) : bool :=
  let g := fst c in
  (o_bad_access g =? 0) && (o_success g <=? 1) &&
  forallb (fun l => if ret_ok l then (o_success g =? 1) && match o_word g with Done => true | _ => false end else true) (snd c) &&
  (if forallb returned (snd c)
   then (if existsb ret_ok (snd c) then (o_success g =? 1) && match o_word g with Done => true | _ => false end
         else (o_success g =? 0) && match o_word g with Uninit => true | _ => false end)     (* every caller's own attempt threw *)
   else negb (match succs ostep c with [] => true | _ => false end)).

Definition once_configs : list (list (list bool)) :=
  [ [[false]; [false]];                     (* two callers *)
    [[true; false]; [false]];               (* the first attempt throws, the other caller retries *)
    [[true; false]; [true; false]];         (* both callers' attempts throw *)
    [[false]; [false]; [false]];            (* three callers: two helpers in the window at once *)
    [[true; false]; [false]; [false]] ].    (* three callers, the first attempt throws *)

Lemma once_explored : forallb (fun t => explore_all ostep ocfg_dec once_good (oinit t) 30000) once_configs = true.
Proof. vm_compute. reflexivity. Qed.

Theorem once_all_interleavings throws c :
  In throws once_configs -> reach ostep (oinit throws) c -> once_good c = true.
Proof.
  intros Hin. assert (H := once_explored). rewrite forallb_forall in H. specialize (H throws Hin).
  apply (explore_all_sound ostep ocfg_dec once_good (oinit throws) 30000 H).
Qed.
