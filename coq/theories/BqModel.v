(* C09: executable small-step model of the ticket-claim loops of tbb::concurrent_bounded_queue
   (include/oneapi/tbb/concurrent_queue.h: internal_push_if_not_full, internal_try_pop_impl) on the two
   shared counters head_counter (var 1) and tail_counter (var 2).  One step = one atomic access to a
   counter, the granularity of harness/gate; everything a thread does between two counter accesses
   (micro_queue pages, monitors) is invisible here.  Tickets are unbounded Z: the 2^64 wrap of size_t
   is not modelled. *)
From OTV Require Import Lib.Tac Lib.Conc.
Local Open Scope Z_scope.

Record bg := mkbg { b_head : Z; b_tail : Z; b_cap : Z }.
Inductive bpc := BIdle | PuLoadTail | PuLoadHead (k : Z) | PuCas (k : Z) | PoLoadHead | PoLoadTail (k : Z) | PoCas (k : Z).
Record bloc := mkbl { b_script : list Z; b_pc : bpc }.

Definition OTryPop := 2. Definition OTryPush := 3.

Definition BK_LOAD := 1. Definition BK_CAS := 4.
Definition B_RLX := 0. Definition B_ACQ := 2. Definition B_SEQ := 5.
Definition VHEAD := 1. Definition VTAIL := 2.
Definition bev (tid : nat) (var kind order before after ok : Z) : list Z :=
  [Z.of_nat tid; var; kind; order; before; after; ok].
(* completion note: operation code, result (1 = done, 0 = full/empty), the claimed ticket (or -1) *)
Definition bnote (tid : nat) (opc res tk : Z) : list Z := [Z.of_nat tid; 0; 100 + opc; 0; res; tk; 1].

Definition bcomplete (tid : nat) (l : bloc) (opc res tk : Z) : bloc * list Z :=
  (mkbl (tl (b_script l)) BIdle, bnote tid opc res tk).

Definition bexec (tid : nat) (g : bg) (l : bloc) (p : bpc) : bg * bloc * list Z :=
  let stay q := mkbl (b_script l) q in
  let h := b_head g in let t := b_tail g in let c := b_cap g in
  match p with
  | BIdle => (g, l, [])
  | PuLoadTail => (g, stay (PuLoadHead t), bev tid VTAIL BK_LOAD B_RLX t t 1)
  | PuLoadHead k =>
      let e := bev tid VHEAD BK_LOAD B_RLX h h 1 in
      if k - h >=? c then let '(l', n) := bcomplete tid l OTryPush 0 (-1) in (g, l', e ++ n)
      else (g, stay (PuCas k), e)
  | PuCas k =>
      if t =? k then let '(l', n) := bcomplete tid l OTryPush 1 k in
                     (mkbg h (k + 1) c, l', bev tid VTAIL BK_CAS B_SEQ k (k + 1) 1 ++ n)
      else (g, stay (PuLoadHead t), bev tid VTAIL BK_CAS B_SEQ t (k + 1) 0)
  | PoLoadHead => (g, stay (PoLoadTail h), bev tid VHEAD BK_LOAD B_ACQ h h 1)
  | PoLoadTail k =>
      let e := bev tid VTAIL BK_LOAD B_RLX t t 1 in
      if t - k <=? 0 then let '(l', n) := bcomplete tid l OTryPop 0 (-1) in (g, l', e ++ n)
      else (g, stay (PoCas k), e)
  | PoCas k =>
      if h =? k then let '(l', n) := bcomplete tid l OTryPop 1 k in
                     (mkbg (k + 1) t c, l', bev tid VHEAD BK_CAS B_SEQ k (k + 1) 1 ++ n)
      else (g, stay (PoLoadTail h), bev tid VHEAD BK_CAS B_SEQ h (k + 1) 0)
  end.

Definition bfirst (o : Z) : bpc := if o =? OTryPush then PuLoadTail else PoLoadHead.

Definition btstep (tid : nat) (g : bg) (l : bloc) : option (bg * bloc * list Z) :=
  match b_pc l with
  | BIdle => match b_script l with
             | [] => None
             | o :: _ => Some (bexec tid g l (bfirst o))
             end
  | p => Some (bexec tid g l p)
  end.

Definition binit (cap : Z) (scripts : list (list Z)) : bg * list bloc :=
  (mkbg 0 0 cap, map (fun s => mkbl s BIdle) scripts).

Fixpoint btake_scripts (n : nat) (l : list Z) : list (list Z) * list Z :=
  match n with
  | O => ([], l)
  | S n' => match l with
            | len :: tl =>
                let k := Z.to_nat len in
                let '(rest, l') := btake_scripts n' (skipn k tl) in
                (firstn k tl :: rest, l')
            | [] => ([], [])
            end
  end.

(* flat interface: cap, nthreads, per thread (len, ops...), -1, schedule (one thread id per counter access).
   output: the events of the schedule, then head, tail and 1/0 = every script finished *)
Definition run_bq (inp : list Z) : list Z :=
  match inp with
  | cap :: n :: tl =>
      let '(scripts, rest) := btake_scripts (Z.to_nat n) tl in
      let sched := map Z.to_nat (match rest with _ :: s => s | [] => [] end) in
      let '(c1, evs1) := run btstep (binit cap scripts) sched in
      let fin := forallb (fun l => match b_pc l, b_script l with BIdle, [] => true | _, _ => false end) (snd c1) in
      evs1 ++ [b_head (fst c1); b_tail (fst c1); if fin then 1 else 0]
  | _ => []
  end.
