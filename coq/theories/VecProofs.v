From OTV Require Import Lib.Tac Params VecModel.
Local Open Scope Z_scope.

Lemma W_val : W = 2 ^ 64. Proof. reflexivity. Qed.

Lemma forall_range_lift (P : Z -> bool) (n : nat) :
  forallb P (map Z.of_nat (seq 0 n)) = true ->
  forall k, 0 <= k < Z.of_nat n -> P k = true.
Proof.
  intros H k Hk. rewrite forallb_forall in H. apply H.
  apply in_map_iff. exists (Z.to_nat k). split; [lia|].
  apply in_seq. lia.
Qed.

Lemma seg_base_spec k : 0 <= k < 64 -> seg_base k = if k =? 0 then 0 else 2 ^ k.
Proof.
  intros Hk.
  assert (H : forallb (fun k => seg_base k =? (if k =? 0 then 0 else 2 ^ k))
                (map Z.of_nat (seq 0 64)) = true) by (vm_compute; reflexivity).
  pose proof (forall_range_lift _ 64 H k ltac:(lia)) as E. simpl in E. lia.
Qed.

Lemma seg_size_spec k : 0 <= k < 64 -> seg_size k = if k =? 0 then 2 else 2 ^ k.
Proof.
  intros Hk.
  assert (H : forallb (fun k => seg_size k =? (if k =? 0 then 2 else 2 ^ k))
                (map Z.of_nat (seq 0 64)) = true) by (vm_compute; reflexivity).
  pose proof (forall_range_lift _ 64 H k ltac:(lia)) as E. simpl in E. lia.
Qed.

Lemma lor1_bounds i : 0 <= i -> i <= Z.lor i 1 <= i + 1.
Proof.
  intros Hi.
  destruct (Z.testbit i 0) eqn:Hb.
  - assert (Z.lor i 1 = i).
    { apply Z.bits_inj'. intros n Hn. rewrite Z.lor_spec.
      destruct (Z.eq_dec n 0) as [->|Hne].
      - rewrite Hb. reflexivity.
      - replace 1 with (2 ^ 0) by reflexivity. rewrite Z.pow2_bits_false by lia.
        apply orb_false_r. }
    lia.
  - assert (Hl : Z.land i 1 = 0).
    { apply Z.bits_inj'. intros n Hn. rewrite Z.land_spec, Z.bits_0.
      destruct (Z.eq_dec n 0) as [->|Hne].
      - rewrite Hb. reflexivity.
      - replace 1 with (2 ^ 0) by reflexivity. rewrite Z.pow2_bits_false by lia.
        apply andb_false_r. }
    assert (Z.lor i 1 = i + 1).
    { rewrite (Z.add_nocarry_lxor i 1 Hl). rewrite (Z.lxor_lor i 1 Hl). reflexivity. }
    lia.
Qed.

Lemma seg_index_of_small i : 0 <= i < 2 -> seg_index_of i = 0.
Proof. intros H. assert (i = 0 \/ i = 1) as [-> | ->] by lia; reflexivity. Qed.

Lemma seg_index_of_log2 i : 2 <= i -> seg_index_of i = Z.log2 i.
Proof.
  intros Hi. unfold seg_index_of. rewrite Z.log2_lor by lia.
  change (Z.log2 1) with 0. pose proof (Z.log2_nonneg i). lia.
Qed.

Lemma seg_bijection_proof i k :
  0 <= i < W -> 0 <= k < 64 ->
  (seg_base k <= i < seg_base k + seg_size k <-> k = seg_index_of i).
Proof.
  intros Hi Hk. rewrite seg_base_spec, seg_size_spec by lia.
  destruct (k =? 0) eqn:Hk0.
  - assert (k = 0) by lia. subst k. split.
    + intros H. symmetry. apply seg_index_of_small. lia.
    + intros H. destruct (Z_lt_le_dec i 2) as [Hlt|Hge]; [lia|].
      rewrite seg_index_of_log2 in H by lia.
      assert (0 < Z.log2 i) by (apply Z.log2_pos; lia). lia.
  - assert (Hk1 : 1 <= k) by lia.
    assert (Hp : 2 <= 2 ^ k) by (change 2 with (2 ^ 1) at 1; apply Z.pow_le_mono_r; lia).
    split.
    + intros Hr. rewrite seg_index_of_log2 by lia. symmetry.
      apply Z.log2_unique; [lia|]. rewrite Z.pow_succ_r by lia. lia.
    + intros ->.
      destruct (Z_lt_le_dec i 2) as [Hlt|Hge].
      * rewrite seg_index_of_small in * by lia. lia.
      * rewrite seg_index_of_log2 in * by lia.
        pose proof (Z.log2_spec i ltac:(lia)) as Hs.
        rewrite Z.pow_succ_r in Hs by lia. lia.
Qed.

Lemma seg_index_of_range i : 0 <= i < W -> 0 <= seg_index_of i < 64.
Proof.
  intros Hi. destruct (Z_lt_le_dec i 2).
  - rewrite seg_index_of_small by lia. lia.
  - rewrite seg_index_of_log2 by lia. split; [apply Z.log2_nonneg|].
    apply Z.log2_lt_pow2; [lia|]. rewrite <- W_val. lia.
Qed.

(* ---------- growth bookkeeping ---------- *)

(* no size_type wrap-around in this call sequence *)
Fixpoint fits (sz : Z) (ops : list vop) : Prop :=
  match ops with
  | [] => True
  | GrowBy d :: tl => 0 <= d /\ sz + d < W /\ fits (sz + d) tl
  | PushBack :: tl => sz + 1 < W /\ fits (sz + 1) tl
  | GrowTo n :: tl => 0 <= n < W /\ fits (Z.max sz n) tl
  end.

(* the constructed ranges, in linearisation order, are non-empty and contiguous from a to b *)
Fixpoint consecutive (a : Z) (rs : list vres) (b : Z) : Prop :=
  match rs with
  | [] => a = b
  | r :: tl => stuck r = false /\
      match constructed r with
      | None => consecutive a tl b
      | Some (s, e) => s = a /\ s < e /\ consecutive e tl b
      end
  end.

Lemma wrap_small x : 0 <= x < W -> wrap x = x.
Proof. intros. unfold wrap. apply Z.mod_small. lia. Qed.

Lemma grow_ranges_tile_proof ops : forall sz0,
  0 <= sz0 < W -> fits sz0 ops ->
  let '(sz, rs) := vrun decide_lt sz0 ops in
  consecutive sz0 rs sz /\ sz0 <= sz < W.
Proof.
  induction ops as [|o tl IH]; intros sz0 H0 Hf; cbn [vrun].
  - cbn. lia.
  - destruct o as [d| |n]; cbn [fits] in Hf; cbn [vstep].
    + destruct Hf as (Hd & Hlt & Hf).
      destruct (d =? 0) eqn:Hd0.
      * assert (d = 0) by lia. subst d. replace (sz0 + 0) with sz0 in Hf by lia.
        specialize (IH sz0 H0 Hf). destruct (vrun decide_lt sz0 tl) as [sz rs].
        cbn. intuition (auto; lia).
      * rewrite wrap_small by lia.
        specialize (IH (sz0 + d) ltac:(lia) Hf).
        destruct (vrun decide_lt (sz0 + d) tl) as [sz rs]. cbn. 
        intuition (auto; lia).
    + destruct Hf as (Hlt & Hf). rewrite wrap_small by lia.
      specialize (IH (sz0 + 1) ltac:(lia) Hf).
      destruct (vrun decide_lt (sz0 + 1) tl) as [sz rs]. cbn.
      intuition (auto; lia).
    + destruct Hf as (Hn & Hf). change (decide_lt sz0 n) with (sz0 <? n).
      destruct (n =? 0) eqn:Hn0.
      * assert (n = 0) by lia. subst n. replace (Z.max sz0 0) with sz0 in Hf by lia.
        specialize (IH sz0 H0 Hf). destruct (vrun decide_lt sz0 tl) as [sz rs].
        cbn. intuition (auto; lia).
      * destruct (sz0 <? n) eqn:Hlt.
        -- replace (Z.max sz0 n) with n in Hf by lia.
           specialize (IH n ltac:(lia) Hf). destruct (vrun decide_lt n tl) as [sz rs].
           cbn. intuition (auto; lia).
        -- replace (Z.max sz0 n) with sz0 in Hf by lia.
           specialize (IH sz0 H0 Hf). destruct (vrun decide_lt sz0 tl) as [sz rs].
           cbn. rewrite ?Hlt. intuition (auto; lia).
Qed.

Lemma grow_to_at_least_covers_proof sz n :
  0 <= sz < W -> 0 < n < W ->
  let '(sz', r) := vstep decide_lt sz (GrowTo n) in
  n <= sz' /\ stuck r = false /\
  (sz < n -> constructed r = Some (sz, n) /\ sz' = n) /\
  (n <= sz -> constructed r = None /\ sz' = sz).
Proof.
  intros Hs Hn. cbn [vstep]. unfold decide_lt.
  destruct (n =? 0) eqn:E0; [lia|].
  destruct (sz <? n) eqn:E; cbn; repeat split; try lia; intros; try lia; rewrite ?E; auto.
Qed.

Lemma intcast_refuted_proof :
  exists sz n, 0 <= sz < n /\ n < W /\
    stuck (snd (vstep decide_intcast sz (GrowTo n))) = true /\
    constructed (snd (vstep decide_intcast sz (GrowTo n))) = None.
Proof. exists 0, (2 ^ 31). vm_compute. repeat split; congruence. Qed.

Lemma to_int_small x : 0 <= x < 2 ^ 31 -> to_int x = x.
Proof.
  intros H. unfold to_int. change int_bits with 32.
  rewrite Z.mod_small by (change (2 ^ 32) with 4294967296; change (2 ^ 31) with 2147483648 in H; lia).
  change (32 - 1) with 31. destruct (x <? 2 ^ 31) eqn:E; lia.
Qed.

Lemma intcast_agrees_below_2_31_proof sz n :
  0 <= sz < 2 ^ 31 -> 0 <= n < 2 ^ 31 -> decide_intcast sz n = decide_lt sz n.
Proof.
  intros Hs Hn. unfold decide_intcast, decide_lt, int_sub.
  rewrite (to_int_small n), (to_int_small sz) by lia.
  change (2 ^ 31) with 2147483648 in *.
  unfold to_int. change int_bits with 32. change (32 - 1) with 31.
  change (2 ^ 32) with 4294967296. change (2 ^ 31) with 2147483648.
  destruct ((n - sz) mod 4294967296 <? 2147483648) eqn:E; lia.
Qed.
