(* C10 — concurrent_hash_map.  Property theorems only; proofs live in HashProofs.v. *)
From OTV Require Import Lib.Tac Params HashModel HashProofs.
Local Open Scope Z_scope.

(* The table with hash & mask addressing, growth (new buckets flagged "rehash required") and lazy recursive
   rehashing is a map: for EVERY sequence of insert / erase / find (any keys >= 0, any length, through any number of
   table doublings and any pattern of buckets rehashed or not) every operation returns what a finite map returns:
   insert succeeds iff the key is absent, erase iff present, find returns the stored value — no key is lost,
   duplicated or resurrected by growth or rehashing. *)
Theorem hash_map_refines_map : forall ops,
  Forall (fun o => 0 <= key_of o) ops ->
  snd (h_run h_init ops) = snd (a_run [] ops).
Proof.
  intros ops H. destruct Inv_init as [HI HR].
  eapply run_refines; eauto. change hm_first_block with 8. lia.
Qed.
Print Assumptions hash_map_refines_map.

(* in every reachable table: keys are unique, every stored key sits in a bucket on its own parent chain and every
   deeper bucket of that chain is still flagged for rehashing (so the lookup path always ends at the key), and the
   stored pairs are exactly the map's *)
Theorem hash_table_invariant : forall ops,
  Forall (fun o => 0 <= key_of o) ops ->
  Inv (fst (h_run h_init ops)) /\ R (fst (h_run h_init ops)) (fst (a_run [] ops)).
Proof.
  intros ops H. destruct Inv_init as [HI HR].
  eapply run_refines; eauto. change hm_first_block with 8. lia.
Qed.
Print Assumptions hash_table_invariant.

(* rehashing a bucket (bucket_accessor::acquire on a flagged bucket, recursively through its parents) changes no
   key/value of the map and leaves the bucket usable *)
Theorem rehash_preserves_contents : forall s j,
  Inv s -> 0 <= j < 2 ^ h_bits s ->
  let s' := acquire (fuel_of s) s j in
  Inv s' /\ (forall k v, holds s' k v <-> holds s k v) /\ exists c, getb s' j = Some (Some c).
Proof.
  intros s j HI Hj s'.
  destruct (acquire_ok (fuel_of s) s j HI Hj (fuel_ok s j HI Hj)) as (H1 & _ & _ & H2 & H3 & _). auto.
Qed.
Print Assumptions rehash_preserves_contents.

(* non-vacuity: 300 keys of stride 256 all hash to the chain of bucket 0; the table doubles and rehashes lazily *)
Example hash_growth_example :
  let ops := map (fun i => HIns (Z.of_nat i * 256) 7) (seq 0 300) ++ [HFind (299 * 256); HErase 256; HFind 256] in
  let '(s, rs) := h_run h_init ops in
  h_bits s = 9 /\ skipn 300 rs = [7; 1; -1].
Proof. vm_compute. split; reflexivity. Qed.
