(* C15: limiter_node's counters (include/oneapi/tbb/flow_graph.h: try_put_task_impl, forward_task, decrement_counter).
   my_count = forwarded messages not yet decremented, my_tries = puts in flight (accepted by the limiter, the successor's answer pending),
   my_future_decrement = the part of a decrement that exceeded my_count while a put was in flight.  Every operation runs under my_mutex. *)
From OTV Require Import Lib.Tac.
Local Open Scope Z_scope.

Record lim := mklim { l_th : Z; l_count : Z; l_tries : Z; l_fdec : Z;
                      l_fwd : Z;        (* ghost: messages forwarded (the successor accepted them) *)
                      l_req : Z }.      (* ghost: sum of the decrements requested (each capped at the threshold) *)

(* the credit of a finished put is first used to pay off a pending future decrement *)
Definition settle_fdec (count fdec : Z) : Z * Z :=
  if 0 <? fdec then (if fdec <? count then (count - fdec, 0) else (0, fdec - count)) else (count, fdec).

(* op 1: a put arrives (1 = admitted: my_tries++, 0 = rejected)        op 2: the successor accepted the message of an admitted put
   op 3: the successor rejected it                                      op 4 d: decrement by d > 0 *)
Definition lstep (n : lim) (op d : Z) : lim * Z :=
  if op =? 1 then
    if l_th n <=? l_count n + l_tries n then (n, 0)
    else (mklim (l_th n) (l_count n) (l_tries n + 1) (l_fdec n) (l_fwd n) (l_req n), 1)
  else if op =? 2 then
    if 0 <? l_tries n then
      let '(c, f) := settle_fdec (l_count n + 1) (l_fdec n) in
      (mklim (l_th n) c (l_tries n - 1) f (l_fwd n + 1) (l_req n), 1)
    else (n, 0)
  else if op =? 3 then
    if 0 <? l_tries n then (mklim (l_th n) (l_count n) (l_tries n - 1) (l_fdec n) (l_fwd n) (l_req n), 1) else (n, 0)
  else if op =? 4 then
    if 0 <? d then
      let dd := Z.min d (l_th n) in
      if l_count n <? dd
      then (mklim (l_th n) 0 (l_tries n) (if 0 <? l_tries n then l_fdec n + (dd - l_count n) else l_fdec n) (l_fwd n) (l_req n + dd), 1)
      else (mklim (l_th n) (l_count n - dd) (l_tries n) (l_fdec n) (l_fwd n) (l_req n + dd), 1)
    else (n, 0)
  else (n, 0).

Definition linit (th : Z) : lim := mklim th 0 0 0 0 0.
Fixpoint lrun (n : lim) (ops : list (Z * Z)) : lim :=
  match ops with [] => n | (op, d) :: tl => lrun (fst (lstep n op d)) tl end.

(* flat interface: threshold, then (op d)*; output per op: result, my_count, my_tries, my_future_decrement *)
Fixpoint lpairs (l : list Z) : list (Z * Z) := match l with a :: b :: tl => (a, b) :: lpairs tl | _ => [] end.
Fixpoint ltrace (n : lim) (ops : list (Z * Z)) : list Z :=
  match ops with
  | [] => []
  | (op, d) :: tl => let '(n1, r) := lstep n op d in r :: l_count n1 :: l_tries n1 :: l_fdec n1 :: ltrace n1 tl
  end.
Definition run_lim (l : list Z) : list Z := match l with th :: tl => ltrace (linit th) (lpairs tl) | [] => [] end.
