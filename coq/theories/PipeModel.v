(* C07: executable model of parallel_pipeline's serial-filter input_buffer (src/tbb/parallel_pipeline.cpp:109-266:
   try_put_token, try_to_spawn_task_for_next_token, grow, get_ordered_token) and of the token accounting of
   stage_task (try_spawn_stage_task / the recycle test at the end of the pipe, 276-283 and 395-407).
   Both buffer operations run under array_mutex, so an interleaving is a sequence of operations. *)
From OTV Require Import Lib.Tac Params.
Local Open Scope Z_scope.

(* task_info: object id, token, token_ready *)
Record tinfo := mkinfo { t_obj : Z; t_token : Z; t_ready : bool }.

Record ibuf := mkbuf {
  arr : list (option tinfo);       (* array; None = is_valid false; length = array_size (a power of two) *)
  low : Z; high : Z; ordered : bool }.

Definition asize (b : ibuf) : Z := Z.of_nat (length (arr b)).
Definition slot_of (size t : Z) : nat := Z.to_nat (t mod size).       (* token & (array_size-1) *)

Fixpoint upd {A} (l : list A) (i : nat) (v : A) : list A :=
  match l, i with
  | [], _ => []
  | _ :: tl, O => v :: tl
  | x :: tl, S j => x :: upd tl j v
  end.

(* grow(minimum_size): double until >= minimum, re-insert the old window [low, low+old_size) *)
Fixpoint grow_size (fuel : nat) (sz minimum : Z) : Z :=
  match fuel with
  | O => sz
  | S f => if sz <? minimum then grow_size f (2 * sz) minimum else sz
  end.
Fixpoint copy_window (n : nat) (old new : list (option tinfo)) (osz nsz t : Z) : list (option tinfo) :=
  match n with
  | O => new
  | S n' => copy_window n' old (upd new (slot_of nsz t) (nth (slot_of osz t) old None)) osz nsz (t + 1)
  end.
Definition grow (b : ibuf) (minimum : Z) : ibuf :=
  let osz := asize b in
  let nsz := grow_size 64 (2 * osz) minimum in
  mkbuf (copy_window (length (arr b)) (arr b) (repeat None (Z.to_nat nsz)) osz nsz (low b)) (low b) (high b) (ordered b).

(* try_put_token: returns the buffer, the (possibly token-stamped) info and whether the item was parked *)
Definition try_put (b : ibuf) (info : tinfo) : ibuf * tinfo * bool :=
  let '(info', high') :=
    if ordered b then
      (if t_ready info then (info, high b) else (mkinfo (t_obj info) (high b) true, high b + 1))
    else (info, high b + 1) in
  let token := if ordered b then t_token info' else high b in
  let b1 := mkbuf (arr b) (low b) high' (ordered b) in
  if token =? low b then (b1, info', false)
  else
    let b2 := if asize b1 <=? token - low b1 then grow b1 (token - low b1 + 1) else b1 in
    (mkbuf (upd (arr b2) (slot_of (asize b2) token) (Some info')) (low b2) (high b2) (ordered b2), info', true).

(* try_to_spawn_task_for_next_token: ++low_token; wake the item parked in that slot, if any *)
Definition note_done (b : ibuf) : ibuf * option tinfo :=
  let l := low b + 1 in
  let s := slot_of (asize b) l in
  (mkbuf (upd (arr b) s None) l (high b) (ordered b), nth s (arr b) None).

Definition init_buf (ord : bool) : ibuf := mkbuf (repeat None 4) 0 0 ord.

(* ---- token accounting of the whole pipeline (serial input filter) ----
   t = input_tokens; a = input-stage tasks that have not yet done their fetch_sub; n = items past the fetch_sub
   and not yet through the last filter *)
Record tok := mktok { tk_t : Z; tk_a : Z; tk_n : Z; tk_eoi : bool }.
Inductive tkop :=
| InputRead        (* an input task produced an item: fetch_sub(1), spawns a new input task iff the old value > 1 *)
| InputEnd         (* the input filter signalled end of input *)
| ItemDone.        (* an item left the last filter: fetch_add(1); recycle as input task iff old value = 0 and not eoi *)
Definition tok_step (s : tok) (o : tkop) : tok :=
  match o with
  | InputRead => mktok (tk_t s - 1) (if 1 <? tk_t s then tk_a s else tk_a s - 1) (tk_n s + 1) (tk_eoi s)
  | InputEnd => mktok (tk_t s) (tk_a s - 1) (tk_n s) true
  | ItemDone => mktok (tk_t s + 1) (if (tk_t s =? 0) && negb (tk_eoi s) then tk_a s + 1 else tk_a s) (tk_n s - 1) (tk_eoi s)
  end.

(* ---- flat interface for the correspondence check ----
   input: ordered(0/1) then ops:  1 obj token ready = try_put_token | 2 0 0 0 = note_done
   output per put: parked(0/1) token ; per done: woken obj (-1 none) token ; then -7 size low high *)
Fixpoint run_buf_ops (b : ibuf) (l : list Z) : list Z :=
  match l with
  | 1 :: o :: t :: r :: tl =>
      let '(b', i', parked) := try_put b (mkinfo o t (negb (r =? 0))) in
      [if parked then 1 else 0; t_token i'] ++ run_buf_ops b' tl
  | 2 :: _ :: _ :: _ :: tl =>
      let '(b', w) := note_done b in
      (match w with Some i => [t_obj i; t_token i] | None => [-1; -1] end) ++ run_buf_ops b' tl
  | _ => [-7; asize b; low b; high b]
  end.
Definition run_pipebuf (l : list Z) : list Z :=
  match l with
  | o :: tl => run_buf_ops (init_buf (negb (o =? 0))) tl
  | [] => []
  end.
