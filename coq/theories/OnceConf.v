(* C19: trace conformance.  The real collaborative_call_once is run with real threads; every access to m_state and to a published
   runner's m_ref_count is executed and logged atomically (a global lock around access + log), so the log is the exact order of
   these accesses.  [conform] replays the log on the model: each logged access must be the access the model's thread performs next
   (after its silent steps), must observe the value the model holds, and must leave the value the model computes.  Accesses made
   while spinning (a wait loop re-reading, a CAS that lost) are steps the model does not take; their observed values are still
   checked against the model's word / reference count. *)
From OTV Require Import Lib.Tac Lib.Conc OnceModel.
Local Open Scope Z_scope.

Definition enc_word (w : word) : Z :=
  match w with Uninit => 0 | Done => 1 | Running t k => (Z.of_nat t + 1) * 1000 + k end.

(* event: tid, var (1 = m_state | 2 = m_ref_count of runner r | 3 = the user function returned/threw), r, kind
   (1 load | 4 CAS | 5 fetch_add | 6 fetch_sub), before, after, ok *)
Record ev := mkev { e_tid : nat; e_var : Z; e_r : nat; e_kind : Z; e_before : Z; e_after : Z; e_ok : bool }.

Definition pc_of (c : oshared * list oloc) (t : nat) : option opc :=
  match nth_error (snd c) t with Some l => Some (ol_pc l) | None => None end.

(* steps without a shared access: taken on behalf of the thread before its next logged access *)
Definition silent (p : opc) : bool :=
  match p with
  | OTop Uninit => false
  | OTop _ => true
  | OHelpAssist _ => true
  | OLoopTest _ => true
  | _ => false
  end.

Fixpoint advance (fuel : nat) (c : oshared * list oloc) (t : nat) : option (oshared * list oloc) :=
  match fuel with
  | O => Some c
  | S f =>
      match pc_of c t with
      | Some p => if silent p then match step_at ostep c t with Some (c', _) => advance f c' t | None => None end
                  else Some c
      | None => None
      end
  end.

(* does the model's thread take a step at this logged access? *)
Definition takes_step (p : opc) (e : ev) : option bool :=
  match p, e_var e, e_kind e with
  | OEntry, 1, 1 => Some true
  | OStart, 1, 1 => Some true
  | OTop Uninit, 1, 4 => Some true
  | OWinRun _, 3, _ => Some true
  | OWinSet _, 1, 4 => Some (e_ok e)
  | OWinSet _, 1, 1 => Some false
  | OWinDtor _, 2, 1 => Some (e_before e =? 0)
  | OHelpCas _, 1, 1 => Some (e_before e <=? 1)
  | OHelpCas _, 1, 4 => Some (e_ok e)
  | OHelpPin _, 2, 5 => Some true
  | OHelpSub _, 1, 6 => Some true
  | OHelpUnpin _, 2, 6 => Some true
  | _, _, _ => None
  end.

Definition value_of (c : oshared * list oloc) (e : ev) : Z :=
  if e_var e =? 1 then enc_word (o_word (fst c)) else if e_var e =? 2 then getr (o_refcount (fst c)) (e_r e) else 0.

(* result: 0 = conforms | 1 = a silent step was not enabled | 2 = unexpected access for the thread's program point |
   3 = observed value differs from the model's | 4 = the model's step is not enabled | 5 = value left behind differs |
   6 = wrong runner | 7 = CAS outcome differs | 8 = throw flag differs *)
Definition conf_event (c : oshared * list oloc) (e : ev) : (oshared * list oloc) * Z :=
  match advance 4 c (e_tid e) with
  | None => (c, 1)
  | Some c1 =>
      match pc_of c1 (e_tid e) with
      | None => (c1, 2)
      | Some p =>
          match takes_step p e with
          | None => (c1, 2)
          | Some go =>
              if negb (e_var e =? 3) && negb (value_of c1 e =? e_before e) then (c1, 3)
              else if negb (match p with OHelpPin r | OHelpUnpin r => Nat.eqb r (e_r e) | OWinDtor _ => Nat.eqb (e_tid e) (e_r e) | _ => true end)
              then (c1, 6)
              else if negb go then (c1, 0)
              else match step_at ostep c1 (e_tid e) with
                   | None => (c1, 4)
                   | Some (c2, _) =>
                       if match p with OWinRun th => negb (Bool.eqb th (e_ok e)) | _ => false end then (c2, 8)
                       else if match p with OTop Uninit => negb (Bool.eqb (e_ok e) (match pc_of c2 (e_tid e) with Some (OWinRun _) => true | _ => false end)) | _ => false end
                       then (c2, 7)
                       else if (e_kind e =? 1) || (e_var e =? 3) || negb (e_ok e) then (c2, 0)
                       else if value_of c2 e =? e_after e then (c2, 0) else (c2, 5)
                   end
          end
      end
  end.

Fixpoint conform (c : oshared * list oloc) (es : list ev) (idx : Z) : (oshared * list oloc) * Z * Z :=
  match es with
  | [] => (c, -1, 0)
  | e :: tl => let '(c', r) := conf_event c e in if r =? 0 then conform c' tl (idx + 1) else (c', idx, r)
  end.

(* every configuration the replay passes through is reachable in the model: the theorems of OnceInv apply to it *)
Lemma advance_reach c0 : forall fuel c t c', reach ostep c0 c -> advance fuel c t = Some c' -> reach ostep c0 c'.
Proof.
  induction fuel as [|f IH]; intros c t c' Hr H; cbn [advance] in H.
  - inversion H; subst; auto.
  - destruct (pc_of c t) as [p|]; [|discriminate]. destruct (silent p).
    + destruct (step_at ostep c t) as [[c1 ev1]|] eqn:E; [|discriminate]. eapply IH; [|exact H]. econstructor; eauto.
    + inversion H; subst; auto.
Qed.

Lemma conf_event_reach c0 c e c' r : reach ostep c0 c -> conf_event c e = (c', r) -> reach ostep c0 c'.
Proof.
  intros Hr H. unfold conf_event in H.
  destruct (advance 4 c (e_tid e)) as [c1|] eqn:Ea; [|inversion H; subst; auto].
  assert (H1 := advance_reach c0 _ _ _ _ Hr Ea).
  destruct (pc_of c1 (e_tid e)) as [p|]; [|inversion H; subst; auto].
  destruct (takes_step p e) as [go|]; [|inversion H; subst; auto].
  destruct (negb (e_var e =? 3) && negb (value_of c1 e =? e_before e)); [inversion H; subst; auto|].
  destruct (negb _); [inversion H; subst; auto|].
  destruct (negb go); [inversion H; subst; auto|].
  destruct (step_at ostep c1 (e_tid e)) as [[c2 ev2]|] eqn:Es; [|inversion H; subst; auto].
  assert (H2 : reach ostep c0 c2) by (econstructor; eauto).
  repeat match type of H with context [if ?b then _ else _] => destruct b end; inversion H; subst; auto.
Qed.

Lemma conform_reach c0 : forall es c idx c' i r, reach ostep c0 c -> conform c es idx = (c', i, r) -> reach ostep c0 c'.
Proof.
  induction es as [|e es IH]; intros c idx c' i r Hr H; cbn [conform] in H.
  - inversion H; subst; auto.
  - destruct (conf_event c e) as [c1 r1] eqn:E. assert (H1 := conf_event_reach c0 _ _ _ _ Hr E).
    destruct (r1 =? 0); [eapply IH; eauto|inversion H; subst; auto].
Qed.

(* flat interface: n, throws flags (one attempt per caller), -1, then 7 integers per event (tid var r kind before after ok);
   output: index of the first non-conforming event (-1 = none), its reason, then after round-robin completion:
   quiescent?, successes, bad accesses, number of callers that returned normally / with the exception *)
Fixpoint parse_evs (fuel : nat) (l : list Z) : list ev :=
  match fuel with
  | O => []
  | S f => match l with
           | t :: v :: r :: k :: b :: a :: ok :: tl => mkev (Z.to_nat t) v (Z.to_nat r) k b a (negb (ok =? 0)) :: parse_evs f tl
           | _ => []
           end
  end.

Definition run_onceconf (inp : list Z) : list Z :=
  match inp with
  | n :: tl =>
      let throws := map (fun x => [negb (x =? 0)]) (firstn (Z.to_nat n) tl) in
      let rest := match skipn (Z.to_nat n) tl with _ :: s => s | [] => [] end in
      let '(c1, idx, reason) := conform (oinit throws) (parse_evs (length rest) rest) 0 in
      let '(c2, _, ok) := finish ostep 3000 c1 3000 in
      [idx; reason; if ok then 1 else 0; o_success (fst c2); o_bad_access (fst c2);
       Z.of_nat (length (filter (fun l => match ol_pc l with ORetOk => true | _ => false end) (snd c2)));
       Z.of_nat (length (filter (fun l => match ol_pc l with ORetExc => true | _ => false end) (snd c2)))]
  | [] => []
  end.
