(* C15: proofs about the item_buffer model (BufModel): FIFO / conservation for queue_node, exact order for
   sequencer_node, conservation and reservation safety for buffer_node. *)
From Coq Require Import Sorting.Permutation.
From OTV Require Import Lib.Tac BufModel.
Local Open Scope Z_scope.

Definition vals (l : list (option (Z * bool))) : list Z :=
  flat_map (fun s : option (Z * bool) => match s with Some (v, _) => [v] | None => [] end) l.

Lemma vals_app l1 l2 : vals (l1 ++ l2) = vals l1 ++ vals l2.
Proof. unfold vals. apply flat_map_app. Qed.

(* history of a run: accepted puts (in acceptance order) and delivered items (by try_get or try_consume), in order *)
Record hist := mkh { h_acc : list Z; h_del : list Z }.

Definition head_val (b : ibuf) : Z := match b_items b with Some (v, _) :: _ => v | _ => -1 end.

Definition step_h (kind : Z) (st : ibuf * hist) (o : Z * Z) : ibuf * hist :=
  let '(b, h) := st in let '(op, v) := o in
  let '(b', r) := node_step kind b op v in
  (b', if op =? 1 then (if r =? 1 then mkh (h_acc h ++ [v]) (h_del h) else h)
       else if op =? 2 then (if r =? -1 then h else mkh (h_acc h) (h_del h ++ [r]))
       else if op =? 5 then (if r =? 1 then mkh (h_acc h) (h_del h ++ [head_val b]) else h)
       else h).
Definition run_h (kind : Z) (ops : list (Z * Z)) : ibuf * hist := fold_left (step_h kind) ops (ib_init, mkh [] []).

Definition NN (b : ibuf) : Prop := Forall (fun x => 0 <= x) (vals (b_items b)).

(* reservation discipline: the flag is set iff the front slot is the (only) reserved slot *)
Definition res_ok (b : ibuf) : Prop :=
  (b_reserved b = true -> exists v tl, b_items b = Some (v, true) :: tl /\ Forall (fun s => forall x, s <> Some (x, true)) tl) /\
  (b_reserved b = false -> Forall (fun s => forall x, s <> Some (x, true)) (b_items b)).

Lemma Forall_set_slot (P : option (Z * bool) -> Prop) l n x : Forall P l -> P x -> Forall P (set_slot l n x).
Proof. revert n; induction l as [|y l IH]; intros [|n] H Hx; cbn; auto; inv H; constructor; auto. Qed.

Lemma res_ok_step kind b op v : res_ok b -> 0 <= v -> res_ok (fst (node_step kind b op v)).
Proof.
  intros HOK Hv. assert (HOK' := HOK). destruct HOK' as [R1 R2]. unfold node_step.
  assert (Hnew : forall x : Z, Some (v, false) <> Some (x, true)) by (intros x H; inv H).
  assert (Hnone : forall x : Z, @None (Z * bool) <> Some (x, true)) by (intros x H; inv H).
  destruct (op =? 1).
  - destruct (kind =? KSequencer).
    + unfold seq_push. destruct (v <? b_hd b); [exact HOK|].
      set (items := if v + 1 - b_hd b >? b_size b then b_items b ++ repeat None (Z.to_nat (v + 1 - b_hd b - b_size b)) else b_items b).
      assert (HF : forall P : option (Z * bool) -> Prop, P None -> Forall P (b_items b) -> Forall P items).
      { intros P PN HF. unfold items. destruct (v + 1 - b_hd b >? b_size b); auto.
        apply Forall_app. split; auto. apply Forall_forall. intros y Hy. apply repeat_spec in Hy. subst. auto. }
      destruct (nth_error items (Z.to_nat (v - b_hd b))) as [[x|]|] eqn:En; cbn [fst].
      * split; cbn [b_reserved b_items]; intros Hr.
        -- destruct (R1 Hr) as (w & tl & E & HT). unfold items. rewrite E.
           destruct (v + 1 - b_hd b >? b_size b); [|eauto]. exists w, (tl ++ repeat None (Z.to_nat (v + 1 - b_hd b - b_size b))).
           split; auto. apply Forall_app. split; auto. apply Forall_forall. intros y Hy. apply repeat_spec in Hy. subst. auto.
        -- apply HF; auto.
      * split; cbn [b_reserved b_items]; intros Hr.
        -- destruct (R1 Hr) as (w & tl & E & HT).
           assert (Ei : exists tl', items = Some (w, true) :: tl' /\ Forall (fun s => forall x, s <> Some (x, true)) tl').
           { unfold items. rewrite E. destruct (v + 1 - b_hd b >? b_size b); [|eauto].
             exists (tl ++ repeat None (Z.to_nat (v + 1 - b_hd b - b_size b))). split; auto.
             apply Forall_app. split; auto. apply Forall_forall. intros y Hy. apply repeat_spec in Hy. subst. auto. }
           destruct Ei as (tl' & Ei & HT'). rewrite Ei in *.
           destruct (Z.to_nat (v - b_hd b)) as [|n] eqn:En'; [cbn in En; discriminate|].
           cbn [set_slot]. exists w, (set_slot tl' n (Some (v, false))). split; auto. apply Forall_set_slot; auto.
        -- apply Forall_set_slot; auto.
      * split; cbn [b_reserved b_items]; intros Hr.
        -- destruct (R1 Hr) as (w & tl & E & HT). unfold items. rewrite E.
           destruct (v + 1 - b_hd b >? b_size b); [|eauto]. exists w, (tl ++ repeat None (Z.to_nat (v + 1 - b_hd b - b_size b))).
           split; auto. apply Forall_app. split; auto. apply Forall_forall. intros y Hy. apply repeat_spec in Hy. subst. auto.
        -- apply HF; auto.
    + cbn [fst]. unfold push_back. split; cbn [b_reserved b_items]; intros Hr.
      * destruct (R1 Hr) as (w & tl & E & HT). rewrite E. exists w, (tl ++ [Some (v, false)]). split; auto.
        apply Forall_app. split; auto.
      * apply Forall_app. split; auto.
  - destruct (op =? 2).
    + destruct (kind =? KBuffer).
      * unfold pop_back. destruct (rev (b_items b)) as [|[[x [|]]|] tl] eqn:Er; cbn [fst]; try exact HOK.
        assert (Ei : b_items b = rev tl ++ [Some (x, false)]) by (rewrite <- (rev_involutive (b_items b)), Er; reflexivity).
        split; cbn [b_reserved b_items]; intros Hr.
        -- destruct (R1 Hr) as (w & tl' & E & HT). rewrite Ei in E.
           destruct (rev tl) as [|y r'] eqn:Ert; [cbn in E; inv E|].
           cbn in E. inv E. exists w, r'. split; auto. apply Forall_app in HT. tauto.
        -- specialize (R2 Hr). rewrite Ei in R2. apply Forall_app in R2. tauto.
      * unfold pop_front. destruct (b_reserved b) eqn:Hr; [exact HOK|].
        destruct (b_items b) as [|[[x r]|] tl] eqn:Ei; cbn [fst]; try exact HOK.
        split; cbn [b_reserved b_items]; intros H; [discriminate|]. specialize (R2 eq_refl). inv R2. auto.
    + destruct (op =? 3).
      * unfold reserve_front. destruct (b_reserved b) eqn:Hr; [exact HOK|].
        destruct (b_items b) as [|[[x r]|] tl] eqn:Ei; cbn [fst]; try exact HOK.
        split; cbn [b_reserved b_items]; intros H; [|discriminate]. specialize (R2 eq_refl). inv R2. eauto.
      * destruct (op =? 4).
        -- unfold release_front. destruct (b_reserved b) eqn:Hr; [|exact HOK].
           destruct (R1 eq_refl) as (w & tl & E & HT). rewrite E. cbn [fst].
           split; cbn [b_reserved b_items]; intros H; [discriminate|]. constructor; auto. intros x Hx. inv Hx.
        -- destruct (op =? 5); [|exact HOK].
           unfold consume_front. destruct (b_reserved b) eqn:Hr; [|exact HOK].
           destruct (R1 eq_refl) as (w & tl & E & HT). rewrite E. cbn [fst].
           split; cbn [b_reserved b_items]; intros H; [discriminate|auto].
Qed.

(* ---------- queue_node: FIFO and conservation ---------- *)
Lemma queue_step b h o : 0 <= snd o -> NN b ->
  h_del h ++ vals (b_items b) = h_acc h ->
  NN (fst (step_h KQueue (b, h) o)) /\
  h_del (snd (step_h KQueue (b, h) o)) ++ vals (b_items (fst (step_h KQueue (b, h) o))) = h_acc (snd (step_h KQueue (b, h) o)).
Proof.
  destruct o as [op v]. cbn [snd]. intros Hv HN Inv. unfold step_h, node_step, NN in *.
  change (KQueue =? KSequencer) with false. change (KQueue =? KBuffer) with false. cbn [fst snd].
  destruct (op =? 1) eqn:E1.
  - cbn. rewrite vals_app. cbn. split; [apply Forall_app; split; auto|]. rewrite app_assoc, Inv. reflexivity.
  - destruct (op =? 2) eqn:E2.
    + unfold pop_front. destruct (b_reserved b); [cbn; auto|].
      destruct (b_items b) as [|[[x r]|] tl] eqn:Ei; cbn; rewrite ?Ei; cbn; auto.
      cbn in HN. inv HN. destruct (x =? -1) eqn:Ex; [lia|]. cbn. split; auto.
      rewrite <- app_assoc. exact Inv.
    + destruct (op =? 3) eqn:E3.
      * assert (H5 : op =? 5 = false) by lia. rewrite H5.
        unfold reserve_front. destruct (b_reserved b); [cbn; auto|].
        destruct (b_items b) as [|[[x r]|] tl] eqn:Ei; cbn; rewrite ?Ei; cbn; auto.
      * destruct (op =? 4) eqn:E4.
        -- assert (H5 : op =? 5 = false) by lia. rewrite H5.
           unfold release_front. destruct (b_reserved b); [|cbn; auto].
           destruct (b_items b) as [|[[x r]|] tl] eqn:Ei; cbn; rewrite ?Ei; cbn; auto.
        -- destruct (op =? 5) eqn:E5; [|cbn; auto].
           unfold consume_front, head_val. destruct (b_reserved b); [|cbn; auto].
           destruct (b_items b) as [|[[x r]|] tl] eqn:Ei; cbn; rewrite ?Ei; cbn; auto.
           cbn in HN. inv HN. split; auto. rewrite <- app_assoc. exact Inv.
Qed.

Lemma run_h_snoc kind ops o : run_h kind (ops ++ [o]) = step_h kind (run_h kind ops) o.
Proof. unfold run_h. rewrite fold_left_app. reflexivity. Qed.

Lemma queue_run ops : Forall (fun o => 0 <= snd o) ops ->
  let '(b, h) := run_h KQueue ops in NN b /\ h_del h ++ vals (b_items b) = h_acc h.
Proof.
  induction ops as [|o ops IH] using rev_ind; intros HF.
  - cbn. split; [constructor|reflexivity].
  - apply Forall_app in HF. destruct HF as [HF Ho]. inv Ho. specialize (IH HF).
    rewrite run_h_snoc. destruct (run_h KQueue ops) as [b h]. destruct IH as [HN Inv].
    destruct (queue_step b h o H1 HN Inv) as [A B]. destruct (step_h KQueue (b, h) o). auto.
Qed.

(* ---------- sequencer_node: exactly 0,1,2,... in order ---------- *)
Definition upto (n : Z) : list Z := map Z.of_nat (seq 0 (Z.to_nat n)).
Lemma upto_succ n : 0 <= n -> upto (n + 1) = upto n ++ [n].
Proof.
  intros H. unfold upto. replace (Z.to_nat (n + 1)) with (S (Z.to_nat n)) by lia.
  rewrite seq_S, map_app. cbn. f_equal. f_equal. lia.
Qed.

Definition SQ (b : ibuf) (h : hist) : Prop :=
  0 <= b_hd b /\
  (forall p v r, nth_error (b_items b) p = Some (Some (v, r)) -> v = b_hd b + Z.of_nat p) /\
  h_del h = upto (b_hd b).

Lemma nth_error_set_slot l n x p : (n < length l)%nat ->
  nth_error (set_slot l n x) p = if Nat.eqb p n then Some x else nth_error l p.
Proof.
  revert n p; induction l as [|y l IH]; intros [|n] [|p] H; cbn in *; try lia; auto.
  apply IH. lia.
Qed.

Lemma seq_step b h o : 0 <= snd o -> SQ b h -> SQ (fst (step_h KSequencer (b, h) o)) (snd (step_h KSequencer (b, h) o)).
Proof.
  destruct o as [op v]. cbn [snd]. intros Hv HSQ. assert (HSQ' := HSQ). destruct HSQ' as (H0 & Hs & Hd). unfold step_h, node_step.
  change (KSequencer =? KSequencer) with true. change (KSequencer =? KBuffer) with false.
  destruct (op =? 1) eqn:E1.
  - unfold seq_push. destruct (v <? b_hd b) eqn:Elt; [cbn; exact HSQ|].
    set (items := if v + 1 - b_hd b >? b_size b then b_items b ++ repeat None (Z.to_nat (v + 1 - b_hd b - b_size b)) else b_items b).
    assert (Hit : forall p w r, nth_error items p = Some (Some (w, r)) -> w = b_hd b + Z.of_nat p).
    { intros p w r. unfold items. destruct (v + 1 - b_hd b >? b_size b); [|apply Hs].
      destruct (lt_dec p (length (b_items b))) as [L|L].
      - rewrite nth_error_app1 by auto. apply Hs.
      - rewrite nth_error_app2 by lia. intros X. apply nth_error_In in X. apply repeat_spec in X. discriminate. }
    destruct (nth_error items (Z.to_nat (v - b_hd b))) as [[x|]|] eqn:En; cbn [fst snd].
    + unfold SQ. cbn. split; [auto|split; [exact Hit|auto]].
    + assert (HL : (Z.to_nat (v - b_hd b) < length items)%nat) by (apply nth_error_Some; congruence).
      unfold SQ. cbn [b_items b_hd h_del h_acc fst snd]. split; [auto|]. split; [|auto].
      intros p w r. rewrite nth_error_set_slot by auto. destruct (Nat.eqb p (Z.to_nat (v - b_hd b))) eqn:Ep.
      * intros X. inv X. apply Nat.eqb_eq in Ep. lia.
      * apply Hit.
    + unfold SQ. cbn. split; [auto|split; [exact Hit|auto]].
  - destruct (op =? 2) eqn:E2.
    + unfold pop_front. destruct (b_reserved b); [cbn; exact HSQ|].
      destruct (b_items b) as [|[[x r]|] tl] eqn:Ei; cbn [fst snd]; try (cbn; exact HSQ).
      assert (x = b_hd b) by (rewrite (Hs 0%nat x r eq_refl); lia). subst x.
      destruct (b_hd b =? -1) eqn:Ex; [lia|]. unfold SQ; cbn. split; [lia|]. split.
      * intros p w r' Hn. rewrite (Hs (S p) w r' Hn). lia.
      * rewrite Hd. symmetry. apply upto_succ. auto.
    + destruct (op =? 3) eqn:E3.
      * assert (H5 : op =? 5 = false) by lia. rewrite H5.
        unfold reserve_front. destruct (b_reserved b); [cbn; exact HSQ|].
        destruct (b_items b) as [|[[x r]|] tl] eqn:Ei; cbn [fst snd]; try (cbn; exact HSQ).
        unfold SQ; cbn. split; [auto|]. split; [|auto]. intros [|p] w r' Hn; cbn in Hn.
        -- inv Hn. apply (Hs 0%nat w r). reflexivity.
        -- apply (Hs (S p) w r'). exact Hn.
      * destruct (op =? 4) eqn:E4.
        -- assert (H5 : op =? 5 = false) by lia. rewrite H5.
           unfold release_front. destruct (b_reserved b); [|cbn; exact HSQ].
           destruct (b_items b) as [|[[x r]|] tl] eqn:Ei; cbn [fst snd]; try (cbn; exact HSQ).
           unfold SQ; cbn. split; [auto|]. split; [|auto]. intros [|p] w r' Hn; cbn in Hn.
           ++ inv Hn. apply (Hs 0%nat w r). reflexivity.
           ++ apply (Hs (S p) w r'). exact Hn.
        -- destruct (op =? 5) eqn:E5; [|cbn; exact HSQ].
           unfold consume_front, head_val. destruct (b_reserved b); [|cbn; exact HSQ].
           destruct (b_items b) as [|[[x r]|] tl] eqn:Ei; cbn [fst snd]; try (cbn; exact HSQ).
           assert (x = b_hd b) by (rewrite (Hs 0%nat x r eq_refl); lia). subst x.
           unfold SQ; cbn. split; [lia|]. split.
           ++ intros p w r' Hn. rewrite (Hs (S p) w r' Hn). lia.
           ++ rewrite Hd. symmetry. apply upto_succ. auto.
Qed.

Lemma seq_run ops : Forall (fun o => 0 <= snd o) ops ->
  let '(b, h) := run_h KSequencer ops in SQ b h.
Proof.
  induction ops as [|o ops IH] using rev_ind; intros HF.
  - cbn. unfold SQ. cbn. split; [lia|]. split; [intros [|p] v r H; discriminate | reflexivity].
  - apply Forall_app in HF. destruct HF as [HF Ho]. inv Ho. specialize (IH HF).
    rewrite run_h_snoc. destruct (run_h KSequencer ops) as [b h].
    assert (X := seq_step b h o H1 IH). destruct (step_h KSequencer (b, h) o). exact X.
Qed.

(* ---------- buffer_node: conservation (as multisets) ---------- *)
Lemma buffer_step b h o : 0 <= snd o -> NN b ->
  Permutation (h_del h ++ vals (b_items b)) (h_acc h) ->
  NN (fst (step_h KBuffer (b, h) o)) /\
  Permutation (h_del (snd (step_h KBuffer (b, h) o)) ++ vals (b_items (fst (step_h KBuffer (b, h) o)))) (h_acc (snd (step_h KBuffer (b, h) o))).
Proof.
  destruct o as [op v]. cbn [snd]. intros Hv HN Inv. unfold step_h, node_step, NN in *.
  change (KBuffer =? KSequencer) with false. change (KBuffer =? KBuffer) with true. cbn [fst snd].
  destruct (op =? 1) eqn:E1.
  - cbn. rewrite vals_app. cbn. split; [apply Forall_app; split; auto|]. rewrite app_assoc. apply Permutation_app_tail. exact Inv.
  - destruct (op =? 2) eqn:E2.
    + unfold pop_back. destruct (rev (b_items b)) as [|[[x [|]]|] tl] eqn:Er; cbn [fst snd]; try (cbn; auto; fail).
      assert (Ei : b_items b = rev tl ++ [Some (x, false)]) by (rewrite <- (rev_involutive (b_items b)), Er; reflexivity).
      rewrite Ei in HN, Inv. rewrite vals_app in HN, Inv. cbn in HN, Inv. apply Forall_app in HN. destruct HN as [HN1 HN2]. inv HN2.
      destruct (x =? -1) eqn:Ex; [lia|]. cbn. split; auto.
      eapply Permutation_trans; [|exact Inv]. rewrite <- !app_assoc. apply Permutation_app_head. apply Permutation_app_comm.
    + destruct (op =? 3) eqn:E3.
      * assert (H5 : op =? 5 = false) by lia. rewrite H5.
        unfold reserve_front. destruct (b_reserved b); [cbn; auto|].
        destruct (b_items b) as [|[[x r]|] tl] eqn:Ei; cbn; rewrite ?Ei; cbn; auto.
      * destruct (op =? 4) eqn:E4.
        -- assert (H5 : op =? 5 = false) by lia. rewrite H5.
           unfold release_front. destruct (b_reserved b); [|cbn; auto].
           destruct (b_items b) as [|[[x r]|] tl] eqn:Ei; cbn; rewrite ?Ei; cbn; auto.
        -- destruct (op =? 5) eqn:E5; [|cbn; auto].
           unfold consume_front, head_val. destruct (b_reserved b); [|cbn; auto].
           destruct (b_items b) as [|[[x r]|] tl] eqn:Ei; cbn; rewrite ?Ei; cbn; auto.
           cbn in HN. inv HN. split; auto. rewrite <- app_assoc. exact Inv.
Qed.

Lemma buffer_run ops : Forall (fun o => 0 <= snd o) ops ->
  let '(b, h) := run_h KBuffer ops in NN b /\ Permutation (h_del h ++ vals (b_items b)) (h_acc h).
Proof.
  induction ops as [|o ops IH] using rev_ind; intros HF.
  - cbn. split; [constructor|constructor].
  - apply Forall_app in HF. destruct HF as [HF Ho]. inv Ho. specialize (IH HF).
    rewrite run_h_snoc. destruct (run_h KBuffer ops) as [b h]. destruct IH as [HN Inv].
    destruct (buffer_step b h o H1 HN Inv) as [A B]. destruct (step_h KBuffer (b, h) o). auto.
Qed.

Lemma res_ok_run kind ops : Forall (fun o => 0 <= snd o) ops -> res_ok (fst (run_h kind ops)).
Proof.
  induction ops as [|o ops IH] using rev_ind; intros HF.
  - cbn. split; [discriminate|constructor].
  - apply Forall_app in HF. destruct HF as [HF Ho]. inv Ho. specialize (IH HF).
    rewrite run_h_snoc. destruct (run_h kind ops) as [b h]. destruct o as [op v]. cbn [fst snd] in *.
    unfold step_h. assert (X := res_ok_step kind b op v IH H1). destruct (node_step kind b op v). exact X.
Qed.
