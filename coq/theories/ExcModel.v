(* C03: executable model of how a task group captures an exception (src/tbb/task_dispatcher.h:340-376, task_dispatcher.cpp:153-181,
   task_group_context.cpp:226-256): a task whose group is already cancelled is cancelled instead of executed; a body that throws
   is caught in the dispatch loop, the catcher tries to be the first to cancel the group (exchange on my_cancellation_requested) and
   only the winner stores its exception into my_exception; the task is then cancelled (its wait reference released); the waiting
   thread leaves when the reference count is 0, rethrows my_exception if set, and the group is reset.
   Threads 0..n-1 are the group's tasks (throwing or not), thread n is the waiter. *)
From OTV Require Import Lib.Tac Lib.Conc.
Local Open Scope Z_scope.

Record eg := mkeg { e_cancel : Z; e_exc : Z; e_refs : Z }.     (* e_exc: 0 = none, t+1 = the exception thrown by task t *)

Inductive epc := TNew | TRunning | TCatch | TStoreExc | TCancelSelf | TDone | WWait | WReset (res : Z) | WDone (res : Z).
Record el := mkel { e_pc : epc; e_throws : bool; e_ran : bool; e_thrown : bool }.

(* events: tid, code, value: 1 body started | 2 skipped (cancelled before start) | 3 body finished | 4 body threw |
   5 catcher won(1)/lost(0) | 6 exception stored | 7 task released | 8 wait returned with exception id (0 = none) | 9 reset | 0 blocked *)
Definition eev (tid : nat) (code v : Z) : list Z := [Z.of_nat tid; code; v].

Definition estep (tid : nat) (g : eg) (l : el) : option (eg * el * list Z) :=
  let upd p := mkel p (e_throws l) (e_ran l) (e_thrown l) in
  match e_pc l with
  | TNew => if e_cancel g =? 0 then Some (g, mkel TRunning (e_throws l) true (e_thrown l), eev tid 1 0)
            else Some (mkeg (e_cancel g) (e_exc g) (e_refs g - 1), upd TDone, eev tid 2 0)
  | TRunning => if e_throws l then Some (g, mkel TCatch (e_throws l) (e_ran l) true, eev tid 4 0)
                else Some (mkeg (e_cancel g) (e_exc g) (e_refs g - 1), upd TDone, eev tid 3 0)
  | TCatch => if e_cancel g =? 0 then Some (mkeg 1 (e_exc g) (e_refs g), upd TStoreExc, eev tid 5 1)
              else Some (g, upd TCancelSelf, eev tid 5 0)
  | TStoreExc => Some (mkeg (e_cancel g) (Z.of_nat tid + 1) (e_refs g), upd TCancelSelf, eev tid 6 (Z.of_nat tid + 1))
  | TCancelSelf => Some (mkeg (e_cancel g) (e_exc g) (e_refs g - 1), upd TDone, eev tid 7 0)
  | TDone => None
  | WWait => if e_refs g =? 0 then Some (g, upd (WReset (e_exc g)), eev tid 8 (e_exc g)) else Some (g, l, eev tid 0 0)
  | WReset r => Some (mkeg 0 0 (e_refs g), upd (WDone r), eev tid 9 0)
  | WDone _ => None
  end.

Definition einit (throws : list bool) : eg * list el :=
  (mkeg 0 0 (Z.of_nat (length throws)), map (fun b => mkel TNew b false false) throws ++ [mkel WWait false false false]).

(* flat interface: ntasks, throws flags, -1, schedule; output: events, then -7 and the waiter's result (-1 if it has not returned) *)
Definition run_exc (inp : list Z) : list Z :=
  match inp with
  | n :: tl =>
      let throws := map (fun x => x =? 1) (firstn (Z.to_nat n) tl) in
      let sched := map Z.to_nat (match skipn (Z.to_nat n) tl with _ :: s => s | [] => [] end) in
      let '(c1, evs1) := run estep (einit throws) sched in
      let '(c2, evs2, ok) := finish estep 400 c1 4000 in
      evs1 ++ evs2 ++ [-7; match nth_error (snd c2) (Z.to_nat n) with
                            | Some l => match e_pc l with WDone r => r | WReset r => r | _ => -1 end
                            | None => -1 end]
  | _ => []
  end.
