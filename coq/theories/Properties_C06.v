(* C06 — parallel_reduce / parallel_deterministic_reduce.  Property theorems only; proofs live in ReduceProofs.v. *)
From OTV Require Import Lib.Tac ReduceModel ReduceProofs.
Local Open Scope Z_scope.

(* parallel_reduce: for EVERY sequence of atomic actions of the task tree (tasks starting with or without a split
   body depending on the join node's reference count, bodies run on sub-ranges, work given away at any point,
   tasks finishing, nodes folding) the caller's body followed by everything still pending, read left to right over
   the tree, is exactly lo, lo+1, ..., hi-1: operands are never reordered, none is lost, none contributes twice. *)
Theorem reduce_operands_in_order : forall lo hi ops bad t b,
  lo <= hi -> rrun ops (Fresh lo hi) [] 0 = (bad, t, b) -> WF t /\ b ++ pend t = zseq lo hi.
Proof.
  intros lo hi ops bad t b H Hr.
  destruct (rrun_inv ops (Fresh lo hi) [] 0 bad t b H Hr) as (W & Hp). split; auto.
Qed.
Print Assumptions reduce_operands_in_order.

(* ... so when the tree has been folded completely the body holds the range in order *)
Theorem reduce_result_is_sequential_fold : forall lo hi ops bad b,
  lo <= hi -> rrun ops (Fresh lo hi) [] 0 = (bad, Done, b) -> b = zseq lo hi.
Proof.
  intros lo hi ops bad b H Hr. destruct (reduce_operands_in_order _ _ _ _ _ _ H Hr) as (_ & Hp).
  cbn [pend] in Hp. rewrite app_nil_r in Hp. exact Hp.
Qed.
Print Assumptions reduce_result_is_sequential_fold.

(* for every Body whose join is associative with an identity (no commutativity needed) the value is the left fold *)
Theorem reduce_any_associative_join : forall (M : Type) (op : M -> M -> M) (e : M) (f : Z -> M),
  (forall a b c, op a (op b c) = op (op a b) c) -> (forall a, op e a = a) -> (forall a, op a e = a) ->
  forall l1 l2, interp M op e f (l1 ++ l2) = op (interp M op e f l1) (interp M op e f l2).
Proof. intros. apply interp_app; auto. Qed.
Print Assumptions reduce_any_associative_join.

(* a right body is joined only by the node it lives in, into that node's left body, when both subtrees have finished;
   a right child feeds the left body only when the whole left subtree has finished *)
Theorem reduce_join_partner : forall lo hi ops bad t b,
  lo <= hi -> rrun ops (Fresh lo hi) [] 0 = (bad, t, b) ->
  forall mid rc l r z, t = Nd mid rc l r z ->
    rc = nd l + nd r /\ (z = None -> is_fresh r = true \/ l = Done) /\
    (forall t' b' f, apply (OFold mid) t b = Ok t' b' f -> l = Done /\ r = Done /\ b' = b ++ zc z).
Proof.
  intros lo hi ops bad t b H Hr mid rc l r z Et.
  destruct (reduce_operands_in_order _ _ _ _ _ _ H Hr) as (W & _). subst t.
  destruct W as (Wl & Wr & Hrc & Hz & Hfz). repeat split; auto.
  - cbn [apply] in H0. destruct (starts (OFold mid) r) eqn:Es; [destruct r; discriminate|].
    rewrite Z.eqb_refl in H0. destruct (rc =? 0) eqn:E0; [|discriminate].
    destruct l, r; cbn [nd] in Hrc; try lia; reflexivity.
  - cbn [apply] in H0. destruct (starts (OFold mid) r) eqn:Es; [destruct r; discriminate|].
    rewrite Z.eqb_refl in H0. destruct (rc =? 0) eqn:E0; [|discriminate].
    destruct l, r; cbn [nd] in Hrc; try lia; reflexivity.
  - cbn [apply] in H0. destruct (starts (OFold mid) r) eqn:Es; [destruct r; discriminate|].
    rewrite Z.eqb_refl in H0. destruct (rc =? 0) eqn:E0; [|discriminate]. inv H0.
    destruct z; cbn [zc]; rewrite ?app_nil_r; reflexivity.
Qed.
Print Assumptions reduce_join_partner.

(* parallel_deterministic_reduce (simple_partitioner): the split/join tree is the function dsplit of (range, grain)
   alone; its leaves, left to right, are the range in order, and every leaf is at most the grain size long *)
Theorem det_reduce_tree_covers_in_order : forall lo hi g,
  lo <= hi -> dleaves (dsplit (dfuel lo hi) lo hi g) = zseq lo hi.
Proof. intros. apply dsplit_leaves; auto. Qed.
Print Assumptions det_reduce_tree_covers_in_order.

Theorem det_reduce_leaves_within_grain : forall lo hi g,
  1 <= g -> dall (fun a b => b - a <= g) (dsplit (dfuel lo hi) lo hi g).
Proof. intros. apply dsplit_small; auto. apply dfuel_enough. Qed.
Print Assumptions det_reduce_leaves_within_grain.

(* non-vacuity: a run with a stolen right half (zombie body), a nested split whose right child starts after its
   left sibling finished (shared body), folded completely *)
Example reduce_run_example :
  rrun [OStartS 0; OProc 0 2; OSplit 2 6; OStartZ 6; OProc 6 7; OSplit 2 4; OProc 2 4; OFin 4; OStartS 4;
        OProc 4 6; OProc 7 10; OFin 6; OFold 4; OFin 10; OFold 6] (Fresh 0 10) [] 0 = (-1, Done, zseq 0 10).
Proof. vm_compute. reflexivity. Qed.
