(* C15: limiter_node never has more than its threshold of forwarded messages that were not decremented. *)
From OTV Require Import Lib.Tac LimModel.
Local Open Scope Z_scope.

Definition LInv (n : lim) : Prop :=
  0 <= l_count n /\ 0 <= l_tries n /\ 0 <= l_fdec n /\ l_count n + l_tries n <= l_th n /\
  l_fwd n - l_req n <= l_count n - l_fdec n.

Lemma settle_spec c f : 0 <= c -> 0 <= f ->
  let '(c', f') := settle_fdec c f in 0 <= c' /\ 0 <= f' /\ c' <= c /\ c' - f' = c - f.
Proof.
  intros Hc Hf. unfold settle_fdec. destruct (Z.ltb_spec 0 f); [|lia]. destruct (Z.ltb_spec f c); lia.
Qed.

Lemma lstep_inv n op d : 0 <= l_th n -> LInv n -> LInv (fst (lstep n op d)) /\ l_th (fst (lstep n op d)) = l_th n.
Proof.
  intros Ht (H1 & H2 & H3 & H4 & H5). unfold lstep.
  destruct (op =? 1).
  - destruct (Z.leb_spec (l_th n) (l_count n + l_tries n)); cbn; unfold LInv; cbn; repeat split; auto; lia.
  - destruct (op =? 2).
    + destruct (Z.ltb_spec 0 (l_tries n)); [|cbn; unfold LInv; repeat split; auto].
      assert (S := settle_spec (l_count n + 1) (l_fdec n) ltac:(lia) H3).
      destruct (settle_fdec (l_count n + 1) (l_fdec n)) as [c f]. destruct S as (S1 & S2 & S3 & S4).
      cbn. unfold LInv; cbn. repeat split; auto; lia.
    + destruct (op =? 3).
      * destruct (Z.ltb_spec 0 (l_tries n)); cbn; unfold LInv; cbn; repeat split; auto; lia.
      * destruct (op =? 4); [|cbn; unfold LInv; repeat split; auto].
        destruct (Z.ltb_spec 0 d); [|cbn; unfold LInv; repeat split; auto].
        destruct (Z.ltb_spec (l_count n) (Z.min d (l_th n))).
        -- destruct (Z.ltb_spec 0 (l_tries n)); cbn; unfold LInv; cbn; repeat split; auto; lia.
        -- cbn; unfold LInv; cbn. repeat split; auto; lia.
Qed.

Lemma lrun_inv ops : forall n, 0 <= l_th n -> LInv n -> LInv (lrun n ops) /\ l_th (lrun n ops) = l_th n.
Proof.
  induction ops as [|[op d] tl IH]; intros n Ht HI; cbn [lrun]; [auto|].
  destruct (lstep_inv n op d Ht HI) as [A B]. destruct (IH (fst (lstep n op d)) ltac:(lia) A) as [C D]. split; auto. congruence.
Qed.
