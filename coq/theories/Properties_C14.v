(* C14 — flow graph node input stage.  Property theorems only; proofs live in FnProofs.v. *)
From OTV Require Import Lib.Tac FnModel FnProofs.
Local Open Scope Z_scope.

(* For every concurrency limit, both buffering policies and every sequence of try_put / body completion / forwarder
   runs: never more than the limit bodies are running (serial: never two); the messages whose body was started,
   followed by the queued ones, are exactly the accepted messages in order — so each accepted message is started
   exactly once, in arrival order, none is dropped or duplicated; a message waits in the queue only while the node
   is saturated, so when no body is running the queue is empty (every accepted message has been processed);
   a rejecting node never queues. *)
Theorem function_node_limit_and_conservation : forall maxc queueing ops,
  0 <= maxc ->
  let n := fst (fn_run (fn_init maxc queueing) ops) in
  0 <= f_conc n <= maxc /\
  f_started n ++ f_queue n = f_accepted n /\
  (f_conc n = 0 -> 0 < maxc -> f_queue n = []) /\
  (queueing = false -> f_queue n = []).
Proof.
  intros maxc queueing ops Hm n.
  assert (HI0 : FInv (fn_init maxc queueing)).
  { unfold FInv, fn_init; cbn. repeat split; auto; try lia. congruence. }
  destruct (fn_run_inv ops (fn_init maxc queueing) Hm HI0) as ((Hc & Ha & Hq & Hr) & Hmax).
  fold n in Hc, Ha, Hq, Hr, Hmax. cbn in Hmax. rewrite Hmax in *.
  repeat split; auto; try lia.
  - intros H0 Hp. destruct (f_queue n) eqn:E; auto. exfalso. assert (f_conc n = maxc) by (apply Hq; congruence). lia.
  - intros Hf. apply Hr.
    assert (forall ops n0, f_queueing (fst (fn_run n0 ops)) = f_queueing n0).
    { clear. induction ops as [|[op v] tl IH]; intros n0; cbn [fn_run]; auto.
      assert (X : f_queueing (fst (fn_step n0 op v)) = f_queueing n0).
      { unfold fn_step. destruct (op =? 1); [destruct (f_conc n0 <? f_max n0); [reflexivity|destruct (f_queueing n0) eqn:E; cbn; auto]|].
        destruct (op =? 2); [destruct (0 <? f_conc n0); [|reflexivity]; cbn [f_conc f_max]; destruct (f_conc n0 - 1 <? f_max n0); [|reflexivity]; unfold perform_queued; cbn [f_queue]; destruct (f_queue n0); reflexivity|].
        destruct (op =? 3); [|reflexivity]. destruct (f_conc n0 <? f_max n0); [|reflexivity]. unfold perform_queued. destruct (f_queue n0); reflexivity. }
      destruct (fn_step n0 op v) as [n1 r]. specialize (IH n1). destruct (fn_run n1 tl). cbn [fst] in *. congruence. }
    unfold n. rewrite H. exact Hf.
Qed.
Print Assumptions function_node_limit_and_conservation.

Example fnode_example :
  run_fnode [2; 1;  1;10; 1;11; 1;12; 1;13; 2;0; 2;0; 2;0; 2;0] =
  [1;1; 1;2; 1;2; 1;2; 0;3; 0;4; 0;4; 0;4; -7; 0; 0; 10; 11; 12; 13].
Proof. vm_compute. reflexivity. Qed.

(* ---- a limited REJECTING node fed by a buffering sender: the push/pull edge protocol (PullModel) ----
   For every concurrency limit >= 1 and every sequence of operations — puts into the sender, bodies finishing, the sender's
   register_predecessor arriving (at ANY later moment, in particular after the last running body has finished), forwarder steps:
   the limit holds; the messages started followed by the messages still in the sender are exactly the messages put, in order
   (each started at most once, none dropped, FIFO); forwarder_busy is set exactly while a forwarder task exists; and a message waits in
   the sender only while somebody is still bound to act on it: the sender's registration is under way, a body is running (it pulls when
   it finishes) or a forwarder task exists.  Hence when the graph is idle (nothing of the three) every message put has been started:
   wait_for_all means idle. *)
From OTV Require Import PullModel PullProofs.
Theorem rejected_message_is_not_stranded : forall maxc ops, 1 <= maxc ->
  let n := prun (pinit maxc) ops in
  0 <= p_conc n <= maxc /\
  p_started n ++ p_items n = p_put n /\
  p_busy n = p_fwd n /\
  (p_items n <> [] -> p_rej n = true \/ 0 < p_conc n \/ p_fwd n = true) /\
  (p_rej n = false -> p_conc n = 0 -> p_fwd n = false -> p_items n = [] /\ p_started n = p_put n).
Proof.
  intros maxc ops Hm n.
  assert (HI : PInv n) by (apply prun_inv; apply pinit_inv; auto).
  destruct HI as (H1 & H2 & H3 & H4 & H5 & H6 & H7).
  assert (Hmax' : p_max n = maxc).
  { unfold n. generalize (pinit maxc) (eq_refl : p_max (pinit maxc) = maxc). clear. induction ops as [|[op v] tl IH]; intros n0 E; cbn; auto.
    apply IH. rewrite pstep_max. auto. }
  rewrite Hmax' in *.
  split; [lia|]. split; [auto|]. split; [auto|]. split.
  - intros Hne. destruct (H4 Hne) as [X|X]; [left; exact X|]. destruct (H5 X) as [Y|Y]; [right; left; exact Y|right; right; exact Y].
  - intros Hr Hc Hf. assert (E : p_items n = []).
    { destruct (p_items n) eqn:Ei; auto. exfalso. destruct (H4 ltac:(congruence)) as [X|X]; [congruence|]. destruct (H5 X); [lia|congruence]. }
    split; auto. rewrite E, app_nil_r in H7. auto.
Qed.
Print Assumptions rejected_message_is_not_stranded.

Example pull_example : run_pull [1; 1;10; 1;11; 1;12; 2;0; 2;0; 2;0] = [1;0;0;0;1; 1;1;1;0;1; 1;2;1;0;1; 1;1;1;0;2; 1;0;1;0;3; 0;0;0;0;3; -7; 10;11;12].
Proof. vm_compute. reflexivity. Qed.
