(* C10: executable sequential model of tbb::concurrent_hash_map's table (include/oneapi/tbb/concurrent_hash_map.h):
   power-of-two bucket array addressed by hash & mask, growth by enable_segment (new buckets carry rehash_req_flag),
   lazy recursive rehashing in bucket_accessor::acquire / rehash_bucket, insert / erase / find.
   Keys are non-negative integers and hash(k) = k (the harness instantiates the container with that HashCompare).
   Bucket contents: None = rehash_req_flag, Some chain = the node list, head first. *)
From OTV Require Import Lib.Tac Lib.Conc Params.
Local Open Scope Z_scope.

Record hm := mkhm { h_bits : Z; h_buckets : list (option (list (Z * Z))); h_size : Z }.

Definition h_mask (s : hm) : Z := 2 ^ h_bits s - 1.

(* number of significant bits of a bucket index: buckets 0 and 1 are the embedded, never-rehashed ones *)
Definition lvl (j : Z) : Z := if j <? 2 then 1 else Z.log2 j + 1.
(* the bucket a new bucket is split from: clear the topmost bit (rehash_bucket: hash & ((1 << log2 hash) - 1)) *)
Definition parent (j : Z) : Z := j mod 2 ^ Z.log2 j.

Definition getb (s : hm) (j : Z) : option (option (list (Z * Z))) := nth_error (h_buckets s) (Z.to_nat j).
Definition setb (s : hm) (j : Z) (c : option (list (Z * Z))) : hm :=
  mkhm (h_bits s) (set_nth (h_buckets s) (Z.to_nat j) c) (h_size s).

(* bucket_accessor::acquire + rehash_bucket, recursive through the parents *)
Fixpoint acquire (fuel : nat) (s : hm) (j : Z) : hm :=
  match fuel with
  | O => s
  | S f =>
      match getb s j with
      | Some None =>
          let p := parent j in
          let s1 := acquire f s p in
          match getb s1 p with
          | Some (Some pc) =>
              let mv := filter (fun kv => fst kv mod 2 ^ lvl j =? j) pc in
              let keep := filter (fun kv => negb (fst kv mod 2 ^ lvl j =? j)) pc in
              setb (setb s1 p (Some keep)) j (Some (rev mv))      (* each moved node is pushed at the head of the new chain *)
          | _ => s1     (* unreachable: the parent has just been acquired *)
          end
      | _ => s
      end
  end.

Definition fuel_of (s : hm) : nat := Z.to_nat (h_bits s) + 1.

Fixpoint lookup (k : Z) (c : list (Z * Z)) : option Z :=
  match c with
  | [] => None
  | (k', v) :: tl => if k' =? k then Some v else lookup k tl
  end.
Definition remove (k : Z) (c : list (Z * Z)) : list (Z * Z) := filter (fun kv => negb (fst kv =? k)) c.

(* enable_segment: the first growth allocates the whole first block *)
Definition grow (s : hm) : hm :=
  let nb := if h_bits s <? hm_first_block then hm_first_block else h_bits s + 1 in
  mkhm nb (h_buckets s ++ repeat None (Z.to_nat (2 ^ nb - 2 ^ h_bits s))) (h_size s).

Definition chain_of (s : hm) (j : Z) : list (Z * Z) :=
  match getb s j with Some (Some c) => c | _ => [] end.

(* op results: insert -> 1 inserted / 0 present; erase -> 1/0; find -> value or -1 *)
Definition h_insert (s : hm) (k v : Z) : hm * Z :=
  let j := k mod 2 ^ h_bits s in
  let s1 := acquire (fuel_of s) s j in
  let c := chain_of s1 j in
  match lookup k c with
  | Some _ => (s1, 0)
  | None =>
      let s2 := setb s1 j (Some ((k, v) :: c)) in
      let s3 := mkhm (h_bits s2) (h_buckets s2) (h_size s2 + 1) in
      (if h_size s3 >=? h_mask s then grow s3 else s3, 1)
  end.

Definition h_erase (s : hm) (k : Z) : hm * Z :=
  let j := k mod 2 ^ h_bits s in
  let s1 := acquire (fuel_of s) s j in
  let c := chain_of s1 j in
  match lookup k c with
  | None => (s1, 0)
  | Some _ =>
      let s2 := setb s1 j (Some (remove k c)) in
      (mkhm (h_bits s2) (h_buckets s2) (h_size s2 - 1), 1)
  end.

Definition h_find (s : hm) (k : Z) : hm * Z :=
  let j := k mod 2 ^ h_bits s in
  let s1 := acquire (fuel_of s) s j in
  (s1, match lookup k (chain_of s1 j) with Some v => v | None => -1 end).

Definition h_init : hm := mkhm hm_embedded_block (repeat (Some []) (Z.to_nat hm_embedded_buckets)) 0.

Inductive hop := HIns (k v : Z) | HErase (k : Z) | HFind (k : Z).
Definition h_step (s : hm) (o : hop) : hm * Z :=
  match o with
  | HIns k v => h_insert s k v
  | HErase k => h_erase s k
  | HFind k => h_find s k
  end.

(* ---- flat interface: ops (1 k v | 2 k 0 | 3 k 0 | 9 0 0 = dump)*; output: one result per op; a dump prints
   bits, size, then per bucket: -1 (needs rehash) or n followed by the n keys head first ---- *)
Definition dump (s : hm) : list Z :=
  h_bits s :: h_size s ::
  flat_map (fun b => match b with None => [-1] | Some c => Z.of_nat (length c) :: map fst c end) (h_buckets s).

Fixpoint run_hash_go (fuel : nat) (l : list Z) (s : hm) : list Z :=
  match fuel with
  | O => []
  | S f =>
    match l with
    | c :: k :: v :: tl =>
        if c =? 9 then dump s ++ run_hash_go f tl s
        else let '(s', r) := h_step s (if c =? 1 then HIns k v else if c =? 2 then HErase k else HFind k) in
             r :: run_hash_go f tl s'
    | _ => []
    end
  end.
Definition run_hash (l : list Z) : list Z := run_hash_go (length l) l h_init.
