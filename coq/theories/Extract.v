(* Extraction of the executable models to OCaml.  ExtrOcamlBasic only: bool, option, list, prod,
   unit, sumbool map to OCaml natives; nat/positive/N/Z stay the extracted inductives. *)
From Coq Require Import Extraction ExtrOcamlBasic.
From OTV Require Import Lib.Tac Params VecModel CpqModel RwModel ForModel AllotModel MallocModel PipeModel QueueModel BqModel ReduceModel HashModel SolModel BufModel LimModel FnModel PullModel MonModel Mon1Model DequeModel ExcModel SuspendModel OnceModel OnceConf EtsModel SkipModel JoinModel JoinRModel RvecModel.
Extraction Language OCaml.
Extraction "model.ml"
  Z.add Z.mul Z.sub Z.div_eucl Z.compare Z.of_nat
  run_vec run_vec_intcast run_segidx
  run_cpq run_rw run_simple run_strided run_allot run_msizes run_mseq run_llo run_guards run_car run_pipebuf run_cpqf run_qidx run_bq run_reduce run_dreduce run_hash run_sol run_buf run_lim run_fnode run_pull run_mon run_mon1 run_deque run_exc run_suspend run_suspconf run_once run_onceconf run_ets run_etsseq run_skip run_join run_joinr run_rvec.
