From OTV Require Import Lib.Tac Lib.Conc CtxModel.
Local Open Scope Z_scope.

(* scenario of DESIGN.md 8(a): ctx0 root (isolated), ctx1 bound under ctx0 in thread list 0, ctx2 to be bound under
   ctx1 by thread 1 (list 1) while thread 0 cancels ctx0. *)
Definition sc_infos : list ctxinfo := [mkci (-1) 0; mkci 0 0; mkci 1 1].
Definition sc_pre : list Z := [0; 1].
Definition sc_progs : list (list Z) := [[0; 0]; [1; 2]].

(* the interleaving: the propagator bumps the epoch and scans list 1 (the binder's, still empty) first ... wait:
   lists are scanned in order 0,1; the failing order needs the binder's list scanned before the parent's list,
   so the binder owns list 0 and the parent lives in list 1 *)
Definition bad_infos : list ctxinfo := [mkci (-1) 1; mkci 0 1; mkci 1 0].

Definition bad_sched : list nat :=
  (* T0 = canceller of ctx0, T1 = binder of ctx2 under ctx1 *)
  [0; 0; 0; 0; 0; 0; 0;        (* T0: fetch op, exchange, may_have_children, lock TL, recheck, bump epoch, scan list 0 (empty) *)
   1; 1; 1; 1; 1; 1; 1; 1; 1; 1; 1]%nat. (* T1: whole binding incl. the fall-back under the other mutex: copies 0 *)

Lemma two_mutex_protocol_refuted_proof :
  run_ctx false false bad_infos [0; 1] [[0; 0]; [1; 2]] bad_sched = (true, false, true).
Proof. vm_compute. reflexivity. Qed.

Lemma same_mutex_protocol_same_schedule :
  run_ctx true true bad_infos [0; 1] [[0; 0]; [1; 2]] bad_sched = (true, true, true).
Proof. vm_compute. reflexivity. Qed.

(* bounded exhaustive exploration (a finite theorem about these configurations, NOT the general claim):
   every interleaving prefix of length 14 over 2 threads (16384 schedules, completed round-robin) of the repaired
   protocol satisfies the property, for both list orders *)
Definition explore (same raise : bool) (infos : list ctxinfo) (pre : list Z) (progs : list (list Z)) (n len : nat) : bool :=
  forallb (fun s => let '(q, r, ns) := run_ctx same raise infos pre progs s in q && r && ns) (all_scheds n len).

Lemma same_mutex_all_schedules_small :
  explore true true bad_infos [0; 1] [[0; 0]; [1; 2]] 2 14 = true /\
  explore true true sc_infos [0; 1] [[0; 0]; [1; 2]] 2 14 = true.
Proof. split; vm_compute; reflexivity. Qed.

(* a three-level tree with two binders and two cancellers at different levels, list orders mixed *)
Definition tree4 : list ctxinfo := [mkci (-1) 0; mkci 0 1; mkci 1 0; mkci 1 2].
Lemma same_mutex_all_schedules_tree4 :
  explore true true tree4 [0; 1] [[0; 0]; [1; 2]; [1; 3]] 3 9 = true.
Proof. vm_compute. reflexivity. Qed.


(* second defect: a context bound beneath a parent that has no parent (isolated / root context) registers itself and then copies the parent's flag
   with a load followed by a store; a cancellation of the parent that propagates between the two is overwritten *)
Definition root_infos : list ctxinfo := [mkci (-1) 0; mkci 0 1].
Definition root_bad_sched : list nat :=
  [0; 0; 0; 0;                                   (* T0 = binder of ctx1 beneath the root ctx0: fetch op, may_have_children, register, LOAD the parent's flag (0) *)
   1; 1; 1; 1; 1; 1; 1; 1; 1; 1; 1; 1; 1; 1;     (* T1 = cancel(ctx0): exchange, propagation marks ctx1, unlock *)
   0; 0; 0]%nat.                                 (* T0: STORE 0 *)
Lemma root_copy_refuted_proof : run_ctx true false root_infos [0] [[1; 1]; [0; 0]] root_bad_sched = (true, false, true).
Proof. vm_compute. reflexivity. Qed.
Lemma root_copy_raise_only_same_schedule : run_ctx true true root_infos [0] [[1; 1]; [0; 0]] root_bad_sched = (true, true, true).
Proof. vm_compute. reflexivity. Qed.
