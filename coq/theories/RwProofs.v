(* C08: mutual exclusion of spin_rw_mutex for any number of threads, any scripts, any interleaving. *)
From OTV Require Import Lib.Tac Lib.Conc Params RwModel.
Local Open Scope Z_scope.

Lemma rw_layout : (rw_WRITER, rw_WRITER_PENDING, rw_ONE_READER) = (1, 2, 4).
Proof. reflexivity. Qed.

(* roles of a thread, read off its program point *)
Definition ownsW (l : loc) : bool :=
  match at_pc l with Idle => held l =? 2 | UnlockAnd | DgAdd | UpSpin | UpFin => true | _ => false end.
Definition rdr (l : loc) : bool :=
  match at_pc l with Idle => held l =? 1 | UsSub | UpLoad | UpCas _ | UpSlowSub | UpSpin | UpFin => true | _ => false end.
Definition trans (l : loc) : bool := match at_pc l with LsUndo | TlsUndo => true | _ => false end.
Definition contrib (l : loc) : bool := rdr l || trans l.
Definition excl (l : loc) : bool :=
  match at_pc l with Idle => held l =? 2 | UnlockAnd | DgAdd | UpFin => true | _ => false end.
Definition atfin (l : loc) : bool := match at_pc l with UpFin => true | _ => false end.
Definition upwait (l : loc) : bool := match at_pc l with UpSpin | UpFin => true | _ => false end.

Definition lock_ctx (l : loc) : Prop :=
  (cur_op l = 1 /\ in_upg l = false /\ held l = 0) \/ (cur_op l = 7 /\ in_upg l = true /\ held l = 1).

Definition wf_loc (l : loc) : Prop :=
  (held l = 0 \/ held l = 1 \/ held l = 2) /\
  match at_pc l with
  | Idle => script l = skip_inapplicable (held l) (script l) /\ in_upg l = false
  | LockLoad | LockPend => lock_ctx l
  | LockCas s => lock_ctx l /\ busy s = false
  | TryLoad => cur_op l = 2 /\ held l = 0
  | TryCas s => cur_op l = 2 /\ held l = 0 /\ busy s = false
  | UnlockAnd => cur_op l = 3 /\ held l = 2
  | LsLoad | LsAdd | LsUndo => cur_op l = 4 /\ held l = 0
  | TlsLoad | TlsAdd | TlsUndo => cur_op l = 5 /\ held l = 0
  | UsSub => cur_op l = 6 /\ held l = 1
  | UpLoad | UpSpin | UpFin | UpSlowSub => cur_op l = 7 /\ held l = 1
  | UpCas s => cur_op l = 7 /\ held l = 1 /\ up_cond s = true
  | DgAdd => cur_op l = 8 /\ held l = 2
  end.

Definition Inv (c : Z * list loc) : Prop :=
  let w := fst c in let ls := snd c in
  Forall wf_loc ls /\
  exists p, (p = 0 \/ p = 1) /\
    w = Z.of_nat (count ownsW ls) + 2 * p + 4 * Z.of_nat (count contrib ls) /\
    (count ownsW ls <= 1)%nat /\
    ((1 <= count excl ls)%nat -> count rdr ls = count atfin ls) /\
    ((1 <= count upwait ls)%nat -> p = 1).

Lemma Forall_set_nth {A} (P : A -> Prop) ls i l : Forall P ls -> P l -> Forall P (set_nth ls i l).
Proof.
  revert i; induction ls as [|x ls IH]; intros [|i] H Hl; cbn; auto; inv H; constructor; auto.
Qed.

Lemma Forall_nth_error {A} (P : A -> Prop) ls i l : Forall P ls -> nth_error ls i = Some l -> P l.
Proof. intros H Hn. rewrite Forall_forall in H. apply H. eapply nth_error_In; eauto. Qed.

Lemma skip_idem h sc : skip_inapplicable h (skip_inapplicable h sc) = skip_inapplicable h sc.
Proof.
  induction sc as [|o tl IH]; cbn; auto.
  destruct (applicable h o) eqn:E; auto. cbn. rewrite E. auto.
Qed.

Lemma skip_head h sc o tl : skip_inapplicable h sc = o :: tl -> applicable h o = true.
Proof.
  induction sc as [|x xs IH]; cbn; [discriminate|].
  destruct (applicable h x) eqn:E; auto. intros H. inv H. auto.
Qed.

Lemma count_le {A} (P Q : A -> bool) ls : (forall x, P x = true -> Q x = true) -> (count P ls <= count Q ls)%nat.
Proof.
  intros H. unfold count. induction ls as [|x ls IH]; cbn; auto.
  destruct (P x) eqn:E.
  - rewrite (H _ E). cbn. lia.
  - destruct (Q x); cbn; lia.
Qed.

Lemma count_lt {A} (P Q : A -> bool) ls i l :
  (forall x, P x = true -> Q x = true) -> nth_error ls i = Some l ->
  (count P ls + (if Q l && negb (P l) then 1 else 0) <= count Q ls)%nat.
Proof.
  intros H. unfold count. revert i; induction ls as [|x ls IH]; intros [|i] Hn; cbn in *; try discriminate.
  - inv Hn. pose proof (count_le P Q ls H) as Hle. unfold count in Hle.
    destruct (P l) eqn:E.
    + rewrite (H _ E). cbn. lia.
    + destruct (Q l); cbn; lia.
  - specialize (IH _ Hn). destruct (P x) eqn:E.
    + rewrite (H _ E). cbn. lia.
    + destruct (Q x); cbn; lia.
Qed.

Lemma sub_atfin_owns l : atfin l = true -> ownsW l = true.
Proof. unfold atfin, ownsW. destruct (at_pc l); congruence. Qed.
Lemma sub_upwait_owns l : upwait l = true -> ownsW l = true.
Proof. unfold upwait, ownsW. destruct (at_pc l); congruence. Qed.
Lemma sub_excl_owns l : excl l = true -> ownsW l = true.
Proof. unfold excl, ownsW. destruct (at_pc l); congruence. Qed.
Lemma sub_atfin_rdr l : atfin l = true -> rdr l = true.
Proof. unfold atfin, rdr. destruct (at_pc l); congruence. Qed.
Lemma sub_upwait_rdr l : upwait l = true -> rdr l = true.
Proof. unfold upwait, rdr. destruct (at_pc l); congruence. Qed.
Lemma sub_rdr_contrib l : rdr l = true -> contrib l = true.
Proof. unfold contrib. intros ->. reflexivity. Qed.
Lemma sub_atfin_excl l : atfin l = true -> excl l = true.
Proof. unfold atfin, excl. destruct (at_pc l); congruence. Qed.
Lemma sub_atfin_upwait l : atfin l = true -> upwait l = true.
Proof. unfold atfin, upwait. destruct (at_pc l); congruence. Qed.

Lemma owns_le_excl_upwait ls : (count ownsW ls <= count excl ls + count upwait ls)%nat.
Proof.
  unfold count. induction ls as [|l ls IH]; cbn; auto.
  assert (ownsW l = true -> excl l = true \/ upwait l = true).
  { unfold ownsW, excl, upwait. destruct (at_pc l); auto; congruence. }
  destruct (ownsW l); cbn; [|destruct (excl l), (upwait l); cbn; lia].
  destruct H as [-> | ->]; auto; cbn; destruct (excl l), (upwait l); cbn; lia.
Qed.

(* the per-predicate accounting of replacing thread i's local state *)
Ltac account ls i l l' Hn :=
  pose proof (count_set_nth ownsW ls i l' l Hn) as HcO;
  pose proof (count_set_nth contrib ls i l' l Hn) as HcC;
  pose proof (count_set_nth excl ls i l' l Hn) as HcE;
  pose proof (count_set_nth rdr ls i l' l Hn) as HcR;
  pose proof (count_set_nth atfin ls i l' l Hn) as HcF;
  pose proof (count_set_nth upwait ls i l' l Hn) as HcU;
  pose proof (count_lt atfin ownsW ls i l sub_atfin_owns Hn) as Hs1;
  pose proof (count_lt upwait ownsW ls i l sub_upwait_owns Hn) as Hs2;
  pose proof (count_lt excl ownsW ls i l sub_excl_owns Hn) as Hs3;
  pose proof (count_lt atfin rdr ls i l sub_atfin_rdr Hn) as Hs4;
  pose proof (count_lt upwait rdr ls i l sub_upwait_rdr Hn) as Hs5;
  pose proof (count_lt rdr contrib ls i l sub_rdr_contrib Hn) as Hs6;
  pose proof (count_lt atfin excl ls i l sub_atfin_excl Hn) as Hs7;
  pose proof (count_lt atfin upwait ls i l sub_atfin_upwait Hn) as Hs8;
  pose proof (owns_le_excl_upwait ls) as Hs9.

Lemma wf_idle sc h : (h = 0 \/ h = 1 \/ h = 2) -> wf_loc (mkloc (skip_inapplicable h sc) Idle false h).
Proof. intros Hh. split; auto. cbn. split; auto. symmetry. apply skip_idem. Qed.

Ltac break_ifs H :=
  repeat match type of H with
  | context [if ?b then _ else _] => let E := fresh "Eb" in destruct b eqn:E
  end.

Ltac norm_counts :=
  unfold contrib in *;
  cbn [ownsW excl rdr trans atfin upwait at_pc held orb andb negb Z.eqb Pos.eqb] in *;
  repeat match goal with
  | H : context [if ?b then 1%nat else 0%nat] |- _ =>
      let E := fresh "Eh" in destruct b eqn:E
  end.

Ltac unf := try unfold busy in *; try unfold wr_or_pend in *; try unfold up_cond in *; try unfold wbit in *; try unfold pbit in *; try unfold rcount in *.

Ltac slv := first [tauto | lia | intuition (auto; lia)].

Ltac finish_wf :=
  apply Forall_set_nth; [assumption|];
  first [ apply wf_idle; unfold held_after; cbn; lia
        | split; [cbn [held]; lia|]; cbn [at_pc]; unfold lock_ctx, cur_op in *;
          cbn [script held in_upg at_pc] in *; unf;
          repeat split; slv ].

Ltac finish_inv p :=
  split; [ finish_wf | ];
  exists p; unf;
  repeat split; lia.

Ltac go p := first [solve [finish_inv p] | solve [finish_inv 0] | solve [finish_inv 1]].

Definition roles (l : loc) := (ownsW l, trans l, excl l, rdr l, atfin l, upwait l).

Lemma exec_pc_irrelevant i w sc q upg h p :
  p <> Idle -> exec i w (mkloc sc q upg h) p = exec i w (mkloc sc p upg h) p.
Proof. destruct p; [congruence|reflexivity..]. Qed.

Lemma exec_inv w ls i l0 sc upg h p w' l' ev' :
  nth_error ls i = Some l0 -> roles l0 = roles (mkloc sc p upg h) ->
  wf_loc (mkloc sc p upg h) -> p <> Idle -> Inv (w, ls) ->
  exec i w (mkloc sc p upg h) p = (w', l', ev') -> Inv (w', set_nth ls i l').
Proof.
  intros Hn Hr (Hh & Hl) Hp (Hwf & pb & Hpb & Hw & Ho & Hex & Hup) Ht'. unfold Inv. cbn [fst snd] in *.
  account ls i l0 l' Hn.
  unfold roles in Hr. injection Hr as HrO HrT HrE HrR HrF HrU.
  unfold contrib in *.
  rewrite ?HrO, ?HrT, ?HrE, ?HrR, ?HrF, ?HrU in *.
  clear HrO HrT HrE HrR HrF HrU.
  set (O := count ownsW ls) in *. set (C := count contrib ls) in *. set (E := count excl ls) in *.
  set (R := count rdr ls) in *. set (F := count atfin ls) in *. set (U := count upwait ls) in *.
  clearbody O C E R F U.
  cbn [at_pc script held in_upg] in Hh, Hl.
  unfold lock_ctx, cur_op in Hl; cbn [script held in_upg] in Hl.
  destruct p; [congruence|..];
  cbn [exec complete at_pc script held in_upg hd fst snd] in Ht'; unfold cur_op in Ht'; cbn [script] in Ht'.
  all: try (destruct Hl as [(Hop & Hu & Hh0) | (Hop & Hu & Hh0)]).
  all: try (destruct Hl as ([(Hop & Hu & Hh0) | (Hop & Hu & Hh0)] & Hs)).
  all: try (destruct Hl as (Hop & Hh0 & Hs)).
  all: try (destruct Hl as (Hop & Hh0)).
  all: rewrite ?Hop in Ht'; unfold held_after in Ht'; cbn [Z.eqb Pos.eqb] in Ht'.
  all: break_ifs Ht'; injection Ht' as Hw' Hl' Hev'; subst w' l'.
  all: cbn [ownsW excl rdr trans atfin upwait at_pc held orb andb negb Z.eqb Pos.eqb] in *.
  all: repeat match goal with
  | H : context [if ?b then 1%nat else 0%nat] |- _ =>
      let E := fresh "Eh" in destruct b eqn:E
  end.
  all: go pb.
Qed.

Lemma roles_first_pc sc h o tl :
  sc = o :: tl -> applicable h o = true -> (h = 0 \/ h = 1 \/ h = 2) ->
  roles (mkloc sc Idle false h) = roles (mkloc sc (first_pc o) false h) /\
  wf_loc (mkloc sc (first_pc o) false h) /\ first_pc o <> Idle.
Proof.
  intros -> Happ Hh. unfold applicable in Happ.
  assert (Ho : (h = 0 /\ (o = 1 \/ o = 2 \/ o = 4 \/ o = 5)) \/ (h = 1 /\ (o = 6 \/ o = 7)) \/ (h = 2 /\ (o = 3 \/ o = 8))).
  { destruct Hh as [-> | [-> | ->]]; cbn [Z.eqb Pos.eqb] in Happ; lia. }
  clear Happ Hh.
  destruct Ho as [(-> & [-> | [-> | [-> | ->]]]) | [(-> & [-> | ->]) | (-> & [-> | ->])]];
    (split; [reflexivity|split; [|cbn; congruence]]);
    unfold wf_loc, lock_ctx, cur_op; cbn; repeat split; auto; lia.
Qed.

Lemma some_inj {A} (a b : A) : Some a = Some b -> a = b.
Proof. congruence. Qed.

Lemma inv_step c i c' e : Inv c -> step_at tstep c i = Some (c', e) -> Inv c'.
Proof.
  destruct c as [w ls]. unfold step_at. cbn [fst snd]. intros HI Hs.
  destruct (nth_error ls i) as [l|] eqn:Hn; [|discriminate].
  destruct (tstep i w l) as [[[w' l'] ev']|] eqn:Ht; [|discriminate].
  assert (c' = (w', set_nth ls i l')) by congruence. subst c'. clear Hs.
  pose proof HI as (Hwf & _). cbn [snd] in Hwf.
  pose proof (Forall_nth_error _ _ _ _ Hwf Hn) as Hwl.
  unfold tstep in Ht. destruct l as [sc pc0 upg h].
  destruct pc0 eqn:Epc; cbn [at_pc script] in Ht.
  - destruct sc as [|o tl] eqn:Esc; [discriminate|]. apply some_inj in Ht.
    destruct Hwl as (Hh & Hl & Hu). cbn [at_pc script held in_upg] in Hh, Hl, Hu. subst upg.
    pose proof (skip_head _ _ _ _ (eq_sym Hl)) as Happ.
    destruct (roles_first_pc (o :: tl) h o tl eq_refl Happ Hh) as (Hr & Hw2 & Hne).
    rewrite exec_pc_irrelevant in Ht by exact Hne.
    eapply exec_inv; eauto.
  - apply some_inj in Ht; eapply exec_inv; [exact Hn | reflexivity | exact Hwl | discriminate | exact HI | exact Ht].
  - apply some_inj in Ht; eapply exec_inv; [exact Hn | reflexivity | exact Hwl | discriminate | exact HI | exact Ht].
  - apply some_inj in Ht; eapply exec_inv; [exact Hn | reflexivity | exact Hwl | discriminate | exact HI | exact Ht].
  - apply some_inj in Ht; eapply exec_inv; [exact Hn | reflexivity | exact Hwl | discriminate | exact HI | exact Ht].
  - apply some_inj in Ht; eapply exec_inv; [exact Hn | reflexivity | exact Hwl | discriminate | exact HI | exact Ht].
  - apply some_inj in Ht; eapply exec_inv; [exact Hn | reflexivity | exact Hwl | discriminate | exact HI | exact Ht].
  - apply some_inj in Ht; eapply exec_inv; [exact Hn | reflexivity | exact Hwl | discriminate | exact HI | exact Ht].
  - apply some_inj in Ht; eapply exec_inv; [exact Hn | reflexivity | exact Hwl | discriminate | exact HI | exact Ht].
  - apply some_inj in Ht; eapply exec_inv; [exact Hn | reflexivity | exact Hwl | discriminate | exact HI | exact Ht].
  - apply some_inj in Ht; eapply exec_inv; [exact Hn | reflexivity | exact Hwl | discriminate | exact HI | exact Ht].
  - apply some_inj in Ht; eapply exec_inv; [exact Hn | reflexivity | exact Hwl | discriminate | exact HI | exact Ht].
  - apply some_inj in Ht; eapply exec_inv; [exact Hn | reflexivity | exact Hwl | discriminate | exact HI | exact Ht].
  - apply some_inj in Ht; eapply exec_inv; [exact Hn | reflexivity | exact Hwl | discriminate | exact HI | exact Ht].
  - apply some_inj in Ht; eapply exec_inv; [exact Hn | reflexivity | exact Hwl | discriminate | exact HI | exact Ht].
  - apply some_inj in Ht; eapply exec_inv; [exact Hn | reflexivity | exact Hwl | discriminate | exact HI | exact Ht].
  - apply some_inj in Ht; eapply exec_inv; [exact Hn | reflexivity | exact Hwl | discriminate | exact HI | exact Ht].
  - apply some_inj in Ht; eapply exec_inv; [exact Hn | reflexivity | exact Hwl | discriminate | exact HI | exact Ht].
  - apply some_inj in Ht; eapply exec_inv; [exact Hn | reflexivity | exact Hwl | discriminate | exact HI | exact Ht].
  - apply some_inj in Ht; eapply exec_inv; [exact Hn | reflexivity | exact Hwl | discriminate | exact HI | exact Ht].
Qed.

(* ---------- consequences ---------- *)

Definition init_cfg (scripts : list (list Z)) : Z * list loc :=
  (0, map (fun s => mkloc (skip_inapplicable 0 s) Idle false 0) scripts).

Lemma count_init_zero (P : loc -> bool) scripts :
  (forall sc, P (mkloc sc Idle false 0) = false) ->
  count P (map (fun s => mkloc (skip_inapplicable 0 s) Idle false 0) scripts) = 0%nat.
Proof. intros H. unfold count. induction scripts as [|s tl IH]; cbn; auto. rewrite H. exact IH. Qed.

Lemma inv_init scripts : Inv (init_cfg scripts).
Proof.
  unfold Inv, init_cfg. cbn [fst snd]. split.
  - apply Forall_forall. intros l Hin. apply in_map_iff in Hin. destruct Hin as (s & <- & _).
    apply wf_idle. lia.
  - exists 0. rewrite !count_init_zero by (intros; reflexivity).
    repeat split; auto; lia.
Qed.

Lemma count_ge_2 {A} (P : A -> bool) ls i j li lj :
  i <> j -> nth_error ls i = Some li -> nth_error ls j = Some lj -> P li = true -> P lj = true ->
  (2 <= count P ls)%nat.
Proof.
  intros Hne Hi Hj Pi Pj.
  destruct (Nat.le_gt_cases 2 (count P ls)) as [|Hlt]; auto.
  assert (1 <= count P ls)%nat by exact (count_pos_exists P ls i li Hi Pi).
  assert (count P ls = 1%nat) by lia.
  exfalso. apply Hne. eapply count_one_unique; eauto.
Qed.

(* thread-level meaning of "holds the lock between two of its operations" *)
Definition holds_write (l : loc) : Prop := at_pc l = Idle /\ held l = 2.
Definition holds_read (l : loc) : Prop := at_pc l = Idle /\ held l = 1.

Lemma mutual_exclusion_inv c i j li lj :
  Inv c -> i <> j -> nth_error (snd c) i = Some li -> nth_error (snd c) j = Some lj ->
  holds_write li -> ~ holds_write lj /\ ~ holds_read lj.
Proof.
  destruct c as [w ls]. unfold Inv. cbn [fst snd]. intros (Hwf & p & Hp & Hw & Ho & Hex & Hup) Hne Hi Hj (Hpi & Hhi).
  assert (Oi : ownsW li = true) by (unfold ownsW; rewrite Hpi, Hhi; reflexivity).
  assert (Ei : excl li = true) by (unfold excl; rewrite Hpi, Hhi; reflexivity).
  split.
  - intros (Hpj & Hhj).
    assert (Oj : ownsW lj = true) by (unfold ownsW; rewrite Hpj, Hhj; reflexivity).
    pose proof (count_ge_2 ownsW ls i j li lj Hne Hi Hj Oi Oj). lia.
  - intros (Hpj & Hhj).
    assert (Rj : rdr lj = true) by (unfold rdr; rewrite Hpj, Hhj; reflexivity).
    assert (Fj : atfin lj = false) by (unfold atfin; rewrite Hpj; reflexivity).
    assert (HE : (1 <= count excl ls)%nat) by exact (count_pos_exists excl ls i li Hi Ei).
    specialize (Hex HE).
    pose proof (count_lt atfin rdr ls j lj sub_atfin_rdr Hj) as Hlt. rewrite Rj, Fj in Hlt. cbn in Hlt. lia.
Qed.
