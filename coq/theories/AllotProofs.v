From OTV Require Import Lib.Tac Params AllotModel.
Local Open Scope Z_scope.

Fixpoint sumz (l : list Z) : Z := match l with [] => 0 | x :: tl => x + sumz tl end.
Definition sum_max (cs : list creq) : Z := sumz (map snd cs).

Lemma sumz_app a b : sumz (a ++ b) = sumz a + sumz b.
Proof. induction a as [|x a IH]; cbn [sumz app]; lia. Qed.

Lemma sum_max_nonneg cs : Forall (fun q : creq => 0 <= snd q) cs -> 0 <= sum_max cs.
Proof. unfold sum_max. induction 1; cbn [map sumz]; lia. Qed.

(* one priority level, soft limit >= 1 (the proportional branch) *)
Lemma level_allot_spec L apl D maxw cs : forall assigned carry res a c,
  L <> 0 -> 0 <= apl <= D -> 0 <= carry -> (carry < D \/ (D = 0 /\ carry = 0)) ->
  Forall (fun q => 0 <= snd q) cs -> sum_max cs <= D ->
  level_allot L apl D maxw cs assigned carry = (res, a, c) ->
  length res = length cs /\
  Forall2 (fun al q => 0 <= al <= snd q) res cs /\
  a = assigned + sumz res /\
  sumz res * D + c = sum_max cs * apl + carry /\
  0 <= c /\ (c < D \/ (D = 0 /\ c = 0)).
Proof.
  induction cs as [|[mn mx] tl IH]; intros assigned carry res a c HL Hapl Hc0 Hc1 Hpos Hsum H; cbn [level_allot] in H.
  - inv H. cbn. repeat split; auto; try lia.
  - apply Forall_cons_iff in Hpos. destruct Hpos as [Hmx0 Hpos]. cbn [snd] in *.
    pose proof (sum_max_nonneg tl Hpos) as Htl.
    unfold sum_max in *. cbn [map sumz snd] in *.
    destruct (mx =? 0) eqn:Emx.
    + destruct (level_allot L apl D maxw tl assigned carry) as [[r a1] c1] eqn:E. inv H.
      eapply IH in E; eauto; try lia. destruct E as (Hl & Hf & Ha & Heq & Hc & Hc').
      cbn [length sumz]. repeat split; auto; try lia.
      constructor; auto. cbn. lia.
    + destruct (L =? 0) eqn:EL; [lia|].
      assert (HD : 0 < D) by lia.
      destruct Hc1 as [Hc1|[? ?]]; [|lia].
      set (tmp := mx * apl + carry) in *.
      destruct (level_allot L apl D maxw tl (assigned + tmp / D) (tmp mod D)) as [[r a1] c1] eqn:E. inv H.
      pose proof (Z.mod_pos_bound tmp D HD) as Hmod.
      pose proof (Z.div_mod tmp D ltac:(lia)) as Hdm.
      assert (Htmp0 : 0 <= tmp) by (unfold tmp; nia).
      assert (Hq0 : 0 <= tmp / D) by (apply Z.div_pos; lia).
      assert (Hq1 : tmp / D <= mx).
      { assert (tmp < (mx + 1) * D) by (unfold tmp; nia).
        assert (tmp / D < mx + 1) by (apply Z.div_lt_upper_bound; lia). lia. }
      eapply IH in E; eauto; try lia. destruct E as (Hl & Hf & Ha & Heq & Hc & Hc').
      cbn [length sumz]. repeat split; auto; try lia; try nia.
Qed.

Lemma allot_sum_bounds res cs :
  Forall2 (fun al (q : creq) => 0 <= al <= snd q) res cs -> 0 <= sumz res <= sum_max cs.
Proof. unfold sum_max. induction 1; cbn [map sumz]; lia. Qed.

(* a whole level starting with carry 0 and with the level demand equal to the sum of requests:
   every client gets at most its request, the level gets exactly apl, and the carry is 0 again *)
Lemma level_allot_exact L apl D maxw cs assigned res a c :
  L <> 0 -> 0 <= apl <= D -> Forall (fun q => 0 <= snd q) cs -> sum_max cs = D ->
  level_allot L apl D maxw cs assigned 0 = (res, a, c) ->
  Forall2 (fun al q => 0 <= al <= snd q) res cs /\ sumz res = apl /\ a = assigned + apl /\ c = 0.
Proof.
  intros HL Hapl Hpos Hsum H.
  assert (Hd0 : 0 <= D) by lia.
  eapply level_allot_spec in H; eauto; try lia.
  destruct H as (_ & Hf & Ha & Heq & Hc & Hc').
  rewrite Hsum in Heq.
  assert (sumz res = apl /\ c = 0).
  { destruct Hc' as [Hlt|[HD0 Hc0]].
    - assert (c = D * (apl - sumz res)) by lia.
      assert (apl - sumz res = 0) by nia. lia.
    - pose proof (allot_sum_bounds _ _ Hf). subst. split; [|auto]. lia. }
  repeat split; auto; lia.
Qed.

(* well-formed level list: demand = sum of the clients' max requests, all requests non-negative *)
Definition lv_ok (lv : list (Z * list creq)) : Prop :=
  Forall (fun p => sum_max (snd p) = fst p /\ Forall (fun q => 0 <= snd q) (snd p)) lv.
Definition total_demand (lv : list (Z * list creq)) : Z := sumz (map fst lv).


(* priority order: each level gets min(its demand, what is left), nothing is lost *)
Lemma levels_allot_spec L maxw lv : forall unassigned assigned res a,
  L <> 0 -> lv_ok lv -> 0 <= unassigned ->
  levels_allot L maxw lv unassigned assigned 0 = (res, a) ->
  length res = length lv /\
  Forall2 (fun r p => Forall2 (fun al q => 0 <= al <= snd q) r (snd p)) res lv /\
  a = assigned + Z.min unassigned (total_demand lv) /\
  (* level by level: min(D_i, remaining) *)
  (forall i r, nth_error res i = Some r ->
     sumz r = Z.min (nth i (map fst lv) 0) (Z.max 0 (unassigned - sumz (firstn i (map fst lv))))).
Proof.
  induction lv as [|[D cs] tl IH]; intros unassigned assigned res a HL Hok Hun H; cbn [levels_allot] in H.
  - inv H. cbn. repeat split; auto; try lia. intros [|i] r; cbn; discriminate.
  - apply Forall_cons_iff in Hok. destruct Hok as [(HsD & Hpos) Hok]. cbn [fst snd] in *.
    pose proof (sum_max_nonneg cs Hpos) as HD0. rewrite HsD in HD0.
    destruct (level_allot L (Z.min D unassigned) D maxw cs assigned 0) as [[r a1] c1] eqn:E.
    eapply level_allot_exact in E; eauto; try lia. destruct E as (Hf & Hs & Ha & Hc). subst c1.
    destruct (levels_allot L maxw tl (unassigned - Z.min D unassigned) a1 0) as [rs a2] eqn:E2. injection H as <- <-.
    eapply IH in E2; eauto; try lia. destruct E2 as (Hl & Hf2 & Ha2 & Hlev).
    assert (Htd : 0 <= total_demand tl).
    { clear - Hok. unfold total_demand. induction Hok as [|p l Hp Hl IH]; cbn [map sumz]; [lia|].
      destruct Hp as (Hs & Hpos). pose proof (sum_max_nonneg _ Hpos). lia. }
    unfold total_demand in *. cbn [map sumz fst length].
    repeat split; auto; try lia.
    intros [|i] r0 Hn; cbn [nth_error nth firstn map sumz] in *.
    + inv Hn. lia.
    + specialize (Hlev i r0 Hn). rewrite Hlev.
      assert (0 <= sumz (firstn i (map fst tl))).
      { clear - Hok. revert i. induction Hok as [|p l Hp Hl IH]; intros [|i]; cbn [map firstn sumz]; try lia.
        destruct Hp as (Hs & Hpos). pose proof (sum_max_nonneg _ Hpos). specialize (IH i). lia. }
      cbn [fst]. lia.
Qed.

(* soft limit 0: at most one worker in total, only to a client with a mandatory request *)
Lemma level_allot_zero apl D maxw cs : forall assigned carry res a c,
  0 <= assigned <= maxw -> maxw <= 1 ->
  level_allot 0 apl D maxw cs assigned carry = (res, a, c) ->
  length res = length cs /\ a = assigned + sumz res /\ assigned <= a <= maxw /\
  Forall2 (fun al q => al = 0 \/ (al = 1 /\ 0 < fst q /\ snd q <> 0)) res cs.
Proof.
  induction cs as [|[mn mx] tl IH]; intros assigned carry res a c Ha Hm H; cbn [level_allot] in H.
  - inv H. cbn. repeat split; auto; lia.
  - destruct (mx =? 0) eqn:Emx.
    + destruct (level_allot 0 apl D maxw tl assigned carry) as [[r a1] c1] eqn:E. inv H.
      eapply IH in E; eauto. destruct E as (Hl & Hs & Hb & Hf). cbn [length sumz].
      repeat split; auto; try lia.
    + cbn [Z.eqb] in H.
      destruct ((0 <? mn) && (assigned <? maxw)) eqn:Eb.
      * destruct (level_allot 0 apl D maxw tl (assigned + 1) carry) as [[r a1] c1] eqn:E. inv H.
        eapply IH in E; eauto; try lia. destruct E as (Hl & Hs & Hb & Hf). cbn [length sumz].
        repeat split; auto; try lia. constructor; auto. right. cbn. lia.
      * destruct (level_allot 0 apl D maxw tl (assigned + 0) carry) as [[r a1] c1] eqn:E. inv H.
        eapply IH in E; eauto; try lia. destruct E as (Hl & Hs & Hb & Hf). cbn [length sumz].
        repeat split; auto; try lia.
Qed.

(* ---------- whole update_allotment ---------- *)

Lemma update_allotment_sum L mand total lv res a :
  1 <= L -> lv_ok lv -> total = total_demand lv -> 0 <= total ->
  update_allotment L mand total lv = (res, a) ->
  a = Z.min total L /\
  Forall2 (fun r p => Forall2 (fun al q => 0 <= al <= snd q) r (snd p)) res lv /\
  (forall i r, nth_error res i = Some r ->
     sumz r = Z.min (nth i (map fst lv) 0) (Z.max 0 (Z.min total L - sumz (firstn i (map fst lv))))).
Proof.
  intros HL Hok Ht Ht0 H. unfold update_allotment, effective_limit in H.
  assert (EL : (L =? 0) = false) by lia. rewrite EL, andb_false_r in H.
  eapply levels_allot_spec in H; eauto; try lia.
  destruct H as (_ & Hf & Ha & Hlev). repeat split; auto. subst total. lia.
Qed.

Lemma levels_allot_zero maxw lv : forall unassigned assigned carry res a,
  0 <= assigned <= maxw -> maxw <= 1 ->
  levels_allot 0 maxw lv unassigned assigned carry = (res, a) ->
  assigned <= a <= maxw /\
  Forall2 (fun r p => Forall2 (fun al (q : creq) => al = 0 \/ (al = 1 /\ 0 < fst q /\ snd q <> 0)) r (snd p)) res lv /\
  a = assigned + sumz (map sumz res).
Proof.
  induction lv as [|[D cs] tl IH]; intros unassigned assigned carry res a Ha Hm H; cbn [levels_allot] in H.
  - inv H. cbn. repeat split; auto; lia.
  - destruct (level_allot 0 (Z.min D unassigned) D maxw cs assigned carry) as [[r a1] c1] eqn:E.
    destruct (levels_allot 0 maxw tl (unassigned - Z.min D unassigned) a1 c1) as [rs a2] eqn:E2.
    injection H as <- <-.
    eapply level_allot_zero in E; eauto. destruct E as (_ & Hs & Hb & Hf).
    eapply IH in E2; eauto; try lia. destruct E2 as (Hb2 & Hf2 & Hs2).
    cbn [map sumz snd]. repeat split; auto; try lia.
Qed.

(* soft limit 0 (global_control(max_allowed_parallelism, 1)): at most one worker in total, and only an arena
   with a mandatory (enqueued-work) request and a non-zero request can get it *)
Lemma update_allotment_zero mand total lv res a :
  0 <= total -> update_allotment 0 mand total lv = (res, a) ->
  0 <= a <= 1 /\ (mand <= 0 -> a = 0) /\
  Forall2 (fun r p => Forall2 (fun al (q : creq) => al = 0 \/ (al = 1 /\ 0 < fst q /\ snd q <> 0)) r (snd p)) res lv.
Proof.
  intros Ht H. unfold update_allotment, effective_limit in H. cbn [Z.eqb] in H. rewrite andb_true_r in H.
  destruct (0 <? mand) eqn:Em.
  - eapply levels_allot_zero in H; try lia. destruct H as (Hb & Hf & _). repeat split; auto; lia.
  - eapply levels_allot_zero in H; try lia. destruct H as (Hb & Hf & _). repeat split; auto; lia.
Qed.

(* soft limit 0, liveness: if some arena has a mandatory (enqueued-work) request with a non-zero demand, the one worker IS granted *)
Definition wants (q : creq) : Prop := 0 < fst q /\ snd q <> 0.
Lemma level_allot_zero_grants apl D cs : forall assigned carry r a c,
  level_allot 0 apl D 1 cs assigned carry = (r, a, c) -> (assigned = 0 \/ assigned = 1) ->
  (a = 0 \/ a = 1) /\ assigned <= a /\ (Exists wants cs -> a = 1).
Proof.
  induction cs as [|[mn mx] tl IH]; intros assigned carry r a c H Ha; cbn [level_allot] in H.
  - inv H. split; [auto|]. split; [lia|]. intros HE. inv HE.
  - destruct (mx =? 0) eqn:Emx.
    + destruct (level_allot 0 apl D 1 tl assigned carry) as [[r1 a1] c1] eqn:E. inv H.
      destruct (IH _ _ _ _ _ E Ha) as (H1 & H2 & H3). split; [auto|]. split; [auto|].
      intros HE. inv HE; [|auto]. destruct H0 as [_ Hq]. cbn in Hq. apply Z.eqb_eq in Emx. congruence.
    + cbn [Z.eqb] in H.
      set (al := if (0 <? mn) && (assigned <? 1) then 1 else 0) in *.
      destruct (level_allot 0 apl D 1 tl (assigned + al) carry) as [[r1 a1] c1] eqn:E. inv H.
      assert (Hal : assigned + al = 0 \/ assigned + al = 1) by (unfold al; destruct ((0 <? mn) && (assigned <? 1)) eqn:Eb; [apply andb_true_iff in Eb; destruct Eb as [_ Eb]; apply Z.ltb_lt in Eb; lia|lia]).
      destruct (IH _ _ _ _ _ E Hal) as (H1 & H2 & H3). split; [auto|]. split; [unfold al in *; destruct ((0 <? mn) && (assigned <? 1)); lia|].
      intros HE. inv HE; [|auto]. destruct H0 as [Hq _]. cbn in Hq.
      unfold al in *. destruct (assigned <? 1) eqn:E1.
      * apply Z.ltb_lt in Hq. rewrite Hq in *. cbn in H2. lia.
      * apply Z.ltb_ge in E1. rewrite andb_false_r in H2. lia.
Qed.
Lemma levels_allot_zero_grants lv : forall unassigned assigned carry res a,
  levels_allot 0 1 lv unassigned assigned carry = (res, a) -> (assigned = 0 \/ assigned = 1) ->
  (a = 0 \/ a = 1) /\ assigned <= a /\ (Exists (fun p => Exists wants (snd p)) lv -> a = 1).
Proof.
  induction lv as [|[D cs] tl IH]; intros unassigned assigned carry res a H Ha; cbn [levels_allot] in H.
  - inv H. split; [auto|]. split; [lia|]. intros HE. inv HE.
  - destruct (level_allot 0 (Z.min D unassigned) D 1 cs assigned carry) as [[r1 a1] c1] eqn:E.
    destruct (levels_allot 0 1 tl (unassigned - Z.min D unassigned) a1 c1) as [rs a2] eqn:E2. inv H.
    destruct (level_allot_zero_grants _ _ _ _ _ _ _ _ E Ha) as (H1 & H2 & H3).
    destruct (IH _ _ _ _ _ E2 H1) as (H4 & H5 & H6). split; [auto|]. split; [lia|].
    intros HE. inv HE; [cbn in H0; specialize (H3 H0); lia|auto].
Qed.
Lemma update_allotment_zero_grants mand total lv res a :
  0 < mand -> 1 <= total -> update_allotment 0 mand total lv = (res, a) ->
  Exists (fun p => Exists wants (snd p)) lv -> a = 1.
Proof.
  intros Hm Ht H HE. unfold update_allotment, effective_limit in H. cbn [Z.eqb] in H. rewrite andb_true_r in H.
  replace (0 <? mand) with true in H by (symmetry; apply Z.ltb_lt; auto).
  replace (Z.min total 1) with 1 in H by lia.
  eapply levels_allot_zero_grants in H; [|auto]. destruct H as (_ & _ & H). auto.
Qed.
