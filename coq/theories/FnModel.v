(* C14: executable model of function_input_base (include/oneapi/tbb/detail/_flow_graph_node_impl.h:62-418): the
   concurrency counter, the input queue of the queueing policy and the handler's operations tryput_bypass,
   app_body_bypass and try_fwd (all serialised by the node's aggregator).  A body invocation is represented by the
   message it was started with. *)
From OTV Require Import Lib.Tac.
Local Open Scope Z_scope.

Record fnode := mkfn { f_max : Z; f_queueing : bool; f_conc : Z; f_queue : list Z;
                       f_started : list Z;      (* messages whose body task was created, in order *)
                       f_accepted : list Z }.   (* messages for which try_put returned true, in order *)

(* perform_queued_requests *)
Definition perform_queued (n : fnode) : fnode :=
  match f_queue n with
  | v :: tl => mkfn (f_max n) (f_queueing n) (f_conc n + 1) tl (f_started n ++ [v]) (f_accepted n)
  | [] => n
  end.

(* op 1 v = try_put(v) -> 1/0 | op 2 = one running body finishes (app_body_bypass) -> 0 | op 3 = the forwarder task (try_fwd) -> 0 *)
Definition fn_step (n : fnode) (op v : Z) : fnode * Z :=
  if op =? 1 then
    if f_conc n <? f_max n then
      (mkfn (f_max n) (f_queueing n) (f_conc n + 1) (f_queue n) (f_started n ++ [v]) (f_accepted n ++ [v]), 1)
    else if f_queueing n then
      (mkfn (f_max n) (f_queueing n) (f_conc n) (f_queue n ++ [v]) (f_started n) (f_accepted n ++ [v]), 1)
    else (n, 0)
  else if op =? 2 then
    if 0 <? f_conc n then
      let n1 := mkfn (f_max n) (f_queueing n) (f_conc n - 1) (f_queue n) (f_started n) (f_accepted n) in
      (if f_conc n1 <? f_max n1 then perform_queued n1 else n1, 0)
    else (n, 0)          (* no body is running: nothing can finish *)
  else if op =? 3 then
    ((if f_conc n <? f_max n then perform_queued n else n), 0)
  else (n, 0).

Definition fn_init (maxc : Z) (queueing : bool) : fnode := mkfn maxc queueing 0 [] [] [].

Fixpoint fn_run (n : fnode) (ops : list (Z * Z)) : fnode * list Z :=
  match ops with
  | [] => (n, [])
  | (op, v) :: tl => let '(n1, r) := fn_step n op v in let '(n2, rs) := fn_run n1 tl in (n2, r :: rs)
  end.

(* flat interface: max, queueing(1/0), then (op v)*; output: per op the result followed by the number of bodies started so
   far; then -7, the concurrency counter, the queue length, the started messages in order *)
Fixpoint pairs (l : list Z) : list (Z * Z) :=
  match l with a :: b :: tl => (a, b) :: pairs tl | _ => [] end.
Fixpoint fn_trace (n : fnode) (ops : list (Z * Z)) : fnode * list Z :=
  match ops with
  | [] => (n, [])
  | (op, v) :: tl => let '(n1, r) := fn_step n op v in
                     let '(n2, rs) := fn_trace n1 tl in (n2, r :: Z.of_nat (length (f_started n1)) :: rs)
  end.
Definition run_fnode (l : list Z) : list Z :=
  match l with
  | m :: q :: tl =>
      let '(n, rs) := fn_trace (fn_init m (q =? 1)) (pairs tl) in
      rs ++ [-7; f_conc n; Z.of_nat (length (f_queue n))] ++ f_started n
  | _ => []
  end.
