(* C13: every batch executed by handle_operations is a legal sequential priority-queue history in SOME order of its operations
   (all operations of one batch are pending at the same time, so any order respects real time): each successful pop returns an
   element that is >= every element present at its point in that order, a pop fails only on empty contents, nothing is lost or
   duplicated, and the heap order is re-established for the next batch. *)
From OTV Require Import Lib.Tac CpqModel CpqProofs CpqHeap.
From Coq Require Import Permutation.
Local Open Scope nat_scope.

Definition hist := list (op * res).

(* sequential specification: the contents are a multiset (a list up to permutation) *)
Definition spec_step (A : list Z) (o : op) (r : res) (A' : list Z) : Prop :=
  match o, r with
  | Push v, RPush => Permutation A' (v :: A)
  | Pop, RPop v => (forall x, In x A -> (x <= v)%Z) /\ Permutation A (v :: A')
  | Pop, RFail => A = [] /\ A' = []
  | _, _ => False
  end.

Inductive spec_run : list Z -> hist -> list Z -> Prop :=
| sr_nil A A' : Permutation A A' -> spec_run A [] A'
| sr_cons A o r B l C : spec_step A o r B -> spec_run B l C -> spec_run A ((o, r) :: l) C.

Definition ops_of (batch : list op) (rs : list (nat * res)) : hist :=
  map (fun p => (nth (fst p) batch Pop, snd p)) rs.
Definition pushes (l : list Z) : hist := map (fun v => (Push v, RPush)) l.

Lemma spec_run_perm_r A l B B' : spec_run A l B -> Permutation B B' -> spec_run A l B'.
Proof.
  induction 1 as [A A' HP|A o r B l C HS HR IH]; intros HB.
  - constructor. eapply Permutation_trans; eauto.
  - econstructor; eauto.
Qed.

Lemma spec_step_perm_l A A2 o r B : spec_step A o r B -> Permutation A A2 -> spec_step A2 o r B.
Proof.
  intros HS HP. destruct o as [v|], r as [|v'|]; cbn in *; auto.
  - eapply Permutation_trans; [exact HS|]. constructor. auto.
  - destruct HS as [H1 H2]. split.
    + intros x Hx. apply H1. eapply Permutation_in; [symmetry; exact HP|auto].
    + eapply Permutation_trans; [symmetry; exact HP|auto].
  - destruct HS as [-> ->]. apply Permutation_nil in HP. auto.
Qed.

Lemma spec_run_perm_l A A2 l B : spec_run A l B -> Permutation A A2 -> spec_run A2 l B.
Proof.
  intros HR HP. destruct HR as [A A' H|A o r B l C HS HR].
  - constructor. eapply Permutation_trans; [symmetry; exact HP|auto].
  - econstructor; [eapply spec_step_perm_l; eauto|auto].
Qed.

Lemma spec_run_app A l1 B : spec_run A l1 B -> forall l2 C, spec_run B l2 C -> spec_run A (l1 ++ l2) C.
Proof.
  induction 1 as [A A' HP|A o r B l C HS HR IH]; intros l2 C2 H2; cbn.
  - eapply spec_run_perm_l; [exact H2|symmetry; auto].
  - econstructor; eauto.
Qed.

Lemma spec_run_snoc A l B o r C : spec_run A l B -> spec_step B o r C -> spec_run A (l ++ [(o, r)]) C.
Proof.
  intros H1 H2. eapply spec_run_app; [exact H1|]. econstructor; [exact H2|]. constructor. apply Permutation_refl.
Qed.

Lemma spec_run_pushes p : forall B, spec_run B (pushes p) (B ++ p).
Proof.
  induction p as [|v p IH]; intros B; cbn.
  - constructor. rewrite app_nil_r. apply Permutation_refl.
  - econstructor; [cbn; apply Permutation_refl|].
    eapply spec_run_perm_r; [apply IH|]. cbn. apply Permutation_middle.
Qed.

Lemma perm_cnt l1 l2 : (forall x, cnt l1 x = cnt l2 x) -> Permutation l1 l2.
Proof. intros H. apply (Permutation_count_occ Z.eq_dec). exact H. Qed.

Lemma cnt_perm l1 l2 : Permutation l1 l2 -> forall x, cnt l1 x = cnt l2 x.
Proof. intros H. apply (Permutation_count_occ Z.eq_dec). exact H. Qed.

(* ---------- permutation bookkeeping of the history under construction ---------- *)
Section PermHelpers.
Context {T : Type}.
Lemma ph_now (l p R : list T) y : Permutation (l ++ p) R -> Permutation ((l ++ [y]) ++ p) (y :: R).
Proof.
  intros H. rewrite <- app_assoc. cbn. eapply Permutation_trans; [symmetry; apply Permutation_middle|].
  constructor. auto.
Qed.
Lemma ph_defer (l p R : list T) x : Permutation (l ++ p) R -> Permutation (l ++ (p ++ [x])) (x :: R).
Proof.
  intros H. rewrite app_assoc. eapply Permutation_trans; [symmetry; apply Permutation_cons_append|].
  constructor. auto.
Qed.
Lemma ph_pair (l p R : list T) x y : Permutation (l ++ (p ++ [x])) R -> Permutation ((l ++ [x; y]) ++ p) (y :: R).
Proof.
  intros H. rewrite <- app_assoc. cbn.
  eapply Permutation_trans; [symmetry; apply Permutation_middle|].
  eapply Permutation_trans; [apply perm_skip; symmetry; apply Permutation_middle|].
  eapply Permutation_trans; [apply perm_swap|]. constructor.
  eapply Permutation_trans; [|exact H]. rewrite app_assoc. apply Permutation_cons_append.
Qed.
End PermHelpers.

(* ---------- the queue between two operations of a batch ---------- *)

Definition effq (q : cpq) : nat := eff (data q) (mark q).
Definition absH (q : cpq) : list Z := firstn (effq q) (data q).
Definition pend (q : cpq) : list Z := skipn (effq q) (data q).
Definition QInv (q : cpq) : Prop := mark q <= length (data q) /\ hp (data q) (effq q).

Lemma effq_le q : mark q <= length (data q) -> effq q <= length (data q).
Proof.
  unfold effq, eff. intros H. destruct (Nat.eqb_spec (mark q) 0); cbn [andb]; [|lia].
  destruct (Nat.ltb_spec 0 (length (data q))); lia.
Qed.

Lemma absH_le_root q x : QInv q -> In x (absH q) -> (x <= get (data q) 0)%Z.
Proof.
  intros [Hm Hh] Hx. unfold absH in Hx.
  destruct (In_nth _ _ 0%Z Hx) as [i [Hi E]]. rewrite firstn_length in Hi.
  assert (nth i (firstn (effq q) (data q)) 0%Z = get (data q) i).
  { unfold get. rewrite <- (firstn_skipn (effq q) (data q)) at 2. rewrite app_nth1; auto. rewrite firstn_length. lia. }
  rewrite <- E, H. eapply hp_root_max; eauto. lia.
Qed.

Lemma last_app_ne (l1 l2 : list Z) x : l2 <> [] -> last (l1 ++ l2) x = last l2 x.
Proof.
  intros H. induction l1 as [|a l1 IH]; auto. cbn [app]. cbn [last].
  destruct (l1 ++ l2) eqn:E; auto. destruct l1; cbn in E; congruence.
Qed.

Section Batch.
Variable batch : list op.
Variable A0 : list Z.

Definition LinInv (q : cpq) (lin : hist) (D : list (nat * res)) : Prop :=
  spec_run A0 lin (absH q) /\ Permutation (lin ++ pushes (pend q)) (ops_of batch D).

Lemma pushes_snoc p v : pushes (p ++ [v]) = pushes p ++ [(Push v, RPush)].
Proof. unfold pushes. rewrite map_app. auto. Qed.

(* push *)
Lemma lin_push q lin D i v : QInv q -> LinInv q lin D -> nth i batch Pop = Push v ->
  let q1 := mk (data q ++ [v]) (mark q) in
  exists lin', QInv q1 /\ LinInv q1 lin' ((i, RPush) :: D).
Proof.
  intros [Hm Hh] [HR HP] Hi q1.
  destruct (Nat.eq_dec (length (data q)) 0) as [L0|L0].
  - (* first element of an empty queue: it is the heap at once *)
    assert (Ed : data q = []) by (apply length_zero_iff_nil; auto).
    assert (H : mark q = 0) by lia.
    assert (E0 : effq q = 0) by (unfold effq, eff; rewrite Ed, H; auto).
    assert (E1 : effq q1 = 1) by (unfold effq, eff, q1; cbn [data mark]; rewrite Ed, H; auto).
    exists (lin ++ [(Push v, RPush)]). split; [|split].
    + split; [unfold q1; cbn [data mark]; rewrite app_length; cbn; lia|]. rewrite E1. intros j Hj. lia.
    + unfold absH in *. rewrite E1. rewrite E0, Ed in HR. unfold q1. cbn [data]. rewrite Ed. cbn [app firstn].
      eapply spec_run_snoc; [exact HR|]. cbn. apply Permutation_refl.
    + unfold pend in *. rewrite E1. rewrite E0, Ed in HP. unfold q1. cbn [data]. rewrite Ed.
      cbn [app skipn pushes map] in *.
      unfold ops_of. cbn [map fst snd]. rewrite Hi. apply ph_now. exact HP.
  - assert (Ee : effq q1 = effq q).
    { unfold effq, eff, q1. cbn [data mark]. rewrite app_length. cbn [length].
      destruct (Nat.eqb (mark q) 0); cbn [andb]; auto.
      destruct (Nat.ltb_spec 0 (length (data q))); destruct (Nat.ltb_spec 0 (length (data q) + 1)); lia. }
    assert (Hle := effq_le q Hm).
    exists lin. split; [|split].
    + split; [unfold q1; cbn [data mark]; rewrite app_length; lia|].
      rewrite Ee. unfold q1. cbn [data]. intros j Hj. specialize (Hh j Hj).
      unfold get in *. rewrite !app_nth1; auto; unfold par; lia.
    + unfold absH in *. rewrite Ee. unfold q1. cbn [data].
      rewrite firstn_app. replace (effq q - length (data q)) with 0 by lia. cbn [firstn]. rewrite app_nil_r. exact HR.
    + unfold pend in *. rewrite Ee. unfold q1. cbn [data].
      rewrite skipn_app. replace (effq q - length (data q)) with 0 by lia. cbn [skipn].
      rewrite pushes_snoc. unfold ops_of. cbn [map fst snd]. rewrite Hi. apply ph_defer. exact HP.
Qed.

Lemma last_skipn (d : list Z) e : e < length d -> last (skipn e d) 0%Z = last d 0%Z.
Proof.
  intros H. rewrite <- (firstn_skipn e d) at 2.
  assert (skipn e d <> []).
  { intros E. assert (L := skipn_length e d). rewrite E in L. cbn in L. lia. }
  destruct (skipn e d) as [|a l] eqn:Es; [congruence|].
  rewrite last_app_ne; auto.
Qed.

(* pop served by the newest pushed element *)
Lemma lin_pop_back q lin D i : QInv q -> LinInv q lin D -> nth i batch Pop = Pop -> back_beats_top q = true ->
  let q1 := mk (removelast (data q)) (mark q) in
  exists lin', QInv q1 /\ LinInv q1 lin' ((i, RPop (back (data q))) :: D).
Proof.
  intros HQ [HR HP] Hi Hb q1. assert (HQ' := HQ). destruct HQ as [Hm Hh].
  unfold back_beats_top, cmp in Hb. apply andb_prop in Hb. destruct Hb as [Hb1 Hb2].
  apply Nat.ltb_lt in Hb1. apply Z.ltb_lt in Hb2.
  assert (He : 1 <= effq q < length (data q)).
  { unfold effq, eff. destruct (Nat.eqb_spec (mark q) 0) as [E|E]; cbn [andb]; [|lia].
    destruct (Nat.ltb_spec 0 (length (data q))); [|lia]. split; [lia|].
    destruct (Nat.eq_dec (length (data q)) 1) as [L|L]; [|lia].
    rewrite back_get, L in Hb2. cbn in Hb2. lia. }
  assert (Ee : effq q1 = effq q).
  { unfold effq, eff, q1 in *. cbn [data mark]. rewrite removelast_length.
    destruct (Nat.eqb (mark q) 0); cbn [andb] in *; auto.
    destruct (Nat.ltb_spec 0 (length (data q))); destruct (Nat.ltb_spec 0 (length (data q) - 1)); lia. }
  assert (Hne : pend q <> []).
  { unfold pend. intros E. assert (L := skipn_length (effq q) (data q)). rewrite E in L. cbn in L. lia. }
  assert (Hlast : pend q = removelast (pend q) ++ [back (data q)]).
  { unfold back. rewrite <- (last_skipn (data q) (effq q)) by lia. apply app_removelast_last. auto. }
  exists (lin ++ [(Push (back (data q)), RPush); (Pop, RPop (back (data q)))]). split.
  - split; [unfold q1; cbn [data mark]; rewrite removelast_length; lia|].
    rewrite Ee. unfold q1. cbn [data]. intros j Hj. rewrite !get_removelast by (unfold par; lia). apply Hh. auto.
  - split.
    + unfold absH. rewrite Ee. unfold q1. cbn [data]. rewrite firstn_removelast by lia.
      eapply spec_run_app; [exact HR|].
      econstructor; [cbn; apply Permutation_refl|].
      econstructor; [|constructor; apply Permutation_refl]. cbn. split; [|apply Permutation_refl].
      intros x [<-|Hx]; [lia|]. assert (A := absH_le_root q x HQ' Hx). lia.
    + unfold pend at 1. rewrite Ee. unfold q1. cbn [data]. rewrite skipn_removelast by lia. fold (pend q).
      unfold ops_of. cbn [map fst snd].
      rewrite Hlast, pushes_snoc in HP.
      rewrite Hi. apply ph_pair. exact HP.
Qed.


Lemma cnt_split d e x : cnt d x = cnt (firstn e d) x + cnt (skipn e d) x.
Proof. rewrite <- cnt_app, firstn_skipn. auto. Qed.

(* pop served by the heap (reheap); with a non-empty tail the newest pushed element enters the heap first *)
Lemma lin_pop_heap q lin D i : QInv q -> LinInv q lin D -> nth i batch Pop = Pop -> data q <> [] ->
  back_beats_top q = false ->
  let q1 := mk (fst (reheap (data q) (mark q))) (snd (reheap (data q) (mark q))) in
  exists lin', QInv q1 /\ LinInv q1 lin' ((i, RPop (get (data q) 0)) :: D).
Proof.
  intros HQ [HR HP] Hi Hd Hb q1. assert (HQ' := HQ). destruct HQ as [Hm Hh].
  destruct (reheap_spec (data q) (mark q) Hd Hm Hh) as (C & H3 & M3 & T1 & T2).
  fold (effq q) in T1, T2.
  change (eff (fst (reheap (data q) (mark q))) (snd (reheap (data q) (mark q)))) with (effq q1) in H3, T1, T2.
  change (fst (reheap (data q) (mark q))) with (data q1) in C, H3, M3, T1, T2.
  change (snd (reheap (data q) (mark q))) with (mark q1) in M3.
  assert (Hle := effq_le q Hm).
  destruct (Nat.eq_dec (effq q) (length (data q))) as [Ee|Ee].
  - (* no tail *)
    specialize (T2 Ee).
    assert (P0 : pend q = []) by (unfold pend; rewrite Ee; apply skipn_all).
    assert (A0' : absH q = data q) by (unfold absH; rewrite Ee; apply firstn_all).
    exists (lin ++ [(Pop, RPop (get (data q) 0))]). split; [split; auto|split].
    + eapply spec_run_snoc; [exact HR|]. cbn. rewrite A0'. split.
      * intros x Hx. apply (absH_le_root q x HQ'). rewrite A0'. auto.
      * unfold absH. rewrite T2, firstn_all.
        apply perm_cnt. intros x. rewrite cnt_cons. specialize (C x). lia.
    + unfold pend at 1. rewrite T2, skipn_all.
      rewrite P0 in HP. unfold ops_of. cbn [map fst snd]. rewrite Hi. apply ph_now. exact HP.
  - destruct (T1 ltac:(lia)) as [E1 S1].
    fold (pend q) in S1.
    assert (Hne : pend q <> []).
    { unfold pend. intros E. assert (L := skipn_length (effq q) (data q)). rewrite E in L. cbn in L. lia. }
    assert (Hlast : pend q = removelast (pend q) ++ [back (data q)]).
    { unfold back. rewrite <- (last_skipn (data q) (effq q)) by lia. apply app_removelast_last. auto. }
    assert (Hbt : (back (data q) <= get (data q) 0)%Z).
    { unfold back_beats_top, cmp in Hb. apply andb_false_iff in Hb. destruct Hb as [Hb|Hb].
      - apply Nat.ltb_ge in Hb. unfold effq, eff in Ee, Hle.
        destruct (Nat.eqb_spec (mark q) 0); cbn [andb] in *; lia.
      - apply Z.ltb_ge in Hb. auto. }
    exists (lin ++ [(Push (back (data q)), RPush); (Pop, RPop (get (data q) 0))]). split; [split; auto|split].
    + eapply spec_run_app; [exact HR|].
      econstructor; [cbn; apply Permutation_refl|].
      econstructor; [|constructor; apply Permutation_refl]. cbn. split.
      * intros x [<-|Hx]; [lia|]. apply (absH_le_root q x HQ' Hx).
      * apply perm_cnt. intros x. rewrite !cnt_cons. specialize (C x).
        rewrite (cnt_split (data q1) (effq q) x), (cnt_split (data q) (effq q) x) in C.
        rewrite S1 in C. assert (R := cnt_removelast (pend q) x Hne).
        replace (back (pend q)) with (back (data q)) in R
          by (unfold back, pend; symmetry; apply last_skipn; lia).
        unfold absH. rewrite E1. fold (pend q) in C. lia.
    + unfold pend at 1. rewrite E1, S1.
      unfold ops_of. cbn [map fst snd]. rewrite Hi. rewrite Hlast, pushes_snoc in HP. apply ph_pair. exact HP.
Qed.

Lemma lin_pop_fail q lin D i : QInv q -> LinInv q lin D -> nth i batch Pop = Pop -> data q = [] ->
  exists lin', LinInv q lin' ((i, RFail) :: D).
Proof.
  intros HQ [HR HP] Hi Hd.
  assert (A : absH q = []) by (unfold absH; rewrite Hd; apply firstn_nil).
  assert (P : pend q = []) by (unfold pend; rewrite Hd; apply skipn_nil).
  exists (lin ++ [(Pop, RFail)]). split.
  - eapply spec_run_snoc; [exact HR|]. cbn. rewrite A. auto.
  - rewrite P in *. unfold ops_of. cbn [map fst snd]. rewrite Hi. apply ph_now. exact HP.
Qed.

Lemma pass1_lin ops : forall q P D q' P' D' lin,
  pass1 q ops P D = (q', P', D') -> QInv q -> LinInv q lin D ->
  (forall i o, In (i, o) ops -> nth i batch Pop = o) -> (forall i, In i P -> nth i batch Pop = Pop) ->
  exists lin', QInv q' /\ LinInv q' lin' D' /\ (forall i, In i P' -> nth i batch Pop = Pop).
Proof.
  induction ops as [|[i o] ops IH]; intros q P D q' P' D' lin Hp HQ HL Hops HP; cbn [pass1] in Hp.
  - inversion Hp; subst. eauto.
  - assert (Hi := Hops i o (or_introl eq_refl)).
    assert (Hops' : forall i o, In (i, o) ops -> nth i batch Pop = o) by (intros; apply Hops; right; auto).
    destruct o as [v|].
    + destruct (lin_push q lin D i v HQ HL Hi) as [lin1 [HQ1 HL1]]. eapply IH; eauto.
    + destruct (back_beats_top q) eqn:Eb.
      * destruct (lin_pop_back q lin D i HQ HL Hi Eb) as [lin1 [HQ1 HL1]]. eapply IH; eauto.
      * eapply IH; eauto. intros j [<-|Hj]; auto.
Qed.

Lemma pass2_lin pops : forall q D q' D' lin,
  pass2 q pops D = (q', D') -> QInv q -> LinInv q lin D -> (forall i, In i pops -> nth i batch Pop = Pop) ->
  exists lin', QInv q' /\ LinInv q' lin' D'.
Proof.
  induction pops as [|i pops IH]; intros q D q' D' lin Hp HQ HL HP; cbn [pass2] in Hp.
  - inversion Hp; subst. eauto.
  - assert (Hi := HP i (or_introl eq_refl)).
    assert (HP' : forall i, In i pops -> nth i batch Pop = Pop) by (intros; apply HP; right; auto).
    destruct (data q) as [|a d] eqn:Ed.
    + destruct (lin_pop_fail q lin D i HQ HL Hi Ed) as [lin1 HL1]. eapply IH; eauto.
    + destruct (back_beats_top q) eqn:Eb.
      * destruct (lin_pop_back q lin D i HQ HL Hi Eb) as [lin1 [HQ1 HL1]]. rewrite Ed in HL1, HQ1. eapply IH; eauto.
      * assert (Hne : data q <> []) by (rewrite Ed; congruence).
        destruct (lin_pop_heap q lin D i HQ HL Hi Hne Eb) as [lin1 [HQ1 HL1]].
        rewrite Ed in HL1, HQ1. destruct (reheap (a :: d) (mark q)) as [d' m'] eqn:Er.
        cbn [fst snd] in *. eapply IH; eauto.
Qed.

End Batch.

(* ---------- whole batches ---------- *)

Definition good (q : cpq) : Prop := mark q = length (data q) /\ hp (data q) (length (data q)).

Lemma good_eff q : good q -> effq q = length (data q).
Proof.
  intros [Hm _]. unfold effq, eff. rewrite Hm. destruct (Nat.eqb_spec (length (data q)) 0) as [E|E]; cbn [andb]; auto.
  rewrite E. auto.
Qed.

Lemma number_nth (l : list op) : forall n i o, In (i, o) (number n l) -> n <= i /\ nth (i - n) l Pop = o.
Proof.
  induction l as [|a l IH]; intros n i o H; cbn in H; [tauto|].
  destruct H as [H|H].
  - inversion H; subst. rewrite Nat.sub_diag. cbn. split; auto.
  - destruct (IH _ _ _ H) as [H1 H2]. split; [lia|]. replace (i - n) with (S (i - S n)) by lia. cbn. auto.
Qed.

Theorem batch_linearizable_proof q batch q' rs :
  handle_operations q batch = (q', rs) -> good q ->
  good q' /\ exists lin, Permutation lin (ops_of batch rs) /\ spec_run (data q) lin (data q').
Proof.
  intros H Hg. unfold handle_operations in H.
  destruct (pass1 q (number 0 batch) [] []) as [[q1 P1] D1] eqn:E1.
  destruct (pass2 q1 P1 D1) as [q2 D2] eqn:E2.
  assert (Ee := good_eff q Hg). destruct Hg as [Hm Hh].
  assert (HQ : QInv q) by (split; [lia|rewrite Ee; auto]).
  assert (HL : LinInv batch (data q) q [] []).
  { split.
    - constructor. unfold absH. rewrite Ee, firstn_all. apply Permutation_refl.
    - unfold pend. rewrite Ee, skipn_all. cbn. constructor. }
  destruct (pass1_lin batch (data q) _ _ _ _ _ _ _ _ E1 HQ HL) as (lin1 & HQ1 & HL1 & HP1).
  { intros i o Hin. destruct (number_nth batch 0 i o Hin) as [_ Hn]. rewrite Nat.sub_0_r in Hn. auto. }
  { intros i []. }
  destruct (pass2_lin batch (data q) _ _ _ _ _ _ E2 HQ1 HL1 HP1) as (lin2 & [Hm2 Hh2] & [HR2 HPm2]).
  assert (Hle := effq_le q2 Hm2).
  destruct (Nat.ltb_spec (mark q2) (length (data q2))) as [Hlt|Hge].
  - assert (Hne : data q2 <> []) by (intros E; rewrite E in Hlt; cbn in Hlt; lia).
    assert (Hmax : effq q2 = Nat.max (mark q2) 1).
    { unfold effq, eff. destruct (Nat.eqb_spec (mark q2) 0); cbn [andb]; [|lia].
      destruct (Nat.ltb_spec 0 (length (data q2))); lia. }
    rewrite Hmax in Hh2.
    destruct (heapify_hp (data q2) (mark q2) Hm2 Hne Hh2) as [A B].
    assert (HM := heapify_mark (data q2) (mark q2) Hm2). assert (HLn := heapify_length (data q2) (mark q2)).
    destruct (heapify (data q2) (mark q2)) as [d3 m3]. cbn [fst snd] in *. inversion H; subst. clear H.
    split; [split; cbn [data mark]; [lia|rewrite HLn; auto]|].
    exists (lin2 ++ pushes (pend q2)). split; auto. cbn [data].
    eapply spec_run_app; [exact HR2|]. eapply spec_run_perm_r; [apply spec_run_pushes|].
    unfold absH, pend. rewrite firstn_skipn. apply perm_cnt. intros x. rewrite B. auto.
  - inversion H; subst. clear H.
    assert (E : effq q2 = length (data q2)).
    { unfold effq, eff in *. destruct (Nat.eqb_spec (mark q2) 0) as [Z0|Z0]; cbn [andb] in *; [|lia].
      destruct (Nat.ltb_spec 0 (length (data q2))); lia. }
    assert (Hmk : mark q2 = length (data q2)) by lia.
    split; [split; cbn [data mark]; [lia|rewrite <- E; auto]|].
    exists lin2. unfold pend in HPm2. rewrite E, skipn_all in HPm2. cbn in HPm2. rewrite app_nil_r in HPm2.
    split; auto. cbn [data]. unfold absH in HR2. rewrite E, firstn_all in HR2. auto.
Qed.

(* any sequence of batches, starting from the empty queue *)
Fixpoint run_model (q : cpq) (bs : list (list op)) : cpq * list hist :=
  match bs with
  | [] => (q, [])
  | b :: tl => let '(q1, rs) := handle_operations q b in
               let '(q2, hs) := run_model q1 tl in (q2, ops_of b rs :: hs)
  end.

Theorem batches_linearizable_proof : forall bs q q' hs,
  run_model q bs = (q', hs) -> good q ->
  good q' /\ exists lins, Forall2 (@Permutation _) lins hs /\ spec_run (data q) (concat lins) (data q').
Proof.
  induction bs as [|b bs IH]; intros q q' hs H Hg; cbn [run_model] in H.
  - inversion H; subst. split; auto. exists []. split; [constructor|]. cbn. constructor. apply Permutation_refl.
  - destruct (handle_operations q b) as [q1 rs] eqn:E1. destruct (run_model q1 bs) as [q2 hs2] eqn:E2.
    inversion H; subst. clear H.
    destruct (batch_linearizable_proof _ _ _ _ E1 Hg) as [Hg1 [lin [HP HR]]].
    destruct (IH _ _ _ E2 Hg1) as [Hg2 [lins [HF HR2]]].
    split; auto. exists (lin :: lins). split; [constructor; auto|]. cbn [concat]. eapply spec_run_app; eauto.
Qed.

Lemma good_empty : good (mk [] 0).
Proof. split; cbn; auto. intros i Hi. lia. Qed.
