(* Interleaving semantics shared by all concurrent cores: a configuration is a shared state G and a
   list of thread-local states L; [tstep] performs exactly ONE atomic access of one thread (the
   granularity of harness/gate), or returns None when that thread has finished. *)
From OTV Require Import Lib.Tac.

Section ListAux.
  Variable L : Type.
  Fixpoint set_nth (ls : list L) (i : nat) (l : L) : list L :=
    match ls, i with
    | [], _ => []
    | _ :: tl, O => l :: tl
    | x :: tl, S j => x :: set_nth tl j l
    end.

  (* list bookkeeping used by the counting invariants *)
  Lemma set_nth_length ls i l : length (set_nth ls i l) = length ls.
  Proof. revert i; induction ls as [|x ls IH]; intros [|i]; cbn; auto. Qed.

  Lemma nth_error_set_nth_eq ls i l l0 : nth_error ls i = Some l0 -> nth_error (set_nth ls i l) i = Some l.
  Proof. revert i; induction ls as [|x ls IH]; intros [|i]; cbn; intros H; try discriminate; auto. Qed.

  Lemma nth_error_set_nth_neq ls i j l : i <> j -> nth_error (set_nth ls i l) j = nth_error ls j.
  Proof.
    revert i j; induction ls as [|x ls IH]; intros [|i] [|j] H; cbn; auto; try congruence.
  Qed.

  Definition count (P : L -> bool) (ls : list L) : nat := length (filter P ls).

  Lemma count_set_nth P ls i l l0 :
    nth_error ls i = Some l0 ->
    (count P (set_nth ls i l) + (if P l0 then 1 else 0) = count P ls + (if P l then 1 else 0))%nat.
  Proof.
    unfold count. revert i; induction ls as [|x ls IH]; intros [|i] H; cbn in *; try discriminate.
    - inv H. destruct (P l0), (P l); cbn; lia.
    - specialize (IH _ H). destruct (P x); cbn; lia.
  Qed.

  Lemma count_zero_forall P ls : count P ls = 0%nat -> forall i l, nth_error ls i = Some l -> P l = false.
  Proof.
    unfold count. induction ls as [|x ls IH]; intros H [|i] l Hn; cbn in *; try discriminate.
    - inv Hn. destruct (P l); cbn in *; [discriminate|auto].
    - destruct (P x); cbn in *; [discriminate|]. eauto.
  Qed.

  Lemma count_pos_exists P ls i l : nth_error ls i = Some l -> P l = true -> (1 <= count P ls)%nat.
  Proof.
    unfold count. revert i; induction ls as [|x ls IH]; intros [|i] Hn Hp; cbn in *; try discriminate.
    - inv Hn. rewrite Hp. cbn. lia.
    - destruct (P x); cbn; [lia|eauto].
  Qed.

  Lemma count_one_unique P ls i j li lj :
    count P ls = 1%nat -> nth_error ls i = Some li -> nth_error ls j = Some lj ->
    P li = true -> P lj = true -> i = j.
  Proof.
    unfold count. revert i j; induction ls as [|x ls IH]; intros [|i] [|j] Hc Hi Hj Pi Pj; cbn in *; try discriminate; auto.
    - inv Hi. rewrite Pi in Hc. cbn in Hc. 
      assert (1 <= count P ls)%nat by (eapply count_pos_exists; eauto). unfold count in *. lia.
    - inv Hj. rewrite Pj in Hc. cbn in Hc.
      assert (1 <= count P ls)%nat by (eapply count_pos_exists; eauto). unfold count in *. lia.
    - f_equal. destruct (P x); cbn in Hc.
      + assert (1 <= count P ls)%nat by (eapply count_pos_exists; eauto). unfold count in *. lia.
      + eauto.
  Qed.
End ListAux.
Arguments set_nth {L}.
Arguments count {L}.
Arguments count_set_nth {L}.
Arguments count_zero_forall {L}.
Arguments count_pos_exists {L}.
Arguments count_one_unique {L}.
Arguments set_nth_length {L}.
Arguments nth_error_set_nth_eq {L}.
Arguments nth_error_set_nth_neq {L}.

Section Conc.
  Variables G L : Type.
  Variable tstep : nat -> G -> L -> option (G * L * list Z).   (* tid, shared, local -> event ints *)

  Definition config : Type := G * list L.

  (* one step of thread i *)
  Definition step_at (c : config) (i : nat) : option (config * list Z) :=
    match nth_error (snd c) i with
    | None => None
    | Some l =>
        match tstep i (fst c) l with
        | None => None
        | Some (g', l', ev) => Some ((g', set_nth (snd c) i l'), ev)
        end
    end.

  (* executable scheduler: entries naming finished / unknown threads are skipped *)
  Fixpoint run (c : config) (sched : list nat) : config * list Z :=
    match sched with
    | [] => (c, [])
    | i :: tl =>
        match step_at c i with
        | None => run c tl
        | Some (c', ev) => let '(c'', evs) := run c' tl in (c'', ev ++ evs)
        end
    end.

  (* round-robin completion with a step budget; returns the number of steps left (0 = gave up) *)
  Fixpoint rr_pass (c : config) (ids : list nat) (budget : nat) : config * list Z * nat * bool :=
    match ids with
    | [] => (c, [], budget, false)
    | i :: tl =>
        match budget with
        | O => (c, [], O, false)
        | S b =>
            match step_at c i with
            | None => rr_pass c tl budget
            | Some (c', ev) =>
                let '(c'', evs, b', _) := rr_pass c' tl b in (c'', ev ++ evs, b', true)
            end
        end
    end.

  Fixpoint finish (fuel : nat) (c : config) (budget : nat) : config * list Z * bool :=
    match fuel with
    | O => (c, [], false)
    | S f =>
        let '(c', evs, b', progressed) := rr_pass c (seq 0 (length (snd c))) budget in
        if progressed then
          let '(c'', evs', ok) := finish f c' b' in (c'', evs ++ evs', ok)
        else (c', evs, true)       (* no thread can step: all finished *)
    end.

  (* reachability: any thread, any number of steps *)
  Inductive reach (c0 : config) : config -> Prop :=
  | reach_refl : reach c0 c0
  | reach_step c i c' ev : reach c0 c -> step_at c i = Some (c', ev) -> reach c0 c'.

  Lemma inv_reach (Inv : config -> Prop) c0 :
    Inv c0 ->
    (forall c i c' ev, Inv c -> step_at c i = Some (c', ev) -> Inv c') ->
    forall c, reach c0 c -> Inv c.
  Proof. intros H0 Hs c Hr. induction Hr; eauto. Qed.

  Lemma run_reach sched : forall c c' evs, run c sched = (c', evs) -> reach c c'.
  Proof.
    induction sched as [|i tl IH]; intros c c' evs H; cbn [run] in H.
    - inv H. constructor.
    - destruct (step_at c i) as [[c1 ev]|] eqn:E.
      + destruct (run c1 tl) as [c2 evs2] eqn:E2. inv H.
        specialize (IH _ _ _ E2).
        clear E2. induction IH.
        * econstructor; [constructor|eauto].
        * econstructor; eauto.
      + eauto.
  Qed.

End Conc.

Arguments step_at {G L}.
Arguments run {G L}.
Arguments finish {G L}.
Arguments reach {G L}.
Arguments inv_reach {G L}.
Arguments run_reach {G L}.
