(* Common imports and lia setup for the whole development (stdlib only). *)
From Coq Require Export List Arith ZArith Lia Bool.
From Coq Require Export ZifyBool ZifyNat ZifyN.
Export ListNotations.

Ltac Zify.zify_post_hook ::= Z.div_mod_to_equations.

Global Arguments Z.mul : simpl never.
Global Arguments Z.add : simpl never.
Global Arguments Z.sub : simpl never.
Global Arguments Z.div : simpl never.
Global Arguments Z.modulo : simpl never.
Global Arguments Z.pow : simpl never.
Global Arguments Z.shiftl : simpl never.
Global Arguments Z.shiftr : simpl never.
Global Arguments Z.land : simpl never.
Global Arguments Z.lor : simpl never.
Global Arguments Z.log2 : simpl never.

Ltac inv H := inversion H; subst; clear H.

Ltac destr_if :=
  match goal with
  | |- context [if ?b then _ else _] => destruct b eqn:?
  end.

Ltac destr_if_in H :=
  match type of H with
  | context [if ?b then _ else _] => destruct b eqn:?
  end.
