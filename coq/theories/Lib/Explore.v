(* A generic, checked reachability argument: a finite set of configurations that contains the initial configuration and is
   closed under every thread's step contains every reachable configuration.  The candidate set is produced by an untrusted
   breadth-first search; closure and the per-configuration property are evaluated by vm_compute. *)
From OTV Require Import Lib.Tac Lib.Conc.

Section Explore.
  Variables G L : Type.
  Variable tstep : nat -> G -> L -> option (G * L * list Z).
  Variable cfg_dec : forall a b : G * list L, {a = b} + {a <> b}.

  Definition succs (c : G * list L) : list (G * list L) :=
    flat_map (fun i => match step_at tstep c i with Some (c', _) => [c'] | None => [] end) (seq 0 (length (snd c))).
  Definition memb (c : G * list L) (V : list (G * list L)) : bool := if in_dec cfg_dec c V then true else false.
  Definition closed (V : list (G * list L)) : bool := forallb (fun c => forallb (fun c' => memb c' V) (succs c)) V.

  Lemma closed_sound V c0 : closed V = true -> In c0 V -> forall c, reach tstep c0 c -> In c V.
  Proof.
    intros HC H0 c Hr. induction Hr as [|c1 i c2 ev Hr IH Hs]; auto.
    unfold closed in HC. rewrite forallb_forall in HC. specialize (HC c1 IH). rewrite forallb_forall in HC.
    assert (Hin : In c2 (succs c1)).
    { unfold succs. apply in_flat_map. exists i. split.
      - apply in_seq. unfold step_at in Hs. destruct (nth_error (snd c1) i) eqn:E; [|discriminate].
        assert (i < length (snd c1))%nat by (apply nth_error_Some; congruence). lia.
      - rewrite Hs. left. reflexivity. }
    specialize (HC c2 Hin). unfold memb in HC. destruct (in_dec cfg_dec c2 V); [auto|discriminate].
  Qed.

  Fixpoint bfs (fuel : nat) (frontier visited : list (G * list L)) : list (G * list L) :=
    match fuel with
    | O => visited ++ frontier
    | S f => match frontier with
             | [] => visited
             | c :: rest => if memb c visited then bfs f rest visited else bfs f (rest ++ succs c) (c :: visited)
             end
    end.

  (* all-in-one: explore from c0 and check `good` on every configuration of the closed set *)
  Definition explore_all (good : G * list L -> bool) (c0 : G * list L) (fuel : nat) : bool :=
    let V := bfs fuel [c0] [] in memb c0 V && closed V && forallb good V.

  Theorem explore_all_sound good c0 fuel :
    explore_all good c0 fuel = true -> forall c, reach tstep c0 c -> good c = true.
  Proof.
    unfold explore_all. intros H c Hr. apply andb_prop in H. destruct H as [H Hg]. apply andb_prop in H. destruct H as [Hm Hc].
    unfold memb in Hm. destruct (in_dec cfg_dec c0 _) as [Hin|]; [|discriminate].
    rewrite forallb_forall in Hg. apply Hg. eapply closed_sound; eauto.
  Qed.
End Explore.
Arguments succs {G L}.
Arguments explore_all {G L}.
Arguments explore_all_sound {G L}.
