(* finite sweeps evaluated by vm_compute and lifted to universally quantified statements *)
From OTV Require Import Lib.Tac.
Local Open Scope Z_scope.

Definition zrange (lo n : Z) : list Z := map (fun k => lo + Z.of_nat k) (seq 0 (Z.to_nat n)).

Lemma zrange_forall (P : Z -> bool) lo n :
  forallb P (zrange lo n) = true -> forall k, lo <= k < lo + n -> P k = true.
Proof.
  intros H k Hk. rewrite forallb_forall in H. apply H. unfold zrange.
  apply in_map_iff. exists (Z.to_nat (k - lo)). split; [lia|]. apply in_seq. lia.
Qed.
