(* C05: the range pool (RvecModel): for every sequence of split_to_fill / pop_back / pop_front the live subranges, from front() to back(),
   are non-empty, contiguous and descending: they tile exactly what has neither been run (popped at the back) nor offered (popped at the front). *)
From OTV Require Import Lib.Tac ForModel RvecModel.
Local Open Scope Z_scope.

(* l (front .. back) covers [lo, hi) by non-empty pieces, the front piece ending at hi *)
Fixpoint desc_chain (g hi : Z) (l : list slot) (lo : Z) : Prop :=
  match l with
  | [] => hi = lo
  | s :: tl => re (s_r s) = hi /\ rb (s_r s) < re (s_r s) /\ rg (s_r s) = g /\ desc_chain g (rb (s_r s)) tl lo
  end.

Lemma desc_chain_app g l1 : forall hi l2 lo, desc_chain g hi (l1 ++ l2) lo <-> exists mid, desc_chain g hi l1 mid /\ desc_chain g mid l2 lo.
Proof.
  induction l1 as [|s l1 IH]; intros hi l2 lo; cbn.
  - split; [intros H; exists hi; auto|intros [mid [-> H]]; auto].
  - rewrite IH. split.
    + intros (H1 & H2 & H3 & mid & H4 & H5). exists mid. auto.
    + intros (mid & (H1 & H2 & H3 & H4) & H5). repeat split; auto. exists mid; auto.
Qed.

Lemma nth_setl_eq l i x d : (i < length l)%nat -> nth i (setl l i x) d = x.
Proof. revert i; induction l as [|y l IH]; intros [|i] H; cbn in *; try lia; auto. apply IH; lia. Qed.
Lemma nth_setl_neq l i j x d : i <> j -> nth j (setl l i x) d = nth j l d.
Proof. revert i j; induction l as [|y l IH]; intros [|i] [|j] H; cbn; auto; try lia. Qed.
Lemma setl_length l i x : length (setl l i x) = length l.
Proof. revert i; induction l as [|y l IH]; intros [|i]; cbn; auto. Qed.

Lemma nth_tl' {A} (l : list A) i d : nth i (tl l) d = nth (S i) l d.
Proof. destruct l; destruct i; cbn; auto. Qed.

Definition RInv (v : rvec) : Prop :=
  length (v_slots v) = 8%nat /\ 0 <= v_head v < 8 /\ 0 <= v_tail v < 8 /\ 0 <= v_size v <= 8 /\
  (0 < v_size v -> v_head v = (v_tail v + v_size v - 1) mod 8).

Lemma live_length v : 0 <= v_size v -> length (live v) = Z.to_nat (v_size v).
Proof. intros. unfold live. rewrite map_length, seq_length. auto. Qed.
Lemma live_nth v i d : (i < Z.to_nat (v_size v))%nat -> nth i (live v) d = gets v ((v_tail v + Z.of_nat i) mod CAP).
Proof.
  intros H. unfold live. rewrite nth_indep with (d' := gets v ((v_tail v + Z.of_nat 0%nat) mod CAP)) by (rewrite map_length, seq_length; auto).
  rewrite (map_nth (fun i0 => gets v ((v_tail v + Z.of_nat i0) mod CAP))). rewrite seq_nth by auto. auto.
Qed.

Lemma live_pop_front v : RInv v -> 0 < v_size v -> live (pop_front v) = tl (live v) /\ hd (gets v (v_tail v)) (live v) = gets v (v_tail v).
Proof.
  intros (HL & HH & HT & HS & HE) Hs. split.
  - apply nth_ext with (d := gets v 0) (d' := gets v 0).
    + rewrite live_length by (cbn; lia). cbn [v_size pop_front]. destruct (live v) eqn:E.
      * assert (Hl := live_length v ltac:(lia)). rewrite E in Hl. cbn in Hl. lia.
      * cbn [tl]. assert (Hl := live_length v ltac:(lia)). rewrite E in Hl. cbn in Hl. lia.
    + intros i Hi. rewrite live_length in Hi by (cbn; lia). cbn [v_size pop_front] in Hi.
      rewrite live_nth by (cbn [v_size pop_front]; auto). cbn [v_tail pop_front gets v_slots].
      rewrite nth_tl'. rewrite live_nth by lia. unfold gets, CAP. cbn [v_slots pop_front]. f_equal. f_equal. lia.
  - unfold live. destruct (Z.to_nat (v_size v)) eqn:E; [lia|]. cbn. unfold CAP. f_equal. rewrite Z.add_0_r. apply Z.mod_small. lia.
Qed.

Lemma live_pop_back v : RInv v -> 0 < v_size v -> live v = live (pop_back v) ++ [gets v (v_head v)].
Proof.
  intros (HL & HH & HT & HS & HE) Hs. unfold live. cbn [pop_back v_size v_tail].
  replace (Z.to_nat (v_size v)) with (S (Z.to_nat (v_size v - 1))) by lia.
  rewrite seq_S, map_app. cbn [map]. f_equal. f_equal. f_equal. rewrite (HE Hs). unfold CAP. lia.
Qed.

Lemma live_split_once v : RInv v -> 0 < v_size v < 8 ->
  let s := gets v (v_head v) in
  live (split_once v) = live (pop_back v) ++ [mkslot (snd (split_mid (s_r s))) (s_d s + 1); mkslot (fst (split_mid (s_r s))) (s_d s + 1)].
Proof.
  intros (HL & HH & HT & HS & HE) Hs. cbv zeta. unfold split_once. destruct (split_mid (s_r (gets v (v_head v)))) as [l rt] eqn:Esp. cbn [fst snd].
  unfold live. cbn [v_size v_tail pop_back].
  replace (Z.to_nat (v_size v + 1)) with (S (S (Z.to_nat (v_size v - 1)))) by lia.
  rewrite !seq_S, !map_app. cbn [map]. rewrite <- app_assoc. cbn [app]. specialize (HE ltac:(lia)).
  assert (Hh' : 0 <= (v_head v + 1) mod CAP < 8) by (unfold CAP; lia).
  f_equal; [|f_equal; [|f_equal]].
  - apply map_ext_in. intros i Hi. apply in_seq in Hi. unfold gets, sets. cbn [v_slots].
    rewrite nth_setl_neq by (unfold CAP; lia). rewrite nth_setl_neq by (unfold CAP; lia). auto.
  - unfold gets, sets. cbn [v_slots].
    replace (Z.to_nat ((v_tail v + Z.of_nat (0 + Z.to_nat (v_size v - 1))) mod CAP)) with (Z.to_nat (v_head v)) by (unfold CAP; lia).
    rewrite nth_setl_eq by (rewrite setl_length; lia). auto.
  - unfold gets, sets. cbn [v_slots].
    replace (Z.to_nat ((v_tail v + Z.of_nat (0 + S (Z.to_nat (v_size v - 1)))) mod CAP)) with (Z.to_nat ((v_head v + 1) mod CAP)) by (unfold CAP; lia).
    rewrite nth_setl_neq by (unfold CAP; lia). rewrite nth_setl_eq by lia. auto.
Qed.

Lemma RInv_pop_back v : RInv v -> 0 < v_size v -> RInv (pop_back v).
Proof. intros (HL & HH & HT & HS & HE) Hs. specialize (HE Hs). unfold RInv, pop_back, CAP. cbn. repeat split; auto; try lia. Qed.
Lemma RInv_pop_front v : RInv v -> 0 < v_size v -> RInv (pop_front v).
Proof. intros (HL & HH & HT & HS & HE) Hs. specialize (HE Hs). unfold RInv, pop_front, CAP. cbn. repeat split; auto; try lia. Qed.
Lemma RInv_split_once v : RInv v -> 0 < v_size v < 8 -> RInv (split_once v).
Proof.
  intros (HL & HH & HT & HS & HE) Hs. specialize (HE ltac:(lia)). unfold RInv, split_once, CAP.
  destruct (split_mid _) as [l rt]. cbn. unfold sets. rewrite !setl_length. repeat split; auto; try lia.
Qed.

(* ---------- the tiling ---------- *)
Definition PInv (g : Z) (v : rvec) (lo hi : Z) : Prop := RInv v /\ 1 <= g /\ desc_chain g hi (live v) lo.

Lemma split_mid_pieces r : divisible r = true -> 1 <= rg r ->
  let '(l, rt) := split_mid r in
  rb l = rb r /\ re l = rb rt /\ re rt = re r /\ rb l < re l /\ rb rt < re rt /\ rg l = rg r /\ rg rt = rg r.
Proof.
  unfold divisible, split_mid, rsize. intros Hd Hg. apply Z.ltb_lt in Hd. cbn. repeat split; auto; lia.
Qed.

Lemma PInv_split_once g v lo hi :
  PInv g v lo hi -> 0 < v_size v < 8 -> divisible (s_r (gets v (v_head v))) = true -> PInv g (split_once v) lo hi.
Proof.
  intros (HR & Hg & HC) Hs Hdiv. split; [apply RInv_split_once; auto|]. split; [auto|].
  rewrite (live_pop_back v HR ltac:(lia)) in HC. apply desc_chain_app in HC. destruct HC as (mid & H1 & H2).
  cbn in H2. destruct H2 as (E1 & E2 & E3 & E4).
  rewrite (live_split_once v HR Hs). apply desc_chain_app. exists mid. split; [auto|].
  assert (Hp := split_mid_pieces (s_r (gets v (v_head v))) Hdiv ltac:(lia)).
  destruct (split_mid (s_r (gets v (v_head v)))) as [l rt]. cbn [fst snd]. destruct Hp as (P1 & P2 & P3 & P4 & P5 & P6 & P7).
  cbn. repeat split; try lia.
Qed.

Lemma PInv_split_to_fill fuel : forall g v lo hi maxd, PInv g v lo hi -> 0 < v_size v ->
  PInv g (split_to_fill fuel v maxd) lo hi /\ 0 < v_size (split_to_fill fuel v maxd).
Proof.
  induction fuel as [|f IH]; intros g v lo hi maxd HP Hs; cbn [split_to_fill]; [auto|].
  destruct (can_split v maxd) eqn:E; [|auto].
  unfold can_split in E. apply andb_true_iff in E. destruct E as [E Hdiv]. apply andb_true_iff in E. destruct E as [Hsz _].
  apply Z.ltb_lt in Hsz. unfold CAP in Hsz.
  apply IH.
  - apply PInv_split_once; auto; lia.
  - unfold split_once. destruct (split_mid _). cbn. lia.
Qed.

Lemma PInv_pop_back g v lo hi : PInv g v lo hi -> 0 < v_size v ->
  let r := s_r (gets v (v_head v)) in
  rb r = lo /\ rb r < re r /\ re r <= hi /\ PInv g (pop_back v) (re r) hi.
Proof.
  intros (HR & Hg & HC) Hs. cbv zeta.
  rewrite (live_pop_back v HR Hs) in HC. apply desc_chain_app in HC. destruct HC as (mid & H1 & H2).
  cbn in H2. destruct H2 as (E1 & E2 & E3 & E4).
  assert (Hle : forall l hi0 lo0, desc_chain g hi0 l lo0 -> lo0 <= hi0).
  { induction l as [|s l IH]; cbn; intros hi0 lo0 H; [lia|]. destruct H as (A1 & A2 & A3 & A4). specialize (IH _ _ A4). lia. }
  specialize (Hle _ _ _ H1).
  split; [auto|]. split; [auto|]. split; [lia|]. split; [apply RInv_pop_back; auto|]. split; [auto|]. rewrite E1. auto.
Qed.

Lemma PInv_pop_front g v lo hi : PInv g v lo hi -> 0 < v_size v ->
  let r := s_r (gets v (v_tail v)) in
  re r = hi /\ rb r < re r /\ lo <= rb r /\ PInv g (pop_front v) lo (rb r).
Proof.
  intros (HR & Hg & HC) Hs. cbv zeta.
  destruct (live_pop_front v HR Hs) as [Htl Hhd].
  assert (Hl := live_length v ltac:(lia)).
  destruct (live v) as [|s l] eqn:E; [cbn in Hl; lia|]. cbn in Hhd. subst s. cbn [tl] in Htl.
  cbn in HC. destruct HC as (A1 & A2 & A3 & A4).
  assert (Hle : forall l hi0 lo0, desc_chain g hi0 l lo0 -> lo0 <= hi0).
  { induction l0 as [|s l0 IH]; cbn; intros hi0 lo0 H; [lia|]. destruct H as (B1 & B2 & B3 & B4). specialize (IH _ _ B4). lia. }
  specialize (Hle _ _ _ A4).
  split; [auto|]. split; [auto|]. split; [auto|]. split; [apply RInv_pop_front; auto|]. split; [auto|]. rewrite Htl. auto.
Qed.

Lemma PInv_init r : rb r < re r -> 1 <= rg r -> PInv (rg r) (rv_init r) (rb r) (re r).
Proof.
  intros H1 H2. split; [|split; [auto|]].
  - unfold RInv, rv_init. cbn. repeat split; auto; lia.
  - unfold live, rv_init, gets. cbn. repeat split; auto.
Qed.

(* ---------- every operation sequence ---------- *)
Fixpoint asc_chain (lo : Z) (l : list rng) (hi : Z) : Prop :=
  match l with [] => lo = hi | r :: tl => rb r = lo /\ rb r < re r /\ asc_chain (re r) tl hi end.
Fixpoint desc_r (hi : Z) (l : list rng) (lo : Z) : Prop :=
  match l with [] => hi = lo | r :: tl => re r = hi /\ rb r < re r /\ desc_r (rb r) tl lo end.
Lemma asc_chain_snoc l : forall lo mid r, asc_chain lo l mid -> rb r = mid -> rb r < re r -> asc_chain lo (l ++ [r]) (re r).
Proof. induction l as [|x l IH]; cbn; intros lo mid r H1 H2 H3; [subst; auto|]. destruct H1 as (A & B & C). repeat split; auto. eapply IH; eauto. Qed.
Lemma desc_r_snoc l : forall hi mid r, desc_r hi l mid -> re r = mid -> rb r < re r -> desc_r hi (l ++ [r]) (rb r).
Proof. induction l as [|x l IH]; cbn; intros hi mid r H1 H2 H3; [subst; auto|]. destruct H1 as (A & B & C). repeat split; auto. eapply IH; eauto. Qed.

(* the run with the pieces collected: ran = ranges the body was run on (back pops), off = ranges offered to thieves (front pops) *)
Fixpoint rexec (v : rvec) (ops : list Z) (ran off : list rng) : rvec * list rng * list rng :=
  match ops with
  | op :: d :: tl =>
      if op =? 1 then rexec (if 0 <? v_size v then split_to_fill 8 v d else v) tl ran off
      else if op =? 2 then
        if 0 <? v_size v then rexec (pop_back v) tl (ran ++ [s_r (gets v (v_head v))]) off else rexec v tl ran off
      else if op =? 3 then
        if 1 <? v_size v then rexec (pop_front v) tl ran (off ++ [s_r (gets v (v_tail v))]) else rexec v tl ran off
      else rexec v tl ran off
  | _ => (v, ran, off)
  end.

Lemma pair_ind (P : list Z -> Prop) : P [] -> (forall a, P [a]) -> (forall a b tl, P tl -> P (a :: b :: tl)) -> forall l, P l.
Proof.
  intros H0 H1 H2. assert (H : forall l, P l /\ forall a, P (a :: l)).
  { induction l as [|x l [IH1 IH2]]; (split; [auto|]); intros a; [apply H1|apply H2; auto]. }
  intros l. apply H.
Qed.

Lemma rexec_same_pool ops : forall v ran off, fst (fst (rexec v ops ran off)) = fst (rrun v ops).
Proof.
  induction ops as [|a|op d tl IH] using pair_ind; intros v ran off; cbn [rexec rrun]; auto.
  unfold rstep.
  destruct (op =? 1).
  { destruct (rrun _ tl) as [v2 o2] eqn:E. cbn [fst]. rewrite IH. rewrite E. auto. }
  destruct (op =? 2).
  { destruct (0 <? v_size v).
    - destruct (rrun (pop_back v) tl) as [v2 o2] eqn:E. cbn [fst]. rewrite IH. rewrite E. auto.
    - destruct (rrun v tl) as [v2 o2] eqn:E. cbn [fst]. rewrite IH. rewrite E. auto. }
  destruct (op =? 3).
  { destruct (1 <? v_size v).
    - destruct (rrun (pop_front v) tl) as [v2 o2] eqn:E. cbn [fst]. rewrite IH. rewrite E. auto.
    - destruct (rrun v tl) as [v2 o2] eqn:E. cbn [fst]. rewrite IH. rewrite E. auto. }
  destruct (rrun v tl) as [v2 o2] eqn:E. cbn [fst]. rewrite IH. rewrite E. auto.
Qed.

Lemma rexec_tiles lo0 hi0 g ops : forall v ran off lo hi,
  PInv g v lo hi -> asc_chain lo0 ran lo -> desc_r hi0 off hi ->
  let '(v', ran', off') := rexec v ops ran off in
  exists lo' hi', PInv g v' lo' hi' /\ asc_chain lo0 ran' lo' /\ desc_r hi0 off' hi'.
Proof.
  induction ops as [|a|op d tl IH] using pair_ind; intros v ran off lo hi HP HA HD; cbn [rexec]; try (exists lo, hi; auto; fail).
  destruct (op =? 1).
  { apply IH with (lo := lo) (hi := hi); auto.
    destruct (0 <? v_size v) eqn:E; [|auto]. apply Z.ltb_lt in E. apply PInv_split_to_fill; auto. }
  destruct (op =? 2).
  { destruct (0 <? v_size v) eqn:E; [|apply IH with (lo := lo) (hi := hi); auto].
    apply Z.ltb_lt in E. destruct (PInv_pop_back g v lo hi HP E) as (B1 & B2 & B3 & B4).
    apply IH with (lo := re (s_r (gets v (v_head v)))) (hi := hi); auto.
    eapply asc_chain_snoc; eauto. }
  destruct (op =? 3).
  { destruct (1 <? v_size v) eqn:E; [|apply IH with (lo := lo) (hi := hi); auto].
    apply Z.ltb_lt in E. destruct (PInv_pop_front g v lo hi HP ltac:(lia)) as (B1 & B2 & B3 & B4).
    apply IH with (lo := lo) (hi := rb (s_r (gets v (v_tail v)))); auto.
    eapply desc_r_snoc; eauto. }
  apply IH with (lo := lo) (hi := hi); auto.
Qed.
