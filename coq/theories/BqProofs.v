(* C09: proofs about the ticket-claim loops of concurrent_bounded_queue (BqModel). *)
From OTV Require Import Lib.Tac Lib.Conc BqModel.
Local Open Scope Z_scope.

Definition pok (g : bg) (p : bpc) : Prop :=
  match p with
  | PuLoadHead k => k <= b_tail g
  | PuCas k => k <= b_tail g /\ k - b_head g < b_cap g
  | PoLoadTail k => k <= b_head g
  | PoCas k => k <= b_head g /\ k < b_tail g
  | _ => True
  end.
Definition lok (g : bg) (l : bloc) : Prop := pok g (b_pc l).
Definition gok (g : bg) : Prop := b_head g <= b_tail g /\ b_tail g - b_head g <= b_cap g.
Definition BInv (c : bg * list bloc) : Prop := gok (fst c) /\ Forall (lok (fst c)) (snd c).
Definition mono (g g' : bg) : Prop := b_head g <= b_head g' /\ b_tail g <= b_tail g' /\ b_cap g = b_cap g'.

(* the completion note carried by the events of one step, if any *)
Definition note_of (ev : list Z) : option (Z * Z * Z) :=
  match ev with
  | [_; _; _; _; _; _; _; _; 0; o; 0; r; k; 1] => Some (o - 100, r, k)
  | _ => None
  end.

Lemma lok_mono g g' l : mono g g' -> lok g l -> lok g' l.
Proof.
  unfold mono, lok, pok. intros (Hh & Ht & Hc). destruct (b_pc l); intros H; auto; try lia.
Qed.

Lemma Forall_set_nth {A} (P : A -> Prop) ls i l : Forall P ls -> P l -> Forall P (set_nth ls i l).
Proof.
  revert i; induction ls as [|x ls IH]; intros [|i] HF Hl; cbn; auto; inv HF; constructor; auto.
Qed.

Lemma Forall_nth_error {A} (P : A -> Prop) ls i l : Forall P ls -> nth_error ls i = Some l -> P l.
Proof. intros HF Hn. rewrite Forall_forall in HF. apply HF. eapply nth_error_In; eauto. Qed.

(* one access: shared counters only grow, the global and the stepping thread's invariants are kept, and the
   decisions taken at this access are justified by the counters as they are at this very moment *)
Lemma bexec_ok tid g l p g' l' ev :
  gok g -> pok g p -> p <> BIdle ->
  bexec tid g l p = (g', l', ev) ->
  mono g g' /\ gok g' /\ lok g' l' /\
  (forall k, note_of ev = Some (OTryPush, 0, k) -> b_tail g - b_head g >= b_cap g) /\
  (forall k, note_of ev = Some (OTryPop, 0, k) -> b_tail g - b_head g <= 0) /\
  (forall k, note_of ev = Some (OTryPush, 1, k) ->
     k = b_tail g /\ b_tail g' = k + 1 /\ b_head g' = b_head g /\ b_tail g - b_head g < b_cap g) /\
  (forall k, note_of ev = Some (OTryPop, 1, k) ->
     k = b_head g /\ b_head g' = k + 1 /\ b_tail g' = b_tail g /\ b_head g < b_tail g) /\
  (forall o r k, note_of ev = Some (o, r, k) -> (o = OTryPush \/ o = OTryPop) /\ (r = 0 \/ r = 1)).
Proof.
  unfold gok, mono, lok. intros (Hht & Hcap) Hp Hne Hx.
  destruct p as [| |k|k| |k|k]; cbn [bexec pok] in *; try congruence.
  - inv Hx. cbn. repeat split; try lia; intros; discriminate.
  - destruct (k - b_head g >=? b_cap g) eqn:E; inv Hx; cbn.
    + repeat split; try lia; intros; try discriminate.
      all: match goal with H : Some _ = Some _ |- _ => inv H end; unfold OTryPush, OTryPop in *; lia.
    + repeat split; try lia; intros; discriminate.
  - destruct (b_tail g =? k) eqn:E; inv Hx; cbn.
    + repeat split; try lia; intros; try discriminate.
      all: match goal with H : Some _ = Some _ |- _ => inv H end; unfold OTryPush, OTryPop in *; lia.
    + repeat split; try lia; intros; discriminate.
  - inv Hx. cbn. repeat split; try lia; intros; discriminate.
  - destruct (b_tail g - k <=? 0) eqn:E; inv Hx; cbn.
    + repeat split; try lia; intros; try discriminate.
      all: match goal with H : Some _ = Some _ |- _ => inv H end; unfold OTryPush, OTryPop in *; lia.
    + repeat split; try lia; intros; discriminate.
  - destruct (b_head g =? k) eqn:E; inv Hx; cbn.
    + repeat split; try lia; intros; try discriminate.
      all: match goal with H : Some _ = Some _ |- _ => inv H end; unfold OTryPush, OTryPop in *; lia.
    + repeat split; try lia; intros; discriminate.
Qed.

Lemma btstep_ok tid g l g' l' ev :
  gok g -> lok g l -> btstep tid g l = Some (g', l', ev) ->
  mono g g' /\ gok g' /\ lok g' l' /\
  (forall k, note_of ev = Some (OTryPush, 0, k) -> b_tail g - b_head g >= b_cap g) /\
  (forall k, note_of ev = Some (OTryPop, 0, k) -> b_tail g - b_head g <= 0) /\
  (forall k, note_of ev = Some (OTryPush, 1, k) ->
     k = b_tail g /\ b_tail g' = k + 1 /\ b_head g' = b_head g /\ b_tail g - b_head g < b_cap g) /\
  (forall k, note_of ev = Some (OTryPop, 1, k) ->
     k = b_head g /\ b_head g' = k + 1 /\ b_tail g' = b_tail g /\ b_head g < b_tail g) /\
  (forall o r k, note_of ev = Some (o, r, k) -> (o = OTryPush \/ o = OTryPop) /\ (r = 0 \/ r = 1)).
Proof.
  unfold btstep, lok. intros Hg Hl Hs.
  destruct (b_pc l) eqn:Ep.
  - destruct (b_script l) as [|o sc]; [discriminate|].
    assert (Hx : bexec tid g l (bfirst o) = (g', l', ev)) by congruence.
    eapply (bexec_ok tid g l (bfirst o)); eauto.
    + unfold bfirst; destruct (o =? OTryPush); exact I.
    + unfold bfirst; destruct (o =? OTryPush); discriminate.
  - assert (Hx : bexec tid g l PuLoadTail = (g', l', ev)) by congruence.
    eapply (bexec_ok tid g l PuLoadTail); eauto. discriminate.
  - assert (Hx : bexec tid g l (PuLoadHead k) = (g', l', ev)) by congruence.
    eapply (bexec_ok tid g l (PuLoadHead k)); eauto. discriminate.
  - assert (Hx : bexec tid g l (PuCas k) = (g', l', ev)) by congruence.
    eapply (bexec_ok tid g l (PuCas k)); eauto. discriminate.
  - assert (Hx : bexec tid g l PoLoadHead = (g', l', ev)) by congruence.
    eapply (bexec_ok tid g l PoLoadHead); eauto. discriminate.
  - assert (Hx : bexec tid g l (PoLoadTail k) = (g', l', ev)) by congruence.
    eapply (bexec_ok tid g l (PoLoadTail k)); eauto. discriminate.
  - assert (Hx : bexec tid g l (PoCas k) = (g', l', ev)) by congruence.
    eapply (bexec_ok tid g l (PoCas k)); eauto. discriminate.
Qed.

Lemma binv_init cap scripts : 0 <= cap -> BInv (binit cap scripts).
Proof.
  intros Hc. split; cbn; [unfold gok; cbn; lia|].
  induction scripts; cbn; constructor; auto. exact I.
Qed.

Lemma binv_step c i c' ev : BInv c -> step_at btstep c i = Some (c', ev) -> BInv c'.
Proof.
  intros (Hg & HF) Hs. unfold step_at in Hs.
  destruct (nth_error (snd c) i) as [l|] eqn:En; [|discriminate].
  destruct (btstep i (fst c) l) as [[[g' l'] e]|] eqn:Et; [|discriminate]. inv Hs.
  destruct (btstep_ok _ _ _ _ _ _ Hg (Forall_nth_error _ _ _ _ HF En) Et) as (Hm & Hg' & Hl' & _).
  split; cbn; auto. apply Forall_set_nth; auto.
  eapply Forall_impl; [|exact HF]. intros a. apply lok_mono; auto.
Qed.

Lemma binv_reach cap scripts c : 0 <= cap -> reach btstep (binit cap scripts) c -> BInv c.
Proof.
  intros Hc Hr. eapply (inv_reach btstep BInv); eauto using binv_init. intros; eapply binv_step; eauto.
Qed.

Lemma step_decisions c i c' ev :
  BInv c -> step_at btstep c i = Some (c', ev) ->
  let g := fst c in let g' := fst c' in
  (forall k, note_of ev = Some (OTryPush, 0, k) -> b_tail g - b_head g >= b_cap g) /\
  (forall k, note_of ev = Some (OTryPop, 0, k) -> b_tail g - b_head g <= 0) /\
  (forall k, note_of ev = Some (OTryPush, 1, k) ->
     k = b_tail g /\ b_tail g' = k + 1 /\ b_head g' = b_head g /\ b_tail g - b_head g < b_cap g) /\
  (forall k, note_of ev = Some (OTryPop, 1, k) ->
     k = b_head g /\ b_head g' = k + 1 /\ b_tail g' = b_tail g /\ b_head g < b_tail g).
Proof.
  intros (Hg & HF) Hs. unfold step_at in Hs.
  destruct (nth_error (snd c) i) as [l|] eqn:En; [|discriminate].
  destruct (btstep i (fst c) l) as [[[g' l'] e]|] eqn:Et; [|discriminate]. inv Hs.
  destruct (btstep_ok _ _ _ _ _ _ Hg (Forall_nth_error _ _ _ _ HF En) Et) as (_ & _ & _ & H1 & H2 & H3 & H4 & _).
  cbn. auto.
Qed.
