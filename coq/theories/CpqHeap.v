(* C13: the heap-order half of the priority-queue property.  data[0,mark) is a binary max-heap (w.r.t. std::less), the tail
   holds elements pushed in the current batch.  Shown here: heapify (sift-up of every tail element) and reheap (sift-down of the
   last element from the root) keep the heap order and the multiset of elements; root of a heap is a maximum. *)
From OTV Require Import Lib.Tac CpqModel CpqProofs.
From Coq Require Import Permutation.
Local Open Scope nat_scope.

Definition cnt (d : list Z) (x : Z) : nat := count_occ Z.eq_dec d x.
Definition ind (a x : Z) : nat := if Z.eq_dec a x then 1 else 0.
Definition par (i : nat) : nat := (i - 1) / 2.
Definition hp (d : list Z) (m : nat) : Prop := forall i, 1 <= i < m -> (get d i <= get d (par i))%Z.

Lemma get_upd_same d : forall i v, i < length d -> get (upd d i v) i = v.
Proof. unfold get. induction d as [|x d IH]; intros [|i] v H; cbn in *; try lia; auto. apply IH. lia. Qed.

Lemma get_upd_other d : forall i j v, i <> j -> get (upd d i v) j = get d j.
Proof.
  unfold get. induction d as [|x d IH]; intros [|i] [|j] v H; cbn; auto; try lia.
Qed.

Lemma upd_same d : forall i, upd d i (get d i) = d.
Proof. unfold get. induction d as [|x d IH]; intros [|i]; cbn; auto. f_equal. apply IH. Qed.

Lemma cnt_cons a d x : cnt (a :: d) x = ind a x + cnt d x.
Proof. unfold cnt, ind. cbn. destruct (Z.eq_dec a x); lia. Qed.

Lemma cnt_app d1 d2 x : cnt (d1 ++ d2) x = cnt d1 x + cnt d2 x.
Proof. unfold cnt. apply count_occ_app. Qed.

Lemma cnt_upd d x : forall i v, i < length d -> cnt (upd d i v) x + ind (get d i) x = cnt d x + ind v x.
Proof.
  induction d as [|a d IH]; intros [|i] v H; cbn [length] in H; try lia.
  - cbn [upd]. rewrite !cnt_cons. unfold get. cbn. lia.
  - cbn [upd]. rewrite !cnt_cons. specialize (IH i v ltac:(lia)). unfold get in *. cbn [nth]. lia.
Qed.

Lemma back_get d : back d = get d (length d - 1).
Proof.
  unfold back, get. induction d as [|a d IH]; auto.
  cbn [last length]. destruct d as [|b d]; auto.
  rewrite IH. cbn [length]. replace (S (S (length d)) - 1) with (S (S (length d) - 1)) by lia. reflexivity.
Qed.

Lemma cnt_removelast d x : d <> [] -> cnt (removelast d) x + ind (back d) x = cnt d x.
Proof.
  intros H. destruct (exists_last H) as [l [a E]]. subst d.
  rewrite removelast_last. unfold back. rewrite last_last, cnt_app, cnt_cons. change (cnt [] x) with 0. lia.
Qed.

Lemma back_upd d i v : i < length d - 1 -> back (upd d i v) = back d.
Proof. intros H. rewrite !back_get, upd_length. apply get_upd_other. lia. Qed.

Lemma skipn_upd d : forall m i v, i < m -> skipn m (upd d i v) = skipn m d.
Proof.
  induction d as [|a d IH]; intros [|m] [|i] v H; cbn; auto; try lia.
  apply IH. lia.
Qed.

Lemma hp_mono d m m' : hp d m -> m' <= m -> hp d m'.
Proof. intros H L i Hi. apply H. lia. Qed.

(* the root of a heap is a maximum *)
Lemma hp_root_max d m : hp d m -> forall i, i < m -> (get d i <= get d 0)%Z.
Proof.
  intros H i. induction i as [i IH] using lt_wf_ind. intros Hi.
  destruct (Nat.eq_dec i 0) as [->|Hn]; [lia|].
  assert (par i < i) by (unfold par; lia).
  specialize (IH (par i) ltac:(lia) ltac:(lia)). specialize (H i ltac:(lia)). lia.
Qed.

(* ---------- heapify: sift_up ---------- *)

Definition SI (d : list Z) (cur : nat) (tp : Z) (m : nat) : Prop :=
  cur <= m /\ m < length d /\
  (forall i, 1 <= i <= m -> i <> m \/ cur <> m -> (get d i <= get d (par i))%Z) /\
  (forall c, 1 <= c <= m -> par c = cur -> (get d c <= tp)%Z).

Lemma SI_step d cur tp m : SI d cur tp m -> 1 <= cur -> (get d (par cur) < tp)%Z ->
  SI (upd d cur (get d (par cur))) (par cur) tp m.
Proof.
  intros (Hc & Hm & He & Hch) H1 Hlt.
  assert (Hp : par cur < cur) by (unfold par; lia).
  repeat split; try lia; try (rewrite upd_length; lia).
  - intros i Hi _. destruct (Nat.eq_dec i cur) as [->|Hic].
    + rewrite get_upd_same by lia. rewrite get_upd_other by lia. lia.
    + rewrite (get_upd_other _ cur i) by lia.
      destruct (Nat.eq_dec (par i) cur) as [Hpi|Hpi].
      * rewrite Hpi, get_upd_same by lia.
        assert (cur < i) by (unfold par in Hpi; lia).
        assert (A := He i ltac:(lia) ltac:(lia)). assert (B := He cur ltac:(lia) ltac:(lia)).
        rewrite Hpi in A. lia.
      * rewrite get_upd_other by lia. apply He; lia.
  - intros c Hcr Hpc. destruct (Nat.eq_dec c cur) as [->|Hcc].
    + rewrite get_upd_same by lia. lia.
    + rewrite get_upd_other by lia. assert (A := He c ltac:(lia) ltac:(lia)). rewrite Hpc in A. lia.
Qed.

Lemma SI_final d cur tp m : SI d cur tp m -> (cur = 0 \/ (tp <= get d (par cur))%Z) -> hp (upd d cur tp) (S m).
Proof.
  intros (Hc & Hm & He & Hch) Hf i Hi.
  destruct (Nat.eq_dec i cur) as [->|Hic].
  - rewrite get_upd_same by lia. assert (par cur < cur) by (unfold par; lia).
    rewrite get_upd_other by lia. lia.
  - rewrite (get_upd_other _ cur i) by lia.
    destruct (Nat.eq_dec (par i) cur) as [Hpi|Hpi].
    + rewrite Hpi, get_upd_same by lia. apply Hch; lia.
    + rewrite get_upd_other by lia. apply He; lia.
Qed.

Lemma sift_up_hp tp m : forall f d cur, 1 <= cur <= f -> SI d cur tp m -> hp (sift_up f d cur tp) (S m).
Proof.
  induction f as [|f IH]; intros d cur Hc HS; [lia|].
  cbn [sift_up]. fold (par cur). unfold cmp.
  destruct (Z.ltb_spec (get d (par cur)) tp) as [Hlt|Hge]; cbn [negb].
  - assert (HS' := SI_step _ _ _ _ HS ltac:(lia) Hlt).
    assert (Hp : par cur < cur) by (unfold par; lia).
    destruct (Nat.eqb_spec (par cur) 0) as [E|E].
    + rewrite E in *. apply SI_final; auto.
    + apply IH; auto. lia.
  - apply SI_final; auto.
Qed.

Lemma sift_up_cnt tp x : forall f d cur, cur < length d ->
  cnt (sift_up f d cur tp) x + ind (get d cur) x = cnt d x + ind tp x.
Proof.
  induction f as [|f IH]; intros d cur Hc; cbn [sift_up].
  - apply cnt_upd; auto.
  - fold (par cur). destruct (negb _); [apply cnt_upd; auto|].
    assert (Hp : par cur <= cur) by (unfold par; lia).
    assert (A := cnt_upd d x cur (get d (par cur)) Hc).
    destruct (Nat.eqb_spec (par cur) 0) as [E|E].
    + assert (B := cnt_upd (upd d cur (get d (par cur))) x (par cur) tp ltac:(rewrite upd_length; lia)).
      destruct (Nat.eq_dec (par cur) cur) as [Q|Q].
      * rewrite Q in *. rewrite get_upd_same in B by lia. lia.
      * rewrite get_upd_other in B by lia. lia.
    + specialize (IH (upd d cur (get d (par cur))) (par cur) ltac:(rewrite upd_length; lia)).
      destruct (Nat.eq_dec (par cur) cur) as [Q|Q].
      * rewrite Q in *. rewrite get_upd_same in IH by lia. lia.
      * rewrite get_upd_other in IH by lia. lia.
Qed.

Lemma heapify_loop_hp : forall n d m, 1 <= m <= length d -> hp d m -> length d - m <= n ->
  hp (fst (heapify_loop n d m)) (length d) /\ forall x, cnt (fst (heapify_loop n d m)) x = cnt d x.
Proof.
  induction n as [|n IH]; intros d m Hm Hh Hn; cbn [heapify_loop].
  - cbn [fst]. split; auto. replace (length d) with m by lia. auto.
  - destruct (Nat.ltb_spec m (length d)) as [Hlt|Hge].
    + assert (HS : SI d m (get d m) m).
      { repeat split; try lia.
        - intros i Hi [Hne|Hne]; [|lia]. apply Hh. lia.
        - intros c Hc Hp. unfold par in Hp. lia. }
      assert (Hh' := sift_up_hp (get d m) m (length d) d m ltac:(lia) HS).
      destruct (IH (sift_up (length d) d m (get d m)) (S m)) as [A B]; rewrite ?sift_up_length; auto; try lia.
      rewrite sift_up_length in A. split; [exact A|]. intros x. rewrite B. assert (C := sift_up_cnt (get d m) x (length d) d m Hlt). lia.
    + cbn [fst]. split; auto. replace (length d) with m by lia. auto.
Qed.

Lemma heapify_hp d m : m <= length d -> d <> [] -> hp d (Nat.max m 1) ->
  hp (fst (heapify d m)) (length d) /\ forall x, cnt (fst (heapify d m)) x = cnt d x.
Proof.
  intros Hm Hd Hh. unfold heapify.
  assert (0 < length d) by (destruct d; cbn; [congruence|lia]).
  destruct (Nat.eqb_spec m 0) as [->|Hn]; cbn [andb].
  - destruct (Nat.ltb_spec 0 (length d)); [|lia]. apply heapify_loop_hp; auto; lia.
  - apply heapify_loop_hp; try lia. replace (Nat.max m 1) with m in Hh by lia. auto.
Qed.

(* ---------- reheap: sift the last element down from the root ---------- *)

Definition RPost (d : list Z) (m : nat) (b : Z) (cur : nat) (d1 : list Z) (c1 : nat) : Prop :=
  hp (upd d1 c1 b) m /\ c1 < m /\ length d1 = length d /\ back d1 = b /\ skipn m d1 = skipn m d /\
  forall X x, cnt (upd d1 c1 X) x = cnt (upd d cur X) x.

Lemma reheap_exit d m b cur : hp d m -> cur < m <= length d -> (1 <= cur -> (b <= get d (par cur))%Z) ->
  (forall c, c < m -> par c = cur -> 1 <= c -> (get d c <= b)%Z) -> hp (upd d cur b) m.
Proof.
  intros Hh Hc Hb Hch i Hi.
  destruct (Nat.eq_dec i cur) as [->|Hic].
  - rewrite get_upd_same by lia. assert (par cur < cur) by (unfold par; lia).
    rewrite get_upd_other by lia. apply Hb. lia.
  - rewrite (get_upd_other _ cur i) by lia.
    destruct (Nat.eq_dec (par i) cur) as [Hpi|Hpi].
    + rewrite Hpi, get_upd_same by lia. apply Hch; lia.
    + rewrite get_upd_other by lia. apply Hh; lia.
Qed.

Lemma reheap_loop_spec m b : forall f d cur, hp d m -> cur < m <= length d ->
  (1 <= cur -> (b <= get d (par cur))%Z) -> back d = b -> m - cur <= f ->
  RPost d m b cur (fst (reheap_loop f d m cur (2 * cur + 1))) (snd (reheap_loop f d m cur (2 * cur + 1))).
Proof.
  induction f as [|f IH]; intros d cur Hh Hc Hb Hbk Hf; [lia|].
  cbn [reheap_loop]. unfold cmp.
  destruct (Nat.ltb_spec (2 * cur + 1) m) as [Hch|Hch].
  - set (target := if _ && _ then _ else _).
    assert (Ht : (target = 2 * cur + 1 \/ target = 2 * cur + 2) /\ target < m /\
                 (forall c, c < m -> par c = cur -> 1 <= c -> (get d c <= get d target)%Z)).
    { subst target. destruct (Nat.ltb_spec (2 * cur + 1 + 1) m) as [H2|H2]; cbn [andb].
      - destruct (Z.ltb_spec (get d (2 * cur + 1)) (get d (2 * cur + 1 + 1))) as [L|L].
        + split; [lia|]. split; [lia|]. intros c Hcm Hp H1.
          assert (c = 2 * cur + 1 \/ c = 2 * cur + 2) as [->| ->] by (unfold par in Hp; lia).
          * lia.
          * replace (2 * cur + 2) with (2 * cur + 1 + 1) by lia. lia.
        + split; [lia|]. split; [lia|]. intros c Hcm Hp H1.
          assert (c = 2 * cur + 1 \/ c = 2 * cur + 2) as [->| ->] by (unfold par in Hp; lia).
          * lia.
          * replace (2 * cur + 2) with (2 * cur + 1 + 1) by lia. lia.
      - split; [lia|]. split; [lia|]. intros c Hcm Hp H1.
        assert (c = 2 * cur + 1) as -> by (unfold par in Hp; lia). lia. }
    destruct Ht as (Ht1 & Ht2 & Ht3). rewrite Hbk.
    destruct (Z.ltb_spec (get d target) b) as [Hlt|Hge]; cbn [fst snd].
    + (* both children are below b: place b here *)
      unfold RPost. repeat split; auto; try lia.
      apply reheap_exit; auto. intros c Hcm Hp H1. specialize (Ht3 c Hcm Hp H1). lia.
    + (* move the larger child up and continue from its position *)
      assert (Hpt : par target = cur) by (unfold par; lia).
      assert (Hh' : hp (upd d cur (get d target)) m).
      { apply reheap_exit; auto.
        - intros H1. assert (A := Hh target ltac:(lia)). assert (B := Hh cur ltac:(lia)). rewrite Hpt in A. lia. }
      replace (2 * target + 1) with (2 * target + 1) by lia.
      specialize (IH (upd d cur (get d target)) target Hh' ltac:(rewrite upd_length; lia)).
      destruct IH as (A1 & A2 & A3 & A4 & A5 & A6).
      * intros _. rewrite Hpt, get_upd_same by lia. lia.
      * rewrite back_upd; auto. lia.
      * lia.
      * unfold RPost. repeat split; auto.
        -- rewrite A3, upd_length. auto.
        -- rewrite A5. apply skipn_upd. lia.
        -- intros X x. rewrite A6.
           assert (B1 := cnt_upd (upd d cur (get d target)) x target X ltac:(rewrite upd_length; lia)).
           rewrite get_upd_other in B1 by lia.
           assert (B2 := cnt_upd d x cur (get d target) ltac:(lia)).
           assert (B3 := cnt_upd d x cur X ltac:(lia)). lia.
  - cbn [fst snd]. unfold RPost. repeat split; auto; try lia.
    apply reheap_exit; auto. intros c Hcm Hp H1. unfold par in Hp. lia.
Qed.

Definition eff (d : list Z) (mark : nat) : nat := if (mark =? 0) && (0 <? length d) then 1 else mark.

Lemma get_removelast d i : i < length d - 1 -> get (removelast d) i = get d i.
Proof.
  intros H. destruct d as [|a0 d0]; [cbn in H; lia|].
  destruct (@exists_last _ (a0 :: d0) ltac:(congruence)) as [l [a E]]. rewrite E in *.
  rewrite removelast_last. rewrite app_length in H. cbn in H. unfold get. rewrite app_nth1; auto. lia.
Qed.

Lemma skipn_removelast (d : list Z) e : e < length d -> skipn e (removelast d) = removelast (skipn e d).
Proof.
  intros H. destruct d as [|a0 d0]; [cbn in H; lia|].
  destruct (@exists_last _ (a0 :: d0) ltac:(congruence)) as [l [a E]]. rewrite E in *.
  rewrite removelast_last. rewrite app_length in H. cbn in H. rewrite skipn_app.
  replace (e - length l) with 0 by lia. cbn [skipn]. rewrite removelast_last. auto.
Qed.

Lemma reheap_after d e mark b d1 c1 : d <> [] -> 1 <= e <= length d -> (mark = e \/ mark = 0 /\ e = 1) -> back d = b ->
  RPost d e b 0 d1 c1 ->
  let d3 := removelast (if Nat.eqb c1 (length d1 - 1) then d1 else upd d1 c1 (back d1)) in
  let m3 := if Nat.ltb (length d3) mark then length d3 else mark in
  (forall x, cnt d3 x + ind (get d 0) x = cnt d x) /\ hp d3 (eff d3 m3) /\ m3 <= length d3 /\
  (e < length d -> eff d3 m3 = e /\ skipn e d3 = removelast (skipn e d)) /\
  (e = length d -> eff d3 m3 = length d3).
Proof.
  intros Hd He Hmk Hbk (A1 & A2 & A3 & A4 & A5 & A6).
  assert (Hl : 0 < length d) by lia.
  set (d2 := if Nat.eqb c1 (length d1 - 1) then d1 else upd d1 c1 (back d1)).
  assert (E2 : d2 = upd d1 c1 b).
  { subst d2. rewrite A4. destruct (Nat.eqb_spec c1 (length d1 - 1)) as [E|E]; auto.
    rewrite <- A4. rewrite back_get, <- E. symmetry. apply upd_same. }
  assert (L2 : length d2 = length d) by (rewrite E2, upd_length; lia).
  assert (B2 : back d2 = b).
  { rewrite E2. destruct (Nat.eq_dec c1 (length d1 - 1)) as [E|E].
    - rewrite back_get, upd_length, <- E. apply get_upd_same. lia.
    - rewrite back_upd by lia. auto. }
  cbn zeta. fold d2.
  assert (L3 : length (removelast d2) = length d - 1) by (rewrite removelast_length; lia).
  assert (C : forall x, cnt (removelast d2) x + ind (get d 0) x = cnt d x).
  { intros x. assert (P := cnt_removelast d2 x ltac:(destruct d2; cbn in *; [lia|congruence])).
    rewrite B2 in P. rewrite E2 in P at 2. rewrite A6 in P.
    assert (Q := cnt_upd d x 0 b ltac:(lia)). lia. }
  assert (G : forall i, i < length d - 1 -> get (removelast d2) i = get d2 i).
  { intros i Hi. apply get_removelast. lia. }
  split; [exact C|].
  destruct (Nat.eq_dec e (length d)) as [Ee|Ee].
  - (* no tail: the heap shrinks by one *)
    assert (Em : (if Nat.ltb (length (removelast d2)) mark then length (removelast d2) else mark) = length (removelast d2)).
    { destruct (Nat.ltb_spec (length (removelast d2)) mark); lia. }
    rewrite Em.
    assert (Ef : eff (removelast d2) (length (removelast d2)) = length (removelast d2)).
    { unfold eff. destruct (Nat.eqb_spec (length (removelast d2)) 0) as [Z0|Z0]; cbn [andb]; auto.
      rewrite Z0. cbn. auto. }
    rewrite Ef. repeat split; auto; try lia.
    intros i Hi. rewrite !G by (unfold par; lia). rewrite E2. apply A1. lia.
  - assert (Em : (if Nat.ltb (length (removelast d2)) mark then length (removelast d2) else mark) = mark).
    { destruct (Nat.ltb_spec (length (removelast d2)) mark); lia. }
    rewrite Em.
    assert (Ef : eff (removelast d2) mark = e).
    { unfold eff. destruct Hmk as [->|[-> ->]].
      - destruct (Nat.eqb_spec e 0); [lia|]. auto.
      - cbn [Nat.eqb andb]. destruct (Nat.ltb_spec 0 (length (removelast d2))); auto. lia. }
    rewrite Ef. repeat split; auto; try lia.
    + intros i Hi. rewrite !G by (unfold par; lia). rewrite E2. apply A1. lia.
    + rewrite skipn_removelast by lia. rewrite E2, skipn_upd by lia. rewrite A5. auto.
Qed.

Lemma reheap_spec d mark : d <> [] -> mark <= length d -> hp d (eff d mark) ->
  let e := eff d mark in
  let d3 := fst (reheap d mark) in let m3 := snd (reheap d mark) in
  (forall x, cnt d3 x + ind (get d 0) x = cnt d x) /\ hp d3 (eff d3 m3) /\ m3 <= length d3 /\
  (e < length d -> eff d3 m3 = e /\ skipn e d3 = removelast (skipn e d)) /\
  (e = length d -> eff d3 m3 = length d3).
Proof.
  intros Hd Hm Hh. cbn zeta.
  assert (Hl : 0 < length d) by (destruct d; cbn; [congruence|lia]).
  unfold reheap.
  assert (R : RPost d (eff d mark) (back d) 0 (fst (reheap_loop (length d) d mark 0 1)) (snd (reheap_loop (length d) d mark 0 1))).
  { unfold eff in *. destruct (Nat.eqb_spec mark 0) as [->|Hn]; cbn [andb] in *.
    - destruct (Nat.ltb_spec 0 (length d)); [|lia].
      destruct (length d) as [|f] eqn:EL; [lia|]. cbn [reheap_loop Nat.ltb Nat.leb fst snd].
      unfold RPost. repeat split; auto; try lia. intros i Hi. lia.
    - apply (reheap_loop_spec mark (back d) (length d) d 0); auto; try lia. }
  destruct (reheap_loop (length d) d mark 0 1) as [d1 c1]. cbn [fst snd] in R.
  assert (He : 1 <= eff d mark <= length d).
  { unfold eff. destruct (Nat.eqb_spec mark 0); cbn [andb]; [destruct (Nat.ltb_spec 0 (length d))|]; lia. }
  assert (Hmk : mark = eff d mark \/ mark = 0 /\ eff d mark = 1).
  { unfold eff. destruct (Nat.eqb_spec mark 0); cbn [andb]; [destruct (Nat.ltb_spec 0 (length d))|]; lia. }
  assert (P := reheap_after d (eff d mark) mark (back d) d1 c1 Hd He Hmk eq_refl R).
  cbn zeta in P. cbn [fst snd]. exact P.
Qed.
