(* C12: executable sequential model of the split-ordered list behind tbb::concurrent_unordered_{map,set,multimap,multiset}
   (include/oneapi/tbb/detail/_concurrent_unordered_base.h): one list sorted by order key (bit-reversed hash; dummy
   nodes per initialised bucket have the low bit clear, value nodes have it set), lazily initialised buckets with
   recursive parent initialisation, table doubling by load factor.  hash(k) = k (the harness uses that hasher).
   A node is (order key, key) with key = -1 for a dummy node. *)
From OTV Require Import Lib.Tac.
Local Open Scope Z_scope.

(* reverse the low n bits of h: bit 0 goes to bit n-1 *)
Fixpoint revn (n : nat) (h : Z) : Z :=
  match n with
  | O => 0
  | S n' => (h mod 2) * 2 ^ Z.of_nat n' + revn n' (h / 2)
  end.
Definition rev64 (h : Z) : Z := revn 64 (h mod 2 ^ 64).
Definition oreg (h : Z) : Z := let r := rev64 h in if Z.even r then r + 1 else r.       (* reverse_bits(h) | 1 *)
Definition odummy (b : Z) : Z := let r := rev64 b in if Z.even r then r else r - 1.     (* reverse_bits(b) & ~1 *)
Definition sparent (b : Z) : Z := b - 2 ^ Z.log2 b.                                    (* clear the top bit *)

Record sol := mksol { s_nodes : list (Z * Z); s_inited : list Z; s_bc : Z; s_size : Z }.

Definition is_inited (s : sol) (b : Z) : bool := existsb (Z.eqb b) (s_inited s).

(* insert_dummy_node: skip nodes with a smaller order key; an equal order key means the dummy already exists *)
Fixpoint ins_dummy (l : list (Z * Z)) (ok : Z) : list (Z * Z) :=
  match l with
  | [] => [(ok, -1)]
  | (o, k) :: tl => if o <? ok then (o, k) :: ins_dummy tl ok
                    else if o =? ok then l else (ok, -1) :: l
  end.

Fixpoint init_bucket (fuel : nat) (s : sol) (b : Z) : sol :=
  match fuel with
  | O => s
  | S f =>
      if is_inited s b then s
      else if b =? 0 then mksol (s_nodes s) (0 :: s_inited s) (s_bc s) (s_size s)
      else let s1 := init_bucket f s (sparent b) in
           mksol (ins_dummy (s_nodes s1) (odummy b)) (b :: s_inited s1) (s_bc s1) (s_size s1)
  end.

(* search_after: skip while order key smaller, or equal with another key; found = equal order key and equal key *)
Fixpoint has_key (l : list (Z * Z)) (ok key : Z) : bool :=
  match l with
  | [] => false
  | (o, k) :: tl => if o <? ok then has_key tl ok key
                    else if o =? ok then (if k =? key then true else has_key tl ok key) else false
  end.
Fixpoint ins_value (multi : bool) (l : list (Z * Z)) (ok key : Z) : list (Z * Z) :=
  match l with
  | [] => [(ok, key)]
  | (o, k) :: tl => if o <? ok then (o, k) :: ins_value multi tl ok key
                    else if (o =? ok) && negb (k =? key) then (o, k) :: ins_value multi tl ok key
                    else (ok, key) :: l
  end.

Definition s_fuel : nat := 70.

Definition sol_insert (multi : bool) (s : sol) (key : Z) : sol * Z :=
  let b := key mod s_bc s in
  let s1 := init_bucket s_fuel s b in
  let ok := oreg key in
  if negb multi && has_key (s_nodes s1) ok key then (s1, 0)
  else
    let sz := s_size s1 + 1 in
    let bc := if sz >? 4 * s_bc s1 then 2 * s_bc s1 else s_bc s1 in       (* float(sz)/float(bc) > 4.0f, exact below 2^24 *)
    (mksol (ins_value multi (s_nodes s1) ok key) (s_inited s1) bc sz, 1).

Definition sol_find (s : sol) (key : Z) : sol * Z :=
  let b := key mod s_bc s in
  let s1 := init_bucket s_fuel s b in
  (s1, if has_key (s_nodes s1) (oreg key) key then 1 else 0).

Definition sol_init (bc : Z) : sol := mksol [(0, -1)] [] bc 0.

(* ---- flat interface: multi, initial bucket count, then (op key)*: 1 insert | 3 find | 9 dump.
   dump = bucket count, size, number of nodes, then (order key, key) per node (dummy nodes = initialised buckets) ---- *)
Definition sol_dump (s : sol) : list Z :=
  s_bc s :: s_size s :: Z.of_nat (length (s_nodes s)) :: flat_map (fun n => [fst n; snd n]) (s_nodes s).

Fixpoint run_sol_go (fuel : nat) (multi : bool) (l : list Z) (s : sol) : list Z :=
  match fuel with
  | O => []
  | S f =>
    match l with
    | c :: k :: tl =>
        if c =? 9 then sol_dump s ++ run_sol_go f multi tl s
        else let '(s', r) := if c =? 1 then sol_insert multi s k else sol_find s k in
             r :: run_sol_go f multi tl s'
    | _ => []
    end
  end.
Definition run_sol (l : list Z) : list Z :=
  match l with
  | m :: bc :: tl => run_sol_go (length tl) (m =? 1) tl (sol_init bc)
  | _ => []
  end.
