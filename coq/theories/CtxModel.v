(* C04: executable model of task_group_context cancellation propagation and binding
   (src/tbb/task_group_context.cpp:113-237 bind_to_impl / cancel_group_execution / propagate_task_group_state,
    src/tbb/cancellation_disseminator.h:38-61, src/tbb/thread_data.h:242-255).
   Granularity: one step = one atomic access, or one block executed under a mutex (the block's mutex is named).
   [same_mutex] selects the protocol: false = the propagator holds only my_threads_list_mutex while the
   binder's fall-back takes the_context_state_propagation_mutex (the code as found); true = the propagator also
   holds the_context_state_propagation_mutex (the repaired code).  A second switch, [raise_only], selects the repair of the second defect (below). *)
From OTV Require Import Lib.Tac Lib.Conc.
Local Open Scope Z_scope.

(* static shape of a scenario: for every context its parent (-1 = none / isolated root) and the thread list it
   is (or will be) registered in *)
Record ctxinfo := mkci { ci_parent : Z; ci_list : Z }.

Record shared := mkG {
  g_cancel : list Z;            (* my_cancellation_requested per context *)
  g_mhc : list bool;            (* my_may_have_children *)
  g_reg : list bool;            (* registered in its thread's context list *)
  g_lepoch : list Z;            (* per thread list: epoch *)
  g_epoch : Z;                  (* the_context_state_propagation_epoch *)
  g_tl_mutex : bool;            (* my_threads_list_mutex held *)
  g_b_mutex : bool }.           (* the_context_state_propagation_mutex held *)

Definition getz (l : list Z) (i : Z) : Z := nth (Z.to_nat i) l 0.
Definition getb (l : list bool) (i : Z) : bool := nth (Z.to_nat i) l false.
Fixpoint setl {A} (l : list A) (i : nat) (v : A) : list A :=
  match l, i with [], _ => [] | _ :: tl, O => v :: tl | x :: tl, S j => x :: setl tl j v end.

Section Scenario.
Variable same_mutex : bool.
(* [raise_only]: in the branch for a parent without a parent (bind_to_impl's else branch) the parent's flag is copied only when it is set
   (the repaired code); false = the unconditional load-then-store as found, which can overwrite a flag the propagation has just set *)
Variable raise_only : bool.
Variable infos : list ctxinfo.
Definition parent (c : Z) : Z := ci_parent (nth (Z.to_nat c) infos (mkci (-1) 0)).
Definition list_of (c : Z) : Z := ci_list (nth (Z.to_nat c) infos (mkci (-1) 0)).

(* is [src] a proper ancestor of [c]? (fuel = number of contexts) *)
Fixpoint has_ancestor (fuel : nat) (c src : Z) : bool :=
  match fuel with
  | O => false
  | S f => let p := parent c in if p <? 0 then false else if p =? src then true else has_ancestor f p src
  end.
(* mark c and its ancestors below src *)
Fixpoint mark_path (fuel : nat) (cancel : list Z) (c src : Z) : list Z :=
  match fuel with
  | O => cancel
  | S f => if c =? src then cancel else mark_path f (setl cancel (Z.to_nat c) 1) (parent c) src
  end.
(* thread_data::propagate_task_group_state for one thread list (under that list's mutex) *)
Definition scan_list (g : shared) (k src : Z) : shared :=
  let n := length infos in
  let cancel' := fold_left (fun cn c =>
      let c := Z.of_nat c in
      if (list_of c =? k) && getb (g_reg g) c && negb (getz cn c =? 1) && negb (c =? src) && has_ancestor n c src
      then mark_path n cn c src else cn) (seq 0 n) (g_cancel g) in
  mkG cancel' (g_mhc g) (g_reg g) (setl (g_lepoch g) (Z.to_nat k) (g_epoch g)) (g_epoch g) (g_tl_mutex g) (g_b_mutex g).

(* thread programs *)
Inductive pc :=
| CDone
(* cancel_group_execution(src) *)
| CXchg (src : Z) | CMhc (src : Z) | CLockTL (src : Z) | CLockB (src : Z) | CRecheck (src : Z) | CBump (src : Z)
| CScan (src : Z) (k : Z) | CUnlock (src : Z)
(* bind_to_impl(c) *)
| BMhc (c : Z) | BSnap (c : Z) | BLoadP (c : Z) (snap : Z) | BStore (c : Z) (snap v : Z) | BReg (c : Z) (snap : Z)
| BLoadG (c : Z) (snap : Z) | BFallLock (c : Z) | BFallLoad (c : Z) | BFallStore (c : Z) (v : Z) 
| BRegRoot (c : Z) | BRootLoad (c : Z) | BRootStore (c : Z) (v : Z).

Record loc := mkL { l_pc : pc; l_todo : list Z; l_won : list Z }.   (* todo: 0 c = cancel(c) | 1 c = bind(c) *)

Definition nlists : Z := Z.of_nat (length infos).   (* upper bound on thread-list ids *)

Definition set_cancel (g : shared) (c v : Z) : shared :=
  mkG (setl (g_cancel g) (Z.to_nat c) v) (g_mhc g) (g_reg g) (g_lepoch g) (g_epoch g) (g_tl_mutex g) (g_b_mutex g).

Definition next_op (l : loc) : loc :=
  match l_todo l with
  | 0 :: c :: tl => mkL (CXchg c) tl (l_won l)
  | 1 :: c :: tl => mkL (BMhc c) tl (l_won l)
  | _ => mkL CDone [] (l_won l)
  end.

(* one step; None = blocked (mutex) or finished *)
Definition cstep (tid : nat) (g : shared) (l : loc) : option (shared * loc * list Z) :=
  let goto p := mkL p (l_todo l) (l_won l) in
  match l_pc l with
  | CDone => match l_todo l with [] => None | _ => Some (g, next_op l, []) end
  | CXchg src =>
      if getz (g_cancel g) src =? 1 then Some (g, next_op l, [Z.of_nat tid; 0; src; 0])
      else Some (set_cancel g src 1, mkL (CMhc src) (l_todo l) (src :: l_won l), [Z.of_nat tid; 0; src; 1])
  | CMhc src => if getb (g_mhc g) src then Some (g, goto (CLockTL src), []) else Some (g, next_op l, [])
  | CLockTL src =>
      if g_tl_mutex g then None
      else Some (mkG (g_cancel g) (g_mhc g) (g_reg g) (g_lepoch g) (g_epoch g) true (g_b_mutex g),
                 goto (if same_mutex then CLockB src else CRecheck src), [])
  | CLockB src =>
      if g_b_mutex g then None
      else Some (mkG (g_cancel g) (g_mhc g) (g_reg g) (g_lepoch g) (g_epoch g) (g_tl_mutex g) true, goto (CRecheck src), [])
  | CRecheck src => if getz (g_cancel g) src =? 1 then Some (g, goto (CBump src), []) else Some (g, goto (CUnlock src), [])
  | CBump src =>
      Some (mkG (g_cancel g) (g_mhc g) (g_reg g) (g_lepoch g) (g_epoch g + 1) (g_tl_mutex g) (g_b_mutex g), goto (CScan src 0), [])
  | CScan src k =>
      if nlists <=? k then Some (g, goto (CUnlock src), [])
      else Some (scan_list g k src, goto (CScan src (k + 1)), [])
  | CUnlock src =>
      Some (mkG (g_cancel g) (g_mhc g) (g_reg g) (g_lepoch g) (g_epoch g) false (if same_mutex then false else g_b_mutex g),
            next_op l, [])
  | BMhc c =>
      let p := parent c in
      let g' := mkG (g_cancel g) (setl (g_mhc g) (Z.to_nat p) true) (g_reg g) (g_lepoch g) (g_epoch g) (g_tl_mutex g) (g_b_mutex g) in
      if parent p <? 0 then Some (g', goto (BRegRoot c), []) else Some (g', goto (BSnap c), [])
  | BSnap c => Some (g, goto (BLoadP c (getz (g_lepoch g) (list_of (parent c)))), [])
  | BLoadP c s => Some (g, goto (BStore c s (getz (g_cancel g) (parent c))), [])
  | BStore c s v => Some (set_cancel g c v, goto (BReg c s), [])
  | BReg c s =>
      Some (mkG (g_cancel g) (g_mhc g) (setl (g_reg g) (Z.to_nat c) true) (g_lepoch g) (g_epoch g) (g_tl_mutex g) (g_b_mutex g),
            goto (BLoadG c s), [])
  | BLoadG c s => if s =? g_epoch g then Some (g, next_op l, []) else Some (g, goto (BFallLock c), [])
  | BFallLock c =>
      if g_b_mutex g then None
      else Some (mkG (g_cancel g) (g_mhc g) (g_reg g) (g_lepoch g) (g_epoch g) (g_tl_mutex g) true, goto (BFallLoad c), [])
  | BFallLoad c => Some (g, goto (BFallStore c (getz (g_cancel g) (parent c))), [])
  | BFallStore c v =>
      Some (mkG (setl (g_cancel g) (Z.to_nat c) v) (g_mhc g) (g_reg g) (g_lepoch g) (g_epoch g) (g_tl_mutex g) false, next_op l, [])
  | BRegRoot c =>
      Some (mkG (g_cancel g) (g_mhc g) (setl (g_reg g) (Z.to_nat c) true) (g_lepoch g) (g_epoch g) (g_tl_mutex g) (g_b_mutex g),
            goto (BRootLoad c), [])
  | BRootLoad c => Some (g, goto (BRootStore c (getz (g_cancel g) (parent c))), [])
  | BRootStore c v => Some ((if raise_only && negb (v =? 1) then g else set_cancel g c v), next_op l, [])
  end.

(* initial state: contexts listed in [pre] are already bound/registered (with may_have_children of their parents set) *)
Definition init_shared (pre : list Z) : shared :=
  let n := length infos in
  mkG (repeat 0 n)
      (map (fun c => existsb (fun d => parent d =? Z.of_nat c) pre) (seq 0 n))
      (map (fun c => existsb (Z.eqb (Z.of_nat c)) pre) (seq 0 n))
      (repeat 0 n) 0 false false.

(* the property at quiescence: every registered context below a context whose cancel call won is cancelled *)
Definition reaches_ok (g : shared) (won : list Z) : bool :=
  let n := length infos in
  forallb (fun c => let c := Z.of_nat c in
     negb (getb (g_reg g) c) || (getz (g_cancel g) c =? 1) ||
     negb (existsb (fun a => has_ancestor n c a) won)) (seq 0 n).
(* ... and nothing else: a cancelled context is a winner or has a winner among its ancestors *)
Definition no_spurious_ok (g : shared) (won : list Z) : bool :=
  let n := length infos in
  forallb (fun c => let c := Z.of_nat c in
     negb (getz (g_cancel g) c =? 1) || existsb (Z.eqb c) won || existsb (fun a => has_ancestor n c a) won) (seq 0 n).
End Scenario.

(* run a schedule, then complete round-robin; returns (quiescent?, reaches_ok, no_spurious_ok) *)
Definition run_ctx (same_mutex raise_only : bool) (infos : list ctxinfo) (pre : list Z) (progs : list (list Z)) (sched : list nat)
  : bool * bool * bool :=
  let c0 := (init_shared infos pre, map (fun p => mkL CDone p []) progs) in
  let '(c1, _) := run (cstep same_mutex raise_only infos) c0 sched in
  let '(c2, _, ok) := finish (cstep same_mutex raise_only infos) 400 c1 400 in
  let won := flat_map l_won (snd c2) in
  (ok, reaches_ok infos (fst c2) won, no_spurious_ok infos (fst c2) won).

(* all interleavings of given length over [nthreads] threads *)
Fixpoint all_scheds (nthreads len : nat) : list (list nat) :=
  match len with
  | O => [[]]
  | S k => flat_map (fun s => map (fun t => t :: s) (seq 0 nthreads)) (all_scheds nthreads k)
  end.
