(* C18 — tbbmalloc fails cleanly.  Property theorems only; proofs live in MallocProofs.v. *)
From OTV Require Import Lib.Tac Params MallocModel MallocProofs.
Local Open Scope Z_scope.

(* scalable_calloc refuses exactly the requests whose nobj*size does not fit in size_t. *)
Theorem calloc_guard_exact : forall nobj size,
  0 <= nobj < W64 -> 0 <= size < W64 ->
  (calloc_refuses nobj size = true <-> W64 <= nobj * size).
Proof. exact calloc_guard_exact_proof. Qed.
Print Assumptions calloc_guard_exact.

(* getFromLLOCache: for every size < 2^64 and every power-of-two alignment up to 2^63, a request that passes the
   `allocationSize < size` test was computed without wrap-around in size+headers+alignment and in alignToBin,
   so no wrapped size ever reaches the backend. *)
Theorem large_guard_complete : forall size e a,
  1 <= size < W64 -> 0 <= e <= 63 ->
  llo_alloc_size size (2 ^ e) = Some a ->
  size + mal_headersSize + 2 ^ e < W64 /\ size + mal_headersSize + 2 ^ e <= a < W64.
Proof. exact llo_guard_complete_proof. Qed.
Print Assumptions large_guard_complete.

(* Backend::remap (scalable_realloc of a region-sized block): with the test `alignedSize < newSize`, an accepted
   region request was computed without wrap-around in newSize+userOffset, in alignToBin, in the header sum and in
   the rounding to the page granularity. *)
Theorem remap_guard_complete : forall new_size off hdr last g req,
  1 <= new_size < W64 -> 0 <= off <= 2 ^ 32 -> 0 <= hdr <= 4096 -> 0 <= last <= 4096 -> 12 <= g <= 30 ->
  remap_request true off new_size hdr last (2 ^ g) = Some req ->
  new_size + off < W64 /\ new_size + off <= align_to_bin (w64 (new_size + off)) /\
  hdr + align_to_bin (w64 (new_size + off)) + last <= req < W64.
Proof. exact remap_guard_complete_proof. Qed.
Print Assumptions remap_guard_complete.

(* ... and without that test the property is violated (the defect repaired by the fix: commit): a request near
   SIZE_MAX is accepted with a region smaller than the requested size. *)
Theorem remap_old_check_refuted :
  exists off new_size req, 1 <= new_size < W64 /\ W64 <= new_size + off /\
    remap_request false off new_size 64 64 4096 = Some req /\ req < new_size.
Proof. exact remap_old_check_refuted_proof. Qed.
Print Assumptions remap_old_check_refuted.

(* tbb::cache_aligned_resource::allocate: with the representability test (added by a fix: commit) the request forwarded to the upstream
   resource is the true sum bytes + max(alignment, cache line): it has room for the payload, the alignment slack and the header word ... *)
Theorem cache_aligned_resource_guard_complete : forall bytes al cls s,
  0 <= bytes < W64 -> 8 <= cls <= 4096 -> 1 <= al < 2 ^ 63 ->
  car_request true bytes al cls = Some s ->
  s = Z.max bytes 8 + Z.max al cls /\ s < W64 /\ bytes + 8 <= s.
Proof. exact car_guard_complete_proof. Qed.
Print Assumptions cache_aligned_resource_guard_complete.

(* ... and without it (the code as found) a request near SIZE_MAX reaches the upstream resource as a tiny one and "succeeds". *)
Theorem cache_aligned_resource_unguarded_refuted :
  exists bytes s, 0 <= bytes < W64 /\ car_request false bytes 64 64 = Some s /\ s < bytes.
Proof. exact car_no_guard_refuted_proof. Qed.
Print Assumptions cache_aligned_resource_unguarded_refuted.

Example guard_example :
  llo_alloc_size (2 ^ 64 - 1) 64 = None /\ llo_alloc_size (2 ^ 63) (2 ^ 63) = None /\
  llo_alloc_size 100000 64 = Some 106496 /\ calloc_refuses (2 ^ 32) (2 ^ 32) = true /\ calloc_refuses 3 5 = false.
Proof. vm_compute. repeat split; reflexivity. Qed.
