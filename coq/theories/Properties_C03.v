(* C03 — a task's exception surfaces exactly once at the wait.  Property theorems only; proofs live in ExcProofs.v. *)
From OTV Require Import Lib.Tac Lib.Conc ExcModel ExcProofs.
Local Open Scope Z_scope.

(* For ANY number of tasks in the group, ANY subset of throwing bodies and ANY interleaving of the dispatch loops:
   when the waiting call has left its wait (about to rethrow / return, or already reset) with result r
   (0 = no exception, t+1 = the exception of task t):
   (1) every task of the group has finished or was skipped — no body is running or can still start;
   (2) if r <> 0 then task r-1 is a throwing task of this group that actually ran and threw;
   (3) if any body threw, r <> 0 — the exception is not swallowed;
   (4) after the reset the group is reusable: not cancelled, no stored exception, no outstanding reference. *)
Theorem exception_surfaces_once_after_the_group_stopped : forall throws c lw r,
  reach estep (einit throws) c ->
  nth_error (snd c) (length throws) = Some lw -> (e_pc lw = WReset r \/ e_pc lw = WDone r) ->
  (forall i l, nth_error (snd c) i = Some l -> (i < length throws)%nat -> e_pc l = TDone) /\
  (r <> 0 -> exists l, nth_error (snd c) (Z.to_nat (r - 1)) = Some l /\ 1 <= r <= Z.of_nat (length throws) /\
                       e_thrown l = true /\ e_throws l = true /\ e_ran l = true) /\
  ((exists i l, nth_error (snd c) i = Some l /\ e_thrown l = true) -> r <> 0) /\
  (e_pc lw = WDone r -> e_cancel (fst c) = 0 /\ e_exc (fst c) = 0 /\ e_refs (fst c) = 0).
Proof.
  intros throws c lw r Hr Hw Hp.
  destruct (ereach_inv throws c Hr) as (I1 & I2 & I3 & I4).
  assert (Hwpc : wpc (snd c) (length throws) = e_pc lw) by (unfold wpc; rewrite Hw; reflexivity).
  rewrite Hwpc in I4.
  assert (X : (forall i l, nth_error (snd c) i = Some l -> (i < length throws)%nat -> e_pc l = TDone) /\
              (r <> 0 -> exists l, nth_error (snd c) (Z.to_nat (r - 1)) = Some l /\ 1 <= r <= Z.of_nat (length throws) /\ e_thrown l = true) /\
              ((exists i l, nth_error (snd c) i = Some l /\ e_thrown l = true) -> r <> 0) /\
              e_refs (fst c) = 0 /\ (e_pc lw = WDone r -> e_cancel (fst c) = 0 /\ e_exc (fst c) = 0)).
  { destruct Hp as [Hp|Hp]; rewrite Hp in I4; destruct I4 as (A & B & C & D & E); repeat split; auto; try (intros; discriminate); try (apply E); try (intros; congruence). }
  destruct X as (A & B & C & D & E). split; [auto|]. split; [|split; [auto|]].
  - intros Hne. destruct (B Hne) as (l & Hl & Hrange & Hth). exists l. destruct (I3 _ _ Hl) as [Lth _]. destruct (Lth Hth). auto.
  - intros Hd. destruct (E Hd). auto.
Qed.
Print Assumptions exception_surfaces_once_after_the_group_stopped.

(* while the wait is pending at most one exception is held for the group: at most one catcher has won the right to store
   its exception, and a stored exception excludes a pending winner (my_exception is written once per round) *)
Theorem at_most_one_exception_captured : forall throws c lw,
  reach estep (einit throws) c ->
  nth_error (snd c) (length throws) = Some lw -> e_pc lw = WWait ->
  Z.of_nat (count pend (snd c)) + b2z (negb (e_exc (fst c) =? 0)) = e_cancel (fst c) /\ (e_cancel (fst c) = 0 \/ e_cancel (fst c) = 1) /\
  e_refs (fst c) = Z.of_nat (count nd (snd c)).
Proof.
  intros throws c lw Hr Hw Hp. destruct (ereach_inv throws c Hr) as (I1 & I2 & I3 & I4).
  assert (Hwpc : wpc (snd c) (length throws) = WWait) by (unfold wpc; rewrite Hw; auto).
  rewrite Hwpc in I4. destruct I4 as (A & B & C & _). auto.
Qed.
Print Assumptions at_most_one_exception_captured.

Theorem exc_run_is_reachable : forall throws sched c evs,
  run estep (einit throws) sched = (c, evs) -> reach estep (einit throws) c.
Proof. intros. eapply run_reach; eauto. Qed.
Print Assumptions exc_run_is_reachable.

(* non-vacuity: three tasks, two of them throw; the second catcher loses; the wait rethrows the first one's exception *)
Example exc_example :
  run_exc [3; 1; 0; 1; -1;  0; 0; 2; 2; 2; 0; 2; 0; 1; 3] =
  [0;1;0; 0;4;0; 2;1;0; 2;4;0; 2;5;1; 0;5;0; 2;6;3; 0;7;0; 1;2;0; 3;0;0; 2;7;0; 3;8;3; 3;9;0; -7; 3].
Proof. vm_compute. reflexivity. Qed.
