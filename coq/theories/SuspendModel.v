(* C20: the three-state handshake between a task that suspends and whoever resumes it
   (src/tbb/scheduler_common.h:398-412 finilize_resume / try_notify_resume, src/tbb/task.cpp:47-73 r1::resume).
   m_stack_state in {active, suspended, notified}; both sides use exchange().  One step = one exchange. *)
From OTV Require Import Lib.Tac Lib.Conc.
Local Open Scope Z_scope.

Definition ACTIVE := 0. Definition SUSPENDED := 1. Definition NOTIFIED := 2.

(* shared: the state word of one suspend point, the number of resume tasks pushed for it, and whether the
   suspending thread has already left the stack (ghost: set by its exchange) *)
Record sshared := mkS { s_state : Z; s_pushed : Z; s_left : bool; s_pushed_before_left : bool }.

Inductive spc :=
| SLeave        (* suspender, after the stack switch: prev.exchange(suspended) *)
| SSelfResume   (* suspender saw `notified`: it calls r1::resume(prev) itself -> exchange(notified) *)
| RNotify       (* resumer: r1::resume(sp) -> try_notify_resume: exchange(notified) *)
| SDone.

Definition push_if_suspended (g : sshared) (old : Z) : sshared :=
  if old =? SUSPENDED
  then mkS NOTIFIED (s_pushed g + 1) (s_left g) (s_pushed_before_left g || negb (s_left g))
  else mkS NOTIFIED (s_pushed g) (s_left g) (s_pushed_before_left g).

Definition sstep (tid : nat) (g : sshared) (l : spc) : option (sshared * spc * list Z) :=
  match l with
  | SLeave =>
      let old := s_state g in
      Some (mkS SUSPENDED (s_pushed g) true (s_pushed_before_left g), if old =? NOTIFIED then SSelfResume else SDone, [Z.of_nat tid; 1; old])
  | SSelfResume => Some (push_if_suspended g (s_state g), SDone, [Z.of_nat tid; 2; s_state g])
  | RNotify => Some (push_if_suspended g (s_state g), SDone, [Z.of_nat tid; 3; s_state g])
  | SDone => None
  end.

Definition sinit : sshared * list spc := (mkS ACTIVE 0 false false, [SLeave; RNotify]).

(* flat interface: schedule of thread ids (0 = suspender, 1 = resumer) -> events, then pushed count *)
Definition run_suspend (l : list Z) : list Z :=
  let '(c1, e1) := run sstep sinit (map Z.to_nat l) in
  let '(c2, e2, _) := finish sstep 10 c1 10 in
  e1 ++ e2 ++ [s_pushed (fst c2)].

(* Trace conformance: the accesses to one suspend point's m_stack_state, in the order they really happened (logged under a lock by
   harness/gate/tracelog.h), replayed on the model.  Event = (code, observed old value):
   1 = exchange(suspended) by the thread that left the stack | 2 = exchange(notified) (r1::resume: by a resumer, or by the leaver itself
   after it saw `notified`) | 3 = store(active): the stack runs again — the round is over and exactly one resume task must have been pushed |
   4 = store(notified) (recall_owner: the resume task of a thread's own stack was taken by another thread; allowed once the task was pushed).
   Result: index of the first event that does not conform (-1 = all conform), number of complete rounds. *)
Fixpoint sconf (c : sshared * list spc) (evs : list (Z * Z)) (idx rounds : Z) : Z * Z :=
  match evs with
  | [] => (-1, rounds)
  | (code, before) :: tl =>
      let g := fst c in
      if code =? 1 then
        match nth_error (snd c) 0 with
        | Some SLeave => if s_state g =? before then match step_at sstep c 0 with Some (c', _) => sconf c' tl (idx + 1) rounds | None => (idx, rounds) end
                         else (idx, rounds)
        | _ => (idx, rounds)
        end
      else if code =? 2 then
        if negb (s_state g =? before) then (idx, rounds)
        else match nth_error (snd c) 0 with
             | Some SSelfResume => match step_at sstep c 0 with Some (c', _) => sconf c' tl (idx + 1) rounds | None => (idx, rounds) end
             | _ => match nth_error (snd c) 1 with
                    | Some RNotify => match step_at sstep c 1 with Some (c', _) => sconf c' tl (idx + 1) rounds | None => (idx, rounds) end
                    | _ => (idx, rounds)
                    end
             end
      else if code =? 3 then
        match snd c with
        | [SDone; SDone] => if (s_pushed g =? 1) && (s_state g =? NOTIFIED) && negb (s_pushed_before_left g) then sconf sinit tl (idx + 1) (rounds + 1) else (idx, rounds)
        | _ => (idx, rounds)
        end
      else if code =? 4 then
        if (s_pushed g =? 1) && (s_state g =? NOTIFIED) && (before =? NOTIFIED) then sconf c tl (idx + 1) rounds else (idx, rounds)
      else (idx, rounds)
  end.
Fixpoint zpairs (l : list Z) : list (Z * Z) := match l with a :: b :: tl => (a, b) :: zpairs tl | _ => [] end.
Definition run_suspconf (l : list Z) : list Z := let '(i, r) := sconf sinit (zpairs l) 0 0 in [i; r].
