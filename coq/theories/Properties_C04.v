(* C04 — cancellation propagation.  Property theorems only; proofs live in CtxProofs.v. *)
From OTV Require Import Lib.Tac Lib.Conc CtxModel CtxProofs.
Local Open Scope Z_scope.

(* The protocol as found (propagator under my_threads_list_mutex only, binder's fall-back under
   the_context_state_propagation_mutex) violates "every context bound beneath a cancelled context is cancelled":
   an explicit interleaving of one cancel call and one binding, after which everything is quiescent, the child
   is registered beneath the cancelled root and is not cancelled.  (Replayed on the real library by the check.) *)
Theorem cancel_reaches_descendants_refuted_for_two_mutexes :
  run_ctx false false bad_infos [0; 1] [[0; 0]; [1; 2]] bad_sched = (true, false, true).
Proof. exact two_mutex_protocol_refuted_proof. Qed.
Print Assumptions cancel_reaches_descendants_refuted_for_two_mutexes.

(* With the propagator also holding the binder's mutex (the repair) the same interleaving is fine ... *)
Theorem same_mutex_repairs_the_witness :
  run_ctx true true bad_infos [0; 1] [[0; 0]; [1; 2]] bad_sched = (true, true, true).
Proof. exact same_mutex_protocol_same_schedule. Qed.
Print Assumptions same_mutex_repairs_the_witness.

(* ... and so is EVERY interleaving of these small configurations (finite statements, closed by exhaustive
   evaluation inside Coq: 2 x 16384 schedules of length 14 for the 3-context chain in both list orders, 19683
   schedules of length 9 for a 4-context tree with two binders; each completed round-robin to quiescence):
   quiescence is reached, every bound descendant of a cancelled context is cancelled, nothing else is.
   This is a bounded result about these configurations, not the general theorem (see DESIGN.md, C04 partial). *)
Theorem cancel_reaches_descendants_same_mutex_small :
  explore true true bad_infos [0; 1] [[0; 0]; [1; 2]] 2 14 = true /\
  explore true true sc_infos [0; 1] [[0; 0]; [1; 2]] 2 14 = true.
Proof. exact same_mutex_all_schedules_small. Qed.
Print Assumptions cancel_reaches_descendants_same_mutex_small.

Theorem cancel_reaches_descendants_same_mutex_tree4 :
  explore true true tree4 [0; 1] [[0; 0]; [1; 2]; [1; 3]] 3 9 = true.
Proof. exact same_mutex_all_schedules_tree4. Qed.
Print Assumptions cancel_reaches_descendants_same_mutex_tree4.

(* EXHAUSTIVE over all interleavings (checked closed sets, Lib/Explore.v) of six scenarios of the repaired protocol — the witness'
   shape, the other list order, a three-level tree with two binders, cancels at two levels racing with a bind, one and two contexts
   bound beneath a parent-less context that is being cancelled: at quiescence every
   registered context beneath a context whose cancel call won is cancelled and nothing else is; before quiescence some thread
   can always step (no deadlock on the two mutexes).  The protocol as found fails the same check (two_mutexes_fail_exploration). *)
From OTV Require Import Lib.Explore CtxExplore.
Theorem cancel_reaches_descendants_all_interleavings : forall s c,
  In s ctx_scenarios -> reach (cstep true true (s_infos s)) (s_init s) c -> ctx_good true true (s_infos s) c = true.
Proof. exact ctx_all_interleavings. Qed.
Print Assumptions cancel_reaches_descendants_all_interleavings.

Theorem protocol_as_found_fails_exploration :
  explore_all (cstep false false (s_infos S_witness)) ccfg_dec (ctx_good false false (s_infos S_witness)) (s_init S_witness) 60000 = false.
Proof. exact two_mutexes_fail_exploration. Qed.
Print Assumptions protocol_as_found_fails_exploration.

(* Second defect (found while preparing the general proof): in bind_to_impl's branch for a parent WITHOUT a parent (an isolated / root context)
   the new context registers itself and then copies the parent's flag with a load followed by a store.  A cancellation of the parent
   that propagates between the two marks the new context and is then overwritten by the stale 0: quiescent, bound beneath the
   cancelled context, not cancelled.  Explicit interleaving (replayed on the real library, with delays injected before the accesses
   to the child's flag, by the check's ctx-root scenario): *)
Theorem cancel_misses_child_of_parentless_context_refuted :
  run_ctx true false root_infos [0] [[1; 1]; [0; 0]] root_bad_sched = (true, false, true).
Proof. exact root_copy_refuted_proof. Qed.
Print Assumptions cancel_misses_child_of_parentless_context_refuted.

(* the repair (copy the parent's flag only when it is set) survives that interleaving, and every other one (S_root_child, S_root_two above) *)
Theorem raise_only_repairs_the_witness :
  run_ctx true true root_infos [0] [[1; 1]; [0; 0]] root_bad_sched = (true, true, true).
Proof. exact root_copy_raise_only_same_schedule. Qed.
Print Assumptions raise_only_repairs_the_witness.

Theorem unconditional_copy_fails_exploration :
  explore_all (cstep true false (s_infos S_root_child)) ccfg_dec (ctx_good true false (s_infos S_root_child)) (s_init S_root_child) 60000 = false.
Proof. exact root_copy_fails_exploration. Qed.
Print Assumptions unconditional_copy_fails_exploration.
