(* C19: invariant of the thread-id table model for any number of threads, any number of accesses per thread and any interleaving:
   no array is filled above one half (so every probe of table_lookup ends at an empty slot), every thread creates at most one
   element and finds it again, nobody ever blocks. *)
From OTV Require Import Lib.Tac Lib.Conc EtsModel.
Local Open Scope nat_scope.

(* ---------- lists ---------- *)
Lemma getn_setn' l : forall i j v, i < length l -> getn (setn' l i v) j = if Nat.eqb j i then v else getn l j.
Proof.
  unfold getn. induction l as [|x l IH]; intros [|i] [|j] v H; cbn in *; try lia; auto.
  rewrite IH by lia. auto.
Qed.
Lemma setn'_length l : forall i v, length (setn' l i v) = length l.
Proof. induction l as [|x l IH]; intros [|i] v; cbn; auto. Qed.
Lemma add_key_length l : forall k t, length (add_key l k t) = length l.
Proof. induction l as [|x l IH]; intros [|k] t; cbn; auto. Qed.
Lemma nth_add_key_same l : forall k t a, nth_error l k = Some a -> nth_error (add_key l k t) k = Some (mkarr (a_lg a) (t :: a_keys a)).
Proof. induction l as [|x l IH]; intros [|k] t a H; cbn in *; try discriminate; [inversion H; auto|eauto]. Qed.
Lemma nth_add_key_other l : forall k j t, j <> k -> nth_error (add_key l k t) j = nth_error l j.
Proof. induction l as [|x l IH]; intros [|k] [|j] t H; cbn; auto; try lia. Qed.
Lemma nth_add_key_none l : forall k t, nth_error l k = None -> add_key l k t = l.
Proof. induction l as [|x l IH]; intros [|k] t H; cbn in *; auto; try discriminate. f_equal. auto. Qed.

Lemma nth_last (l : list arr) d : l <> [] -> nth_error l (length l - 1) = Some (last l d).
Proof.
  intros H. destruct (exists_last H) as [l' [a E]]. subst. rewrite last_last, app_length. cbn.
  replace (length l' + 1 - 1) with (length l') by lia. rewrite nth_error_app2 by lia. rewrite Nat.sub_diag. auto.
Qed.

Lemma root_lg_some l lg : root_lg l = Some lg -> exists a, nth_error l (length l - 1) = Some a /\ a_lg a = lg /\ l <> [].
Proof.
  unfold root_lg. destruct l as [|x l0] eqn:E; [discriminate|]. intros H. inversion H; subst.
  exists (last (x :: l0) (mkarr 0 [])). split; [apply nth_last; congruence|]. split; auto. congruence.
Qed.
Lemma root_lg_none l : root_lg l = None -> l = [].
Proof. unfold root_lg. destruct l; [auto|discriminate]. Qed.

(* ---------- grow ---------- *)
Lemma grow_ge : forall f s c, s <= grow f s c.
Proof. induction f as [|f IH]; intros s c; cbn; auto. destruct (c <=? 2 ^ (s - 1)); auto. specialize (IH (S s) c). lia. Qed.
Lemma grow_ok : forall f s c, c <= 2 ^ (s + f - 1) -> c <= 2 ^ (grow f s c - 1).
Proof.
  induction f as [|f IH]; intros s c H; cbn.
  - replace (s + 0 - 1) with (s - 1) in H by lia. auto.
  - destruct (Nat.leb_spec c (2 ^ (s - 1))); auto. apply IH. replace (S s + f - 1) with (s + S f - 1) by lia. auto.
Qed.
Lemma grow_gt : forall f s c, 2 ^ (s - 1) < c -> s < grow (S f) s c.
Proof. intros f s c H. cbn. destruct (Nat.leb_spec c (2 ^ (s - 1))); [lia|]. assert (X := grow_ge f (S s) c). lia. Qed.
Lemma pow_gt_self c s : 1 <= s -> c <= 2 ^ (s + c - 1).
Proof.
  intros H. assert (A := Nat.pow_gt_lin_r 2 c ltac:(lia)).
  assert (B : 2 ^ c <= 2 ^ (s + c - 1)) by (apply Nat.pow_le_mono_r; lia). lia.
Qed.

(* ---------- find_top ---------- *)
Lemma has_key_In t a : has_key t a = true <-> In t (a_keys a).
Proof.
  unfold has_key. rewrite existsb_exists. split.
  - intros [x [H E]]. apply Nat.eqb_eq in E. subst. auto.
  - intros H. exists t. split; auto. apply Nat.eqb_refl.
Qed.
Lemma find_top_none : forall l t pos, find_top l t pos = None -> forall a, In a l -> ~ In t (a_keys a).
Proof.
  induction l as [|x l IH]; intros t pos H a Ha; [destruct Ha|]. cbn in H.
  destruct (find_top l t (S pos)) eqn:E; [discriminate|]. destruct (has_key t x) eqn:Hk; [discriminate|].
  destruct Ha as [<-|Ha]; [|eapply IH; eauto]. intros Hin. apply has_key_In in Hin. congruence.
Qed.
Lemma find_top_some : forall l t pos p, find_top l t pos = Some p ->
  pos <= p /\ (exists a, nth_error l (p - pos) = Some a /\ In t (a_keys a)) /\
  (forall j a, p - pos < j -> nth_error l j = Some a -> ~ In t (a_keys a)).
Proof.
  induction l as [|x l IH]; intros t pos p H; cbn in H; [discriminate|].
  destruct (find_top l t (S pos)) as [q|] eqn:E.
  - inversion H; subst. destruct (IH _ _ _ E) as (A & (a & B & C) & D). split; [lia|]. split.
    + exists a. replace (p - pos) with (S (p - S pos)) by lia. cbn. auto.
    + intros j a0 Hj Hn. destruct j as [|j]; [lia|]. cbn in Hn. apply (D j a0); auto. lia.
  - destruct (has_key t x) eqn:Hk; [|discriminate]. inversion H; subst. rewrite Nat.sub_diag. split; [lia|]. split.
    + exists x. split; auto. apply has_key_In. auto.
    + intros j a0 Hj Hn. destruct j as [|j]; [lia|]. cbn in Hn. eapply find_top_none; eauto. eapply nth_error_In; eauto.
Qed.

(* ---------- the invariant ---------- *)
Definition cn (g : eshared) (t : nat) : nat := getn (e_cnum g) t.
Definition cr (g : eshared) (t : nat) : nat := getn (e_created g) t.
Definition nowhere (t : nat) (arrs : list arr) : Prop := forall k a, nth_error arrs k = Some a -> ~ In t (a_keys a).
Definition above (lo t : nat) (arrs : list arr) : Prop := forall k a, lo <= k -> nth_error arrs k = Some a -> ~ In t (a_keys a).
Definition somewhere (t : nat) (arrs : list arr) : Prop := exists k a, nth_error arrs k = Some a /\ In t (a_keys a).
Definition fits (c : nat) (a : arr) : Prop := c <= 2 ^ (a_lg a - 1).

Definition Pt (g : eshared) (t : nat) (p : epc) : Prop :=
  let arrs := e_arrs g in
  match p with
  | ELookup | EDone => (cn g t = 0 /\ cr g t = 0 /\ nowhere t arrs) \/ (cn g t <> 0 /\ cr g t = 1 /\ somewhere t arrs)
  | EInc => cn g t = 0 /\ cr g t = 1 /\ nowhere t arrs
  | ERead => cn g t <> 0 /\ cr g t = 1 /\ nowhere t arrs
  | ECas s seen => cn g t <> 0 /\ cr g t = 1 /\ nowhere t arrs /\ (1 <= s /\ cn g t <= 2 ^ (s - 1)) /\ seen <= length arrs /\
                   (forall a, 1 <= seen -> nth_error arrs (seen - 1) = Some a -> a_lg a < s)
  | EInsRead lo => cn g t <> 0 /\ cr g t = 1 /\ above lo t arrs /\ lo <= length arrs - 1 /\
                   (exists a, nth_error arrs (length arrs - 1) = Some a /\ fits (cn g t) a)
  | EClaim k lo => cn g t <> 0 /\ cr g t = 1 /\ above lo t arrs /\ lo <= k /\ (exists a, nth_error arrs k = Some a /\ fits (cn g t) a)
  end.

Definition EInv (c : eshared * list eloc) : Prop :=
  let g := fst c in let ls := snd c in let n := length ls in
  (length (e_cnum g) = n /\ length (e_created g) = n) /\
  (forall i j ai aj, i < j -> nth_error (e_arrs g) i = Some ai -> nth_error (e_arrs g) j = Some aj -> a_lg ai < a_lg aj) /\
  ((forall t, cn g t <= e_count g) /\ (forall t u, t <> u -> cn g t <> 0 -> cn g t <> cn g u)) /\
  (forall k a, nth_error (e_arrs g) k = Some a ->
     1 <= a_lg a /\ NoDup (a_keys a) /\ forall t, In t (a_keys a) -> t < n /\ cn g t <> 0 /\ fits (cn g t) a) /\
  (forall t l, nth_error ls t = Some l -> Pt g t (el_pc l)).

(* ---------- frames: what another thread's step leaves intact ---------- *)
Lemma fits_mono c a b : fits c a -> a_lg a <= a_lg b -> fits c b.
Proof. unfold fits. intros H L. assert (2 ^ (a_lg a - 1) <= 2 ^ (a_lg b - 1)) by (apply Nat.pow_le_mono_r; lia). lia. Qed.

(* pushing an empty array at the end *)
Lemma nowhere_push t arrs s : nowhere t arrs -> nowhere t (arrs ++ [mkarr s []]).
Proof.
  intros H k a Hn. destruct (Nat.lt_ge_cases k (length arrs)) as [L|L].
  - rewrite nth_error_app1 in Hn by auto. eauto.
  - rewrite nth_error_app2 in Hn by auto. destruct (k - length arrs) as [|m]; cbn in Hn; [inversion Hn; subst; cbn; auto|destruct m; discriminate].
Qed.
Lemma above_push lo t arrs s : above lo t arrs -> above lo t (arrs ++ [mkarr s []]).
Proof.
  intros H k a Hk Hn. destruct (Nat.lt_ge_cases k (length arrs)) as [L|L].
  - rewrite nth_error_app1 in Hn by auto. eauto.
  - rewrite nth_error_app2 in Hn by auto. destruct (k - length arrs) as [|m]; cbn in Hn; [inversion Hn; subst; cbn; auto|destruct m; discriminate].
Qed.
Lemma somewhere_push t arrs s : somewhere t arrs -> somewhere t (arrs ++ [mkarr s []]).
Proof. intros (k & a & A & B). exists k, a. split; auto. rewrite nth_error_app1; auto. apply nth_error_Some. congruence. Qed.

(* another thread i claims a slot of array k *)
Lemma nowhere_add t i arrs k : t <> i -> nowhere t arrs -> nowhere t (add_key arrs k i).
Proof.
  intros Hne H j a Hn. destruct (Nat.eq_dec j k) as [->|N].
  - destruct (nth_error arrs k) as [a0|] eqn:E.
    + rewrite (nth_add_key_same _ _ _ _ E) in Hn. inversion Hn; subst. cbn. intros [X|X]; [congruence|]. eapply H; eauto.
    + rewrite nth_add_key_none in Hn by auto. congruence.
  - rewrite nth_add_key_other in Hn by auto. eauto.
Qed.
Lemma above_add lo t i arrs k : t <> i -> above lo t arrs -> above lo t (add_key arrs k i).
Proof.
  intros Hne H j a Hj Hn. destruct (Nat.eq_dec j k) as [->|N].
  - destruct (nth_error arrs k) as [a0|] eqn:E.
    + rewrite (nth_add_key_same _ _ _ _ E) in Hn. inversion Hn; subst. cbn. intros [X|X]; [congruence|]. eapply H; eauto.
    + rewrite nth_add_key_none in Hn by auto. congruence.
  - rewrite nth_add_key_other in Hn by auto. eauto.
Qed.
Lemma somewhere_add t i arrs k : somewhere t arrs -> somewhere t (add_key arrs k i).
Proof.
  intros (j & a & A & B). destruct (Nat.eq_dec j k) as [->|N].
  - exists k, (mkarr (a_lg a) (i :: a_keys a)). split; [apply nth_add_key_same; auto|cbn; auto].
  - exists j, a. split; auto. rewrite nth_add_key_other; auto.
Qed.
Lemma lg_add arrs k i j a : nth_error (add_key arrs k i) j = Some a -> exists a0, nth_error arrs j = Some a0 /\ a_lg a0 = a_lg a.
Proof.
  intros Hn. destruct (Nat.eq_dec j k) as [->|N].
  - destruct (nth_error arrs k) as [a0|] eqn:E.
    + rewrite (nth_add_key_same _ _ _ _ E) in Hn. inversion Hn; subst. exists a0. auto.
    + rewrite nth_add_key_none in Hn by auto. congruence.
  - rewrite nth_add_key_other in Hn by auto. eauto.
Qed.
Lemma lg_add' arrs k i j a0 : nth_error arrs j = Some a0 -> exists a, nth_error (add_key arrs k i) j = Some a /\ a_lg a = a_lg a0.
Proof.
  intros Hn. destruct (Nat.eq_dec j k) as [->|N].
  - exists (mkarr (a_lg a0) (i :: a_keys a0)). split; [apply nth_add_key_same; auto|auto].
  - exists a0. rewrite nth_add_key_other; auto.
Qed.

Lemma Pt_frame_vals g g' u p : cn g' u = cn g u -> cr g' u = cr g u -> e_arrs g' = e_arrs g -> Pt g u p -> Pt g' u p.
Proof. intros A B C H. unfold Pt in *. rewrite A, B, C. exact H. Qed.

Lemma Pt_frame_push g g' u p s : cn g' u = cn g u -> cr g' u = cr g u -> e_arrs g' = e_arrs g ++ [mkarr s []] ->
  (forall a, nth_error (e_arrs g) (length (e_arrs g) - 1) = Some a -> a_lg a < s) -> Pt g u p -> Pt g' u p.
Proof.
  intros A B C Hs H. unfold Pt in *. rewrite A, B, C. rewrite app_length. cbn [length].
  destruct p; try (destruct H as [(X & Y & Z)|(X & Y & Z)]; [left|right]; repeat split; auto using nowhere_push, somewhere_push).
  - destruct H as (X & Y & Z). repeat split; auto using nowhere_push.
  - destruct H as (X & Y & Z). repeat split; auto using nowhere_push.
  - destruct H as (X & Y & Z & (W0 & W) & V & U). repeat split; auto using nowhere_push; try lia.
    intros a H1 Hn. rewrite nth_error_app1 in Hn by lia. auto.
  - destruct H as (X & Y & Z & W & (a & Ha & Hf)). repeat split; auto using above_push; try lia.
    exists (mkarr s []). split.
    + rewrite nth_error_app2 by lia. replace (length (e_arrs g) + 1 - 1 - length (e_arrs g)) with 0 by lia. auto.
    + eapply fits_mono; eauto. cbn. specialize (Hs a Ha). lia.
  - destruct H as (X & Y & Z & W & (a & Ha & Hf)). repeat split; auto using above_push.
    exists a. split; auto. rewrite nth_error_app1; auto. apply nth_error_Some. congruence.
Qed.

Lemma Pt_frame_add g g' u p k i : u <> i -> cn g' u = cn g u -> cr g' u = cr g u -> e_arrs g' = add_key (e_arrs g) k i ->
  Pt g u p -> Pt g' u p.
Proof.
  intros Hne A B C H. unfold Pt in *. rewrite A, B, C. rewrite add_key_length.
  destruct p; try (destruct H as [(X & Y & Z)|(X & Y & Z)]; [left|right]; repeat split; auto using nowhere_add, somewhere_add).
  - destruct H as (X & Y & Z). repeat split; auto using nowhere_add.
  - destruct H as (X & Y & Z). repeat split; auto using nowhere_add.
  - destruct H as (X & Y & Z & (W0 & W) & V & U). repeat split; auto using nowhere_add.
    intros a H1 Hn. destruct (lg_add _ _ _ _ _ Hn) as (a0 & P & Q). rewrite <- Q. auto.
  - destruct H as (X & Y & Z & W & (a & Ha & Hf)). repeat split; auto using above_add.
    destruct (lg_add' _ k i _ _ Ha) as (a1 & P & Q). exists a1. split; auto. eapply fits_mono; eauto. lia.
  - destruct H as (X & Y & Z & W & (a & Ha & Hf)). repeat split; auto using above_add.
    destruct (lg_add' _ k i _ _ Ha) as (a1 & P & Q). exists a1. split; auto. eapply fits_mono; eauto. lia.
Qed.

Lemma half_pow lg : 1 <= lg -> 2 ^ lg / 2 = 2 ^ (lg - 1).
Proof. intros H. replace lg with (S (lg - 1)) at 1 by lia. rewrite Nat.pow_succ_r'. rewrite Nat.mul_comm, Nat.div_mul; lia. Qed.

Lemma Pt_done_same g t l : Pt g t (el_pc (finish_access l)) = Pt g t ELookup.
Proof. unfold finish_access. destruct (el_more l); reflexivity. Qed.

Ltac keep4 := split; [auto|]; split; [auto|]; split; [auto|]; split; [auto|].

Lemma EInv_step c i c' ev : EInv c -> step_at estep c i = Some (c', ev) -> EInv c'.
Proof.
  destruct c as [g ls]. intros HI Hs. unfold step_at in Hs. cbn [fst snd] in Hs.
  destruct (nth_error ls i) as [l|] eqn:Hl; [|discriminate].
  destruct (estep i g l) as [[[g' l'] e]|] eqn:Ho; [|discriminate]. inversion Hs; subst; clear Hs.
  destruct HI as ((HL1 & HL2) & HM & (HC1 & HC2) & HK & HP). cbn [fst snd] in *.
  assert (Hi : i < length ls) by (apply nth_error_Some; congruence).
  assert (Pi := HP i l Hl).
  (* the other threads keep their clause whenever the frame conditions hold *)
  assert (Others : forall g2, (forall u, u <> i -> Pt g u (el_pc (match nth_error ls u with Some lu => lu | None => l end)) ->
                                           Pt g2 u (el_pc (match nth_error ls u with Some lu => lu | None => l end))) ->
                   Pt g2 i (el_pc l') -> forall t l0, nth_error (set_nth ls i l') t = Some l0 -> Pt g2 t (el_pc l0)).
  { intros g2 HF Hme t l0 Hn. destruct (Nat.eq_dec t i) as [->|N].
    - rewrite (nth_error_set_nth_eq ls i l' l Hl) in Hn. inversion Hn; subst. auto.
    - rewrite nth_error_set_nth_neq in Hn by auto. specialize (HF t N). rewrite Hn in HF. apply HF. apply HP. auto. }
  unfold EInv. cbn [fst snd]. rewrite set_nth_length.
  destruct l as [pc more]. unfold estep in Ho. cbn [el_pc el_more] in Ho, Pi.
  destruct pc.
  - (* ELookup *)
    destruct (find_top (e_arrs g) i 0) as [d|] eqn:Ef.
    + destruct (find_top_some _ _ _ _ Ef) as (_ & (a & Ha & Hin) & Hab). rewrite Nat.sub_0_r in *.
      destruct (HK d a Ha) as (K1 & K2 & K3). destruct (K3 i Hin) as (_ & Kc & Kf).
      destruct Pi as [(X & _)|(X & Y & Z)]; [congruence|].
      assert (Hd : d < length (e_arrs g)) by (apply nth_error_Some; congruence).
      destruct (Nat.eqb_spec (S d) (length (e_arrs g))) as [E|E]; inversion Ho; subst; clear Ho.
      * keep4. apply Others; [auto|]. rewrite Pt_done_same. right. auto.
      * keep4. apply Others; [auto|]. cbn [el_pc Pt]. split; [auto|]. split; [auto|].
        split; [intros k a0 Hk Hn; apply (Hab k a0); auto; lia|]. split; [lia|].
        assert (Hne : e_arrs g' <> []) by (intros Q; rewrite Q in Hd; cbn in Hd; lia).
        exists (last (e_arrs g') (mkarr 0 [])). assert (Hlast := nth_last (e_arrs g') (mkarr 0 []) Hne). split; auto.
        eapply fits_mono; eauto. assert (d < length (e_arrs g') - 1) by lia. specialize (HM d _ a _ H Ha Hlast). lia.
    + inversion Ho; subst; clear Ho.
      assert (Hno : nowhere i (e_arrs g)) by (intros k a Hn; eapply find_top_none; eauto; eapply nth_error_In; eauto).
      destruct Pi as [(X & Y & Z)|(X & Y & (k & a & A & B))]; [|exfalso; eapply Hno; eauto].
      cbn [e_cnum e_created e_arrs e_count]. rewrite setn'_length.
      split; [auto|]. split; [exact HM|]. split; [exact (conj HC1 HC2)|]. split; [exact HK|].
      apply Others.
      * intros u Hu H. apply (Pt_frame_vals g); [reflexivity| |reflexivity|exact H]. unfold cr. cbn [e_created]. rewrite getn_setn' by lia. destruct (Nat.eqb_spec u i); [congruence|auto].
      * cbn [el_pc Pt]. unfold cr, cn in *. cbn [e_cnum e_created e_arrs]. rewrite getn_setn' by lia. rewrite Nat.eqb_refl. repeat split; auto. lia.
  - (* EInc *)
    inversion Ho; subst; clear Ho. destruct Pi as (X & Y & Z).
    assert (CN : forall u, cn {| e_count := e_count g + 1; e_arrs := e_arrs g; e_cnum := setn' (e_cnum g) i (e_count g + 1); e_created := e_created g |} u
                           = if Nat.eqb u i then e_count g + 1 else cn g u).
    { intros u. unfold cn. cbn. apply getn_setn'. lia. }
    cbn [e_cnum e_created e_arrs e_count]. rewrite setn'_length. split; [auto|]. split; [auto|]. split; [split|split].
    + intros t. rewrite CN. destruct (Nat.eqb t i); [lia|]. specialize (HC1 t). lia.
    + intros t u Htu Ht. rewrite !CN in *. destruct (Nat.eqb_spec t i), (Nat.eqb_spec u i); try congruence.
      * specialize (HC1 u). lia.
      * specialize (HC1 t). lia.
      * apply HC2; auto.
    + intros k a Ha. destruct (HK k a Ha) as (K1 & K2 & K3). repeat split; auto; destruct (K3 t H) as (A & B & C); auto;
        rewrite CN; destruct (Nat.eqb_spec t i); try lia; auto; subst; exfalso; eapply Z; eauto.
    + apply Others.
      * intros u Hu H. apply (Pt_frame_vals g); [|reflexivity|reflexivity|exact H]. rewrite CN. destruct (Nat.eqb_spec u i); [congruence|auto].
      * cbn [el_pc Pt]. rewrite CN, Nat.eqb_refl. repeat split; auto. lia.
  - (* ERead *)
    destruct Pi as (X & Y & Z).
    destruct (root_lg (e_arrs g)) as [lg|] eqn:Er.
    + destruct (root_lg_some _ _ Er) as (a & Ha & Hlg & Hne). destruct (HK _ a Ha) as (K1 & _).
      destruct (Nat.ltb_spec (2 ^ lg / 2) (getn (e_cnum g) i)) as [Hbig|Hsmall]; inversion Ho; subst; clear Ho.
      * keep4. apply Others; [auto|]. cbn [el_pc Pt]. fold (cn g' i) in *. rewrite half_pow in Hbig by lia.
        repeat split; auto.
        -- assert (G := grow_ge (cn g' i) (a_lg a) (cn g' i)). lia.
        -- apply grow_ok. apply pow_gt_self. lia.
        -- intros a0 _ Hn. rewrite Ha in Hn. inversion Hn; subst.
           destruct (cn g' i) as [|f] eqn:Ec; [lia|]. apply grow_gt. auto.
      * keep4. apply Others; [auto|]. cbn [el_pc Pt]. fold (cn g' i) in *. rewrite half_pow in Hsmall by lia.
        repeat split; auto; try lia.
        -- intros k a0 _ Hn. eapply Z; eauto.
        -- exists a. split; auto.
    + apply root_lg_none in Er. inversion Ho; subst; clear Ho.
      keep4. apply Others; [auto|]. cbn [el_pc Pt]. fold (cn g' i). rewrite Er. cbn [length]. repeat split; auto; try lia.
      * intros k a Hn. destruct k; discriminate.
      * assert (G := grow_ge (cn g' i) 2 (cn g' i)). lia.
      * apply grow_ok. apply pow_gt_self. lia.
  - (* ECas *)
    destruct Pi as (X & Y & Z & (W0 & W) & V & U).
    destruct (Nat.eqb_spec (length (e_arrs g)) seen) as [E|E].
    + inversion Ho; subst; clear Ho. cbn [e_cnum e_created e_arrs e_count].
      assert (Hs : forall a, nth_error (e_arrs g) (length (e_arrs g) - 1) = Some a -> a_lg a < s).
      { intros a Ha. apply U; auto. assert (length (e_arrs g) - 1 < length (e_arrs g)) by (apply nth_error_Some; congruence). lia. }
      assert (Hall : forall k a, nth_error (e_arrs g) k = Some a -> a_lg a < s).
      { intros k a Ha. assert (Hk : k < length (e_arrs g)) by (apply nth_error_Some; congruence).
        assert (Hne : e_arrs g <> []) by (intros Q; rewrite Q in Hk; cbn in Hk; lia).
        assert (Hlast := nth_last (e_arrs g) (mkarr 0 []) Hne). specialize (Hs _ Hlast).
        destruct (Nat.eq_dec k (length (e_arrs g) - 1)) as [->|N]; [rewrite Ha in Hlast; inversion Hlast; subst; auto|].
        assert (k < length (e_arrs g) - 1) by lia. specialize (HM k _ a _ H Ha Hlast). lia. }
      split; [auto|]. split; [|split; [auto|split]].
      * intros p q ap aq Hpq Hp Hq.
        destruct (Nat.lt_ge_cases q (length (e_arrs g))) as [Lq|Lq].
        -- rewrite nth_error_app1 in Hp, Hq by lia. eauto.
        -- rewrite nth_error_app2 in Hq by lia. destruct (q - length (e_arrs g)) as [|m] eqn:Eq; [|destruct m; discriminate].
           cbn in Hq. inversion Hq; subst. cbn. rewrite nth_error_app1 in Hp by lia. eauto.
      * intros k a Ha. destruct (Nat.lt_ge_cases k (length (e_arrs g))) as [Lk|Lk].
        -- rewrite nth_error_app1 in Ha by lia. exact (HK k a Ha).
        -- rewrite nth_error_app2 in Ha by lia. destruct (k - length (e_arrs g)) as [|m]; [|destruct m; discriminate].
           cbn in Ha. inversion Ha; subst. cbn [a_lg a_keys]. split; [lia|]. split; [constructor|]. intros t [].
      * apply Others.
        -- intros u Hu H. eapply (Pt_frame_push g _ u _ s); eauto.
        -- cbn [el_pc Pt e_arrs]. unfold cn, cr in *. cbn [e_cnum e_created]. rewrite app_length. cbn [length]. repeat split; auto; try lia.
           ++ apply above_push. intros k a _ Hn. eapply Z; eauto.
           ++ exists (mkarr s []). split; [|exact W].
              rewrite nth_error_app2 by lia. replace (length (e_arrs g) + 1 - 1 - length (e_arrs g)) with 0 by lia. auto.
    + destruct (root_lg (e_arrs g)) as [lg|] eqn:Er; [|discriminate].
      destruct (root_lg_some _ _ Er) as (a & Ha & Hlg & Hne).
      destruct (Nat.leb_spec s lg) as [Hle|Hgt]; inversion Ho; subst; clear Ho.
      * keep4. apply Others; [auto|]. cbn [el_pc Pt]. repeat split; auto; try lia.
        -- intros k a0 _ Hn. eapply Z; eauto.
        -- exists a. split; auto. unfold fits. assert (2 ^ (s - 1) <= 2 ^ (a_lg a - 1)) by (apply Nat.pow_le_mono_r; lia). lia.
      * keep4. apply Others; [auto|]. cbn [el_pc Pt]. repeat split; auto.
        intros a0 _ Hn. rewrite Ha in Hn. inversion Hn; subst. lia.
  - (* EInsRead *)
    destruct Pi as (X & Y & Z & W & (a & Ha & Hf)).
    destruct (e_arrs g) as [|a0 rest] eqn:Ea; [discriminate|]. inversion Ho; subst; clear Ho. rewrite <- Ea in *.
    assert (Ek : length rest - 0 = length (e_arrs g') - 1) by (rewrite Ea; cbn; lia). rewrite Ek in *.
    keep4. apply Others; [auto|]. cbn [el_pc Pt]. split; [auto|]. split; [auto|]. split; [auto|]. split; [auto|]. exists a. auto.
  - (* EClaim *)
    destruct Pi as (X & Y & Z & W & (a & Ha & Hf)). inversion Ho; subst; clear Ho. cbn [e_cnum e_created e_arrs e_count].
    assert (Hnot : ~ In i (a_keys a)) by (eapply Z; eauto).
    split; [auto|]. split; [|split; [auto|split]].
    + intros p q ap aq Hpq Hp Hq. destruct (lg_add _ _ _ _ _ Hp) as (ap0 & P1 & P2). destruct (lg_add _ _ _ _ _ Hq) as (aq0 & Q1 & Q2).
      rewrite <- P2, <- Q2. eauto.
    + intros j aj Hj. destruct (Nat.eq_dec j k) as [->|N].
      * rewrite (nth_add_key_same _ _ _ _ Ha) in Hj. inversion Hj; subst. cbn. destruct (HK k a Ha) as (K1 & K2 & K3).
        split; [auto|]. split; [constructor; auto|]. intros t [<-|Ht]; [|apply K3; auto]. repeat split; auto.
      * rewrite nth_add_key_other in Hj by auto. exact (HK j aj Hj).
    + apply Others.
      * intros u Hu H. eapply (Pt_frame_add g _ u _ k i); eauto.
      * rewrite Pt_done_same. cbn [Pt]. right. unfold cn, cr in *. cbn [e_cnum e_created e_arrs]. repeat split; auto.
        exists k, (mkarr (a_lg a) (i :: a_keys a)). split; [apply nth_add_key_same; auto|cbn; auto].
  - discriminate.
Qed.

Lemma EInv_init acc : EInv (einit_ets acc).
Proof.
  unfold einit_ets, EInv. cbn [fst snd e_cnum e_created e_arrs e_count]. rewrite !repeat_length, map_length.
  assert (G0 : forall t, getn (repeat 0 (length acc)) t = 0).
  { intros t. unfold getn. destruct (Nat.lt_ge_cases t (length acc)); [apply nth_repeat|apply nth_overflow; rewrite repeat_length; auto]. }
  split; [auto|]. split; [|split; [split|split]].
  - intros i j ai aj _ H. destruct i; discriminate.
  - intros t. unfold cn. cbn [e_cnum e_count]. rewrite G0. lia.
  - intros t u _ H. unfold cn in H. cbn [e_cnum] in H. rewrite G0 in H. congruence.
  - intros k a H. destruct k; discriminate.
  - intros t l H. apply nth_error_In in H. apply in_map_iff in H. destruct H as (m & <- & _). cbn [el_pc Pt]. left.
    unfold cn, cr. cbn [e_cnum e_created e_arrs]. rewrite !G0. repeat split; auto. intros k a Hn. destruct k; discriminate.
Qed.

Lemma EInv_reach acc c : reach estep (einit_ets acc) c -> EInv c.
Proof. intros H. eapply (inv_reach estep EInv); eauto; [apply EInv_init|]. intros; eapply EInv_step; eauto. Qed.

(* counting: keys with pairwise different numbers in [1, N] are at most N *)
Lemma inj_bound (f : nat -> nat) (l : list nat) N :
  NoDup l -> (forall t, In t l -> 1 <= f t <= N) -> (forall t u, In t l -> In u l -> t <> u -> f t <> f u) -> length l <= N.
Proof.
  intros Hnd Hr Hinj.
  assert (NoDup (map f l)).
  { induction l as [|x l IH]; cbn; [constructor|]. inversion Hnd; subst. constructor.
    - intros Hin. apply in_map_iff in Hin. destruct Hin as (y & E & Hy). apply (Hinj y x); cbn; auto. intros ->. auto.
    - apply IH; auto; intros; [apply Hr|apply Hinj]; cbn; auto. }
  assert (incl (map f l) (seq 1 N)).
  { intros y Hy. apply in_map_iff in Hy. destruct Hy as (t & <- & Ht). apply in_seq. specialize (Hr t Ht). lia. }
  assert (L := NoDup_incl_length H H0). rewrite map_length, seq_length in L. exact L.
Qed.

(* no array is ever filled above one half: every probe of table_lookup meets an empty slot *)
Theorem ets_density_proof acc c k a : reach estep (einit_ets acc) c ->
  nth_error (e_arrs (fst c)) k = Some a -> 2 * length (a_keys a) <= 2 ^ a_lg a.
Proof.
  intros Hr Ha. destruct (EInv_reach _ _ Hr) as (_ & _ & (HC1 & HC2) & HK & _).
  destruct (HK k a Ha) as (K1 & K2 & K3).
  assert (L : length (a_keys a) <= 2 ^ (a_lg a - 1)).
  { apply (inj_bound (cn (fst c))); auto.
    - intros t Ht. destruct (K3 t Ht) as (_ & A & B). unfold fits in B. lia.
    - intros t u Ht Hu Hne. destruct (K3 t Ht) as (_ & A & _). apply HC2; auto. }
  assert (E : 2 ^ a_lg a = 2 * 2 ^ (a_lg a - 1)) by (rewrite <- Nat.pow_succ_r'; f_equal; lia). lia.
Qed.

(* a thread creates at most one element, and no two arrays ... hold it twice at one level *)
Theorem ets_one_element_proof acc c t : reach estep (einit_ets acc) c -> getn (e_created (fst c)) t <= 1.
Proof.
  intros Hr. destruct (EInv_reach _ _ Hr) as ((L1 & L2) & _ & _ & _ & HP).
  destruct (nth_error (snd c) t) as [l|] eqn:E.
  - specialize (HP t l E). unfold Pt, cr in HP. destruct (el_pc l); intuition lia.
  - apply nth_error_None in E. unfold getn. rewrite nth_overflow; lia.
Qed.

(* nobody ever waits: every thread that has not finished can take its next step *)
Theorem ets_never_blocked_proof acc c t l : reach estep (einit_ets acc) c ->
  nth_error (snd c) t = Some l -> el_pc l <> EDone -> step_at estep c t <> None.
Proof.
  intros Hr Hl Hd. destruct (EInv_reach _ _ Hr) as (_ & _ & _ & _ & HP). specialize (HP t l Hl).
  unfold step_at. rewrite Hl. destruct l as [pc more]. unfold estep. cbn [el_pc el_more] in *. unfold Pt in HP.
  destruct pc; try congruence; try (cbn; discriminate).
  - destruct (find_top _ _ _); [destruct (Nat.eqb _ _)|]; cbn; discriminate.
  - destruct (root_lg _); [destruct (_ <? _)|]; cbn; discriminate.
  - destruct HP as (_ & _ & _ & _ & V & U). destruct (Nat.eqb_spec (length (e_arrs (fst c))) seen); [cbn; discriminate|].
    destruct (root_lg (e_arrs (fst c))) eqn:Er; [destruct (_ <=? _); cbn; discriminate|].
    apply root_lg_none in Er. rewrite Er in *. cbn in *. lia.
  - destruct HP as (_ & _ & _ & _ & (a & Ha & _)). destruct (e_arrs (fst c)); [destruct (length (@nil arr) - 1); discriminate|cbn; discriminate].
Qed.

(* a thread that owns an element finds its key again (so it is never given a second element) *)
Theorem ets_key_stays_proof acc c t l : reach estep (einit_ets acc) c ->
  nth_error (snd c) t = Some l -> el_pc l = ELookup -> getn (e_created (fst c)) t = 1 -> find_top (e_arrs (fst c)) t 0 <> None.
Proof.
  intros Hr Hl Hp Hc. destruct (EInv_reach _ _ Hr) as (_ & _ & _ & _ & HP). specialize (HP t l Hl). rewrite Hp in HP. cbn in HP.
  destruct HP as [(_ & Y & _)|(_ & _ & (k & a & A & B))]; [unfold cr in Y; lia|].
  intros Hn. eapply find_top_none; eauto. eapply nth_error_In; eauto.
Qed.
