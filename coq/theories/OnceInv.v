(* C19: inductive invariant of the collaborative_call_once word protocol for ANY number of callers, any pattern of throwing
   attempts and any interleaving (the finite explorations of OnceExplore.v are instances). *)
From OTV Require Import Lib.Tac Lib.Conc OnceModel.
Local Open Scope Z_scope.

Definition inwin (r : nat) (l : oloc) : bool :=
  match ol_pc l with OHelpPin r' | OHelpSub r' => Nat.eqb r' r | _ => false end.
Definition pinned (r : nat) (l : oloc) : bool :=
  match ol_pc l with OHelpSub r' | OHelpAssist r' | OHelpUnpin r' => Nat.eqb r' r | _ => false end.
Definition winning (l : oloc) : bool := match ol_pc l with OWinRun _ | OWinSet _ => true | _ => false end.
Definition owns (l : oloc) : bool := match ol_pc l with OWinRun _ | OWinSet _ | OWinDtor _ => true | _ => false end.
Definition ran (l : oloc) : bool := match ol_pc l with OWinSet _ | OWinDtor _ => true | _ => false end.
Definition setdone (l : oloc) : bool := match ol_pc l with OWinSet true => true | _ => false end.
Definition sawdone (l : oloc) : bool := match ol_pc l with OWinDtor false | OLoopTest Done | ORetOk => true | _ => false end.
Definition started (l : oloc) : bool := match ol_pc l with OEntry | OStart | ORetOk | ORetExc => false | _ => true end.
Definition returned (l : oloc) : bool := match ol_pc l with ORetOk | ORetExc => true | _ => false end.

Definition JWp (w : word) (ls : list oloc) : Prop :=
  match w with
  | Running w k => (exists l, nth_error ls w = Some l /\ winning l = true) /\ k = Z.of_nat (count (inwin w) ls) /\
                   (forall r, r <> w -> count (inwin r) ls = 0%nat)
  | _ => forall r, count (inwin r) ls = 0%nat
  end.
Definition JNp (w : word) (ls : list oloc) : Prop :=
  forall i l, nth_error ls i = Some l -> winning l = true -> exists k, w = Running i k.
Definition JOp (ls : list oloc) : Prop :=
  forall r, (1 <= count (inwin r) ls \/ 1 <= count (pinned r) ls)%nat -> exists l, nth_error ls r = Some l /\ owns l = true.
Definition JRp (rc : list Z) (al : list bool) (ls : list oloc) : Prop :=
  forall r l, nth_error ls r = Some l -> started l = true ->
              getr rc r = Z.of_nat (count (pinned r) ls) /\ getbl al r = true.
Definition JSp (s : Z) (w : word) (ls : list oloc) : Prop :=
  s = match w with Done => 1 | _ => Z.of_nat (count setdone ls) end.
Definition JDp (w : word) (ls : list oloc) : Prop := forall i l, nth_error ls i = Some l -> sawdone l = true -> w = Done.
Definition JFp (fd : list bool) (ls : list oloc) : Prop :=
  forall r l, nth_error ls r = Some l -> ran l = true -> getbl fd r = true.

Definition J (c : oshared * list oloc) : Prop :=
  let g := fst c in let ls := snd c in
  (length (o_refcount g) = length ls /\ length (o_alive g) = length ls /\ length (o_fdone g) = length ls) /\
  JWp (o_word g) ls /\ JNp (o_word g) ls /\ JOp ls /\ JRp (o_refcount g) (o_alive g) ls /\
  o_bad_access g = 0 /\ JSp (o_success g) (o_word g) ls /\ JDp (o_word g) ls /\ JFp (o_fdone g) ls.

(* ---------- list helpers ---------- *)
Lemma setn_length {A} (l : list A) : forall i v, length (setn l i v) = length l.
Proof. induction l as [|x l IH]; intros [|i] v; cbn; auto. Qed.

Lemma getr_setn l : forall i j v, (i < length l)%nat -> getr (setn l i v) j = if Nat.eqb j i then v else getr l j.
Proof.
  unfold getr. induction l as [|x l IH]; intros [|i] [|j] v H; cbn in *; try lia; auto.
  rewrite IH by lia. auto.
Qed.

Lemma getbl_setn l : forall i j v, (i < length l)%nat -> getbl (setn l i v) j = if Nat.eqb j i then v else getbl l j.
Proof.
  unfold getbl. induction l as [|x l IH]; intros [|i] [|j] v H; cbn in *; try lia; auto.
  rewrite IH by lia. auto.
Qed.

Lemma count_all_false {L} (P : L -> bool) ls : (forall i l, nth_error ls i = Some l -> P l = false) -> count P ls = 0%nat.
Proof.
  unfold count. induction ls as [|x ls IH]; intros H; cbn; auto.
  rewrite (H 0%nat x eq_refl). apply IH. intros i l Hn. apply (H (S i) l Hn).
Qed.

Lemma count_pos_witness {L} (P : L -> bool) ls : (1 <= count P ls)%nat -> exists i l, nth_error ls i = Some l /\ P l = true.
Proof.
  unfold count. induction ls as [|x ls IH]; cbn; intros H; [lia|].
  destruct (P x) eqn:E.
  - exists 0%nat, x. auto.
  - destruct (IH H) as [i [l [A B]]]. exists (S i), l. auto.
Qed.

Lemma count_unique_one {L} (P : L -> bool) ls t lt :
  nth_error ls t = Some lt -> P lt = true -> (forall i l, nth_error ls i = Some l -> P l = true -> i = t) -> count P ls = 1%nat.
Proof.
  intros Ht Pt Hu.
  destruct (Nat.eq_dec (count P ls) 1) as [E|E]; auto.
  assert (1 <= count P ls)%nat by (eapply count_pos_exists; eauto).
  exfalso. (* at least two: remove t and find another *)
  revert t Ht Hu H E. unfold count. induction ls as [|x ls IH]; intros t Ht Hu H E; cbn in *; [lia|].
  destruct (P x) eqn:Px.
  - assert (0 = t)%nat by (apply (Hu 0%nat x); auto). subst t. cbn in *.
    assert (1 <= length (filter P ls))%nat by lia.
    destruct (count_pos_witness P ls H0) as [i [l [A B]]].
    specialize (Hu (S i) l A B). lia.
  - destruct t as [|t]; cbn in Ht; [inversion Ht; congruence|].
    apply (IH t Ht); auto. intros i l A B. specialize (Hu (S i) l A B). lia.
Qed.

(* ---------- preservation ---------- *)
Section Step.
Variables (g : oshared) (ls : list oloc) (i : nat) (l l' : oloc).
Hypothesis Hl : nth_error ls i = Some l.
Let ls' := set_nth ls i l'.

Lemma CNT (P : oloc -> bool) : (count P ls' + (if P l then 1 else 0) = count P ls + (if P l' then 1 else 0))%nat.
Proof. apply count_set_nth. exact Hl. Qed.
Lemma NTHe : nth_error ls' i = Some l'.
Proof. eapply nth_error_set_nth_eq; eauto. Qed.
Lemma NTHn j : j <> i -> nth_error ls' j = nth_error ls j.
Proof. intros H. apply nth_error_set_nth_neq. auto. Qed.
Lemma ILT : (i < length ls)%nat.
Proof. apply nth_error_Some. congruence. Qed.
Lemma LEN : length ls' = length ls.
Proof. apply set_nth_length. Qed.

(* a pc change that does not touch any class keeps every count *)
Lemma same_class (P : oloc -> bool) : P l' = P l -> count P ls' = count P ls.
Proof. intros E. assert (H := CNT P). rewrite E in H. destruct (P l); lia. Qed.
End Step.

Ltac thr H j i Hl :=
  let E := fresh "E" in
  destruct (Nat.eq_dec j i) as [E|E];
  [ subst j; rewrite (NTHe _ _ _ _ Hl) in H; inversion H; subst; clear H
  | rewrite (NTHn _ _ _ j E) in H ].


(* ---------- frame lemmas: a component survives a step that does not concern it ---------- *)
Section Frames.
Variables (ls : list oloc) (i : nat) (l l' : oloc).
Hypothesis Hl : nth_error ls i = Some l.
Local Notation ls' := (set_nth ls i l').

Lemma count_same (P : oloc -> bool) : P l' = P l -> count P ls' = count P ls.
Proof. apply same_class. exact Hl. Qed.

Lemma count_mono (P : oloc -> bool) : (P l' = true -> P l = true) -> (count P ls' <= count P ls)%nat.
Proof.
  intros H. assert (C := CNT ls i l l' Hl P). destruct (P l') eqn:E; [rewrite (H eq_refl) in C|destruct (P l)]; lia.
Qed.

Lemma at_frame (Q : oloc -> bool) r lr : nth_error ls r = Some lr -> Q lr = true -> (Q l = true -> Q l' = true) ->
  exists l0, nth_error ls' r = Some l0 /\ Q l0 = true.
Proof.
  intros A B M. destruct (Nat.eq_dec r i) as [->|N].
  - rewrite Hl in A. inversion A; subst. exists l'. split; [apply (NTHe ls i lr l' Hl)|auto].
  - exists lr. split; auto. rewrite NTHn by auto. auto.
Qed.

Lemma JWp_frame w : (forall r, inwin r l' = inwin r l) -> (winning l = true -> winning l' = true) -> JWp w ls -> JWp w ls'.
Proof.
  intros HI HW H. destruct w as [| |w k]; cbn in *.
  - intros r. rewrite count_same; auto.
  - intros r. rewrite count_same; auto.
  - destruct H as ((lw & A & B) & C & D). split; [|split].
    + eapply at_frame; eauto.
    + rewrite count_same; auto.
    + intros r Hr. rewrite count_same; auto.
Qed.

Lemma JNp_frame w : (winning l' = true -> winning l = true) -> JNp w ls -> JNp w ls'.
Proof.
  intros HW H j l0 A B. destruct (Nat.eq_dec j i) as [->|N].
  - rewrite (NTHe ls i l l' Hl) in A. inversion A; subst. eapply H; eauto.
  - rewrite NTHn in A by auto. eapply H; eauto.
Qed.

Lemma JOp_frame : (forall r, inwin r l' = true -> inwin r l = true) -> (forall r, pinned r l' = true -> pinned r l = true) ->
  (owns l = true -> owns l' = true) -> JOp ls -> JOp ls'.
Proof.
  intros HI HP HO H r Hr.
  assert (A := count_mono (inwin r) (HI r)). assert (B := count_mono (pinned r) (HP r)).
  destruct (H r ltac:(lia)) as (lr & C & D). eapply at_frame; eauto.
Qed.

Lemma JRp_frame rc al : (forall r, pinned r l' = pinned r l) -> (started l' = true -> started l = true) -> JRp rc al ls -> JRp rc al ls'.
Proof.
  intros HP HS H r l0 A B. rewrite count_same by auto. destruct (Nat.eq_dec r i) as [->|N].
  - rewrite (NTHe ls i l l' Hl) in A. inversion A; subst. eapply H; eauto.
  - rewrite NTHn in A by auto. eapply H; eauto.
Qed.

Lemma JSp_frame s w : setdone l' = setdone l -> JSp s w ls -> JSp s w ls'.
Proof. intros HS H. unfold JSp in *. rewrite count_same; auto. Qed.

Lemma JDp_frame w : (sawdone l' = true -> sawdone l = true) -> JDp w ls -> JDp w ls'.
Proof.
  intros HW H j l0 A B. destruct (Nat.eq_dec j i) as [->|N].
  - rewrite (NTHe ls i l l' Hl) in A. inversion A; subst. eapply H; eauto.
  - rewrite NTHn in A by auto. eapply H; eauto.
Qed.

Lemma JFp_frame fd : (ran l' = true -> ran l = true) -> JFp fd ls -> JFp fd ls'.
Proof.
  intros HW H j l0 A B. destruct (Nat.eq_dec j i) as [->|N].
  - rewrite (NTHe ls i l l' Hl) in A. inversion A; subst. eapply H; eauto.
  - rewrite NTHn in A by auto. eapply H; eauto.
Qed.
End Frames.

Ltac frm := try solve [intros; reflexivity | intros; discriminate | cbn; intros; congruence | cbn; auto].
Ltac fW Hl := apply (JWp_frame _ _ _ _ Hl); frm.
Ltac fN Hl := apply (JNp_frame _ _ _ _ Hl); frm.
Ltac fO Hl := apply (JOp_frame _ _ _ _ Hl); frm.
Ltac fR Hl := apply (JRp_frame _ _ _ _ Hl); frm.
Ltac fS Hl := apply (JSp_frame _ _ _ _ Hl); frm.
Ltac fD Hl := apply (JDp_frame _ _ _ _ Hl); frm.
Ltac fF Hl := apply (JFp_frame _ _ _ _ Hl); frm.
Ltac splitJ := unfold J; cbn [fst snd o_word o_refcount o_alive o_fdone o_success o_bad_access];
  rewrite ?setn_length, ?set_nth_length;
  split; [auto|]; split; [|split; [|split; [|split; [|split; [|split; [|split]]]]]].

Lemma J_step c i c' ev : J c -> step_at ostep c i = Some (c', ev) -> J c'.
Proof.
  destruct c as [g ls]. intros HJ Hs. unfold step_at in Hs. cbn [fst snd] in Hs.
  destruct (nth_error ls i) as [l|] eqn:Hl; [|discriminate].
  destruct (ostep i g l) as [[[g' l'] e]|] eqn:Ho; [|discriminate]. inversion Hs; subst; clear Hs.
  destruct HJ as ((L1 & L2 & L3) & JW & JN & JO & JR & JB & JS & JD & JF). cbn [fst snd] in *.
  assert (Hi := ILT _ _ _ Hl).
  destruct l as [pc th]. unfold ostep in Ho. cbn [ol_pc ol_throws] in Ho.
  destruct pc.
  - (* OEntry *)
    destruct (o_word g) eqn:Ew; inversion Ho; subst; clear Ho; splitJ; rewrite ?Ew; [fW Hl|fN Hl|fO Hl|fR Hl|auto|fS Hl|fD Hl|fF Hl|fW Hl|fN Hl|fO Hl|fR Hl|auto|fS Hl| |fF Hl|fW Hl|fN Hl|fO Hl|fR Hl|auto|fS Hl|fD Hl|fF Hl].
    intros j l0 H W. reflexivity.
  - (* OStart *)
    inversion Ho; subst; clear Ho. splitJ.
    + fW Hl.
    + fN Hl.
    + fO Hl.
    + intros r l0 H S. rewrite (count_same _ _ _ _ Hl) by reflexivity. rewrite getr_setn, getbl_setn by lia. thr H r i Hl.
      * rewrite Nat.eqb_refl. split; auto.
        destruct (count (pinned i) ls) eqn:Ec; auto.
        destruct (JO i ltac:(right; lia)) as (lr & A & B). rewrite Hl in A. inversion A; subst. discriminate.
      * destruct (Nat.eqb_spec r i); [lia|]. eauto.
    + auto.
    + fS Hl.
    + fD Hl.
    + intros r l0 H W. rewrite getbl_setn by lia. thr H r i Hl; [discriminate|].
      destruct (Nat.eqb_spec r i); [lia|]. eauto.
  - (* OTop *)
    destruct expected as [| |w k].
    + destruct (o_word g) as [| |w k] eqn:Ew.
      * (* the CAS succeeds: this caller is the winner *)
        inversion Ho; subst; clear Ho. splitJ.
        -- cbn. split; [exists {| ol_pc := OWinRun (hd false th); ol_throws := tl th |}; split; [apply (NTHe _ _ _ _ Hl)|auto]|].
           split; [rewrite (count_same _ _ _ _ Hl) by reflexivity; rewrite (JW i); auto|].
           intros r _. rewrite (count_same _ _ _ _ Hl) by reflexivity. apply JW.
        -- intros j l0 H W. thr H j i Hl; [eauto|]. destruct (JN j l0 H W) as [k Hk]. discriminate.
        -- fO Hl.
        -- fR Hl.
        -- auto.
        -- unfold JSp in *. rewrite (count_same _ _ _ _ Hl) by reflexivity. auto.
        -- intros j l0 H W. thr H j i Hl; [discriminate|]. specialize (JD j l0 H W). discriminate.
        -- fF Hl.
      * inversion Ho; subst; clear Ho. splitJ; rewrite ?Ew; [fW Hl|fN Hl|fO Hl|fR Hl|auto|fS Hl|fD Hl|fF Hl].
      * inversion Ho; subst; clear Ho. splitJ; rewrite ?Ew; [fW Hl|fN Hl|fO Hl|fR Hl|auto|fS Hl|fD Hl|fF Hl].
    + inversion Ho; subst; clear Ho. splitJ; [fW Hl|fN Hl|fO Hl|fR Hl|auto|fS Hl|fD Hl|fF Hl].
    + inversion Ho; subst; clear Ho. splitJ; [fW Hl|fN Hl|fO Hl|fR Hl|auto|fS Hl|fD Hl|fF Hl].
  - (* OWinRun *)
    inversion Ho; subst; clear Ho. splitJ.
    + fW Hl.
    + fN Hl.
    + fO Hl.
    + fR Hl.
    + auto.
    + destruct (JN i _ Hl eq_refl) as [k Ek]. unfold JSp in *. rewrite Ek in *.
      assert (C := CNT _ _ _ {| ol_pc := OWinSet (negb attempt_throws); ol_throws := th |} Hl setdone).
      destruct attempt_throws; cbn [setdone ol_pc negb] in C |- *; lia.
    + fD Hl.
    + intros r l0 H W. rewrite getbl_setn by lia. thr H r i Hl.
      * rewrite Nat.eqb_refl. auto.
      * destruct (Nat.eqb_spec r i); [lia|]. eauto.
  - (* OWinSet *)
    destruct (o_word g) as [| |w k] eqn:Ew; try discriminate.
    destruct k; try discriminate. destruct (Nat.eqb_spec w i) as [->|Nw]; try discriminate.
    inversion Ho; subst; clear Ho. destruct JW as ((lw & A & B) & C & D). splitJ.
    + assert (Z0 : forall r, count (inwin r) (set_nth ls i {| ol_pc := OWinDtor (negb target_done); ol_throws := th |}) = 0%nat).
      { intros r. rewrite (count_same _ _ _ _ Hl) by reflexivity. destruct (Nat.eq_dec r i) as [->|N]; [lia|auto]. }
      destruct target_done; exact Z0.
    + intros j l0 H W. thr H j i Hl; [discriminate|]. destruct (JN j l0 H W) as [k Hk]. inversion Hk. lia.
    + fO Hl.
    + fR Hl.
    + auto.
    + unfold JSp in *. destruct target_done.
      * rewrite JS. replace (count setdone ls) with 1%nat; [reflexivity|]. symmetry.
        eapply (count_unique_one setdone ls i); eauto.
        intros j l0 H W. destruct (JN j l0 H) as [k Hk]; [destruct l0 as [[] ?]; cbn in *; try discriminate; auto|].
        inversion Hk. auto.
      * rewrite (count_same _ _ _ _ Hl) by reflexivity. auto.
    + destruct target_done; [intros j l0 H W; reflexivity|].
      intros j l0 H W. thr H j i Hl; [discriminate|]. specialize (JD j l0 H W). discriminate.
    + fF Hl.
  - (* OWinDtor *)
    destruct (getr (o_refcount g) i =? 0) eqn:Er; [|discriminate]. apply Z.eqb_eq in Er.
    inversion Ho; subst; clear Ho.
    assert (P0 : count (pinned i) ls = 0%nat) by (destruct (JR i _ Hl eq_refl) as [A _]; lia).
    assert (W0 : count (inwin i) ls = 0%nat).
    { destruct (o_word g) as [| |w k]; cbn in JW; auto. destruct JW as ((lw & A & B) & C & D). apply D.
      intros ->. rewrite Hl in A. inversion A; subst. discriminate. }
    splitJ.
    + fW Hl; destruct threw; reflexivity.
    + fN Hl; destruct threw; discriminate.
    + intros r Hr.
      assert (A := count_mono _ _ _ (if threw then {| ol_pc := ORetExc; ol_throws := th |} else {| ol_pc := ORetOk; ol_throws := th |}) Hl (inwin r)).
      assert (B := count_mono _ _ _ (if threw then {| ol_pc := ORetExc; ol_throws := th |} else {| ol_pc := ORetOk; ol_throws := th |}) Hl (pinned r)).
      assert (Hr' : (1 <= count (inwin r) ls \/ 1 <= count (pinned r) ls)%nat).
      { destruct threw; cbn in A, B; specialize (A ltac:(discriminate)); specialize (B ltac:(discriminate)); lia. }
      destruct (Nat.eq_dec r i) as [->|N]; [lia|].
      destruct (JO r Hr') as (lr & X & Y). exists lr. rewrite NTHn by auto. auto.
    + intros r l0 H S. rewrite getbl_setn by lia.
      rewrite (count_same _ _ _ _ Hl) by (destruct threw; reflexivity).
      thr H r i Hl; [destruct threw; discriminate|]. destruct (Nat.eqb_spec r i); [lia|]. eauto.
    + auto.
    + fS Hl; destruct threw; reflexivity.
    + fD Hl. destruct threw; cbn; auto.
    + fF Hl; destruct threw; discriminate.
  - (* OHelpCas *)
    destruct (o_word g) as [| |w k] eqn:Ew.
    + inversion Ho; subst; clear Ho. splitJ; rewrite ?Ew; [fW Hl|fN Hl|fO Hl|fR Hl|auto|fS Hl|fD Hl|fF Hl].
    + inversion Ho; subst; clear Ho. splitJ; rewrite ?Ew; [fW Hl|fN Hl|fO Hl|fR Hl|auto|fS Hl| |fF Hl].
      intros j l0 H W. reflexivity.
    + destruct (k =? max_refs); [discriminate|]. inversion Ho; subst; clear Ho.
      destruct JW as ((lw & A & B) & C & D).
      assert (Ow : exists l0, nth_error (set_nth ls i {| ol_pc := OHelpPin w; ol_throws := th |}) w = Some l0 /\ winning l0 = true).
      { eapply (at_frame _ _ _ _ Hl winning); eauto; try discriminate. }
      splitJ.
      * cbn. split; [exact Ow|]. split.
        -- assert (X := CNT _ _ _ {| ol_pc := OHelpPin w; ol_throws := th |} Hl (inwin w)).
           cbn [inwin ol_pc] in X. rewrite Nat.eqb_refl in X. lia.
        -- intros r Hr. rewrite (count_same _ _ _ _ Hl); auto. cbn. destruct (Nat.eqb_spec w r); [congruence|auto].
      * intros j l0 H W. thr H j i Hl; [discriminate|]. destruct (JN j l0 H W) as [k0 Hk]. inversion Hk. eauto.
      * intros r Hr. destruct (Nat.eq_dec r w) as [->|N].
        -- destruct Ow as (l0 & X & Y). exists l0. split; auto. destruct l0 as [[] ?]; cbn in *; try discriminate; auto.
        -- assert (X : count (inwin r) (set_nth ls i {| ol_pc := OHelpPin w; ol_throws := th |}) = count (inwin r) ls).
           { apply (count_same _ _ _ _ Hl). cbn. destruct (Nat.eqb_spec w r); [congruence|auto]. }
           rewrite X in Hr. rewrite (count_same _ _ _ _ Hl (pinned r)) in Hr by reflexivity.
           destruct (JO r Hr) as (lr & P & Q). eapply (at_frame _ _ _ _ Hl owns); eauto.
      * fR Hl.
      * auto.
      * unfold JSp in *. rewrite (count_same _ _ _ _ Hl) by reflexivity. auto.
      * intros j l0 H W. thr H j i Hl; [discriminate|]. specialize (JD j l0 H W). discriminate.
      * fF Hl.
  - (* OHelpPin *)
    assert (C1 : (1 <= count (inwin r) ls)%nat) by (eapply (count_pos_exists _ _ i); [exact Hl|cbn; apply Nat.eqb_refl]).
    destruct (JO r (or_introl C1)) as (lr & A & B).
    assert (Sr : started lr = true) by (destruct lr as [[] ?]; cbn in *; try discriminate; auto).
    destruct (JR r lr A Sr) as [R1 R2].
    assert (Hr : (r < length ls)%nat) by (apply nth_error_Some; congruence).
    assert (T : (if getbl (o_alive g) r then g else mkO (o_word g) (o_refcount g) (o_alive g) (o_fdone g) (o_success g) (o_bad_access g + 1)) = g)
      by (rewrite R2; auto).
    rewrite T in Ho. inversion Ho; subst; clear Ho. splitJ.
    + fW Hl.
    + fN Hl.
    + intros r0 Hr0. destruct (Nat.eq_dec r0 r) as [->|N].
      * eapply (at_frame _ _ _ _ Hl owns); eauto.
      * rewrite (count_same _ _ _ _ Hl (inwin r0)) in Hr0 by reflexivity.
        assert (X : count (pinned r0) (set_nth ls i {| ol_pc := OHelpSub r; ol_throws := th |}) = count (pinned r0) ls).
        { apply (count_same _ _ _ _ Hl). cbn. destruct (Nat.eqb_spec r r0); [congruence|auto]. }
        rewrite X in Hr0. destruct (JO r0 Hr0) as (l0 & P & Q). eapply (at_frame _ _ _ _ Hl owns); eauto.
    + intros r0 l0 H S. rewrite getr_setn by lia.
      assert (Old : exists lo, nth_error ls r0 = Some lo /\ started lo = true).
      { thr H r0 i Hl; [exists {| ol_pc := OHelpPin r; ol_throws := th |}; auto|eauto]. }
      destruct Old as (lo & P & Q). destruct (JR r0 lo P Q) as [X1 X2]. split; auto.
      assert (X := CNT _ _ _ {| ol_pc := OHelpSub r; ol_throws := th |} Hl (pinned r0)). cbn [pinned ol_pc] in X.
      destruct (Nat.eqb_spec r0 r) as [->|N].
      * rewrite Nat.eqb_refl in X. lia.
      * destruct (Nat.eqb_spec r r0); [congruence|]. lia.
    + auto.
    + fS Hl.
    + fD Hl.
    + fF Hl.
  - (* OHelpSub *)
    destruct (o_word g) as [| |w k] eqn:Ew; try discriminate. inversion Ho; subst; clear Ho.
    destruct JW as ((lw & A & B) & C & D).
    assert (C1 : (1 <= count (inwin r) ls)%nat) by (eapply (count_pos_exists _ _ i); [exact Hl|cbn; apply Nat.eqb_refl]).
    assert (r = w) by (destruct (Nat.eq_dec r w); auto; specialize (D r n); lia). subst r.
    splitJ.
    + cbn. split; [eapply (at_frame _ _ _ _ Hl winning); eauto; try discriminate|]. split.
      * assert (X := CNT _ _ _ {| ol_pc := OHelpAssist w; ol_throws := th |} Hl (inwin w)).
        cbn [inwin ol_pc] in X. rewrite Nat.eqb_refl in X. lia.
      * intros r Hr. rewrite (count_same _ _ _ _ Hl); auto. cbn. destruct (Nat.eqb_spec w r); [congruence|auto].
    + intros j l0 H W. thr H j i Hl; [discriminate|]. destruct (JN j l0 H W) as [k0 Hk]. inversion Hk. eauto.
    + fO Hl.
    + fR Hl.
    + auto.
    + unfold JSp in *. rewrite (count_same _ _ _ _ Hl) by reflexivity. auto.
    + intros j l0 H W. thr H j i Hl; [discriminate|]. specialize (JD j l0 H W). discriminate.
    + fF Hl.
  - (* OHelpAssist *)
    assert (C1 : (1 <= count (pinned r) ls)%nat) by (eapply (count_pos_exists _ _ i); [exact Hl|cbn; apply Nat.eqb_refl]).
    destruct (JO r (or_intror C1)) as (lr & A & B).
    assert (Sr : started lr = true) by (destruct lr as [[] ?]; cbn in *; try discriminate; auto).
    destruct (JR r lr A Sr) as [R1 R2].
    assert (T : (if getbl (o_alive g) r then g else mkO (o_word g) (o_refcount g) (o_alive g) (o_fdone g) (o_success g) (o_bad_access g + 1)) = g)
      by (rewrite R2; auto).
    rewrite T in Ho. destruct (getbl (o_fdone g) r); [|discriminate]. inversion Ho; subst; clear Ho.
    splitJ; [fW Hl|fN Hl|fO Hl|fR Hl|auto|fS Hl|fD Hl|fF Hl].
  - (* OHelpUnpin *)
    assert (C1 : (1 <= count (pinned r) ls)%nat) by (eapply (count_pos_exists _ _ i); [exact Hl|cbn; apply Nat.eqb_refl]).
    destruct (JO r (or_intror C1)) as (lr & A & B).
    assert (Sr : started lr = true) by (destruct lr as [[] ?]; cbn in *; try discriminate; auto).
    destruct (JR r lr A Sr) as [R1 R2].
    assert (Hr : (r < length ls)%nat) by (apply nth_error_Some; congruence).
    assert (T : (if getbl (o_alive g) r then g else mkO (o_word g) (o_refcount g) (o_alive g) (o_fdone g) (o_success g) (o_bad_access g + 1)) = g)
      by (rewrite R2; auto).
    rewrite T in Ho. inversion Ho; subst; clear Ho. splitJ.
    + fW Hl.
    + fN Hl.
    + fO Hl.
    + intros r0 l0 H S. rewrite getr_setn by lia.
      assert (Old : exists lo, nth_error ls r0 = Some lo /\ started lo = true).
      { thr H r0 i Hl; [exists {| ol_pc := OHelpUnpin r; ol_throws := th |}; auto|eauto]. }
      destruct Old as (lo & P & Q). destruct (JR r0 lo P Q) as [X1 X2]. split; auto.
      assert (X := CNT _ _ _ {| ol_pc := OLoopTest (Running r 0); ol_throws := th |} Hl (pinned r0)). cbn [pinned ol_pc] in X.
      destruct (Nat.eqb_spec r0 r) as [->|N].
      * rewrite Nat.eqb_refl in X. lia.
      * destruct (Nat.eqb_spec r r0); [congruence|]. lia.
    + auto.
    + fS Hl.
    + fD Hl.
    + fF Hl.
  - (* OLoopTest *)
    destruct expected as [| |w k].
    + inversion Ho; subst; clear Ho. splitJ; [fW Hl|fN Hl|fO Hl|fR Hl|auto|fS Hl|fD Hl|fF Hl].
    + inversion Ho; subst; clear Ho. splitJ; [fW Hl|fN Hl|fO Hl| |auto|fS Hl|fD Hl|fF Hl].
      intros r l0 H S. rewrite getbl_setn by lia. rewrite (count_same _ _ _ _ Hl) by reflexivity.
      thr H r i Hl; [discriminate|]. destruct (Nat.eqb_spec r i); [lia|]. eauto.
    + inversion Ho; subst; clear Ho. splitJ; [fW Hl|fN Hl|fO Hl|fR Hl|auto|fS Hl|fD Hl|fF Hl].
  - discriminate.
  - discriminate.
Qed.

Lemma J_init throws : J (oinit throws).
Proof.
  unfold oinit. set (ls := map (fun t => mkOL OEntry t) throws).
  assert (Hpc : forall i l, nth_error ls i = Some l -> ol_pc l = OEntry).
  { intros i l H. apply nth_error_In in H. unfold ls in H. apply in_map_iff in H. destruct H as (t & <- & _). auto. }
  assert (Z0 : forall P : oloc -> bool, (forall l, ol_pc l = OEntry -> P l = false) -> count P ls = 0%nat).
  { intros P HP. apply count_all_false. intros i l H. apply HP. eauto. }
  unfold J. cbn [fst snd o_word o_refcount o_alive o_fdone o_success o_bad_access].
  rewrite !repeat_length. unfold ls at 1 2 3. rewrite map_length.
  split; [auto|]. split; [|split; [|split; [|split; [|split; [|split; [|split]]]]]].
  - intros r. apply Z0. intros l E. unfold inwin. rewrite E. auto.
  - intros i l H W. unfold winning in W. rewrite (Hpc i l H) in W. discriminate.
  - intros r [H|H]; exfalso.
    + rewrite Z0 in H; [lia|]. intros l E. unfold inwin. rewrite E. auto.
    + rewrite Z0 in H; [lia|]. intros l E. unfold pinned. rewrite E. auto.
  - intros r l H S. unfold started in S. rewrite (Hpc r l H) in S. discriminate.
  - auto.
  - unfold JSp. rewrite Z0; auto. intros l E. unfold setdone. rewrite E. auto.
  - intros i l H W. unfold sawdone in W. rewrite (Hpc i l H) in W. discriminate.
  - intros r l H W. unfold ran in W. rewrite (Hpc r l H) in W. discriminate.
Qed.

Lemma J_reach throws c : reach ostep (oinit throws) c -> J c.
Proof. intros H. eapply (inv_reach ostep J); eauto; [apply J_init|]. intros; eapply J_step; eauto. Qed.

Lemma setdone_le_one g ls : JNp (o_word g) ls -> (count setdone ls <= 1)%nat.
Proof.
  intros JN. destruct (count setdone ls) as [|n] eqn:E; [lia|].
  destruct (count_pos_witness setdone ls ltac:(lia)) as (t & lt & A & B).
  assert (count setdone ls = 1%nat); [|lia].
  eapply (count_unique_one setdone ls t); eauto.
  intros j l0 H W.
  assert (W1 : winning l0 = true) by (destruct l0 as [[] ?]; cbn in *; try discriminate; auto).
  assert (W2 : winning lt = true) by (destruct lt as [[] ?]; cbn in *; try discriminate; auto).
  destruct (JN j l0 H W1) as [k1 E1]. destruct (JN t lt A W2) as [k2 E2]. rewrite E1 in E2. inversion E2. auto.
Qed.

(* safety, any number of callers, any interleaving *)
Theorem once_safety_proof throws c : reach ostep (oinit throws) c ->
  o_bad_access (fst c) = 0 /\ 0 <= o_success (fst c) <= 1 /\
  (forall i l, nth_error (snd c) i = Some l -> ol_pc l = ORetOk -> o_success (fst c) = 1 /\ o_word (fst c) = Done).
Proof.
  intros H. destruct (J_reach _ _ H) as (_ & JW & JN & JO & JR & JB & JS & JD & JF).
  split; [auto|]. split.
  - unfold JSp in JS. assert (X := setdone_le_one _ _ JN). destruct (o_word (fst c)); lia.
  - intros i l A B. assert (D : o_word (fst c) = Done) by (eapply JD; eauto; unfold sawdone; rewrite B; auto).
    split; auto. unfold JSp in JS. rewrite D in JS. auto.
Qed.

(* no reachable configuration is stuck: if no thread can take a step, every caller has returned *)
Theorem once_no_deadlock_proof throws c : reach ostep (oinit throws) c ->
  (forall i, step_at ostep c i = None) -> forall i l, nth_error (snd c) i = Some l -> returned l = true.
Proof.
  intros H Hstuck. destruct (J_reach _ _ H) as (_ & JW & JN & JO & JR & JB & JS & JD & JF).
  destruct c as [g ls]. cbn [fst snd] in *.
  assert (St : forall j lj, nth_error ls j = Some lj -> ostep j g lj = None).
  { intros j lj A. specialize (Hstuck j). unfold step_at in Hstuck. cbn [fst snd] in Hstuck. rewrite A in Hstuck.
    destruct (ostep j g lj) as [[[? ?] ?]|]; [discriminate|auto]. }
  (* a helper inside the window can always move *)
  assert (NoWin : forall r, count (inwin r) ls = 0%nat).
  { intros r. destruct (count (inwin r) ls) eqn:E; auto. exfalso.
    destruct (count_pos_witness (inwin r) ls ltac:(lia)) as (j & lj & A & B).
    specialize (St j lj A). destruct lj as [pc th]. unfold inwin in B. cbn in B.
    destruct pc; try discriminate; unfold ostep in St; cbn [ol_pc] in St; try discriminate.
    apply Nat.eqb_eq in B. subst.
    destruct (o_word g) as [| |w k] eqn:Ew; try discriminate.
    - cbn in JW. rewrite JW in E. discriminate.
    - cbn in JW. rewrite JW in E. discriminate. }
  (* hence nobody is pinned either: a pinned helper waits only for a winner whose function is still running *)
  assert (NoPin : forall r, count (pinned r) ls = 0%nat).
  { intros r. destruct (count (pinned r) ls) eqn:E; auto. exfalso.
    destruct (count_pos_witness (pinned r) ls ltac:(lia)) as (j & lj & A & B).
    assert (St' := St j lj A). destruct lj as [pc th]. unfold pinned in B. cbn in B.
    destruct pc; try discriminate; apply Nat.eqb_eq in B; subst.
    - (* OHelpSub is inside the window *)
      assert (X : (1 <= count (inwin r) ls)%nat) by (eapply (count_pos_exists _ _ j); [exact A|cbn; apply Nat.eqb_refl]).
      rewrite NoWin in X. lia.
    - (* OHelpAssist: the winner's function has finished or the winner can run it *)
      destruct (JO r ltac:(right; lia)) as (lr & P & Q).
      assert (Sr : started lr = true) by (destruct lr as [[] ?]; cbn in *; try discriminate; auto).
      destruct (JR r lr P Sr) as [R1 R2].
      unfold ostep in St'. cbn [ol_pc] in St'. rewrite R2 in St'.
      destruct (getbl (o_fdone g) r) eqn:Fd; [discriminate|].
      destruct lr as [pcr thr]. destruct pcr; cbn in Q; try discriminate.
      + specialize (St r _ P). unfold ostep in St. cbn [ol_pc] in St. discriminate.
      + rewrite (JF r _ P eq_refl) in Fd. discriminate.
      + rewrite (JF r _ P eq_refl) in Fd. discriminate. }
  intros i l A. assert (St' := St i l A). destruct l as [pc th]. unfold ostep in St'. cbn [ol_pc ol_throws] in St'.
  destruct pc; try discriminate; auto; exfalso.
  - (* OEntry *) destruct (o_word g); discriminate.
  - (* OTop *) destruct expected; [destruct (o_word g)|..]; discriminate.
  - (* OWinSet: waits for the window to drain *)
    destruct (JN i _ A eq_refl) as [k Ek]. rewrite Ek in *. cbn in JW. destruct JW as (_ & C & _).
    rewrite NoWin in C. subst k. rewrite Nat.eqb_refl in St'. discriminate.
  - (* OWinDtor: waits for the pinned helpers *)
    destruct (JR i _ A eq_refl) as [R1 _]. rewrite NoPin in R1. rewrite R1 in St'. discriminate.
  - (* OHelpCas *)
    destruct (o_word g) as [| |w k] eqn:Ew; try discriminate. cbn in JW. destruct JW as (_ & C & _).
    rewrite NoWin in C. subst k. discriminate.
  - (* OHelpSub *)
    assert (X : (1 <= count (inwin r) ls)%nat) by (eapply (count_pos_exists _ _ i); [exact A|cbn; apply Nat.eqb_refl]).
    rewrite NoWin in X. lia.
  - (* OHelpAssist *)
    assert (X : (1 <= count (pinned r) ls)%nat) by (eapply (count_pos_exists _ _ i); [exact A|cbn; apply Nat.eqb_refl]).
    rewrite NoPin in X. lia.
  - (* OLoopTest *) destruct expected; discriminate.
Qed.

(* when every caller has returned: the function completed exactly once and the flag is done — or every attempt threw, the flag is
   back in the not-called state and nobody returned normally *)
Theorem once_final_proof throws c : reach ostep (oinit throws) c ->
  (forall i l, nth_error (snd c) i = Some l -> returned l = true) ->
  (o_word (fst c) = Done /\ o_success (fst c) = 1) \/
  (o_word (fst c) = Uninit /\ o_success (fst c) = 0 /\ forall i l, nth_error (snd c) i = Some l -> ol_pc l = ORetExc).
Proof.
  intros H Hret. destruct (J_reach _ _ H) as (_ & JW & JN & JO & JR & JB & JS & JD & JF).
  unfold JSp in JS. destruct (o_word (fst c)) as [| |w k] eqn:Ew.
  - right. split; auto. split.
    + rewrite JS. rewrite count_all_false; auto. intros i l A. specialize (Hret i l A).
      destruct l as [[] ?]; cbn in *; try discriminate; auto.
    + intros i l A. specialize (Hret i l A). destruct l as [pc th]. destruct pc; cbn in Hret; try discriminate; auto.
      specialize (JD i _ A eq_refl). discriminate.
  - left. auto.
  - exfalso. cbn in JW. destruct JW as ((lw & A & B) & _). specialize (Hret w lw A).
    destruct lw as [[] ?]; cbn in *; discriminate.
Qed.
