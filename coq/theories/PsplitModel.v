(* C05: blocked_range::do_split(r, proportional_split) (include/oneapi/tbb/blocked_range.h:110-125):
     right_part = size_type(float(size) * float(right) / float(left + right) + 0.5f)
   evaluated in IEEE-754 binary32 (Flocq), every operation rounded to nearest-even as on x86-64 SSE.
   This file is evaluated inside Coq (vm_compute) by the correspondence check; it is not extracted. *)
From Coq Require Import ZArith List.
From Flocq Require Import IEEE754.BinarySingleNaN.
Import ListNotations.
Local Open Scope Z_scope.

Definition prec32 : Z := 24.
Definition emax32 : Z := 128.
Global Instance Hprec32 : FLX.Prec_gt_0 prec32. Proof. reflexivity. Qed.
Global Instance Hmax32 : Prec_lt_emax prec32 emax32. Proof. reflexivity. Qed.
Definition f32 := binary_float prec32 emax32.

Definition f32_of_Z (z : Z) : f32 := binary_normalize prec32 emax32 _ _ mode_NE z 0 false.   (* float(size_t) *)
Definition f32_half : f32 := binary_normalize prec32 emax32 _ _ mode_NE 1 (-1) false.

Definition psplit_right (size left right : Z) : Z :=
  let q := Bdiv mode_NE (Bmult mode_NE (f32_of_Z size) (f32_of_Z right)) (f32_of_Z (left + right)) in
  Btrunc (Bplus mode_NE q f32_half).

(* the variant `(size*right + 0.5f) / (left+right)` (rounds down instead of to nearest) *)
Definition psplit_right_floor (size left right : Z) : Z :=
  let p := Bplus mode_NE (Bmult mode_NE (f32_of_Z size) (f32_of_Z right)) f32_half in
  Btrunc (Bdiv mode_NE p (f32_of_Z (left + right))).

Fixpoint run_psplit (l : list Z) : list Z :=
  match l with
  | s :: a :: b :: tl => psplit_right s a b :: run_psplit tl
  | _ => []
  end.
