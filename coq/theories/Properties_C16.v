(* C16 — arenas / worker budget.  Property theorems only; proofs live in AllotProofs.v. *)
From OTV Require Import Lib.Tac Params AllotModel AllotProofs.
Local Open Scope Z_scope.

(* For every demand vector (any number of arenas per priority level, any non-negative requests) and every
   soft limit L >= 1: the workers granted sum to min(total demand, L); no arena is granted more than it
   requested; and priority level i receives min(D_i, what the higher levels left) — higher priority is
   satisfied first. *)
Theorem allot_sum_priority_le_request : forall L mand total lv res a,
  1 <= L -> lv_ok lv -> total = total_demand lv -> 0 <= total ->
  update_allotment L mand total lv = (res, a) ->
  a = Z.min total L /\
  Forall2 (fun r p => Forall2 (fun al q => 0 <= al <= snd q) r (snd p)) res lv /\
  (forall i r, nth_error res i = Some r ->
     sumz r = Z.min (nth i (map fst lv) 0) (Z.max 0 (Z.min total L - sumz (firstn i (map fst lv))))).
Proof. exact update_allotment_sum. Qed.
Print Assumptions allot_sum_priority_le_request.

(* The rounding carry of the proportional split never leaks from one priority level into the next. *)
Theorem allot_carry_zero_at_level_end : forall L apl D maxw cs assigned res a c,
  L <> 0 -> 0 <= apl <= D -> Forall (fun q => 0 <= snd q) cs -> sum_max cs = D ->
  level_allot L apl D maxw cs assigned 0 = (res, a, c) ->
  Forall2 (fun al q => 0 <= al <= snd q) res cs /\ sumz res = apl /\ a = assigned + apl /\ c = 0.
Proof. exact level_allot_exact. Qed.
Print Assumptions allot_carry_zero_at_level_end.

(* Soft limit 0: at most one (mandatory) worker, only for an arena with enqueued work. *)
Theorem allot_mandatory : forall mand total lv res a,
  0 <= total -> update_allotment 0 mand total lv = (res, a) ->
  0 <= a <= 1 /\ (mand <= 0 -> a = 0) /\
  Forall2 (fun r p => Forall2 (fun al (q : creq) => al = 0 \/ (al = 1 /\ 0 < fst q /\ snd q <> 0)) r (snd p)) res lv.
Proof. exact update_allotment_zero. Qed.
Print Assumptions allot_mandatory.

(* Soft limit 0, the other half (this is what property C02 needs: an enqueued task runs although nobody waits in its arena):
   whenever some arena has a mandatory (enqueued-work) request and a non-zero demand, the one worker IS granted -
   whatever the priorities and demands of the other arenas are. *)
Theorem mandatory_worker_is_granted : forall mand total lv res a,
  0 < mand -> 1 <= total -> update_allotment 0 mand total lv = (res, a) ->
  Exists (fun p => Exists (fun q : creq => 0 < fst q /\ snd q <> 0) (snd p)) lv -> a = 1.
Proof. exact update_allotment_zero_grants. Qed.
Print Assumptions mandatory_worker_is_granted.

Example allot_example :
  update_allotment 7 0 13 [(2, [(0, 2)]); (11, [(0, 8); (0, 3)]); (0, [])] = ([[2]; [3; 2]; []], 7)
  /\ lv_ok [(2, [(0, 2)]); (11, [(0, 8); (0, 3)]); (0, [])].
Proof.
  split; [vm_compute; reflexivity|].
  repeat constructor; cbn; lia.
Qed.
