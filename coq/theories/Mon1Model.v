(* C02: the predicate form of the monitor's notification (concurrent_monitor_base::notify_one_relaxed(predicate), used by
   tbb::mutex / address waiters): waiters carry a context (the address they wait on), a notifier makes the condition of ONE
   address true and wakes one waiter of that address — the most recently enqueued one — whatever else is in the wait set.
   Same step granularity and event codes as MonModel; threads 0..W-1 waiters (context given), the rest notifiers (address given). *)
From OTV Require Import Lib.Tac Lib.Conc MonModel.
Local Open Scope Z_scope.

Record m1g := mkm1 { m1_epoch : Z; m1_wset : list nat; m1_conds : list bool; m1_sems : list Z; m1_ctx : list Z }.
Record m1l := mkm1l { m1_pc : mpc; m1_wepoch : Z; m1_skipped : bool; m1_addr : Z }.

Definition ctx_of (g : m1g) (w : nat) : Z := nth w (m1_ctx g) 0.
Definition cond_of (g : m1g) (a : Z) : bool := nth (Z.to_nat a) (m1_conds g) false.
Definition sem1 (g : m1g) (w : nat) : Z := nth w (m1_sems g) 0.

(* scan the wait set from the back (my_waitset.last(), then prev ...) for the first waiter whose context matches *)
Fixpoint last_match (ctx : list Z) (a : Z) (ws : list nat) : option nat :=
  match ws with
  | [] => None
  | w :: tl => match last_match ctx a tl with
               | Some x => Some x
               | None => if nth w ctx 0 =? a then Some w else None
               end
  end.

Definition m1step (tid : nat) (g : m1g) (l : m1l) : option (m1g * m1l * list Z) :=
  let upd p := mkm1l p (m1_wepoch l) (m1_skipped l) (m1_addr l) in
  let setsem w v := mkm1 (m1_epoch g) (m1_wset g) (m1_conds g) (set_nth (m1_sems g) w v) (m1_ctx g) in
  let cancel next :=
    if existsb (Nat.eqb tid) (m1_wset g)
    then (mkm1 (m1_epoch g) (filter (fun x => negb (Nat.eqb tid x)) (m1_wset g)) (m1_conds g) (m1_sems g) (m1_ctx g), mkm1l next (m1_wepoch l) false (m1_addr l))
    else (g, mkm1l next (m1_wepoch l) true (m1_addr l)) in
  match m1_pc l with
  | WStart =>
      if m1_skipped l && negb (1 <=? sem1 g tid) then Some (g, l, mev tid 5 0)
      else let g1 := if m1_skipped l then setsem tid (sem1 g tid - 1) else g in
           Some (mkm1 (m1_epoch g1) (m1_wset g1 ++ [tid]) (m1_conds g1) (m1_sems g1) (m1_ctx g1), mkm1l WCheck (m1_epoch g1) false (m1_addr l),
                 mev tid 1 (if m1_skipped l then 1 else 0))
  | WCheck => if cond_of g (ctx_of g tid) then Some (g, upd WCancelDone, mev tid 2 1) else Some (g, upd WCommit, mev tid 2 0)
  | WCommit => if m1_wepoch l =? m1_epoch g then Some (g, upd WSleep, mev tid 3 1)
               else let '(g', l') := cancel WStart in Some (g', l', mev tid 3 0 ++ mev tid 6 (if m1_skipped l' then 1 else 0))
  | WSleep => if 1 <=? sem1 g tid then Some (setsem tid (sem1 g tid - 1), upd WDone, mev tid 4 1) else Some (g, l, mev tid 5 1)
  | WCancelDone => let '(g', l') := cancel WDone in Some (g', l', mev tid 6 (if m1_skipped l' then 1 else 0))
  | WDone => None
  | NSet => Some (mkm1 (m1_epoch g) (m1_wset g) (set_nth (m1_conds g) (Z.to_nat (m1_addr l)) true) (m1_sems g) (m1_ctx g), upd NCheckEmpty, mev tid 7 1)
  | NCheckEmpty => match m1_wset g with [] => Some (g, upd NDone, mev tid 8 1) | _ => Some (g, upd NLock, mev tid 8 0) end
  | NLock =>
      match last_match (m1_ctx g) (m1_addr l) (m1_wset g) with
      | Some w => Some (mkm1 (m1_epoch g + 1) (filter (fun x => negb (Nat.eqb w x)) (m1_wset g)) (m1_conds g)
                             (set_nth (m1_sems g) w (sem1 g w + 1)) (m1_ctx g), upd NDone, mev tid 9 (Z.of_nat w))
      | None => Some (mkm1 (m1_epoch g + 1) (m1_wset g) (m1_conds g) (m1_sems g) (m1_ctx g), upd NDone, mev tid 9 (-1))
      end
  | NDone => None
  end.

(* flat interface: nwaiters nnotifiers, waiter contexts..., notifier addresses..., schedule; output as run_mon *)
Definition run_mon1 (inp : list Z) : list Z :=
  match inp with
  | nw :: nn :: tl =>
      let w := Z.to_nat nw in let n := Z.to_nat nn in
      let ctxs := firstn w tl in let addrs := firstn n (skipn w tl) in let sched := map Z.to_nat (skipn (w + n) tl) in
      let g0 := mkm1 0 [] (repeat false 8) (repeat 0 w) ctxs in
      let ls := map (fun _ => mkm1l WStart 0 false 0) ctxs ++ map (fun a => mkm1l NSet 0 false a) addrs in
      let '(c, evs) := run m1step (g0, ls) sched in
      evs ++ [-7] ++ map (fun l => match m1_pc l with WDone => 1 | NDone => 1 | _ => 0 end) (snd c) ++ [m1_epoch (fst c)]
  | _ => []
  end.

(* the notification finds a waiter of its address whenever there is one, whatever else is queued *)
Lemma last_match_in ctx a ws x : last_match ctx a ws = Some x -> In x ws /\ nth x ctx 0 = a.
Proof.
  revert x; induction ws as [|y ws IH]; intros x E; cbn [last_match] in E; [discriminate|].
  destruct (last_match ctx a ws) as [z|] eqn:E2.
  - inv E. destruct (IH x eq_refl). split; [right; auto|auto].
  - destruct (nth y ctx 0 =? a) eqn:Ey; inv E. split; [left; auto | lia].
Qed.

Lemma last_match_some ctx a ws w : In w ws -> nth w ctx 0 = a -> exists x, last_match ctx a ws = Some x /\ In x ws /\ nth x ctx 0 = a.
Proof.
  induction ws as [|y ws IH]; intros Hin Hc; [destruct Hin|].
  cbn [last_match]. destruct (last_match ctx a ws) as [z|] eqn:E.
  - destruct (last_match_in _ _ _ _ E). exists z. split; auto. split; [right; auto|auto].
  - destruct Hin as [->|Hin].
    + assert (H : (nth w ctx 0 =? a) = true) by lia. rewrite H. exists w. split; auto. split; [left; auto|auto].
    + destruct (IH Hin Hc) as (x' & E' & _). discriminate.
Qed.
