(* C08: executable small-step model of tbb::spin_rw_mutex (include/oneapi/tbb/spin_rw_mutex.h:64-160).
   One step = one atomic access to m_state, exactly the granularity of harness/gate. *)
From OTV Require Import Lib.Tac Lib.Conc Params.
Local Open Scope Z_scope.

(* state word layout: bit0 WRITER, bit1 WRITER_PENDING, bits 2.. reader count *)
Definition wbit (s : Z) : Z := s mod 2.
Definition pbit (s : Z) : Z := (s / 2) mod 2.
Definition rcount (s : Z) : Z := s / 4.
Definition busy (s : Z) : bool := negb ((wbit s =? 0) && (rcount s =? 0)).      (* s & BUSY *)
Definition wr_or_pend (s : Z) : bool := negb ((wbit s =? 0) && (pbit s =? 0)).  (* s & (WRITER|WRITER_PENDING) *)

(* operation codes of the scripts *)
Definition OLock := 1. Definition OTryLock := 2. Definition OUnlock := 3.
Definition OLockShared := 4. Definition OTryLockShared := 5. Definition OUnlockShared := 6.
Definition OUpgrade := 7. Definition ODowngrade := 8.

Inductive pc :=
| Idle
| LockLoad | LockCas (s : Z) | LockPend
| TryLoad | TryCas (s : Z)
| UnlockAnd
| LsLoad | LsAdd | LsUndo
| TlsLoad | TlsAdd | TlsUndo
| UsSub
| UpLoad | UpCas (s : Z) | UpSpin | UpFin | UpSlowSub
| DgAdd.

(* held: 0 = nothing, 1 = read lock, 2 = write lock (what the script's thread believes it holds) *)
Record loc := mkloc { script : list Z; at_pc : pc; in_upg : bool; held : Z }.

(* scripts are static op lists; an op that does not apply to what the thread currently holds is skipped
   (so every executed script is a legal use of the lock whatever try_* returned) *)
Definition applicable (h o : Z) : bool :=
  if h =? 0 then (o =? 1) || (o =? 2) || (o =? 4) || (o =? 5)
  else if h =? 1 then (o =? 6) || (o =? 7)
  else (o =? 3) || (o =? 8).
Fixpoint skip_inapplicable (h : Z) (sc : list Z) : list Z :=
  match sc with
  | [] => []
  | o :: tl => if applicable h o then sc else skip_inapplicable h tl
  end.
Definition held_after (h o res : Z) : Z :=
  if o =? 1 then 2 else if o =? 2 then (if res =? 1 then 2 else 0)
  else if o =? 3 then 0 else if o =? 4 then 1 else if o =? 5 then (if res =? 1 then 1 else 0)
  else if o =? 6 then 0 else if o =? 7 then 2 else 1.

(* event encodings (must match harness/gate/gate.h print_trace) *)
Definition K_LOAD := 1. Definition K_CAS := 4. Definition K_ADD := 5. Definition K_SUB := 6.
Definition K_OR := 7. Definition K_AND := 8.
Definition RLX := 0. Definition SEQ := 5.
Definition ev (tid : nat) (kind order before after ok : Z) : list Z :=
  [Z.of_nat tid; 1; kind; order; before; after; ok].
Definition note (tid : nat) (opc res : Z) : list Z := [Z.of_nat tid; 0; 100 + opc; 0; res; 0; 1].

Definition first_pc (o : Z) : pc :=
  if o =? OLock then LockLoad else if o =? OTryLock then TryLoad else if o =? OUnlock then UnlockAnd
  else if o =? OLockShared then LsLoad else if o =? OTryLockShared then TlsLoad
  else if o =? OUnlockShared then UsSub else if o =? OUpgrade then UpLoad else DgAdd.

(* the while-condition of upgrade(): only reader, or no pending writer *)
Definition up_cond (s : Z) : bool := (rcount s =? 1) || (pbit s =? 0).

(* current op code = head of the script while at_pc <> Idle *)
Definition cur_op (l : loc) : Z := hd 0 (script l).
Definition complete (tid : nat) (l : loc) (res : Z) : loc * list Z :=
  let h := held_after (held l) (cur_op l) res in
  (mkloc (skip_inapplicable h (tl (script l))) Idle false h, note tid (cur_op l) res).

(* one atomic access of thread tid at program point p *)
Definition exec (tid : nat) (w : Z) (l : loc) (p : pc) : Z * loc * list Z :=
  let stay q := mkloc (script l) q (in_upg l) (held l) in
  match p with
  | Idle => (w, l, [])   (* unreachable: Idle is resolved by tstep *)
  | LockLoad =>
      let e := ev tid K_LOAD RLX w w 1 in
      if negb (busy w) then (w, stay (LockCas w), e)
      else if pbit w =? 0 then (w, stay LockPend, e) else (w, stay LockLoad, e)
  | LockCas s =>
      if w =? s then let '(l', n) := complete tid l (if in_upg l then 0 else 1) in (1, l', ev tid K_CAS SEQ s 1 1 ++ n)
      else (w, stay LockLoad, ev tid K_CAS SEQ w 1 0)
  | LockPend => let w' := if pbit w =? 0 then w + 2 else w in (w', stay LockLoad, ev tid K_OR SEQ w w' 1)
  | TryLoad =>
      let e := ev tid K_LOAD RLX w w 1 in
      if negb (busy w) then (w, stay (TryCas w), e)
      else let '(l', n) := complete tid l 0 in (w, l', e ++ n)
  | TryCas s =>
      if w =? s then let '(l', n) := complete tid l 1 in (1, l', ev tid K_CAS SEQ s 1 1 ++ n)
      else let '(l', n) := complete tid l 0 in (w, l', ev tid K_CAS SEQ w 1 0 ++ n)
  | UnlockAnd =>
      let w' := 4 * rcount w in
      let '(l', n) := complete tid l 1 in (w', l', ev tid K_AND SEQ w w' 1 ++ n)
  | LsLoad =>
      let e := ev tid K_LOAD RLX w w 1 in
      if negb (wr_or_pend w) then (w, stay LsAdd, e) else (w, stay LsLoad, e)
  | LsAdd =>
      let e := ev tid K_ADD SEQ w (w + 4) 1 in
      if wbit w =? 0 then let '(l', n) := complete tid l 1 in (w + 4, l', e ++ n)
      else (w + 4, stay LsUndo, e)
  | LsUndo => (w - 4, stay LsLoad, ev tid K_SUB SEQ w (w - 4) 1)
  | TlsLoad =>
      let e := ev tid K_LOAD RLX w w 1 in
      if negb (wr_or_pend w) then (w, stay TlsAdd, e)
      else let '(l', n) := complete tid l 0 in (w, l', e ++ n)
  | TlsAdd =>
      let e := ev tid K_ADD SEQ w (w + 4) 1 in
      if wbit w =? 0 then let '(l', n) := complete tid l 1 in (w + 4, l', e ++ n)
      else (w + 4, stay TlsUndo, e)
  | TlsUndo => let '(l', n) := complete tid l 0 in (w - 4, l', ev tid K_SUB SEQ w (w - 4) 1 ++ n)
  | UsSub => let '(l', n) := complete tid l 1 in (w - 4, l', ev tid K_SUB SEQ w (w - 4) 1 ++ n)
  | UpLoad =>
      let e := ev tid K_LOAD RLX w w 1 in
      if up_cond w then (w, stay (UpCas w), e) else (w, stay UpSlowSub, e)
  | UpCas s =>
      if w =? s then
        let w' := 4 * rcount w + 3 in (w', stay UpSpin, ev tid K_CAS SEQ s w' 1)
      else
        let e := ev tid K_CAS SEQ w (4 * rcount s + 3) 0 in
        if up_cond w then (w, stay (UpCas w), e) else (w, stay UpSlowSub, e)
  | UpSpin =>
      let e := ev tid K_LOAD RLX w w 1 in
      if rcount w =? 1 then (w, stay UpFin, e) else (w, stay UpSpin, e)
  | UpFin => let '(l', n) := complete tid l 1 in (w - 6, l', ev tid K_SUB SEQ w (w - 6) 1 ++ n)
  | UpSlowSub => (w - 4, mkloc (script l) LockLoad true (held l), ev tid K_SUB SEQ w (w - 4) 1)
  | DgAdd => let '(l', n) := complete tid l 1 in (w + 3, l', ev tid K_ADD SEQ w (w + 3) 1 ++ n)
  end.

Definition tstep (tid : nat) (w : Z) (l : loc) : option (Z * loc * list Z) :=
  match at_pc l with
  | Idle => match script l with
            | [] => None
            | o :: _ => Some (exec tid w l (first_pc o))
            end
  | p => Some (exec tid w l p)
  end.

(* ---- flat interface: input = nthreads, then per thread (len, ops...), then -1, then schedule ----
   output: events of the schedule, then events of the round-robin completion, then 1/0 = all finished *)
Fixpoint take_scripts (n : nat) (l : list Z) : list (list Z) * list Z :=
  match n with
  | O => ([], l)
  | S n' => match l with
            | len :: tl =>
                let k := Z.to_nat len in
                let '(rest, l') := take_scripts n' (skipn k tl) in
                (firstn k tl :: rest, l')
            | [] => ([], [])
            end
  end.

Definition run_rw (inp : list Z) : list Z :=
  match inp with
  | n :: tl =>
      let '(scripts, rest) := take_scripts (Z.to_nat n) tl in
      let sched := map Z.to_nat (match rest with _ :: s => s | [] => [] end) in
      let c0 := (0, map (fun s => mkloc (skip_inapplicable 0 s) Idle false 0) scripts) in
      let '(c1, evs1) := run tstep c0 sched in
      let '(c2, evs2, ok) := finish tstep 2000 c1 2000 in
      evs1 ++ evs2 ++ [if ok then 1 else 0]
  | [] => []
  end.
