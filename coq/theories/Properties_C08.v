(* C08 — mutexes.  Property theorems only; proofs live in RwProofs.v. *)
From OTV Require Import Lib.Tac Lib.Conc Params RwModel RwProofs.
Local Open Scope Z_scope.

(* spin_rw_mutex: for ANY number of threads, ANY scripts over the eight operations (lock, try_lock, unlock,
   lock_shared, try_lock_shared, unlock_shared, upgrade, downgrade) and ANY interleaving of their atomic
   accesses: a thread that holds the write lock excludes every other writer and every reader. *)
Theorem spin_rw_mutual_exclusion : forall scripts c,
  reach tstep (init_cfg scripts) c ->
  forall i j li lj, i <> j ->
    nth_error (snd c) i = Some li -> nth_error (snd c) j = Some lj ->
    holds_write li -> ~ holds_write lj /\ ~ holds_read lj.
Proof.
  intros scripts c Hr i j li lj Hne Hi Hj Hw.
  eapply mutual_exclusion_inv; eauto.
  eapply (inv_reach tstep Inv); eauto using inv_init.
  intros; eapply inv_step; eauto.
Qed.
Print Assumptions spin_rw_mutual_exclusion.

(* the state word always decodes as  WRITER*(#owners<=1) + WRITER_PENDING*p + ONE_READER*(#contributing
   readers): no reader-count underflow, no stray bit, in every reachable configuration *)
Theorem spin_rw_word_consistent : forall scripts c,
  reach tstep (init_cfg scripts) c ->
  exists p, (p = 0 \/ p = 1) /\
    fst c = rw_WRITER * Z.of_nat (count ownsW (snd c)) + rw_WRITER_PENDING * p
            + rw_ONE_READER * Z.of_nat (count contrib (snd c)) /\
    (count ownsW (snd c) <= 1)%nat.
Proof.
  intros scripts c Hr.
  assert (HI : Inv c).
  { eapply (inv_reach tstep Inv); eauto using inv_init. intros; eapply inv_step; eauto. }
  destruct HI as (_ & p & Hp & Hw & Ho & _). exists p. repeat split; auto.
  change rw_WRITER with 1. change rw_WRITER_PENDING with 2. change rw_ONE_READER with 4. lia.
Qed.
Print Assumptions spin_rw_word_consistent.

(* the executable scheduler used by the correspondence check only produces reachable configurations,
   so every trace compared with the real lock is a trace the theorems above speak about *)
Theorem spin_rw_run_is_reachable : forall scripts sched c evs,
  run tstep (init_cfg scripts) sched = (c, evs) -> reach tstep (init_cfg scripts) c.
Proof. intros. eapply run_reach; eauto. Qed.
Print Assumptions spin_rw_run_is_reachable.

(* non-vacuity: a reachable configuration in which thread 1 holds the write lock after an upgrade while
   thread 0 is spinning in lock() *)
Example rw_reachable_writer :
  let '(c, _) := run tstep (init_cfg [[1; 3]; [4; 7; 3]]) [1; 0; 1; 1; 0; 1; 1; 1]%nat in
  exists l, nth_error (snd c) 1 = Some l /\ holds_write l.
Proof. vm_compute. eexists. split; [reflexivity|]. split; reflexivity. Qed.
