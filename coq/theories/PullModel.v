(* C14: a limited REJECTING function_node fed by a buffering sender (queue_node): the push/pull edge protocol of
   function_input_base (include/oneapi/tbb/detail/_flow_graph_node_impl.h: internal_try_put_task, reg_pred, app_body_bypass,
   internal_forward / forwarder_busy, perform_queued_requests -> predecessor_cache::get_item) with the sender abstracted to a FIFO
   buffer that offers its front item while the node is its successor and hands items out on try_get while it is the node's predecessor.
   Every operation is one operation of the node's aggregator (or of the sender under its own lock). *)
From OTV Require Import Lib.Tac.
Local Open Scope Z_scope.

Record pn := mkpn {
  p_max : Z; p_conc : Z;
  p_items : list Z;          (* the sender's buffer, oldest first *)
  p_pull : bool;             (* the sender is registered in the node's predecessor cache (pull mode); otherwise the node is the sender's successor (push mode) *)
  p_rej : bool;              (* the sender's offer was rejected and its register_predecessor call has not reached the node yet *)
  p_busy : bool;             (* forwarder_busy *)
  p_fwd : bool;              (* a forwarder task exists (spawned, still repeating try_fwd) *)
  p_started : list Z;        (* messages for which a body task was created, in order *)
  p_put : list Z }.          (* everything ever put into the sender, in order (ghost) *)

(* perform_queued_requests of a rejecting node: ask the predecessor; an empty predecessor is dropped from the cache and becomes a pusher again *)
Definition pull (n : pn) : pn :=
  if p_pull n then
    match p_items n with
    | x :: tl => mkpn (p_max n) (p_conc n + 1) tl true (p_rej n) (p_busy n) (p_fwd n) (p_started n ++ [x]) (p_put n)
    | [] => mkpn (p_max n) (p_conc n) [] false (p_rej n) (p_busy n) (p_fwd n) (p_started n) (p_put n)
    end
  else n.

(* op 1 v: put v into the sender (in push mode it offers its front item: accepted if a slot is free, otherwise rejected -> the sender will register)
   op 2  : a running body finishes (app_body_bypass)      op 3: the forwarder task performs one try_fwd
   op 5  : the sender's register_predecessor arrives (reg_pred) *)
Definition pstep (n : pn) (op v : Z) : pn :=
  if op =? 1 then
    let n1 := mkpn (p_max n) (p_conc n) (p_items n ++ [v]) (p_pull n) (p_rej n) (p_busy n) (p_fwd n) (p_started n) (p_put n ++ [v]) in
    if p_pull n || p_rej n then n1
    else match p_items n1 with
         | x :: tl => if p_conc n <? p_max n
                      then mkpn (p_max n) (p_conc n + 1) tl false false (p_busy n) (p_fwd n) (p_started n ++ [x]) (p_put n1)
                      else mkpn (p_max n) (p_conc n) (p_items n1) false true (p_busy n) (p_fwd n) (p_started n) (p_put n1)
         | [] => n1
         end
  else if op =? 2 then
    if 0 <? p_conc n then
      let n1 := mkpn (p_max n) (p_conc n - 1) (p_items n) (p_pull n) (p_rej n) (p_busy n) (p_fwd n) (p_started n) (p_put n) in
      if p_conc n1 <? p_max n1 then pull n1 else n1
    else n
  else if op =? 3 then
    if p_fwd n then
      let n1 := if p_conc n <? p_max n then pull n else n in
      if Z.of_nat (length (p_started n)) <? Z.of_nat (length (p_started n1)) then n1       (* a body task was created: the forwarder goes on *)
      else mkpn (p_max n1) (p_conc n1) (p_items n1) (p_pull n1) (p_rej n1) false false (p_started n1) (p_put n1)
    else n
  else if op =? 5 then
    if p_rej n then
      if p_busy n then mkpn (p_max n) (p_conc n) (p_items n) true false true (p_fwd n) (p_started n) (p_put n)
      else mkpn (p_max n) (p_conc n) (p_items n) true false true true (p_started n) (p_put n)
    else n
  else n.

Definition pinit (maxc : Z) : pn := mkpn maxc 0 [] false false false false [] [].

Fixpoint prun (n : pn) (ops : list (Z * Z)) : pn :=
  match ops with [] => n | (op, v) :: tl => prun (pstep n op v) tl end.

(* the real graph runs the internal operations (registration, forwarder) by itself: between two external operations it is quiescent *)
Fixpoint settle (fuel : nat) (n : pn) : pn :=
  match fuel with
  | O => n
  | S f => if p_rej n then settle f (pstep n 5 0) else if p_fwd n then settle f (pstep n 3 0) else n
  end.

(* flat interface: max, then (op v)* with op in {1,2}; after every external op the model settles; output per op:
   concurrency, items left in the sender, pull mode?, forwarder_busy?, bodies started so far;  then -7 and the started messages *)
Fixpoint pairs2 (l : list Z) : list (Z * Z) := match l with a :: b :: tl => (a, b) :: pairs2 tl | _ => [] end.
Fixpoint ptrace (n : pn) (ops : list (Z * Z)) : pn * list Z :=
  match ops with
  | [] => (n, [])
  | (op, v) :: tl =>
      let n1 := settle 50 (pstep n op v) in
      let '(n2, rs) := ptrace n1 tl in
      (n2, p_conc n1 :: Z.of_nat (length (p_items n1)) :: (if p_pull n1 then 1 else 0) :: (if p_busy n1 then 1 else 0) :: Z.of_nat (length (p_started n1)) :: rs)
  end.
Definition run_pull (l : list Z) : list Z :=
  match l with
  | m :: tl => let '(n, rs) := ptrace (pinit m) (pairs2 tl) in rs ++ [-7] ++ p_started n
  | [] => []
  end.
