(* C15: invariants of JoinModel (join_node, queueing policy) for every sequence of operations, forward tasks running at any moment. *)
From OTV Require Import Lib.Tac JoinModel.
Local Open Scope Z_scope.

Definition count_empty (qs : list (list Z)) : nat := length (filter isnil qs).
Definition proj (p : nat) (out : list (list Z)) : list Z := map (fun t => nth p t 0) out.

Lemma getq_setq_eq l i v : (i < length l)%nat -> getq (setq l i v) i = v.
Proof. unfold getq. revert i; induction l as [|x l IH]; intros [|i] H; cbn in *; try lia; auto. apply IH; lia. Qed.
Lemma getq_setq_neq l i j v : i <> j -> getq (setq l i v) j = getq l j.
Proof. unfold getq. revert i j; induction l as [|x l IH]; intros [|i] [|j] H; cbn; auto; try lia. Qed.
Lemma setq_length l i v : length (setq l i v) = length l.
Proof. revert i; induction l as [|x l IH]; intros [|i]; cbn; auto. Qed.
Lemma count_empty_setq l i v : (i < length l)%nat ->
  (count_empty (setq l i v) + (if isnil (getq l i) then 1 else 0) = count_empty l + (if isnil v then 1 else 0))%nat.
Proof.
  unfold count_empty, getq. revert i; induction l as [|x l IH]; intros [|i] H; cbn in *; try lia.
  - destruct (isnil x), (isnil v); cbn; lia.
  - specialize (IH i ltac:(lia)). destruct (isnil x); cbn; lia.
Qed.
Lemma count_empty_zero l p : count_empty l = 0%nat -> (p < length l)%nat -> getq l p <> [].
Proof.
  unfold count_empty, getq. revert p; induction l as [|x l IH]; intros [|p] H Hp; cbn in *; try lia.
  - destruct x; cbn in *; [discriminate|congruence].
  - destruct (isnil x); cbn in *; [discriminate|]. apply IH; auto; lia.
Qed.
Lemma count_empty_pos l : (0 < count_empty l)%nat -> exists p, (p < length l)%nat /\ getq l p = [].
Proof.
  unfold count_empty, getq. induction l as [|x l IH]; cbn; [lia|]. destruct x as [|a x]; cbn.
  - intros _. exists 0%nat. split; [lia|auto].
  - intros H. destruct (IH H) as [p [Hp Hq]]. exists (S p). split; [lia|auto].
Qed.
Lemma count_empty_le l : (count_empty l <= length l)%nat.
Proof. unfold count_empty. induction l as [|x l IH]; cbn; [lia|]. destruct (isnil x); cbn; lia. Qed.

(* the decrement loop of tuple_accepted *)
Definition dec_loop (qs : list (list Z)) (pw fw : Z) : Z * Z :=
  fold_left (fun '(pw, fw) q => if isnil q then (pw, fw) else (pw - 1, if pw - 1 =? 0 then fw + 1 else fw)) qs (pw, fw).
Lemma dec_loop_spec qs : forall pw fw, Z.of_nat (length qs) <= pw ->
  let '(pw', fw') := dec_loop qs pw fw in
  pw' = pw - Z.of_nat (length qs) + Z.of_nat (count_empty qs) /\ fw <= fw' /\
  (pw' = 0 -> (count_empty qs < length qs)%nat -> fw + 1 <= fw').
Proof.
  unfold dec_loop, count_empty. induction qs as [|q qs IH]; intros pw fw H; cbn [fold_left length filter].
  - split; [lia|]. split; [lia|]. intros; lia.
  - cbn [length] in H. destruct (isnil q) eqn:E.
    + specialize (IH pw fw ltac:(lia)). destruct (fold_left _ qs (pw, fw)) as [pw' fw'].
      destruct IH as (H1 & H2 & H3). cbn [length]. split; [lia|]. split; [lia|]. intros Hz Hc. apply H3; auto. lia.
    + set (fw1 := if pw - 1 =? 0 then fw + 1 else fw).
      specialize (IH (pw - 1) fw1 ltac:(lia)). destruct (fold_left _ qs (pw - 1, fw1)) as [pw' fw'].
      destruct IH as (H1 & H2 & H3). assert (fw <= fw1) by (unfold fw1; destruct (pw - 1 =? 0); lia).
      split; [lia|]. split; [lia|]. intros Hz Hc.
      assert (Hle := count_empty_le qs). unfold count_empty in Hle.
      destruct (Nat.eq_dec (length (filter isnil qs)) (length qs)) as [Heq|Hne].
      * (* nothing left to decrement: this was the last one, pw - 1 = 0 *)
        assert (pw - 1 = 0) by lia. unfold fw1 in *. replace (pw - 1 =? 0) with true in * by (symmetry; apply Z.eqb_eq; auto). lia.
      * specialize (H3 Hz ltac:(lia)). lia.
Qed.

Lemma getq_map_tl qs p : getq (map (@tl Z) qs) p = tl (getq qs p).
Proof. unfold getq. change (@nil Z) with (tl (@nil Z)) at 1. apply map_nth. Qed.
Lemma nth_map_hd qs p : nth p (map (hd 0) qs) 0 = hd 0 (getq qs p).
Proof. unfold getq. change 0 with (hd 0 (@nil Z)) at 2. apply map_nth. Qed.

Definition J0 (n : jn) : Prop :=
  (0 < length (j_qs n))%nat /\ length (j_puts n) = length (j_qs n) /\
  j_pwni n = Z.of_nat (count_empty (j_qs n)) /\
  (forall p, (p < length (j_qs n))%nat -> getq (j_puts n) p = proj p (j_out n) ++ getq (j_qs n) p) /\
  0 <= j_fwd n /\ (j_busy n = true -> 1 <= j_fwd n).
Definition J (n : jn) : Prop := J0 n /\ (j_pwni n = 0 -> j_push n = true -> 1 <= j_fwd n).

Lemma take_tuple_J0 n : J0 n -> j_pwni n = 0 ->
  J0 (take_tuple n) /\ j_fwd n <= j_fwd (take_tuple n) /\ (j_pwni (take_tuple n) = 0 -> j_fwd n + 1 <= j_fwd (take_tuple n)) /\
  j_push (take_tuple n) = j_push n /\ j_acc (take_tuple n) = j_acc n /\ j_busy (take_tuple n) = j_busy n /\
  (total_len (take_tuple n) < total_len n)%nat.
Proof.
  intros (HN & HL & HP & HD & HF & HB) Hz. unfold take_tuple, reset_ports.
  assert (Hspec := dec_loop_spec (map (@tl Z) (j_qs n)) (Z.of_nat (length (j_qs n))) (j_fwd n)).
  rewrite map_length in Hspec. specialize (Hspec ltac:(lia)). unfold dec_loop in Hspec.
  destruct (fold_left _ (map (@tl Z) (j_qs n)) (Z.of_nat (length (j_qs n)), j_fwd n)) as [pw fw].
  destruct Hspec as (H1 & H2 & H3).
  assert (Hne : forall p, (p < length (j_qs n))%nat -> getq (j_qs n) p <> []) by (intros; apply count_empty_zero; auto; lia).
  cbn [j_qs j_pwni j_fwd j_busy j_push j_acc j_out j_puts].
  split; [|split; [lia|split; [|split; [auto|split; [auto|split; [auto|]]]]]].
  - unfold J0. cbn [j_qs j_pwni j_fwd j_busy j_push j_acc j_out j_puts]. rewrite map_length.
    split; [auto|]. split; [auto|]. split; [lia|]. split; [|split; [lia|intros Hb; specialize (HB Hb); lia]].
    intros p Hp. rewrite (HD p Hp). unfold proj. rewrite map_app. cbn [map]. rewrite nth_map_hd, getq_map_tl.
    rewrite <- app_assoc. f_equal. specialize (Hne p Hp). destruct (getq (j_qs n) p); [congruence|auto].
  - intros Hpw. apply H3; auto. assert (Hle := count_empty_le (map (@tl Z) (j_qs n))). rewrite map_length in Hle. lia.
  - unfold total_len. cbn [j_qs]. clear - HN Hne. revert HN Hne. generalize (j_qs n). intros qs.
    induction qs as [|q qs IH]; cbn [length]; [lia|]. intros _ Hne. cbn [map fold_right].
    assert (Hq : q <> []) by (apply (Hne 0%nat); cbn; lia). destruct q as [|a q]; [congruence|]. cbn [tl length].
    destruct qs as [|q2 qs]; [cbn; lia|].
    assert (IH' : (fold_right (fun q0 a0 => (length q0 + a0)%nat) 0%nat (map (@tl Z) (q2 :: qs)) < fold_right (fun q0 a0 => (length q0 + a0)%nat) 0%nat (q2 :: qs))%nat).
    { apply IH; [cbn; lia|]. intros p Hp. apply (Hne (S p)). cbn in *; lia. }
    lia.
Qed.

Lemma fwd_loop_J0 fuel : forall n, J0 n ->
  let n1 := fwd_loop fuel n in
  J0 n1 /\ j_fwd n <= j_fwd n1 /\ j_busy n1 = j_busy n /\ ((total_len n < fuel)%nat -> j_pwni n1 = 0 -> j_push n1 = false).
Proof.
  induction fuel as [|f IH]; intros n HJ; cbn [fwd_loop].
  - split; [auto|]. split; [lia|]. split; [auto|]. intros; lia.
  - destruct (j_pwni n =? 0) eqn:Ez.
    + apply Z.eqb_eq in Ez. destruct (j_push n && j_acc n) eqn:Ea.
      * destruct (take_tuple_J0 n HJ Ez) as (HJ1 & Hf & _ & Hp & Hac & Hb & Hlen).
        specialize (IH (take_tuple n) HJ1). cbv zeta in IH. destruct IH as (H1 & H2 & H3 & H4).
        split; [auto|]. split; [lia|]. split; [congruence|]. intros Hl. apply H4. lia.
      * cbn. split; [|split; [lia|split; [auto|auto]]]. unfold J0 in *. cbn. auto.
    + apply Z.eqb_neq in Ez. split; [auto|]. split; [lia|]. split; [auto|]. intros _ Hz. congruence.
Qed.

Lemma jstep_J n op a v : J n -> J (fst (jstep n op a v)).
Proof.
  intros [HJ Hs]. assert (HJ' := HJ). destruct HJ' as (HN & HL & HP & HD & HF & HB). unfold jstep.
  destruct (op =? 1) eqn:E1.
  { destruct (Z.to_nat a <? length (j_qs n))%nat eqn:Ei; [|split; auto]. apply Nat.ltb_lt in Ei.
    set (i := Z.to_nat a) in *.
    assert (Hc := count_empty_setq (j_qs n) i (getq (j_qs n) i ++ [v]) Ei).
    assert (Hnn : isnil (getq (j_qs n) i ++ [v]) = false) by (destruct (getq (j_qs n) i); auto). rewrite Hnn in Hc.
    assert (HD' : forall p, (p < length (j_qs n))%nat ->
              getq (setq (j_puts n) i (getq (j_puts n) i ++ [v])) p = proj p (j_out n) ++ getq (setq (j_qs n) i (getq (j_qs n) i ++ [v])) p).
    { intros p Hp. destruct (Nat.eq_dec i p) as [<-|Hn].
      - rewrite !getq_setq_eq by lia. rewrite (HD i Ei). rewrite app_assoc. auto.
      - rewrite !getq_setq_neq by auto. auto. }
    destruct (isnil (getq (j_qs n) i)) eqn:Ee; cbn [fst].
    - split.
      + unfold J0. cbn [j_qs j_pwni j_fwd j_busy j_push j_acc j_out j_puts]. rewrite !setq_length.
        split; [auto|]. split; [auto|]. split; [lia|]. split; [auto|].
        destruct (j_pwni n - 1 =? 0); split; try lia; intros Hb; specialize (HB Hb); lia.
      + cbn [j_qs j_pwni j_fwd j_busy j_push j_acc j_out j_puts]. intros Hz _. apply Z.eqb_eq in Hz. rewrite Hz. lia.
    - split.
      + unfold J0. cbn [j_qs j_pwni j_fwd j_busy j_push j_acc j_out j_puts]. rewrite !setq_length.
        split; [auto|]. split; [auto|]. split; [lia|]. split; [auto|]. split; auto.
      + cbn [j_qs j_pwni j_fwd j_busy j_push j_acc j_out j_puts]. auto. }
  destruct (op =? 2) eqn:E2; [split; [unfold J0 in *; cbn; auto|cbn; auto]|].
  destruct (op =? 3) eqn:E3; [split; [unfold J0 in *; cbn; auto|cbn; auto]|].
  destruct (op =? 4) eqn:E4.
  { destruct (j_pwni n =? 0) eqn:Ez; [|split; auto]. apply Z.eqb_eq in Ez. cbn [fst].
    destruct (take_tuple_J0 n HJ Ez) as (HJ1 & Hf & Hz & _). split; [auto|]. intros Hpw _. specialize (Hz Hpw). lia. }
  destruct (op =? 6) eqn:E6.
  { destruct ((j_pwni n =? 0) && negb (j_busy n)) eqn:Ec; cbn [fst].
    - split; [unfold J0 in *; cbn; repeat split; auto; try lia; intros; lia|cbn; intros; lia].
    - split; [unfold J0 in *; cbn; auto|]. cbn. intros Hz _. apply andb_false_iff in Ec. destruct Ec as [Ec|Ec].
      + apply Z.eqb_neq in Ec. congruence.
      + apply negb_false_iff in Ec. auto. }
  destruct (op =? 7) eqn:E7; [|split; auto].
  destruct (0 <? j_fwd n) eqn:Ef; [|split; auto]. apply Z.ltb_lt in Ef. cbn [fst].
  destruct (fwd_loop_J0 (S (total_len n)) n HJ) as (H1 & H2 & H3 & H4). cbv zeta in *.
  set (n1 := fwd_loop (S (total_len n)) n) in *. destruct H1 as (A1 & A2 & A3 & A4 & A5 & A6).
  split.
  - unfold J0. cbn [j_qs j_pwni j_fwd j_busy j_push j_acc j_out j_puts]. repeat split; auto; try lia; intros; discriminate.
  - cbn [j_qs j_pwni j_fwd j_busy j_push j_acc j_out j_puts]. intros Hz Hp. rewrite (H4 ltac:(lia) Hz) in Hp. discriminate.
Qed.

Lemma jinit_J np : (0 < np)%nat -> J (jinit np).
Proof.
  intros H. unfold jinit, J, J0. cbn [j_qs j_pwni j_fwd j_busy j_push j_acc j_out j_puts]. rewrite !repeat_length.
  assert (Hc : count_empty (repeat [] np) = np) by (unfold count_empty; induction np; cbn; auto; destruct np; cbn in *; auto; rewrite IHnp; auto; lia).
  split.
  - split; [auto|]. split; [auto|]. split; [lia|]. split; [|split; [lia|intros; discriminate]].
    intros p Hp. unfold getq, proj. cbn. rewrite nth_repeat. auto.
  - intros Hz. lia.
Qed.

Fixpoint jrun (n : jn) (ops : list (Z * Z * Z)) : jn :=
  match ops with [] => n | (op, a, v) :: tl => jrun (fst (jstep n op a v)) tl end.
Lemma jrun_J ops : forall n, J n -> J (jrun n ops).
Proof. induction ops as [|[[op a] v] tl IH]; intros n H; cbn; auto. apply IH. apply jstep_J; auto. Qed.
