From OTV Require Import Lib.Tac Lib.Conc SuspendModel.
Local Open Scope Z_scope.

(* the reachable configurations, characterised exactly *)
Definition SInv (c : sshared * list spc) : Prop :=
  let g := fst c in
  exists s r, snd c = [s; r] /\ s_pushed_before_left g = false /\
  match s, r with
  | SLeave, RNotify => s_state g = ACTIVE /\ s_pushed g = 0 /\ s_left g = false
  | SLeave, SDone => s_state g = NOTIFIED /\ s_pushed g = 0 /\ s_left g = false          (* resumer was first *)
  | SDone, RNotify => s_state g = SUSPENDED /\ s_pushed g = 0 /\ s_left g = true         (* suspender was first *)
  | SSelfResume, SDone => s_state g = SUSPENDED /\ s_pushed g = 0 /\ s_left g = true
  | SDone, SDone => s_state g = NOTIFIED /\ s_pushed g = 1 /\ s_left g = true
  | _, _ => False
  end.

Lemma sinv_init : SInv sinit.
Proof. unfold SInv, sinit. cbn. exists SLeave, RNotify. repeat split; auto. Qed.

Lemma sinv_step c i c' e : SInv c -> step_at sstep c i = Some (c', e) -> SInv c'.
Proof.
  destruct c as [g ls]. unfold SInv at 1. cbn [fst snd]. intros (s & r & Hl & Hb & Hcase) H. subst ls.
  unfold step_at in H. cbn [fst snd] in H.
  destruct s, r; try contradiction; destruct Hcase as (Hs & Hp & Hlf);
    (destruct i as [|[|i]]; cbn [nth_error sstep] in H; [| |destruct i; discriminate]); try discriminate;
    inv H; unfold SInv, push_if_suspended; cbn [fst snd set_nth]; rewrite ?Hs; cbn.
  - exists SDone, RNotify. repeat split; auto.
  - exists SLeave, SDone. rewrite Hb. repeat split; auto.
  - exists SSelfResume, SDone. repeat split; auto.
  - exists SDone, SDone. rewrite Hlf, Hb. cbn. repeat split; auto. lia.
  - exists SDone, SDone. rewrite Hlf, Hb. cbn. repeat split; auto. lia.
Qed.

Lemma sreach_inv c : reach sstep sinit c -> SInv c.
Proof. apply (inv_reach sstep SInv); [apply sinv_init|intros; eapply sinv_step; eauto]. Qed.

(* at most one resume task, never before the suspender left the stack; exactly one once both sides are done *)
Lemma resume_exactly_once_proof c :
  reach sstep sinit c ->
  0 <= s_pushed (fst c) <= 1 /\ s_pushed_before_left (fst c) = false /\
  (snd c = [SDone; SDone] -> s_pushed (fst c) = 1) /\
  (s_pushed (fst c) = 1 -> s_left (fst c) = true).
Proof.
  intros H. pose proof (sreach_inv c H) as Hi. unfold SInv in Hi. cbn zeta in Hi. destruct Hi as (s & r & Hl & Hb & Hcase). rewrite Hl.
  destruct s, r; try contradiction; destruct Hcase as (Hs & Hp & Hlf); repeat split; auto; try lia; try discriminate; intros; try lia; auto.
Qed.

(* no deadlock: whenever somebody is not done, somebody can step *)
Lemma resume_no_stuck_proof c : reach sstep sinit c -> snd c <> [SDone; SDone] -> exists i c' e, step_at sstep c i = Some (c', e).
Proof.
  intros H Hn. pose proof (sreach_inv c H) as Hi. unfold SInv in Hi. cbn zeta in Hi. destruct Hi as (s & r & Hl & Hb & Hcase). destruct c as [g ls]. cbn [snd fst] in *. subst ls.
  destruct s, r; try contradiction; try congruence; unfold step_at; cbn [fst snd].
  all: try (exists 0%nat; cbn [nth_error sstep]; eexists; eexists; reflexivity).
  all: try (exists 1%nat; cbn [nth_error sstep]; eexists; eexists; reflexivity).
Qed.
