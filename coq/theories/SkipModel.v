(* C12 (ordered containers): the lock-free skip list of concurrent_set / concurrent_map (unique keys)
   (include/oneapi/tbb/detail/_concurrent_skip_list.h: internal_insert_node :951-1011, fill_prev_curr_arrays :891-907,
   internal_find_position :857-888, internal_get_bound :1014-1025 behind find / contains / lower_bound).
   Granularity: one step = ONE atomic access to my_max_height or to a next(level) pointer (the accesses of harness/gate),
   including the relaxed store new_node->set_next.  Nodes are never unlinked by the concurrency-safe operations, so the chain of
   level l is represented by the list of node ids in chain order (head excluded): next(n, l) is n's successor in that list, and a
   successful CAS on next(p, l) from e to x is the insertion of x behind p.  Node ids are fixed per operation (id 0 = head),
   keys and heights are immutable after node creation: they are parameters. *)
From OTV Require Import Lib.Tac Lib.Conc.
Local Open Scope nat_scope.

Definition MAXL : nat := 32.

Fixpoint next_after (chain : list nat) (p : nat) : nat :=        (* 0 = null *)
  match chain with
  | [] => 0
  | x :: tl => if x =? p then hd 0 tl else next_after tl p
  end.
Fixpoint ins_after (chain : list nat) (p x : nat) : list nat :=
  match chain with
  | [] => []
  | y :: tl => if y =? p then y :: x :: tl else y :: ins_after tl p x
  end.
Fixpoint setn {A} (l : list A) (i : nat) (v : A) : list A :=
  match l, i with [], _ => [] | _ :: tl, O => v :: tl | x :: tl, S j => x :: setn tl j v end.

Definition getn (l : list nat) (i : nat) : nat := nth i l 0.

Record sshared := mkS {
  s_levels : list (list nat);     (* MAXL chains *)
  s_max : nat }.                  (* my_max_height *)

Definition lvl (g : sshared) (l : nat) : list nat := nth l (s_levels g) [].
Definition nxt (g : sshared) (p l : nat) : nat := next_after (0 :: lvl g l) p.
Definition link (g : sshared) (p l x : nat) : sshared :=
  mkS (setn (s_levels g) l (tl (ins_after (0 :: lvl g l) p x))) (s_max g).

Inductive spc :=
| SIdle
| SLoadMax                              (* insert: fill_prev_curr_arrays loads my_max_height *)
| SSearch (lev prev : nat)              (* insert: about to load next(prev, lev) *)
| SStore (lev : nat)                    (* new_node->set_next(lev, curr_nodes[lev]) *)
| SCas (lev : nat)                      (* CAS next(prev_nodes[lev], lev): curr_nodes[lev] -> new_node *)
| SMaxLoad                              (* linked at level 0: load my_max_height *)
| SMaxCas (seen : nat)                  (* CAS my_max_height: seen -> height *)
| SRefind (level lev prev : nat)        (* a CAS at [level] failed: re-search level lev (level <= lev < height) from prev *)
| SFLoadMax                             (* find: load my_max_height *)
| SFSearch (lev prev : nat).            (* find: about to load next(prev, lev) *)

Record sloc := mkSL {
  sl_pc : spc;
  sl_k : Z; sl_x : nat;                 (* key and node id of the operation in progress *)
  sl_prev : list nat; sl_curr : list nat;   (* prev_nodes / curr_nodes (MAXL entries; 0 = head resp. null) *)
  sl_todo : list (nat * Z * nat);       (* (op, key, node id): op 1 = insert | 2 = find *)
  sl_gh : bool;                         (* ghost (find): the key was present and my_max_height > 0 when the find started *)
  sl_res : list (Z * Z * Z * bool) }.   (* results so far, newest first: (op, key, result, ghost) *)

Section Skip.
Variable key : nat -> Z.
Variable height : nat -> nat.

Definition var_next (n l : nat) : Z := Z.of_nat (1000 + n * 40 + l).
Definition zn (n : nat) : Z := Z.of_nat n.

Definition start_next (l : sloc) : sloc :=
  match sl_todo l with
  | (1, k, x) :: tl => mkSL SLoadMax k x (sl_prev l) (sl_curr l) tl false (sl_res l)
  | (_, k, x) :: tl => mkSL SFLoadMax k x (sl_prev l) (sl_curr l) tl false (sl_res l)
  | [] => l
  end.
Definition finish_op (l : sloc) (op r : Z) : sloc :=
  start_next (mkSL SIdle (sl_k l) (sl_x l) (sl_prev l) (sl_curr l) (sl_todo l) false ((op, sl_k l, r, sl_gh l) :: sl_res l)).

Definition goto (l : sloc) (p : spc) : sloc := mkSL p (sl_k l) (sl_x l) (sl_prev l) (sl_curr l) (sl_todo l) (sl_gh l) (sl_res l).
Definition record (l : sloc) (lev prev curr : nat) (p : spc) : sloc :=
  mkSL p (sl_k l) (sl_x l) (setn (sl_prev l) lev prev) (setn (sl_curr l) lev curr) (sl_todo l) (sl_gh l) (sl_res l).

(* after the search: duplicate -> false, otherwise start linking at level 0 *)
Definition decide (l : sloc) : sloc :=
  let nx := getn (sl_curr l) 0 in
  if negb (nx =? 0) && negb (sl_k l <? key nx)%Z then finish_op l 1 0 else goto l (SStore 0).
(* after my_max_height is settled: link the upper levels or finish *)
Definition after_max (l : sloc) : sloc :=
  if 1 <? height (sl_x l) then goto l (SStore 1) else finish_op l 1 1.

Definition sstep (tid : nat) (g : sshared) (l : sloc) : option (sshared * sloc * list Z) :=
  let t := zn tid in
  let h := height (sl_x l) in
  match sl_pc l with
  | SIdle => None
  | SLoadMax =>
      let m := s_max g in
      (* levels [m, h) of the arrays are filled with head / null *)
      let l1 := mkSL (sl_pc l) (sl_k l) (sl_x l)
                     (map (fun i => if (m <=? i) && (i <? h) then 0 else getn (sl_prev l) i) (seq 0 MAXL))
                     (map (fun i => if (m <=? i) && (i <? h) then 0 else getn (sl_curr l) i) (seq 0 MAXL))
                     (sl_todo l) (sl_gh l) (sl_res l) in
      Some (g, match m with O => decide l1 | S m' => goto l1 (SSearch m' 0) end, [t; 1; 1; zn m; zn m; 1]%Z)
  | SSearch lev prev =>
      let c := nxt g prev lev in
      let l' := if negb (c =? 0) && (key c <? sl_k l)%Z then goto l (SSearch lev c)
                else match lev with
                     | O => decide (record l 0 prev c SIdle)
                     | S lev' => record l lev prev c (SSearch lev' prev)
                     end in
      Some (g, l', [t; var_next prev lev; 1; zn c; zn c; 1]%Z)
  | SStore lev =>
      Some (g, goto l (SCas lev), [t; var_next (sl_x l) lev; 2; 0; zn (getn (sl_curr l) lev); 1]%Z)
  | SCas lev =>
      let p := getn (sl_prev l) lev in
      let e := getn (sl_curr l) lev in
      let c := nxt g p lev in
      if c =? e then
        let g' := link g p lev (sl_x l) in
        let l' := match lev with
                  | O => goto l SMaxLoad
                  | _ => if S lev <? h then goto l (SStore (S lev)) else finish_op l 1 1
                  end in
        Some (g', l', [t; var_next p lev; 4; zn c; zn (sl_x l); 1]%Z)
      else
        let l' := match lev with
                  | O => goto l SLoadMax
                  | _ => goto l (SRefind lev lev p)
                  end in
        Some (g, l', [t; var_next p lev; 4; zn c; zn (sl_x l); 0]%Z)
  | SMaxLoad =>
      let m := s_max g in
      Some (g, if h <=? m then after_max l else goto l (SMaxCas m), [t; 1; 1; zn m; zn m; 1]%Z)
  | SMaxCas seen =>
      let m := s_max g in
      if m =? seen then Some (mkS (s_levels g) h, after_max l, [t; 1; 4; zn m; zn h; 1]%Z)
      else Some (g, if h <=? m then after_max l else goto l (SMaxCas m), [t; 1; 4; zn m; zn h; 0]%Z)
  | SRefind level lev prev =>
      let c := nxt g prev lev in
      let l' := if negb (c =? 0) && (key c <? sl_k l)%Z then goto l (SRefind level lev c)
                else if S lev <? h then record l lev prev c (SRefind level (S lev) (getn (sl_prev l) (S lev)))
                else record l lev prev c (SStore level) in
      Some (g, l', [t; var_next prev lev; 1; zn c; zn c; 1]%Z)
  | SFLoadMax =>
      let m := s_max g in
      let l1 := mkSL (sl_pc l) (sl_k l) (sl_x l) (sl_prev l) (sl_curr l) (sl_todo l)
                     (existsb (fun n => (key n =? sl_k l)%Z) (lvl g 0) && (1 <=? m)) (sl_res l) in
      Some (g, match m with O => finish_op l1 2 0 | S m' => goto l1 (SFSearch m' 0) end, [t; 1; 1; zn m; zn m; 1]%Z)
  | SFSearch lev prev =>
      let c := nxt g prev lev in
      let l' := if negb (c =? 0) && (key c <? sl_k l)%Z then goto l (SFSearch lev c)
                else match lev with
                     | O => finish_op l 2 (if negb (c =? 0) && negb (sl_k l <? key c)%Z then 1 else 0)
                     | S lev' => goto l (SFSearch lev' prev)
                     end in
      Some (g, l', [t; var_next prev lev; 1; zn c; zn c; 1]%Z)
  end.

Definition sinit_loc (ops : list (nat * Z * nat)) : sloc :=
  start_next (mkSL SIdle 0%Z 0 (repeat 0 MAXL) (repeat 0 MAXL) ops false []).
End Skip.

(* flat interface:
     nnodes, (key height)*nnodes (node 0 = head, its pair is ignored),
     npre, ids of nodes inserted sequentially before the threads start,
     nthreads, per thread: nops, (op key nodeid)*,
     -1, schedule (thread ids)
   output: the events of the scheduled run (6 integers each), -7, then after round-robin completion
     quiescent?, my_max_height, per thread: -8, results (op key result)* oldest first, then per level 0..MAXL-1 with a non-empty chain: -9 level ids* *)
Fixpoint take_pairs (n : nat) (l : list Z) : list (Z * nat) * list Z :=
  match n with
  | O => ([], l)
  | S n' => match l with
            | k :: h :: tl => let '(ps, r) := take_pairs n' tl in ((k, Z.to_nat h) :: ps, r)
            | _ => ([], l)
            end
  end.
Fixpoint take_ops (n : nat) (l : list Z) : list (nat * Z * nat) * list Z :=
  match n with
  | O => ([], l)
  | S n' => match l with
            | o :: k :: x :: tl => let '(ps, r) := take_ops n' tl in ((Z.to_nat o, k, Z.to_nat x) :: ps, r)
            | _ => ([], l)
            end
  end.
Fixpoint take_threads (n : nat) (l : list Z) : list (list (nat * Z * nat)) * list Z :=
  match n with
  | O => ([], l)
  | S n' => match l with
            | c :: tl => let '(ops, r) := take_ops (Z.to_nat c) tl in
                         let '(ts, r') := take_threads n' r in (ops :: ts, r')
            | [] => ([], l)
            end
  end.

Definition run_skip (inp : list Z) : list Z :=
  match inp with
  | nn :: tl =>
      let '(nodes, r1) := take_pairs (Z.to_nat nn) tl in
      let key := fun i => fst (nth i nodes (0%Z, 0)) in
      let height := fun i => snd (nth i nodes (0%Z, 0)) in
      match r1 with
      | np :: r2 =>
          let pre := map Z.to_nat (firstn (Z.to_nat np) r2) in
          match skipn (Z.to_nat np) r2 with
          | nt :: r3 =>
              let '(threads, r4) := take_threads (Z.to_nat nt) r3 in
              let sched := map Z.to_nat (match r4 with _ :: s => s | [] => [] end) in
              let g0 := mkS (repeat [] MAXL) 0 in
              (* sequential pre-population by one thread *)
              let c0 := (g0, [sinit_loc (map (fun x => (1, key x, x)) pre)]) in
              let '(cp, _, _) := finish (sstep key height) 4000 c0 4000 in
              let c1 := (fst cp, map sinit_loc threads) in
              let '(c2, evs) := run (sstep key height) c1 sched in
              let '(c3, _, ok) := finish (sstep key height) 4000 c2 4000 in
              (evs ++ [-7; if ok then 1 else 0; Z.of_nat (s_max (fst c3))]
                   ++ flat_map (fun l => -8 :: flat_map (fun '(o, k, r, _) => [o; k; r]) (rev (sl_res l))) (snd c3)
                   ++ flat_map (fun i => match lvl (fst c3) i with [] => [] | ch => -9 :: Z.of_nat i :: map Z.of_nat ch end) (seq 0 MAXL))%Z
          | [] => []
          end
      | [] => []
      end
  | [] => []
  end.
