(* C06: proofs about the parallel_reduce task-tree model (ReduceModel). *)
From OTV Require Import Lib.Tac ReduceModel.
Local Open Scope Z_scope.

(* ---- zseq ---- *)
Lemma map_seq_shift {A} (f : nat -> A) n1 n2 : map f (seq n1 n2) = map (fun k => f (n1 + k)%nat) (seq 0 n2).
Proof.
  revert n1; induction n2 as [|n IH]; intros n1; cbn [seq map]; [reflexivity|].
  rewrite Nat.add_0_r. f_equal. rewrite IH. rewrite <- seq_shift, map_map.
  apply map_ext. intros k. f_equal. lia.
Qed.

Lemma zseq_nil h : zseq h h = [].
Proof. unfold zseq. rewrite Z.sub_diag. reflexivity. Qed.

Lemma zseq_split p q hi : p <= q -> q <= hi -> zseq p q ++ zseq q hi = zseq p hi.
Proof.
  intros H1 H2. unfold zseq.
  replace (Z.to_nat (hi - p)) with (Z.to_nat (q - p) + Z.to_nat (hi - q))%nat by lia.
  rewrite seq_app, map_app. f_equal. cbn [plus].
  rewrite (map_seq_shift _ (Z.to_nat (q - p))). apply map_ext. intros k. lia.
Qed.

Lemma zseq_length lo hi : length (zseq lo hi) = Z.to_nat (hi - lo).
Proof. unfold zseq. rewrite map_length, seq_length. reflexivity. Qed.

(* ---- invariant ---- *)
Definition nd (t : rt) : Z := match t with Done => 0 | _ => 1 end.
Definition is_fresh (t : rt) : bool := match t with Fresh _ _ => true | _ => false end.
Definition zc (z : option (list Z)) : list Z := match z with Some zb => zb | None => [] end.

Fixpoint WF (t : rt) : Prop :=
  match t with
  | Fresh lo hi => lo <= hi
  | Run p hi => p <= hi
  | Done => True
  | Nd mid rc l r z => WF l /\ WF r /\ rc = nd l + nd r /\ (z = None -> is_fresh r = true \/ l = Done) /\
                       (is_fresh r = true -> z = None)
  end.

(* what is still to be appended, in order, after the inherited body's current content *)
Fixpoint pend (t : rt) : list Z :=
  match t with
  | Fresh lo hi => zseq lo hi
  | Run p hi => zseq p hi
  | Done => []
  | Nd mid rc l r z => pend l ++ zc z ++ pend r
  end.

Lemma fresh_not_ok o r b : starts o r = None -> is_fresh r = true -> forall t' b' f, apply o r b <> Ok t' b' f.
Proof.
  intros Hs Hf t' b' f. destruct r; try discriminate. cbn in *.
  destruct o; try discriminate; cbn in *; destruct (a =? lo); congruence.
Qed.

Lemma apply_done o b : apply o Done b = NotFound.
Proof. reflexivity. Qed.

Definition step_ok (t : rt) (b : list Z) (t' : rt) (b' : list Z) (fin : bool) : Prop :=
  WF t' /\ b' ++ pend t' = b ++ pend t /\ nd t = 1 /\ (fin = true -> t' = Done) /\ (fin = false -> nd t' = 1) /\ is_fresh t' = false.

Lemma descend_ok mid rc l r z o b t' b' fin :
  (forall b t' b' fin, WF l -> apply o l b = Ok t' b' fin -> step_ok l b t' b' fin) ->
  (forall b t' b' fin, WF r -> apply o r b = Ok t' b' fin -> step_ok r b t' b' fin) ->
  WF (Nd mid rc l r z) -> starts o r = None ->
  match apply o l b with
  | Ok l' b' fin => Ok (Nd mid (dec fin rc) l' r z) b' false
  | Bad => Bad
  | NotFound =>
      match z with
      | Some zb => match apply o r zb with
                   | Ok r' zb' fin => Ok (Nd mid (dec fin rc) l r' (Some zb')) b false
                   | Bad => Bad | NotFound => NotFound end
      | None => match apply o r b with
                | Ok r' b' fin => Ok (Nd mid (dec fin rc) l r' None) b' false
                | Bad => Bad | NotFound => NotFound end
      end
  end = Ok t' b' fin ->
  step_ok (Nd mid rc l r z) b t' b' fin.
Proof.
  intros IHl IHr (Wl & Wr & Hrc & Hz & Hfz) Hst H.
  destruct (apply o l b) as [| |l' bl fl] eqn:El.
  - (* not in the left subtree *)
    destruct z as [zb|].
    + destruct (apply o r zb) as [| |r' zb' fr] eqn:Er; try discriminate. inv H.
      destruct (IHr _ _ _ _ Wr Er) as (Wr' & Hp & Hn & Hf1 & Hf0 & Hnf).
      unfold step_ok. cbn [WF pend nd zc is_fresh].
      split; [split; [|split; [|split; [|split]]]|split; [|split; [|split; [|split]]]]; auto; try discriminate; try congruence.
      unfold dec. destruct fr; [rewrite (Hf1 eq_refl); cbn [nd]; lia | rewrite (Hf0 eq_refl); lia].
    + destruct (apply o r b) as [| |r' br fr] eqn:Er; try discriminate. inv H.
      destruct (IHr _ _ _ _ Wr Er) as (Wr' & Hp & Hn & Hf1 & Hf0 & Hnf).
      assert (Hl : l = Done).
      { destruct (Hz eq_refl) as [Hfr|]; auto. exfalso. eapply fresh_not_ok; eauto. }
      subst l. unfold step_ok. cbn [WF pend nd zc app is_fresh].
      split; [split; [|split; [|split; [|split]]]|split; [|split; [|split; [|split]]]]; auto; try discriminate; try congruence.
      unfold dec. destruct fr; [rewrite (Hf1 eq_refl); cbn [nd]; lia | rewrite (Hf0 eq_refl); lia].
  - discriminate.
  - inv H. destruct (IHl _ _ _ _ Wl El) as (Wl' & Hp & Hn & Hf1 & Hf0 & Hnf).
    unfold step_ok. cbn [WF pend nd is_fresh].
    split; [split; [|split; [|split; [|split]]]|split; [|split; [|split; [|split]]]]; auto; try discriminate; try congruence.
    + unfold dec. destruct fl; [rewrite (Hf1 eq_refl); cbn [nd]; lia | rewrite (Hf0 eq_refl); lia].
    + intros Hzn. destruct (Hz Hzn) as [|Hd]; auto. subst l. rewrite apply_done in El. discriminate.
    + rewrite !app_assoc. f_equal. f_equal. exact Hp.
Qed.

Lemma apply_ok o : forall t b t' b' fin, WF t -> apply o t b = Ok t' b' fin -> step_ok t b t' b' fin.
Proof.
  induction t as [lo hi|p hi| |mid rc l IHl r IHr z]; intros b t' b' fin W H.
  - cbn in H. destruct o; try discriminate. destruct (a =? lo); inv H.
    unfold step_ok; cbn in *. repeat split; auto; intros; discriminate.
  - cbn [apply] in H. cbn [WF] in W. destruct o; try discriminate.
    + destruct ((a =? p) && (p <? hi)) eqn:E1; [|discriminate].
      destruct ((p <=? q) && (q <=? hi)) eqn:E2; inv H.
      unfold step_ok; cbn [WF pend nd is_fresh]. repeat split; try lia; try discriminate.
      rewrite <- app_assoc. f_equal. apply zseq_split; lia.
    + destruct ((a =? p) && (p <? hi)) eqn:E1; [|discriminate].
      destruct ((p <=? m) && (m <=? hi)) eqn:E2; inv H.
      unfold step_ok; cbn [WF pend nd zc is_fresh app]. repeat split; try lia; try discriminate; auto.
      f_equal. apply zseq_split; lia.
    + destruct (h =? hi) eqn:E1; [|discriminate]. destruct (p =? hi) eqn:E2; inv H.
      unfold step_ok; cbn [WF pend nd is_fresh]. repeat split; auto; try discriminate.
      assert (p = hi) by lia. subst. rewrite zseq_nil. reflexivity.
  - discriminate.
  - cbn [apply] in H. destruct (starts o r) as [[|]|] eqn:Es.
    + destruct r as [lo hi| | |]; try discriminate. destruct (rc =? 2) eqn:Erc; inv H.
      destruct W as (Wl & Wr & Hrc & Hz & Hfz). rewrite (Hfz eq_refl) in *.
      unfold step_ok; cbn [WF pend nd zc app is_fresh] in *.
      repeat split; auto; intros; try discriminate; try congruence.
    + destruct r as [lo hi| | |]; try discriminate. destruct (rc =? 2) eqn:Erc; inv H.
      destruct W as (Wl & Wr & Hrc & Hz & Hfz). rewrite (Hfz eq_refl) in *.
      unfold step_ok; cbn [WF pend nd zc app is_fresh] in *.
      repeat split; auto; intros; try discriminate; try congruence.
      right. destruct l; cbn [nd] in Hrc; try lia. reflexivity.
    + destruct o as [a|a|a q|a m|h|m].
      1-5: eapply descend_ok; eauto.
      destruct (m =? mid) eqn:Em; [|eapply descend_ok; eauto].
      destruct (rc =? 0) eqn:Erc; inv H.
      destruct W as (Wl & Wr & Hrc & Hz & Hfz).
      assert (l = Done) by (destruct l, r; cbn [nd] in Hrc; try lia; reflexivity).
      assert (r = Done) by (destruct l, r; cbn [nd] in Hrc; try lia; reflexivity). subst.
      unfold step_ok; cbn [WF pend nd zc app is_fresh]. repeat split; auto; intros; try discriminate.
      rewrite app_nil_r. destruct z; cbn [zc]; rewrite ?app_nil_r; reflexivity.
Qed.

Lemma rrun_inv ops : forall t b i bad t' b',
  WF t -> rrun ops t b i = (bad, t', b') -> WF t' /\ b' ++ pend t' = b ++ pend t.
Proof.
  induction ops as [|o tl IH]; intros t b i bad t' b' W H; cbn [rrun] in H.
  - inv H. auto.
  - destruct (apply o t b) as [| |t1 b1 f] eqn:E; try (inv H; auto; fail).
    destruct (apply_ok _ _ _ _ _ _ W E) as (W1 & Hp & _).
    destruct (IH _ _ _ _ _ _ W1 H) as (W2 & Hp2). split; auto. congruence.
Qed.

(* ---- deterministic reduce ---- *)
Lemma dsplit_leaves fuel : forall lo hi g, lo <= hi -> dleaves (dsplit fuel lo hi g) = zseq lo hi.
Proof.
  induction fuel as [|f IH]; intros lo hi g H; cbn [dsplit dleaves]; [reflexivity|].
  destruct (g <? hi - lo) eqn:E; cbn [dleaves]; [|reflexivity].
  rewrite !IH by lia. apply zseq_split; lia.
Qed.

Fixpoint dall (P : Z -> Z -> Prop) (t : dtree) : Prop :=
  match t with
  | DLeaf lo hi => P lo hi
  | DJoin l r => dall P l /\ dall P r
  end.

Lemma dsplit_small fuel : forall lo hi g, 1 <= g -> hi - lo <= 2 ^ Z.of_nat fuel ->
  dall (fun a b => b - a <= g) (dsplit fuel lo hi g).
Proof.
  induction fuel as [|f IH]; intros lo hi g Hg Hn; cbn [dsplit dall].
  - change (2 ^ Z.of_nat 0) with 1 in Hn. lia.
  - destruct (g <? hi - lo) eqn:E; cbn [dall]; [|lia].
    assert (H2 : 2 ^ Z.of_nat (S f) = 2 * 2 ^ Z.of_nat f).
    { rewrite Nat2Z.inj_succ, Z.pow_succ_r by lia. reflexivity. }
    split; apply IH; auto; lia.
Qed.

Lemma dfuel_enough lo hi : hi - lo <= 2 ^ Z.of_nat (dfuel lo hi).
Proof.
  unfold dfuel. rewrite Nat2Z.inj_add, Z2Nat.id by apply Z.log2_up_nonneg.
  change (Z.of_nat 1) with 1. rewrite Z.pow_add_r by (try apply Z.log2_up_nonneg; lia).
  assert (H := Z.log2_up_spec (Z.max 1 (hi - lo))).
  destruct (Z.le_gt_cases (Z.max 1 (hi - lo)) 1) as [Hle|Hgt].
  - assert (0 < 2 ^ Z.log2_up (Z.max 1 (hi - lo))) by (apply Z.pow_pos_nonneg; [lia|apply Z.log2_up_nonneg]). lia.
  - specialize (H Hgt). lia.
Qed.

(* ---- any monoid: the free-monoid result determines the result for every associative join ---- *)
Section Monoid.
  Variable M : Type.
  Variable op : M -> M -> M.
  Variable e : M.
  Variable f : Z -> M.
  Hypothesis op_assoc : forall a b c, op a (op b c) = op (op a b) c.
  Hypothesis op_e_l : forall a, op e a = a.
  Hypothesis op_e_r : forall a, op a e = a.
  (* the Body: start from the identity, operator() folds the subrange in from the right end of the accumulated value *)
  Definition interp (l : list Z) : M := fold_left (fun acc x => op acc (f x)) l e.

  Lemma fold_left_op l : forall a, fold_left (fun acc x => op acc (f x)) l a = op a (interp l).
  Proof.
    unfold interp. induction l as [|x l IH]; intros a; cbn [fold_left].
    - rewrite op_e_r. reflexivity.
    - rewrite IH. rewrite (IH (op e (f x))). rewrite op_e_l. rewrite op_assoc. reflexivity.
  Qed.

  Lemma interp_app l1 l2 : interp (l1 ++ l2) = op (interp l1) (interp l2).
  Proof. unfold interp at 1. rewrite fold_left_app. apply fold_left_op. Qed.
End Monoid.
