(* C07 — parallel_pipeline.  Property theorems only; proofs live in PipeProofs.v. *)
From OTV Require Import Lib.Tac Params PipeModel PipeProofs.
Local Open Scope Z_scope.

(* A serial filter's input buffer, driven by ANY environment that respects the protocol (each token arrives
   once, Finish only when an item is inside), for any arrival order, any amount of buffering and any number of
   array doublings: the items are let into the filter in token order 0,1,2,... — for a serial_in_order filter
   that is the order fixed by the first ordered filter. *)
Theorem admission_in_order : forall ord ops s,
  frun 0 (finit ord) ops = Some s -> exists n, f_log s = expected_log 0 n.
Proof. exact admission_in_order_proof. Qed.
Print Assumptions admission_in_order.

(* Serial exclusion: while an item is inside a serial filter, the only step that lets another item in is the
   Finish of the one inside (so two invocations never overlap). *)
Theorem serial_exclusion : forall ord ops s o s',
  frun 0 (finit ord) ops = Some s -> fstep 0 s o = Some s' ->
  f_running s = true -> f_log s' <> f_log s -> o = Finish.
Proof. exact serial_exclusion_proof. Qed.
Print Assumptions serial_exclusion.

(* No loss: every item that has arrived is already admitted, is the one whose turn it is, or is still parked in
   the ring under its own token (never overwritten, also across grow()). *)
Theorem parked_items_not_lost : forall ord ops s,
  frun 0 (finit ord) ops = Some s ->
  forall t, In t (f_arrived s) -> t < low (f_buf s) \/ t = low (f_buf s) \/ In t (tokens_of (f_parked s)).
Proof. exact no_loss_proof. Qed.
Print Assumptions parked_items_not_lost.

(* Token bound: with max_number_of_live_tokens = M >= 1 and a serial input filter, in every reachable state
   items in flight + idle tokens = M, hence at most M items are in flight. *)
Theorem pipe_token_bound : forall M ops,
  1 <= M ->
  forall s, fold_left (fun st o => match st with
                                   | Some x => if tok_enabled x o then Some (tok_step x o) else None
                                   | None => None end) ops (Some (mktok M 1 0 false)) = Some s ->
  0 <= tk_n s <= M /\ tk_n s + tk_t s = M.
Proof. exact pipe_token_bound_proof. Qed.
Print Assumptions pipe_token_bound.

(* non-vacuity: items 2,0,1 arrive out of order at an ordered filter and are admitted as 0,1,2 *)
Example pipe_example :
  match frun 0 (finit true) [Arrive (mkinfo 12 2 true); Arrive (mkinfo 10 0 true); Arrive (mkinfo 11 1 true); Finish; Finish; Finish] with
  | Some s => f_log s = [2; 1; 0] /\ f_running s = false
  | None => False
  end.
Proof. vm_compute. auto. Qed.
