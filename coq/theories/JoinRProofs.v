(* C15: invariants of JoinRModel (join_node, reserving policy, FIFO senders) for every sequence of operations, forward tasks running at any moment. *)
From OTV Require Import Lib.Tac JoinModel JoinProofs JoinRModel.
Local Open Scope Z_scope.

Definition count_nopull (l : list bool) : nat := length (filter negb l).

Lemma getb_setb_eq l i v : (i < length l)%nat -> getb' (setb l i v) i = v.
Proof. unfold getb'. revert i; induction l as [|x l IH]; intros [|i] H; cbn in *; try lia; auto. apply IH; lia. Qed.
Lemma getb_setb_neq l i j v : i <> j -> getb' (setb l i v) j = getb' l j.
Proof. unfold getb'. revert i j; induction l as [|x l IH]; intros [|i] [|j] H; cbn; auto; try lia. Qed.
Lemma setb_length l i v : length (setb l i v) = length l.
Proof. revert i; induction l as [|x l IH]; intros [|i]; cbn; auto. Qed.
Lemma count_nopull_setb l i v : (i < length l)%nat ->
  (count_nopull (setb l i v) + (if getb' l i then 0 else 1) = count_nopull l + (if v then 0 else 1))%nat.
Proof.
  unfold count_nopull, getb'. revert i; induction l as [|x l IH]; intros [|i] H; cbn in *; try lia.
  - destruct x, v; cbn; lia.
  - specialize (IH i ltac:(lia)). destruct x; cbn; lia.
Qed.
Lemma count_nopull_zero l p : count_nopull l = 0%nat -> (p < length l)%nat -> getb' l p = true.
Proof.
  unfold count_nopull, getb'. revert p; induction l as [|x l IH]; intros [|p] H Hp; cbn in *; try lia.
  - destruct x; cbn in *; [auto|discriminate].
  - destruct x; cbn in *; [apply IH; auto; lia|discriminate].
Qed.

Lemma highest_empty_none qs : forall pos, highest_empty qs pos = None -> count_empty qs = 0%nat.
Proof.
  unfold count_empty. induction qs as [|q qs IH]; intros pos H; cbn in *; auto.
  destruct (highest_empty qs (S pos)) eqn:E; [discriminate|]. destruct (isnil q) eqn:Eq; [discriminate|]. cbn. eapply IH; eauto.
Qed.
Lemma highest_empty_some qs : forall pos p, highest_empty qs pos = Some p -> (pos <= p < pos + length qs)%nat /\ getq qs (p - pos) = [].
Proof.
  induction qs as [|q qs IH]; intros pos p H; cbn in *; [discriminate|].
  destruct (highest_empty qs (S pos)) eqn:E.
  - inv H. destruct (IH _ _ E) as [H1 H2]. split; [lia|]. replace (p - pos)%nat with (S (p - S pos)) by lia. unfold getq in *. cbn. auto.
  - destruct (isnil q) eqn:Eq; [|discriminate]. inv H. split; [lia|]. replace (p - p)%nat with 0%nat by lia. unfold getq. cbn. destruct q; [auto|discriminate].
Qed.

Definition RJ0 (n : rj) : Prop :=
  (0 < length (r_qs n))%nat /\ length (r_puts n) = length (r_qs n) /\ length (r_pull n) = length (r_qs n) /\
  r_pwni n = Z.of_nat (count_nopull (r_pull n)) /\
  (forall p, (p < length (r_qs n))%nat -> getb' (r_pull n) p = false -> getq (r_qs n) p = []) /\
  (forall p, (p < length (r_qs n))%nat -> getq (r_puts n) p = proj p (r_out n) ++ getq (r_qs n) p) /\
  0 <= r_fwd n /\ (r_busy n = true -> 1 <= r_fwd n).
Definition RJ (n : rj) : Prop := RJ0 n /\ (r_pwni n = 0 -> r_push n = true -> 1 <= r_fwd n).

Lemma total_len_tl qs : (0 < length qs)%nat -> (forall p, (p < length qs)%nat -> getq qs p <> []) ->
  (fold_right (fun q a => (length q + a)%nat) 0%nat (map (@tl Z) qs) < fold_right (fun q a => (length q + a)%nat) 0%nat qs)%nat.
Proof.
  induction qs as [|q qs IH]; cbn [length]; [lia|]. intros _ Hne. cbn [map fold_right].
  assert (Hq : q <> []) by (apply (Hne 0%nat); cbn; lia). destruct q as [|a q]; [congruence|]. cbn [tl length].
  destruct qs as [|q2 qs]; [cbn; lia|].
  assert (IH' : (fold_right (fun q0 a0 => (length q0 + a0)%nat) 0%nat (map (@tl Z) (q2 :: qs)) < fold_right (fun q0 a0 => (length q0 + a0)%nat) 0%nat (q2 :: qs))%nat).
  { apply IH; [cbn; lia|]. intros p Hp. apply (Hne (S p)). cbn in *; lia. }
  lia.
Qed.

(* one attempt to build a tuple while every port has a predecessor *)
Lemma try_tuple_RJ0 n : RJ0 n -> r_pwni n = 0 ->
  match try_tuple n with
  | (n1, None) => RJ0 n1 /\ r_pwni n1 = 1 /\ r_fwd n1 = r_fwd n /\ r_busy n1 = r_busy n /\ r_push n1 = r_push n /\ r_acc n1 = r_acc n
  | (n1, Some t) => n1 = n /\ RJ0 (consume n t) /\ r_pwni (consume n t) = 0 /\ (rtotal_len (consume n t) < rtotal_len n)%nat
  end.
Proof.
  intros (HN & HL & HLp & HP & HE & HD & HF & HB) Hz. unfold try_tuple.
  assert (Hall : forall p, (p < length (r_qs n))%nat -> getb' (r_pull n) p = true) by (intros; apply count_nopull_zero; [lia|lia]).
  destruct (highest_empty (r_qs n) 0) as [p|] eqn:E.
  - destruct (highest_empty_some _ _ _ E) as [Hp Hq]. replace (p - 0)%nat with p in Hq by lia.
    assert (Hc := count_nopull_setb (r_pull n) p false ltac:(lia)). rewrite (Hall p ltac:(lia)) in Hc.
    split; [|cbn; repeat split; auto; lia].
    unfold RJ0. cbn [r_qs r_pull r_pwni r_fwd r_busy r_push r_acc r_out r_puts]. rewrite setb_length.
    split; [auto|]. split; [auto|]. split; [auto|]. split; [lia|]. split; [|auto].
    intros q Hqq Hf. destruct (Nat.eq_dec p q) as [<-|Hn]; [auto|]. rewrite getb_setb_neq in Hf by auto. auto.
  - assert (Hce := highest_empty_none _ _ E).
    assert (Hne : forall p, (p < length (r_qs n))%nat -> getq (r_qs n) p <> []) by (intros; apply count_empty_zero; auto).
    split; [auto|]. split; [|split; [cbn; auto|unfold rtotal_len, consume; cbn [r_qs]; apply total_len_tl; auto]].
    unfold RJ0, consume. cbn [r_qs r_pull r_pwni r_fwd r_busy r_push r_acc r_out r_puts]. rewrite map_length.
    split; [auto|]. split; [auto|]. split; [auto|]. split; [auto|]. split; [|split; [|auto]].
    + intros p Hp Hf. rewrite (Hall p Hp) in Hf. discriminate.
    + intros p Hp. rewrite (HD p Hp). unfold proj. rewrite map_app. cbn [map]. rewrite nth_map_hd, getq_map_tl.
      rewrite <- app_assoc. f_equal. specialize (Hne p Hp). destruct (getq (r_qs n) p); [congruence|auto].
Qed.

Lemma rfwd_loop_RJ0 fuel : forall n, RJ0 n ->
  let n1 := rfwd_loop fuel n in
  RJ0 n1 /\ r_fwd n1 = r_fwd n /\ r_busy n1 = r_busy n /\ ((rtotal_len n < fuel)%nat -> r_pwni n1 = 0 -> r_push n1 = false).
Proof.
  induction fuel as [|f IH]; intros n HJ; cbn [rfwd_loop].
  - split; [auto|]. split; [auto|]. split; [auto|]. intros; lia.
  - destruct (r_pwni n =? 0) eqn:Ez.
    + apply Z.eqb_eq in Ez. assert (Ht := try_tuple_RJ0 n HJ Ez). destruct (try_tuple n) as [n1 [t|]].
      * destruct Ht as (-> & HJ1 & Hz1 & Hlen). destruct (r_push n && r_acc n) eqn:Ea.
        -- specialize (IH (consume n t) HJ1). cbv zeta in IH. destruct IH as (H1 & H2 & H3 & H4).
           split; [auto|]. split; [rewrite H2; auto|]. split; [rewrite H3; auto|]. intros Hl. apply H4. lia.
        -- cbn. split; [|split; [auto|split; [auto|auto]]]. unfold RJ0 in *. cbn. auto.
      * destruct Ht as (H1 & H2 & H3 & H4 & H5 & H6). split; [auto|]. split; [auto|]. split; [auto|]. intros _ Hz. lia.
    + apply Z.eqb_neq in Ez. split; [auto|]. split; [auto|]. split; [auto|]. intros _ Hz. congruence.
Qed.

Lemma rjstep_RJ n op a v : RJ n -> RJ (fst (rjstep n op a v)).
Proof.
  intros [HJ Hs]. assert (HJ' := HJ). destruct HJ' as (HN & HL & HLp & HP & HE & HD & HF & HB). unfold rjstep.
  destruct (op =? 1) eqn:E1.
  { destruct (Z.to_nat a <? length (r_qs n))%nat eqn:Ei; [|split; auto]. apply Nat.ltb_lt in Ei.
    set (i := Z.to_nat a) in *.
    assert (HD' : forall p, (p < length (r_qs n))%nat ->
              getq (setq (r_puts n) i (getq (r_puts n) i ++ [v])) p = proj p (r_out n) ++ getq (setq (r_qs n) i (getq (r_qs n) i ++ [v])) p).
    { intros p Hp. destruct (Nat.eq_dec i p) as [<-|Hn].
      - rewrite !getq_setq_eq by lia. rewrite (HD i Ei). rewrite app_assoc. auto.
      - rewrite !getq_setq_neq by auto. auto. }
    assert (HE' : forall pl, (forall p, (p < length (r_qs n))%nat -> getb' pl p = false -> p <> i /\ getb' (r_pull n) p = false) ->
              forall p, (p < length (r_qs n))%nat -> getb' pl p = false -> getq (setq (r_qs n) i (getq (r_qs n) i ++ [v])) p = []).
    { intros pl Hpl p Hp Hf. destruct (Hpl p Hp Hf) as [Hne Hf2]. rewrite getq_setq_neq by auto. auto. }
    destruct (getb' (r_pull n) i) eqn:Epl; cbn [fst].
    - split.
      + unfold RJ0. cbn [r_qs r_pull r_pwni r_fwd r_busy r_push r_acc r_out r_puts]. rewrite !setq_length.
        split; [auto|]. split; [auto|]. split; [auto|]. split; [auto|]. split; [|split; [auto|auto]].
        apply HE'. intros p Hp Hf. split; [intros ->; congruence|auto].
      + cbn [r_qs r_pull r_pwni r_fwd r_busy r_push r_acc r_out r_puts]. auto.
    - assert (Hc := count_nopull_setb (r_pull n) i true ltac:(lia)). rewrite Epl in Hc.
      split.
      + unfold RJ0. cbn [r_qs r_pull r_pwni r_fwd r_busy r_push r_acc r_out r_puts]. rewrite !setq_length, setb_length.
        split; [auto|]. split; [auto|]. split; [auto|]. split; [lia|]. split; [|split; [auto|]].
        * apply HE'. intros p Hp Hf. destruct (Nat.eq_dec i p) as [<-|Hn]; [rewrite getb_setb_eq in Hf by lia; discriminate|].
          rewrite getb_setb_neq in Hf by auto. auto.
        * destruct (r_pwni n - 1 =? 0); split; try lia; intros Hb; specialize (HB Hb); lia.
      + cbn [r_qs r_pull r_pwni r_fwd r_busy r_push r_acc r_out r_puts]. intros Hz _. apply Z.eqb_eq in Hz. rewrite Hz. lia. }
  destruct (op =? 2) eqn:E2; [split; [unfold RJ0 in *; cbn; auto|cbn; auto]|].
  destruct (op =? 3) eqn:E3; [split; [unfold RJ0 in *; cbn; auto|cbn; auto]|].
  destruct (op =? 4) eqn:E4.
  { destruct (negb (r_push n) && (r_pwni n =? 0)) eqn:Ec; [|split; auto].
    apply andb_true_iff in Ec. destruct Ec as [Ep Ez]. apply negb_true_iff in Ep. apply Z.eqb_eq in Ez.
    assert (Ht := try_tuple_RJ0 n HJ Ez). destruct (try_tuple n) as [n1 [t|]]; cbn [fst].
    - destruct Ht as (-> & HJ1 & Hz1 & _). split; [auto|]. unfold consume. cbn. intros _ Hpp. congruence.
    - destruct Ht as (H1 & H2 & _). split; [auto|]. intros Hz. lia. }
  destruct (op =? 6) eqn:E6.
  { destruct ((r_pwni n =? 0) && negb (r_busy n)) eqn:Ec; cbn [fst].
    - split; [unfold RJ0 in *; cbn; repeat split; auto; try lia; intros; lia|cbn; intros; lia].
    - split; [unfold RJ0 in *; cbn; auto|]. cbn. intros Hz _. apply andb_false_iff in Ec. destruct Ec as [Ec|Ec].
      + apply Z.eqb_neq in Ec. congruence.
      + apply negb_false_iff in Ec. auto. }
  destruct (op =? 7) eqn:E7; [|split; auto].
  destruct (0 <? r_fwd n) eqn:Ef; [|split; auto]. apply Z.ltb_lt in Ef. cbn [fst].
  destruct (rfwd_loop_RJ0 (S (rtotal_len n)) n HJ) as (H1 & H2 & H3 & H4). cbv zeta in *.
  set (n1 := rfwd_loop (S (rtotal_len n)) n) in *. destruct H1 as (A1 & A2 & A3 & A4 & A5 & A6 & A7 & A8).
  split.
  - unfold RJ0. cbn [r_qs r_pull r_pwni r_fwd r_busy r_push r_acc r_out r_puts]. repeat split; auto; try lia; intros; discriminate.
  - cbn [r_qs r_pull r_pwni r_fwd r_busy r_push r_acc r_out r_puts]. intros Hz Hp. rewrite (H4 ltac:(lia) Hz) in Hp. discriminate.
Qed.

Lemma rjinit_RJ np : (0 < np)%nat -> RJ (rjinit np).
Proof.
  intros H. unfold rjinit, RJ, RJ0. cbn [r_qs r_pull r_pwni r_fwd r_busy r_push r_acc r_out r_puts]. rewrite !repeat_length.
  assert (Hc : count_nopull (repeat false np) = np) by (unfold count_nopull; induction np; cbn; auto; destruct np; cbn in *; auto; rewrite IHnp; auto; lia).
  split.
  - split; [auto|]. split; [auto|]. split; [auto|]. split; [lia|]. split; [|split; [|split; [lia|intros; discriminate]]].
    + intros p Hp _. unfold getq. apply nth_repeat.
    + intros p Hp. unfold getq, proj. cbn. rewrite nth_repeat. auto.
  - intros Hz. lia.
Qed.

Fixpoint rjrun (n : rj) (ops : list (Z * Z * Z)) : rj :=
  match ops with [] => n | (op, a, v) :: tl => rjrun (fst (rjstep n op a v)) tl end.
Lemma rjrun_RJ ops : forall n, RJ n -> RJ (rjrun n ops).
Proof. induction ops as [|[[op a] v] tl IH]; intros n H; cbn; auto. apply IH. apply rjstep_RJ; auto. Qed.
