(* C11 — concurrent_vector growth.  Property theorems only; proofs live in VecProofs.v. *)
From OTV Require Import Lib.Tac Params VecModel VecProofs.
Local Open Scope Z_scope.

(* Index-to-segment arithmetic is a bijection for every 64-bit index. *)
Theorem seg_bijection : forall i k,
  0 <= i < W -> 0 <= k < 64 ->
  (seg_base k <= i < seg_base k + seg_size k <-> k = seg_index_of i).
Proof. exact seg_bijection_proof. Qed.
Print Assumptions seg_bijection.

Theorem seg_index_in_table : forall i, 0 <= i < W -> 0 <= seg_index_of i < vec_pointers_per_long_table.
Proof. exact seg_index_of_range. Qed.
Print Assumptions seg_index_in_table.

(* Any sequence (= any interleaving, each call's range being fixed by one atomic RMW on my_size) of
   grow_by / push_back / grow_to_at_least calls that does not overflow size_type hands out
   non-empty, pairwise disjoint, contiguous ranges that tile [size0, size), and no call gets stuck. *)
Theorem grow_ranges_tile : forall ops sz0,
  0 <= sz0 < W -> fits sz0 ops ->
  let '(sz, rs) := vrun decide_lt sz0 ops in
  consecutive sz0 rs sz /\ sz0 <= sz < W.
Proof. exact grow_ranges_tile_proof. Qed.
Print Assumptions grow_ranges_tile.

(* grow_to_at_least(n): afterwards size >= n, the call is never left waiting, and it constructs
   exactly [old,n) when old < n — for every n < 2^64. *)
Theorem grow_to_at_least_covers : forall sz n,
  0 <= sz < W -> 0 < n < W ->
  let '(sz', r) := vstep decide_lt sz (GrowTo n) in
  n <= sz' /\ stuck r = false /\
  (sz < n -> constructed r = Some (sz, n) /\ sz' = n) /\
  (n <= sz -> constructed r = None /\ sz' = sz).
Proof. exact grow_to_at_least_covers_proof. Qed.
Print Assumptions grow_to_at_least_covers.

(* The historical decision `int delta = int(new_size) - int(old_size); delta > 0` violates the
   property: witness old = 0, n = 2^31 (constructs nothing and waits forever). *)
Theorem grow_to_at_least_intcast_refuted :
  exists sz n, 0 <= sz < n /\ n < W /\
    stuck (snd (vstep decide_intcast sz (GrowTo n))) = true /\
    constructed (snd (vstep decide_intcast sz (GrowTo n))) = None.
Proof. exact intcast_refuted_proof. Qed.
Print Assumptions grow_to_at_least_intcast_refuted.

(* ... and is indistinguishable from the correct one below 2^31 (why the suite cannot see it). *)
Theorem intcast_agrees_below_2_31 : forall sz n,
  0 <= sz < 2 ^ 31 -> 0 <= n < 2 ^ 31 -> decide_intcast sz n = decide_lt sz n.
Proof. exact intcast_agrees_below_2_31_proof. Qed.
Print Assumptions intcast_agrees_below_2_31.

(* non-vacuity: a concrete sequence meeting the hypotheses, with its ranges *)
Example tile_example :
  fits 0 [GrowBy 3; PushBack; GrowTo 10; GrowTo 2; GrowBy 0; GrowBy (2 ^ 33)] /\
  vrun decide_lt 0 [GrowBy 3; PushBack; GrowTo 10; GrowTo 2; GrowBy 0; GrowBy (2 ^ 33)]
  = (8589934602, [mkres (Some (0, 3)) false; mkres (Some (3, 4)) false; mkres (Some (4, 10)) false;
                  mkres None false; mkres None false; mkres (Some (10, 8589934602)) false]).
Proof. split; [cbn; change W with (2^64); lia | vm_compute; reflexivity]. Qed.
