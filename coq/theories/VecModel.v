(* C11: executable model of concurrent_vector index arithmetic and growth bookkeeping.
   Source: include/oneapi/tbb/detail/_segment_table.h:324-336 (segment_index_of / segment_base /
   segment_size) and include/oneapi/tbb/concurrent_vector.h:773-898 (internal_emplace_back,
   internal_grow_by_delta, internal_grow_to_at_least).  size_type is 64 bit: the wrap is explicit. *)
From OTV Require Import Lib.Tac Params.
Local Open Scope Z_scope.

Definition W : Z := 2 ^ size_t_bits.
Definition wrap (x : Z) : Z := x mod W.

(* segment_index_of(index) = log2(index | 1) *)
Definition seg_index_of (i : Z) : Z := Z.log2 (Z.lor i 1).
(* segment_base(k) = size_type(1) << k & ~size_type(1) *)
Definition seg_base (k : Z) : Z := Z.land (wrap (Z.shiftl 1 k)) (W - 2).
(* segment_size(k) = k == 0 ? 2 : size_type(1) << k *)
Definition seg_size (k : Z) : Z := if k =? 0 then 2 else wrap (Z.shiftl 1 k).

(* static_cast<int>(size_type) on a two's complement target *)
Definition to_int (x : Z) : Z :=
  let m := x mod 2 ^ int_bits in
  if m <? 2 ^ (int_bits - 1) then m else m - 2 ^ int_bits.
(* int - int with wrap-around (what the hardware does; formally UB on overflow) *)
Definition int_sub (a b : Z) : Z := to_int (a - b).

Inductive vop :=
| GrowBy (d : Z)      (* grow_by(d) *)
| PushBack            (* push_back / emplace_back *)
| GrowTo (n : Z).     (* grow_to_at_least(n) *)

(* Result of one call: the half-open index range this call constructs, or None when it
   constructs nothing.  [stuck] = the call cannot return by itself (it waits for segments that
   only another growing call would allocate). *)
Record vres := mkres { constructed : option (Z * Z); stuck : bool }.

(* "growth decision" of internal_grow_to_at_least.  [decide_lt] is the comparison
   old_size < new_size on size_type; [decide_intcast] is the historical
   int delta = int(new_size) - int(old_size); delta > 0 . *)
Definition decide_lt (old n : Z) : bool := old <? n.
Definition decide_intcast (old n : Z) : bool := 0 <? int_sub (to_int n) (to_int old).

Section WithDecision.
Variable decide : Z -> Z -> bool.

(* One call executed atomically w.r.t. my_size: the only shared access that determines the range
   is the single fetch_add / successful CAS, so every interleaving of calls is some sequence. *)
Definition vstep (sz : Z) (o : vop) : Z * vres :=
  match o with
  | GrowBy d =>
      if d =? 0 then (sz, mkres None false)
      else (wrap (sz + d), mkres (Some (sz, wrap (sz + d))) false)
  | PushBack => (wrap (sz + 1), mkres (Some (sz, wrap (sz + 1))) false)
  | GrowTo n =>
      if n =? 0 then (sz, mkres None false)
      else
        let sz' := if sz <? n then n else sz in
        if decide sz n then (sz', mkres (Some (sz, n)) false)
        else (sz', mkres None (sz <? n))   (* waits for somebody else's segments *)
  end.

Fixpoint vrun (sz : Z) (ops : list vop) : Z * list vres :=
  match ops with
  | [] => (sz, [])
  | o :: tl => let '(sz1, r) := vstep sz o in
               let '(sz2, rs) := vrun sz1 tl in (sz2, r :: rs)
  end.
End WithDecision.

(* ---- flat integer interface used by the correspondence check (ocaml/driver.ml) ---- *)
Fixpoint decode_vops (l : list Z) : list vop :=
  match l with
  | 0 :: d :: tl => GrowBy d :: decode_vops tl
  | 1 :: _ :: tl => PushBack :: decode_vops tl
  | 2 :: n :: tl => GrowTo n :: decode_vops tl
  | _ => []
  end.

Definition encode_vres (r : vres) : list Z :=
  match constructed r with
  | Some (a, b) => [a; b; if stuck r then 1 else 0]
  | None => [-1; -1; if stuck r then 1 else 0]
  end.

(* input: initial size, then (opcode,arg) pairs. output: per op (start,end,stuck), then final size *)
Definition run_vec_with (decide : Z -> Z -> bool) (l : list Z) : list Z :=
  match l with
  | sz0 :: tl =>
      let '(sz, rs) := vrun decide sz0 (decode_vops tl) in
      flat_map encode_vres rs ++ [sz]
  | [] => []
  end.
Definition run_vec := run_vec_with decide_lt.
Definition run_vec_intcast := run_vec_with decide_intcast.

(* input: list of indices / segment numbers. output: for each x: seg_index_of x, seg_base (x mod 64),
   seg_size (x mod 64) *)
Definition run_segidx (l : list Z) : list Z :=
  flat_map (fun x => [seg_index_of x; seg_base (x mod size_t_bits); seg_size (x mod size_t_bits)]) l.
