(* C05: executable model of blocked_range splitting (include/oneapi/tbb/blocked_range.h:83-125) and of the
   task tree built by simple_partitioner (partitioner.h simple_partition_type::execute +
   parallel_for.h start_for::offer_work): keep splitting while the range is divisible, the spawned right
   child gets the upper half and does the same. *)
From OTV Require Import Lib.Tac Params.
Local Open Scope Z_scope.

Record rng := mkrng { rb : Z; re : Z; rg : Z }.
Definition rsize (r : rng) : Z := re r - rb r.
Definition divisible (r : rng) : bool := rg r <? rsize r.           (* my_grainsize < size() *)
(* do_split(r, split): middle = begin + (end - begin) / 2u; r keeps [begin,middle), new range gets [middle,end) *)
Definition split_mid (r : rng) : rng * rng :=
  let m := rb r + rsize r / 2 in (mkrng (rb r) m (rg r), mkrng m (re r) (rg r)).

(* leaves of the simple_partitioner task tree, left to right; None = out of fuel *)
Fixpoint simple_leaves (fuel : nat) (r : rng) : option (list rng) :=
  if divisible r then
    match fuel with
    | O => None
    | S f =>
        let '(l, rt) := split_mid r in
        match simple_leaves f l, simple_leaves f rt with
        | Some a, Some b => Some (a ++ b)
        | _, _ => None
        end
    end
  else Some [r].

Definition fuel_for (r : rng) : nat := Z.to_nat (Z.log2_up (Z.max 1 (rsize r))) + 1.

(* flat interface: input (b, e, g)*; output per triple: number of leaves then (b,e) pairs; -1 if out of fuel *)
Fixpoint run_simple (l : list Z) : list Z :=
  match l with
  | b :: e :: g :: tl =>
      (if (b <? e)
       then match simple_leaves (fuel_for (mkrng b e g)) (mkrng b e g) with
            | Some ls => Z.of_nat (length ls) :: flat_map (fun r => [rb r; re r]) ls
            | None => [-1]
            end
       else [0]) ++ run_simple tl
  | _ => []
  end.

(* parallel_for(first, last, step, f) (parallel_for.h parallel_for_impl + parallel_for_body_wrapper): for step > 0 and
   first < last the loop runs over blocked_range<Index>(0, trip) with trip = (last - first - 1) / step + 1 and calls
   f(first + i * step).  The arithmetic is done in Index; [wrapw] is the wrap of an unsigned Index of the given width
   (for the signed types the inputs are restricted to last - first representable, as the C++ requires). *)
Definition strided_trip (first last step : Z) : Z := (last - first - 1) / step + 1.
Definition strided_index (first step i : Z) : Z := first + i * step.
(* flat interface: (first last step)* -> trip, first index, last index, sum of all indices mod 2^64 *)
Fixpoint run_strided (l : list Z) : list Z :=
  match l with
  | f :: la :: st :: tl =>
      (if (f <? la) && (0 <? st)
       then let n := strided_trip f la st in
            [n; f; strided_index f st (n - 1); (n * f + st * (n * (n - 1) / 2)) mod 2 ^ 64]
       else [0; 0; 0; 0]) ++ run_strided tl
  | _ => []
  end.
