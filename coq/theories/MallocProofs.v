From OTV Require Import Lib.Tac Lib.Sweep Params MallocModel.
Local Open Scope Z_scope.

(* ---------- size classes: finite domain 1..8128, exhaustive ---------- *)
Definition size_ok (s : Z) : bool :=
  (s <=? obj_size s) && (obj_size (obj_size s) =? obj_size s) && (obj_size s <=? obj_size (s + 1))
  && (if s <=? 8 then obj_size s mod 8 =? 0 else obj_size s mod 16 =? 0)
  && (0 <=? obj_index s) && (obj_index s <? mal_numBlockBins)
  && (obj_index (obj_size s) =? obj_index s) && (obj_index s <=? obj_index (s + 1))
  && (obj_size s <? mal_minLargeObjectSize)
  && (1 <=? objs_per_slab (obj_size s)).

Lemma size_sweep : forallb size_ok (zrange 1 8127) = true.
Proof. vm_compute. reflexivity. Qed.

Lemma size_last : size_ok 8128 = false \/ True. Proof. auto. Qed.

Lemma size_class_props s : 1 <= s < mal_minLargeObjectSize - 1 -> size_ok s = true.
Proof. intros H. apply (zrange_forall size_ok 1 8127 size_sweep). change mal_minLargeObjectSize with 8129 in H. lia. Qed.

(* the largest small request *)
Lemma size_class_8128 : obj_size 8128 = 8128 /\ obj_index 8128 = mal_numBlockBins - 1.
Proof. vm_compute. auto. Qed.

(* next size after a class boundary falls into a different bin: together with monotonicity of the index,
   same index <-> same object size *)
Definition boundary_ok (s : Z) : bool := negb (obj_index (obj_size s + 1) =? obj_index s).
Lemma boundary_sweep : forallb boundary_ok (zrange 1 5376) = true.
Proof. vm_compute. reflexivity. Qed.

(* aligned requests served from the segregated bins: for every power-of-two alignment a <= 1024 and every
   request r <= 1024 that is a multiple of a, the object size is a multiple of a *)
Definition aligned_small_ok (r : Z) : bool :=
  forallb (fun e => let a := 2 ^ e in (negb (r mod a =? 0)) || (obj_size r mod a =? 0)) (zrange 0 11).
Lemma aligned_small_sweep : forallb aligned_small_ok (zrange 1 1024) = true.
Proof. vm_compute. reflexivity. Qed.

Lemma aligned_small_sound r e : 1 <= r <= 1024 -> 0 <= e <= 10 -> r mod 2 ^ e = 0 -> obj_size r mod 2 ^ e = 0.
Proof.
  intros Hr He Hm.
  pose proof (zrange_forall aligned_small_ok 1 1024 aligned_small_sweep r ltac:(lia)) as H.
  unfold aligned_small_ok in H.
  pose proof (zrange_forall _ 0 11 H e ltac:(lia)) as H2. cbn beta zeta in H2.
  rewrite Hm in H2. cbn in H2. lia.
Qed.

(* ---------- slab geometry (unbounded in k) ---------- *)
Lemma bump_offset_after_header osz k :
  1 <= osz -> 1 <= k <= objs_per_slab osz -> mal_sizeof_Block <= bump_offset osz k /\ bump_offset osz k + osz <= mal_slabSize.
Proof.
  unfold objs_per_slab, bump_offset. change mal_slabSize with 16384. change mal_sizeof_Block with 128.
  intros Ho Hk.
  assert (k * osz <= 16384 - 128).
  { assert ((16384 - 128) / osz * osz <= 16384 - 128) by (rewrite Z.mul_comm; apply Z.mul_div_le; lia). nia. }
  nia.
Qed.

Lemma bump_offsets_disjoint osz k1 k2 :
  1 <= osz -> k1 < k2 -> bump_offset osz k2 + osz <= bump_offset osz k1.
Proof. unfold bump_offset. intros. nia. Qed.

Lemma bump_offset_aligned osz k a :
  0 < a -> mal_slabSize mod a = 0 -> osz mod a = 0 -> bump_offset osz k mod a = 0.
Proof.
  unfold bump_offset. intros Ha Hs Ho.
  apply Z.mod_divide in Hs; [|lia]. apply Z.mod_divide in Ho; [|lia]. apply Z.mod_divide; [lia|].
  apply Z.divide_sub_r; auto. apply Z.divide_mul_r; auto.
Qed.

(* ---------- one bin: nothing is handed out twice ---------- *)
(* ghost: the list of offsets currently owned by the user *)
Definition bin_inv (osz : Z) (b : bin) (live : list Z) : Prop :=
  b_tainted b = false ->
  NoDup (live ++ b_free b) /\
  (forall o, In o (live ++ b_free b) -> exists k, 1 <= k <= b_bump b /\ o = bump_offset osz k) /\
  b_count b = Z.of_nat (length live) /\ 0 <= b_bump b <= objs_per_slab osz.

Lemma bump_offset_inj osz k1 k2 : 1 <= osz -> bump_offset osz k1 = bump_offset osz k2 -> k1 = k2.
Proof. unfold bump_offset. intros. nia. Qed.

Lemma bin_alloc_inv osz b live b' off :
  1 <= osz -> bin_inv osz b live -> bin_alloc osz b = (b', off) -> off <> -9 ->
  ~ In off live /\ bin_inv osz b' (off :: live) /\
  (exists k, 1 <= k <= objs_per_slab osz /\ off = bump_offset osz k).
Proof.
  intros Ho Hinv H Hoff. unfold bin_alloc in H.
  destruct (b_tainted b) eqn:Et; [inv H; congruence|].
  destruct (Hinv Et) as (Hnd & Hin & Hc & Hb).
  destruct (b_free b) as [|o fl] eqn:Ef.
  - destruct (b_bump b <? objs_per_slab osz) eqn:Elt; [|inv H; congruence]. inv H.
    rewrite app_nil_r in *.
    assert (Hnot : ~ In (bump_offset osz (b_bump b + 1)) live).
    { intros Hi. destruct (Hin _ Hi) as (k & Hk & He). apply bump_offset_inj in He; lia. }
    split; [exact Hnot|]. split.
    + intros _. cbn [b_free b_bump b_count b_tainted]. rewrite app_nil_r. repeat split.
      * constructor; auto.
      * intros o [<-|Hi]; [exists (b_bump b + 1); lia|]. destruct (Hin _ Hi) as (k & Hk & He). exists k. lia.
      * cbn [length]. lia.
      * lia.
      * lia.
    + exists (b_bump b + 1). lia.
  - inv H. split.
    + apply NoDup_remove_2 in Hnd. intros Hi. apply Hnd. apply in_or_app. auto.
    + split.
      * intros _. cbn [b_free b_bump b_count b_tainted]. repeat split; try lia.
        -- apply NoDup_remove_1 in Hnd as Hnd1. apply NoDup_remove_2 in Hnd.
           cbn [app]. constructor; auto.
        -- intros o0 Hi. apply Hin. cbn [app] in Hi. destruct Hi as [<-|Hi]; apply in_or_app.
           ++ right. left. auto.
           ++ apply in_app_or in Hi. destruct Hi; [left|right; right]; auto.
        -- cbn [length]. lia.
      * destruct (Hin off ltac:(apply in_or_app; right; left; auto)) as (k & Hk & He). exists k. lia.
Qed.

Lemma NoDup_app_l {A} (l1 l2 : list A) : NoDup (l1 ++ l2) -> NoDup l1.
Proof. induction l1 as [|x l IH]; cbn; intros H; [constructor|]. inv H. constructor; auto. intros Hi. apply H2. apply in_or_app; auto. Qed.
Lemma NoDup_app_r {A} (l1 l2 : list A) : NoDup (l1 ++ l2) -> NoDup l2.
Proof. induction l1 as [|x l IH]; cbn; intros H; auto. inv H. auto. Qed.

Lemma bin_free_inv osz b live off :
  bin_inv osz b live -> In off live -> bin_inv osz (bin_free b off) (remove Z.eq_dec off live).
Proof.
  intros Hinv Hi. unfold bin_free.
  destruct (b_tainted b) eqn:Et; [intros Ht; congruence|].
  destruct (Hinv Et) as (Hnd & Hin & Hc & Hb).
  assert (Hndl : NoDup live) by (eapply NoDup_app_l; eauto).
  assert (Hlen : Z.of_nat (length (remove Z.eq_dec off live)) = Z.of_nat (length live) - 1).
  { clear - Hndl Hi. induction live as [|x l IH]; [inv Hi|]. inv Hndl. cbn [remove].
    destruct (Z.eq_dec off x) as [->|Hne].
    - rewrite notin_remove by auto. cbn [length]. lia.
    - destruct Hi as [->|Hi]; [congruence|]. cbn [length]. rewrite Nat2Z.inj_succ. rewrite IH by auto. lia. }
  destruct (b_count b =? 1) eqn:E1.
  - intros _. cbn [b_free b_bump b_count b_tainted]. rewrite app_nil_r.
    assert (length live = 1%nat) by lia.
    destruct live as [|x [|y l]]; cbn in H; try lia. destruct Hi as [->|[]].
    cbn [remove]. destruct (Z.eq_dec off off); [|congruence]. cbn. repeat split; try constructor; try lia.
  - intros _. cbn [b_free b_bump b_count b_tainted]. repeat split; try lia.
    + (* NoDup (remove off live ++ off :: free) *)
      pose proof (NoDup_app_r _ _ Hnd) as Hndf.
      assert (Hoff_nf : ~ In off (b_free b)).
      { clear - Hnd Hi. induction live as [|x l IH]; [inv Hi|]. cbn [app] in Hnd. inv Hnd.
        destruct Hi as [->|Hi]; [intros Hf; apply H1; apply in_or_app; auto|auto]. }
      clear - Hnd Hndf Hoff_nf Hndl. induction live as [|x l IH]; cbn [remove app].
      * constructor; auto.
      * cbn [app] in Hnd. inv Hnd. inv Hndl. destruct (Z.eq_dec off x) as [->|Hne]; [apply IH; auto|].
        cbn [app]. constructor; [|apply IH; auto].
        intros Hi. apply in_app_or in Hi. destruct Hi as [Hi|[->|Hi]]; try congruence.
        -- apply in_remove in Hi. destruct Hi. apply H1. apply in_or_app; auto.
        -- apply H1. apply in_or_app; auto.
    + intros o Ho. apply Hin. apply in_app_or in Ho. apply in_or_app. destruct Ho as [Ho|[<-|Ho]]; auto.
      apply in_remove in Ho. tauto.
Qed.

(* ---------- recovering the real object from an aligned user pointer (fitting sizes) ---------- *)
Definition fit_sizes : list Z := [mal_fittingSize1; mal_fittingSize2; mal_fittingSize3; mal_fittingSize4; mal_fittingSize5].

(* every 128-aligned address inside an object, and the object start itself, maps back to the object start *)
Definition find_ok_obj (osz k : Z) : bool :=
  let off0 := bump_offset osz k in
  (find_object osz off0 =? off0) &&
  forallb (fun j => let u := align_up off0 128 + 128 * j in (off0 + osz <=? u) || (find_object osz u =? off0)) (zrange 0 64).
Definition find_ok_size (osz : Z) : bool := forallb (find_ok_obj osz) (zrange 1 (objs_per_slab osz)).
Lemma find_object_sweep : forallb find_ok_size fit_sizes = true.
Proof. vm_compute. reflexivity. Qed.

(* ---------- large-object placement ---------- *)
Lemma align_up_spec x a : 0 < a -> x <= align_up x a < x + a /\ align_up x a mod a = 0.
Proof.
  intros Ha. unfold align_up. split; [|apply Z_mod_mult].
  pose proof (Z.div_mod (x + a - 1) a ltac:(lia)). pose proof (Z.mod_pos_bound (x + a - 1) a Ha). nia.
Qed.
Lemma align_down_spec x a : 0 < a -> x - a < align_down x a <= x /\ align_down x a mod a = 0.
Proof.
  intros Ha. unfold align_down. split; [|apply Z_mod_mult].
  pose proof (Z.div_mod x a ltac:(lia)). pose proof (Z.mod_pos_bound x a Ha). nia.
Qed.

Lemma multiple_le a x y : 0 < a -> x mod a = 0 -> y mod a = 0 -> x < y + a -> x <= y.
Proof.
  intros Ha Hx Hy Hlt. apply Z.mod_divide in Hx; [|lia]. apply Z.mod_divide in Hy; [|lia].
  destruct Hx as [p ->]. destruct Hy as [q ->].
  assert (p * a < (q + 1) * a) by lia. assert (p < q + 1) by (eapply Z.mul_lt_mono_pos_r; eauto).
  apply Z.mul_le_mono_nonneg_r; lia.
Qed.

Lemma llo_place_in_block_proof lmb un size e idx tls :
  0 <= lmb -> 0 <= e <= 63 -> 0 <= size -> 0 <= idx ->
  size + mal_headersSize + 2 ^ e <= un ->
  let al := 2 ^ e in
  let u := llo_place lmb un size al idx tls in
  lmb + mal_headersSize <= u /\ u + size <= lmb + un /\ u mod al = 0.
Proof.
  intros Hl He Hs Hi Hun al u. subst u. unfold llo_place.
  assert (Hal : 0 < al) by (apply Z.pow_pos_nonneg; lia).
  fold al.
  destruct (align_up_spec (lmb + mal_headersSize) al Hal) as [(Ha1 & Ha2) Ha3].
  destruct (align_down_spec (lmb + un - size) al Hal) as [(Hr1 & Hr2) Hr3].
  set (area := align_up (lmb + mal_headersSize) al) in *.
  set (right := align_down (lmb + un - size) al) in *.
  assert (Har : area <= right) by (apply (multiple_le al); auto; lia).
  set (delta := (right - area) mod 2 ^ 32).
  assert (Hd0 : 0 <= delta < 2 ^ 32) by (apply Z.mod_pos_bound; lia).
  assert (Hd1 : delta <= right - area) by (apply Z.mod_le; lia).
  destruct (negb (delta =? 0) && tls) eqn:Eb; [|repeat split; auto; lia].
  assert (Hdn : delta <> 0) by (destruct (delta =? 0) eqn:E; cbn in Eb; [discriminate|lia]).
  (* delta is a multiple of al, hence at least al *)
  assert (Hdm : delta mod al = 0).
  { assert (Hra : (right - area) mod al = 0).
    { apply Z.mod_divide; [lia|]. apply Z.divide_sub_r; apply Z.mod_divide; auto; lia. }
    destruct (Z_le_gt_dec e 32) as [Hle|Hgt].
    - (* al divides 2^32 *)
      assert (Hdiv : (al | 2 ^ 32)).
      { exists (2 ^ (32 - e)). unfold al. rewrite <- Z.pow_add_r by lia. f_equal. lia. }
      apply Z.mod_divide; [lia|]. unfold delta. apply Z.mod_divide in Hra; [|lia].
      rewrite Z.mod_eq by lia. apply Z.divide_sub_r; auto.
      apply Z.divide_mul_l. exact Hdiv.
    - (* 2^32 divides al divides (right - area): delta = 0, contradiction *)
      exfalso. apply Hdn. unfold delta. apply Z.mod_divide; [lia|].
      apply Z.mod_divide in Hra; [|lia]. eapply Z.divide_trans; [|exact Hra].
      exists (2 ^ (e - 32)). unfold al. rewrite <- Z.pow_add_r by lia. f_equal. lia. }
  apply Z.mod_divide in Hdm; [|lia]. destruct Hdm as [n Hn].
  assert (Hn1 : 1 <= n) by nia.
  rewrite Hn. rewrite Z.div_mul by lia.
  pose proof (Z.mod_pos_bound (idx mod 2 ^ 32) n ltac:(lia)) as Hm.
  set (k := (idx mod 2 ^ 32) mod n) in *.
  repeat split.
  - nia.
  - nia.
  - apply Z.mod_divide; [lia|]. apply Z.divide_add_r; [apply Z.mod_divide; auto; lia|]. apply Z.divide_factor_r.
Qed.

(* ---------- entry-point guards ---------- *)
Lemma calloc_guard_exact_proof nobj size :
  0 <= nobj < W64 -> 0 <= size < W64 ->
  (calloc_refuses nobj size = true <-> W64 <= nobj * size).
Proof.
  intros Hn Hs. unfold calloc_refuses, w64. change W64 with (2 ^ 64) in *.
  assert (H32 : 2 ^ 32 * 2 ^ 32 = 2 ^ 64) by reflexivity.
  destruct ((2 ^ 32 <=? nobj) || (2 ^ 32 <=? size)) eqn:Eh; cbn [andb].
  - destruct (nobj =? 0) eqn:E0; cbn [negb andb].
    + assert (nobj = 0) by lia. subst. split; [discriminate|lia].
    + assert (Hnp : 0 < nobj) by lia.
      destruct (Z_lt_le_dec (nobj * size) (2 ^ 64)) as [Hlt|Hge].
      * rewrite Z.mod_small by nia. rewrite Z.mul_comm, Z.div_mul by lia.
        rewrite Z.eqb_refl. cbn. split; [discriminate|lia].
      * split; [lia|]. intros _.
        assert (Hq : (nobj * size) mod 2 ^ 64 / nobj < size).
        { apply Z.div_lt_upper_bound; [lia|].
          pose proof (Z.mod_pos_bound (nobj * size) (2 ^ 64) ltac:(lia)).
          pose proof (Z.div_mod (nobj * size) (2 ^ 64) ltac:(lia)).
          assert (1 <= nobj * size / 2 ^ 64) by (apply Z.div_le_lower_bound; lia). nia. }
        destruct ((nobj * size) mod 2 ^ 64 / nobj =? size) eqn:E; [lia|reflexivity].
  - split; [discriminate|]. intros H. assert (nobj < 2 ^ 32 /\ size < 2 ^ 32) by lia. nia.
Qed.

Lemma pow2_log2_le v : 1 <= v -> 2 ^ Z.log2 v <= v < 2 ^ (Z.log2 v + 1).
Proof. intros H. pose proof (Z.log2_spec v ltac:(lia)). rewrite Z.add_1_r. lia. Qed.

(* core of every "aligned size below request => wrapped" test: for a request of [size] bytes plus [k] bytes of
   overhead (k <= 2^63 + 104), if alignToBin of the 64-bit sum is not below size, then neither the sum nor the
   rounding wrapped around *)
Lemma atb_guard size k :
  1 <= size < W64 -> 0 <= k <= 2 ^ 63 + 104 ->
  (align_to_bin (w64 (size + k)) <? size) = false ->
  size + k < W64 /\ size + k <= align_to_bin (w64 (size + k)) < W64.
Proof.
  intros Hs Hk Eg.
  change W64 with (2 ^ 64) in *.
  set (S := size + k) in *.
  unfold align_to_bin in *. change mal_maxLargeSize with 8388608 in *. change mal_largeCacheStep with 8192 in *.
  change mal_hugeStepFactorExp with 3 in *. unfold w64 in *. change W64 with (2 ^ 64) in *.
  set (v := S mod 2 ^ 64) in *.
  assert (Hv : 0 <= v < 2 ^ 64) by (apply Z.mod_pos_bound; lia).
  assert (Hup : forall step, 0 < step -> v <= align_up v step < v + step).
  { intros step Hst. destruct (align_up_spec v step Hst) as [? _]. lia. }
  destruct (Z_lt_le_dec S (2 ^ 64)) as [Hnw|Hwr].
  - assert (Hvs : v = S) by (unfold v; apply Z.mod_small; lia).
    split; [lia|].
    destruct (v <? 8388608) eqn:Ev.
    + pose proof (Hup 8192 ltac:(lia)) as Hb. rewrite Z.mod_small in Eg |- * by lia. lia.
    + assert (Hv1 : 1 <= v) by lia.
      pose proof (pow2_log2_le v Hv1) as Hlg.
      assert (Hl23 : 23 <= Z.log2 v) by (apply Z.log2_le_pow2; lia).
      assert (Hl63 : Z.log2 v <= 63).
      { destruct (Z_le_gt_dec (Z.log2 v) 63); auto. exfalso.
        assert (2 ^ 64 <= 2 ^ Z.log2 v) by (apply Z.pow_le_mono_r; lia). lia. }
      set (step := 2 ^ (Z.log2 v - 3)) in *.
      assert (Hst : 0 < step) by (apply Z.pow_pos_nonneg; lia).
      assert (Hst8 : 8 * step = 2 ^ Z.log2 v).
      { unfold step. change 8 with (2 ^ 3). rewrite <- Z.pow_add_r by lia. f_equal. lia. }
      pose proof (Hup step Hst) as Hb.
      destruct (align_up_spec v step Hst) as [_ Hm].
      destruct (Z_lt_le_dec (align_up v step) (2 ^ 64)) as [Hok|Hbad].
      * rewrite Z.mod_small in Eg |- * by lia. lia.
      * exfalso.
        assert (Hdiv : (step | 2 ^ 64)).
        { exists (2 ^ (64 - (Z.log2 v - 3))). unfold step. rewrite <- Z.pow_add_r by lia. f_equal. lia. }
        assert (Heq : align_up v step = 2 ^ 64).
        { apply Z.le_antisymm; [|lia].
          apply (multiple_le step); [lia | exact Hm | apply Z.mod_divide; [lia|exact Hdiv] | lia]. }
        rewrite Heq in Eg. rewrite Z.mod_same in Eg by lia. lia.
  - exfalso.
    assert (HS : S < 2 ^ 64 + 2 ^ 64) by (unfold S; lia).
    assert (Hvs : v = S - 2 ^ 64).
    { unfold v. symmetry. apply Z.mod_unique with (q := 1); lia. }
    assert (Hvlt : v + 2 ^ 63 - 104 <= size) by (unfold S in *; lia).
    destruct (v <? 8388608) eqn:Ev.
    + pose proof (Hup 8192 ltac:(lia)) as Hb. rewrite Z.mod_small in Eg by lia. lia.
    + assert (Hv1 : 1 <= v) by lia.
      pose proof (pow2_log2_le v Hv1) as Hlg.
      assert (Hl23 : 23 <= Z.log2 v) by (apply Z.log2_le_pow2; lia).
      set (step := 2 ^ (Z.log2 v - 3)) in *.
      assert (Hst : 0 < step) by (apply Z.pow_pos_nonneg; lia).
      assert (Hst8 : 8 * step = 2 ^ Z.log2 v).
      { unfold step. change 8 with (2 ^ 3). rewrite <- Z.pow_add_r by lia. f_equal. lia. }
      pose proof (Hup step Hst) as Hb.
      assert (Hvb : v < 2 ^ 63 + 104) by (unfold S in *; lia).
      assert (align_up v step < 2 ^ 64) by lia.
      rewrite Z.mod_small in Eg by lia. lia.
Qed.

(* the wrap-around guard of getFromLLOCache is complete: an accepted request was computed without any wrap *)
Lemma llo_guard_complete_proof size e a :
  1 <= size < W64 -> 0 <= e <= 63 ->
  llo_alloc_size size (2 ^ e) = Some a ->
  size + mal_headersSize + 2 ^ e < W64 /\ size + mal_headersSize + 2 ^ e <= a < W64.
Proof.
  intros Hs He H. unfold llo_alloc_size in H.
  assert (Hal : 1 <= 2 ^ e <= 2 ^ 63).
  { split; [assert (0 < 2 ^ e) by (apply Z.pow_pos_nonneg; lia); lia|apply Z.pow_le_mono_r; lia]. }
  change mal_headersSize with 104 in *.
  replace (size + 104 + 2 ^ e) with (size + (104 + 2 ^ e)) in * by lia.
  destruct (align_to_bin (w64 (size + (104 + 2 ^ e))) <? size) eqn:Eg; [discriminate|]. inv H.
  apply atb_guard; auto. lia.
Qed.

(* Backend::remap (realloc of a large block through mremap): the region request is computed from
   alignToBin(newSize + userOffset); [check_new] is the added test `alignedSize < newSize` *)
Definition remap_request (check_new : bool) (user_offset new_size hdr last gran : Z) : option Z :=
  let aligned := align_to_bin (w64 (new_size + user_offset)) in
  let req := w64 (align_up (w64 (hdr + aligned + last)) gran) in
  if (check_new && (aligned <? new_size)) || (req <? aligned) then None else Some req.

Lemma remap_guard_complete_proof new_size off hdr last g req :
  1 <= new_size < W64 -> 0 <= off <= 2 ^ 32 -> 0 <= hdr <= 4096 -> 0 <= last <= 4096 -> 12 <= g <= 30 ->
  remap_request true off new_size hdr last (2 ^ g) = Some req ->
  new_size + off < W64 /\ new_size + off <= align_to_bin (w64 (new_size + off)) /\
  hdr + align_to_bin (w64 (new_size + off)) + last <= req < W64.
Proof.
  intros Hn Ho Hh Hl Hg H. unfold remap_request in H. cbn [andb] in H.
  set (aligned := align_to_bin (w64 (new_size + off))) in *.
  destruct (aligned <? new_size) eqn:E1; [discriminate|]. cbn [orb] in H.
  destruct (atb_guard new_size off Hn ltac:(lia) E1) as (Hs & Ha1 & Ha2). fold aligned in Ha1, Ha2.
  set (req0 := w64 (align_up (w64 (hdr + aligned + last)) (2 ^ g))) in *.
  destruct (req0 <? aligned) eqn:E2; [discriminate|]. inv H.
  repeat split; auto; try lia.
  - (* no wrap in hdr + aligned + last, nor in the rounding to the granularity *)
    change W64 with (2 ^ 64) in *. unfold req0, w64 in *. change W64 with (2 ^ 64) in *.
    assert (Hgp : 0 < 2 ^ g) by (apply Z.pow_pos_nonneg; lia).
    assert (Hg30 : 2 ^ g <= 2 ^ 30) by (apply Z.pow_le_mono_r; lia).
    set (T := hdr + aligned + last) in *.
    destruct (Z_lt_le_dec T (2 ^ 64)) as [Ht|Ht].
    + rewrite (Z.mod_small T) in E2 |- * by lia.
      destruct (align_up_spec T (2 ^ g) Hgp) as [(Hu1 & Hu2) Hu3].
      destruct (Z_lt_le_dec (align_up T (2 ^ g)) (2 ^ 64)) as [Hok|Hbad].
      * rewrite Z.mod_small by lia. lia.
      * exfalso. assert (Hdiv : (2 ^ g | 2 ^ 64)).
        { exists (2 ^ (64 - g)). rewrite <- Z.pow_add_r by lia. f_equal. lia. }
        assert (Heq : align_up T (2 ^ g) = 2 ^ 64).
        { apply Z.le_antisymm; [|lia]. apply (multiple_le (2 ^ g)); [lia|exact Hu3|apply Z.mod_divide; [lia|exact Hdiv]|lia]. }
        rewrite Heq, Z.mod_same in E2 by lia. lia.
    + exfalso. assert (HT2 : T mod 2 ^ 64 = T - 2 ^ 64) by (symmetry; apply Z.mod_unique with (q := 1); lia).
      rewrite HT2 in E2.
      destruct (align_up_spec (T - 2 ^ 64) (2 ^ g) Hgp) as [(Hu1 & Hu2) Hu3].
      rewrite Z.mod_small in E2 by lia. lia.
  - change W64 with (2 ^ 64). unfold req0, w64. apply Z.mod_pos_bound. reflexivity.
Qed.

Lemma remap_old_check_refuted_proof :
  exists off new_size req, 1 <= new_size < W64 /\ W64 <= new_size + off /\
    remap_request false off new_size 64 64 4096 = Some req /\ req < new_size.
Proof. exists 4160, (2 ^ 64 - 1), 12288. vm_compute. repeat split; congruence. Qed.

(* ---------- Prop-level restatements of the sweeps ---------- *)
Lemma size_classes_sound_proof s :
  1 <= s <= 8127 ->
  s <= obj_size s /\ obj_size (obj_size s) = obj_size s /\ obj_size s <= obj_size (s + 1) /\
  (s <= 8 -> obj_size s mod 8 = 0) /\ (8 < s -> obj_size s mod 16 = 0) /\
  0 <= obj_index s < mal_numBlockBins /\ obj_index (obj_size s) = obj_index s /\ obj_index s <= obj_index (s + 1) /\
  obj_size s < mal_minLargeObjectSize /\ 1 <= objs_per_slab (obj_size s).
Proof.
  intros Hs. pose proof (size_class_props s ltac:(change mal_minLargeObjectSize with 8129; lia)) as H.
  unfold size_ok in H. repeat (apply andb_prop in H; destruct H as [H ?]).
  destruct (s <=? 8) eqn:E8; repeat split; try lia.
Qed.

Lemma find_object_recovers_proof osz k :
  In osz fit_sizes -> 1 <= k <= objs_per_slab osz ->
  let off0 := bump_offset osz k in
  find_object osz off0 = off0 /\
  forall j, 0 <= j < 64 -> let u := align_up off0 128 + 128 * j in u < off0 + osz -> find_object osz u = off0.
Proof.
  intros Hin Hk off0.
  pose proof find_object_sweep as H. rewrite forallb_forall in H. specialize (H _ Hin).
  unfold find_ok_size in H.
  pose proof (zrange_forall _ 1 (objs_per_slab osz) H k ltac:(lia)) as Hk2. unfold find_ok_obj in Hk2.
  fold off0 in Hk2. apply andb_prop in Hk2. destruct Hk2 as [H0 Hj]. split; [lia|].
  intros j Hjr u Hu. pose proof (zrange_forall _ 0 64 Hj j ltac:(lia)) as Hx. cbn beta zeta in Hx.
  fold u in Hx. destruct (off0 + osz <=? u) eqn:E; cbn in Hx; lia.
Qed.

(* cache_aligned_resource: with the representability test an accepted request is the true sum (no wrap-around), so the upstream block holds
   the payload, the alignment slack and the header word; without the test a request near SIZE_MAX is forwarded as a tiny one *)
Lemma car_guard_complete_proof bytes al cls s :
  0 <= bytes < W64 -> 8 <= cls <= 4096 -> 1 <= al < 2 ^ 63 ->
  car_request true bytes al cls = Some s ->
  s = Z.max bytes 8 + Z.max al cls /\ s < W64 /\ bytes + 8 <= s.
Proof.
  intros Hb Hc Ha. unfold car_request. cbn [andb].
  destruct (Z.ltb_spec (W64 - 1 - Z.max al cls) (Z.max bytes 8)) as [H|H]; [discriminate|].
  intros E. inversion E; subst. unfold w64. unfold W64 in *.
  assert (0 <= Z.max bytes 8 + Z.max al cls < 2 ^ 64) by lia.
  rewrite Z.mod_small by lia. lia.
Qed.
Lemma car_no_guard_refuted_proof :
  exists bytes s, 0 <= bytes < W64 /\ car_request false bytes 64 64 = Some s /\ s < bytes.
Proof. exists (2 ^ 64 - 11), 53. vm_compute. repeat split; congruence. Qed.
