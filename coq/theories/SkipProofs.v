(* C12: invariants of SkipModel for ANY number of threads, ANY scripts and ANY interleaving of the single accesses. *)
From OTV Require Import Lib.Tac Lib.Conc SkipModel.
Local Open Scope nat_scope.

(* ---------- lists ---------- *)
Lemma getn_setn_eq l i v : i < length l -> getn (setn l i v) i = v.
Proof. unfold getn. revert i; induction l as [|x l IH]; intros [|i] H; cbn in *; try lia; auto. apply IH; lia. Qed.
Lemma getn_setn_neq l i j v : i <> j -> getn (setn l i v) j = getn l j.
Proof. unfold getn. revert i j; induction l as [|x l IH]; intros [|i] [|j] H; cbn; auto; try lia. Qed.
Lemma setn_length {A} (l : list A) i v : length (setn l i v) = length l.
Proof. revert i; induction l as [|x l IH]; intros [|i]; cbn; auto. Qed.
Lemma nth_setn_eq {A} (l : list (list A)) i v : i < length l -> nth i (setn l i v) [] = v.
Proof. revert i; induction l as [|x l IH]; intros [|i] H; cbn in *; try lia; auto. apply IH; lia. Qed.
Lemma nth_setn_neq {A} (l : list (list A)) i j v : i <> j -> nth j (setn l i v) [] = nth j l [].
Proof. revert i j; induction l as [|x l IH]; intros [|i] [|j] H; cbn; auto; try lia. Qed.

Lemma in_ins_after L p x z : In z (ins_after L p x) -> z = x \/ In z L.
Proof.
  induction L as [|y tl IH]; cbn; [tauto|]. destruct (y =? p); cbn; intros H.
  - destruct H as [H|[H|H]]; auto.
  - destruct H as [H|H]; auto. destruct (IH H); auto.
Qed.
Lemma in_ins_after_mono L p x z : In z L -> In z (ins_after L p x).
Proof.
  induction L as [|y tl IH]; cbn; [tauto|]. destruct (y =? p); cbn; intros [H|H]; auto.
Qed.
Lemma in_ins_after_new L p x : In p L -> In x (ins_after L p x).
Proof.
  induction L as [|y tl IH]; cbn; [tauto|]. destruct (y =? p) eqn:E; cbn; intros [H|H]; auto.
  subst. rewrite Nat.eqb_refl in E. discriminate.
Qed.
Lemma next_after_in L p : next_after L p = 0 \/ In (next_after L p) L.
Proof.
  induction L as [|y tl IH]; cbn; auto. destruct (y =? p).
  - destruct tl; cbn; auto.
  - destruct IH; auto.
Qed.

Section Sorted.
Variable key : nat -> Z.
Variable strict : bool.
Definition rel (a b : Z) : Prop := if strict then (a < b)%Z else (a <= b)%Z.
(* every element is related to all later ones *)
Fixpoint ssorted (L : list nat) : Prop :=
  match L with [] => True | y :: tl => (forall z, In z tl -> rel (key y) (key z)) /\ ssorted tl end.

Lemma rel_trans_lt a b c : (a < b)%Z -> rel b c -> rel a c.
Proof. unfold rel; destruct strict; lia. Qed.
Lemma rel_trans a b c : rel a b -> rel b c -> rel a c.
Proof. unfold rel; destruct strict; lia. Qed.
Lemma rel_lt a b : (a < b)%Z -> rel a b.
Proof. unfold rel; destruct strict; lia. Qed.

(* inserting x (key k) behind p, whose successor e satisfies rel k (key e) *)
Lemma ssorted_ins L p x :
  ssorted L -> (forall z, In z L -> z <> 0) -> In p L -> (key p < key x)%Z ->
  (next_after L p = 0 \/ rel (key x) (key (next_after L p))) ->
  ssorted (ins_after L p x).
Proof.
  induction L as [|y tl IH]; cbn; [tauto|]. intros [Hy Hs] Hnz Hin Hp He.
  destruct (y =? p) eqn:E.
  - apply Nat.eqb_eq in E; subst y. cbn. split; [|split; auto].
    + intros z [Hz|Hz]; [subst; apply rel_lt; auto|auto].
    + intros z Hz. destruct tl as [|e tl']; [inversion Hz|]. cbn in He.
      assert (e <> 0) by (apply Hnz; cbn; auto). destruct He as [He|He]; [lia|].
      destruct Hz as [Hz|Hz]; [subst; auto|]. eapply rel_trans; [exact He|]. destruct Hs as [Hs _]. auto.
  - apply Nat.eqb_neq in E. destruct Hin as [Hin|Hin]; [congruence|]. cbn. split.
    + intros z Hz. apply in_ins_after in Hz. destruct Hz as [Hz|Hz]; [subst|auto].
      eapply rel_trans; [apply Hy; exact Hin|apply rel_lt; auto].
    + apply IH; auto.
Qed.
Lemma ssorted_cons_front L x :
  ssorted L -> (forall z, In z L -> z <> 0) -> (hd 0 L = 0 \/ rel (key x) (key (hd 0 L))) -> ssorted (x :: L).
Proof.
  intros Hs Hnz He. cbn. split; auto. intros z Hz. destruct L as [|e tl]; [inversion Hz|]. cbn in He.
  assert (e <> 0) by (apply Hnz; cbn; auto). destruct He as [He|He]; [lia|].
  destruct Hz as [Hz|Hz]; [subst; auto|]. eapply rel_trans; [exact He|]. destruct Hs as [Hs _]; auto.
Qed.

End Sorted.

Lemma ssorted_weaken key L : ssorted key true L -> ssorted key false L.
Proof.
  induction L as [|y tl IH]; cbn; auto. intros [H1 H2]. split; auto. intros z Hz. specialize (H1 z Hz). unfold rel in *. lia.
Qed.

(* successor lookup in a sorted chain: from p (smaller than k) the next element is at most the element n with key k *)
Lemma next_after_reaches key L p n :
  ssorted key false L -> (forall z, In z L -> z <> 0) -> In p L -> In n L -> (key p < key n)%Z ->
  next_after L p <> 0 /\ (key (next_after L p) <= key n)%Z.
Proof.
  induction L as [|y tl IH]; cbn; [tauto|]. intros [Hy Hs] Hnz Hp Hn Hlt.
  destruct (y =? p) eqn:E.
  - apply Nat.eqb_eq in E; subst y.
    destruct Hn as [Hn|Hn]; [subst; lia|].
    destruct tl as [|e tl']; [inversion Hn|]. cbn. split; [apply Hnz; cbn; auto|].
    destruct Hn as [Hn|Hn]; [subst; lia|]. destruct Hs as [Hs _]. specialize (Hs n Hn). unfold rel in Hs. lia.
  - apply Nat.eqb_neq in E. destruct Hp as [Hp|Hp]; [congruence|].
    destruct Hn as [Hn|Hn].
    + subst y. specialize (Hy p Hp). unfold rel in Hy. lia.
    + apply IH; auto.
Qed.
Lemma hd_reaches key L n :
  ssorted key false L -> (forall z, In z L -> z <> 0) -> In n L -> hd 0 L <> 0 /\ (key (hd 0%nat L) <= key n)%Z.
Proof.
  destruct L as [|e tl]; cbn; [tauto|]. intros [Hy _] Hnz [Hn|Hn].
  - subst. split; [apply Hnz; cbn; auto|lia].
  - split; [apply Hnz; cbn; auto|]. specialize (Hy n Hn). unfold rel in Hy. lia.
Qed.

(* ---------- the invariant ---------- *)
Global Arguments nxt : simpl never.
Global Arguments link : simpl never.
Global Arguments lvl : simpl never.
Global Arguments getn : simpl never.
Global Opaque MAXL.

Section Inv.
Variable key : nat -> Z.
Variable height : nat -> nat.

Definition keys_in (g : sshared) (k : Z) : Prop := exists n, In n (lvl g 0) /\ key n = k.

Definition GInv (g : sshared) : Prop :=
  length (s_levels g) = MAXL /\ s_max g <= MAXL /\
  ssorted key true (lvl g 0) /\
  (forall l, ssorted key false (lvl g l)) /\
  (forall l z, In z (lvl g l) -> z <> 0) /\
  (forall l z, In z (lvl g (S l)) -> In z (lvl g l)).

Definition gle (g g' : sshared) : Prop :=
  (forall l z, In z (lvl g l) -> In z (lvl g' l)) /\ s_max g <= s_max g'.

Definition Pok g lev p (k : Z) := p = 0 \/ (In p (lvl g lev) /\ (key p < k)%Z).
Definition Eok e (k : Z) := e = 0 \/ (k <= key e)%Z.
Definition Rec g l lev := Pok g lev (getn (sl_prev l) lev) (sl_k l) /\ Eok (getn (sl_curr l) lev) (sl_k l).
Definition Linked g x lev := forall lev', lev' < lev -> In x (lvl g lev').
Definition InsWf (k : Z) (x : nat) := key x = k /\ x <> 0 /\ 1 <= height x /\ height x <= MAXL.

Definition TInv g l : Prop :=
  let k := sl_k l in let x := sl_x l in let h := height x in
  match sl_pc l with
  | SIdle => True
  | SLoadMax => InsWf k x
  | SSearch lev prev => InsWf k x /\ lev < MAXL /\ 1 <= s_max g /\ Pok g lev prev k /\ (forall lev', lev < lev' -> lev' < h -> Rec g l lev')
  | SStore lev | SCas lev =>
      InsWf k x /\ lev < h /\ Linked g x lev /\ (forall lev', lev <= lev' -> lev' < h -> Rec g l lev') /\
      (lev = 0 -> getn (sl_curr l) 0 = 0 \/ (k < key (getn (sl_curr l) 0))%Z) /\ (1 <= lev -> 1 <= s_max g)
  | SMaxLoad => InsWf k x /\ Linked g x 1 /\ (forall lev', 1 <= lev' -> lev' < h -> Rec g l lev')
  | SMaxCas seen => InsWf k x /\ seen < h /\ Linked g x 1 /\ (forall lev', 1 <= lev' -> lev' < h -> Rec g l lev')
  | SRefind level lev prev =>
      InsWf k x /\ 1 <= level /\ level <= lev /\ lev < h /\ Linked g x level /\ Pok g lev prev k /\ 1 <= s_max g /\
      (forall lev', level <= lev' -> lev' < h -> Rec g l lev')
  | SFLoadMax => True
  | SFSearch lev prev => lev < MAXL /\ Pok g lev prev k /\ (sl_gh l = true -> keys_in g k)
  end.

Definition op_wf (o : nat * Z * nat) : Prop := let '(op, k, x) := o in op = 1 -> InsWf k x.
Definition res_ok g (r : Z * Z * Z * bool) : Prop :=
  let '(op, k, v, b) := r in
  (op = 1%Z -> keys_in g k /\ 1 <= s_max g) /\
  (op = 2%Z -> (v = 1%Z -> keys_in g k) /\ (b = true -> v = 1%Z)).
Definition LInv g l : Prop :=
  TInv g l /\ length (sl_prev l) = MAXL /\ length (sl_curr l) = MAXL /\ Forall op_wf (sl_todo l) /\ Forall (res_ok g) (sl_res l).

(* monotonicity *)
Lemma gle_refl g : gle g g.
Proof. split; auto. Qed.
Lemma keys_in_mono g g' k : gle g g' -> keys_in g k -> keys_in g' k.
Proof. intros [H _] [n [Hn Hk]]. exists n; auto. Qed.
Lemma Pok_mono g g' lev p k : gle g g' -> Pok g lev p k -> Pok g' lev p k.
Proof. intros [H _] [Hp|[Hp Hk]]; [left; auto|right; auto]. Qed.
Lemma Rec_mono g g' l lev : gle g g' -> Rec g l lev -> Rec g' l lev.
Proof. intros H [H1 H2]. split; auto. eapply Pok_mono; eauto. Qed.
Lemma Linked_mono g g' x lev : gle g g' -> Linked g x lev -> Linked g' x lev.
Proof. intros [H _] HL lev' Hl. auto. Qed.
Lemma TInv_mono g g' l : gle g g' -> TInv g l -> TInv g' l.
Proof.
  intros Hg. assert (Hm : s_max g <= s_max g') by apply Hg.
  unfold TInv. destruct (sl_pc l); auto.
  - intros (H1 & H2 & H3 & H4 & H5). split; [|split; [|split; [|split]]]; auto; try lia.
    + eapply Pok_mono; eauto.
    + intros; eapply Rec_mono; eauto.
  - intros (H1 & H2 & H3 & H4 & H5 & H6). split; [|split; [|split; [|split; [|split]]]]; auto.
    + eapply Linked_mono; eauto.
    + intros; eapply Rec_mono; eauto.
    + intros; specialize (H6 H); lia.
  - intros (H1 & H2 & H3 & H4 & H5 & H6). split; [|split; [|split; [|split; [|split]]]]; auto.
    + eapply Linked_mono; eauto.
    + intros; eapply Rec_mono; eauto.
    + intros; specialize (H6 H); lia.
  - intros (H1 & H2 & H3). split; [|split]; auto.
    + eapply Linked_mono; eauto.
    + intros; eapply Rec_mono; eauto.
  - intros (H1 & H2 & H3 & H4). split; [|split; [|split]]; auto.
    + eapply Linked_mono; eauto.
    + intros; eapply Rec_mono; eauto.
  - intros (H1 & H2 & H3 & H4 & H5 & H6 & H7 & H8). split; [|split; [|split; [|split; [|split; [|split; [|split]]]]]]; auto; try lia.
    + eapply Linked_mono; eauto.
    + eapply Pok_mono; eauto.
    + intros; eapply Rec_mono; eauto.
  - intros (H1 & H2 & H3). split; [|split]; auto.
    + eapply Pok_mono; eauto.
    + intros; eapply keys_in_mono; eauto.
Qed.
Lemma res_ok_mono g g' r : gle g g' -> res_ok g r -> res_ok g' r.
Proof.
  intros Hg. assert (Hm : s_max g <= s_max g') by apply Hg. destruct r as [[[op k] v] b]. cbn. intros [H1 H2]. split.
  - intros E. destruct (H1 E). split; [eapply keys_in_mono; eauto|lia].
  - intros E. destruct (H2 E). split; auto. intros; eapply keys_in_mono; eauto.
Qed.
Lemma LInv_mono g g' l : gle g g' -> LInv g l -> LInv g' l.
Proof.
  intros Hg (H1 & H2 & H3 & H4 & H5). split; [eapply TInv_mono; eauto|]. repeat split; auto.
  eapply Forall_impl; [|exact H5]. intros; eapply res_ok_mono; eauto.
Qed.

(* ---------- linking ---------- *)
Lemma lvl_link_eq g p lev x : length (s_levels g) = MAXL -> lev < MAXL ->
  lvl (link g p lev x) lev = tl (ins_after (0 :: lvl g lev) p x).
Proof. intros H1 H2. unfold lvl, link. cbn [s_levels]. apply nth_setn_eq. lia. Qed.
Lemma lvl_link_neq g p lev x l' : lev <> l' -> lvl (link g p lev x) l' = lvl g l'.
Proof. intros. unfold lvl, link. cbn [s_levels]. apply nth_setn_neq; auto. Qed.
Lemma insL_spec L p x : tl (ins_after (0 :: L) p x) = if p =? 0 then x :: L else ins_after L p x.
Proof. cbn [ins_after]. destruct p; cbn; auto. Qed.
Lemma nxt_spec g p lev : nxt g p lev = if p =? 0 then hd 0 (lvl g lev) else next_after (lvl g lev) p.
Proof. unfold nxt. cbn [next_after]. destruct p; cbn; auto. Qed.
Lemma nxt_in g p lev : (forall z, In z (lvl g lev) -> z <> 0) -> nxt g p lev = 0 \/ In (nxt g p lev) (lvl g lev).
Proof.
  intros _. rewrite nxt_spec. destruct (p =? 0).
  - destruct (lvl g lev); cbn; auto.
  - apply next_after_in.
Qed.

Lemma insL_sorted b L p x :
  ssorted key b L -> (forall z, In z L -> z <> 0) ->
  (p = 0 \/ (In p L /\ (key p < key x)%Z)) ->
  (let e := if p =? 0 then hd 0 L else next_after L p in e = 0 \/ rel b (key x) (key e)) ->
  ssorted key b (if p =? 0 then x :: L else ins_after L p x).
Proof.
  intros Hs Hnz Hp He. destruct (p =? 0) eqn:E.
  - apply ssorted_cons_front; auto.
  - apply Nat.eqb_neq in E. destruct Hp as [Hp|[Hp Hk]]; [congruence|]. apply ssorted_ins; auto.
Qed.

Lemma link_ok g p lev x k e :
  GInv g -> lev < MAXL -> Pok g lev p k -> key x = k -> x <> 0 ->
  nxt g p lev = e -> Eok e k -> (lev = 0 -> e = 0 \/ (k < key e)%Z) ->
  (forall l', l' < lev -> In x (lvl g l')) ->
  GInv (link g p lev x) /\ gle g (link g p lev x) /\ In x (lvl (link g p lev x) lev).
Proof.
  intros (HL & HM & HS0 & HS & HNZ & HD) Hlev Hp Hk Hx He Heok Hstrict Hlinked.
  assert (Eq := lvl_link_eq g p lev x HL Hlev). rewrite insL_spec in Eq.
  assert (Hp' : p = 0 \/ (In p (lvl g lev) /\ (key p < key x)%Z)) by (rewrite Hk; exact Hp).
  rewrite nxt_spec in He.
  assert (Hmono : forall z, In z (lvl g lev) -> In z (lvl (link g p lev x) lev)).
  { intros z Hz. rewrite Eq. destruct (p =? 0); [right; auto|apply in_ins_after_mono; auto]. }
  assert (Hnew : In x (lvl (link g p lev x) lev)).
  { rewrite Eq. destruct (p =? 0) eqn:E; [left; auto|]. apply Nat.eqb_neq in E.
    destruct Hp' as [Hp'|[Hp' _]]; [congruence|]. apply in_ins_after_new; auto. }
  assert (Hold : forall z, In z (lvl (link g p lev x) lev) -> z = x \/ In z (lvl g lev)).
  { intros z Hz. rewrite Eq in Hz. destruct (p =? 0); [destruct Hz; auto|apply in_ins_after in Hz; auto]. }
  assert (Hgle : gle g (link g p lev x)).
  { split; [|unfold link; cbn; lia]. intros l z Hz. destruct (Nat.eq_dec lev l) as [->|Hn]; [auto|rewrite lvl_link_neq; auto]. }
  split; [|split; auto].
  unfold GInv. split; [unfold link; cbn [s_levels]; rewrite setn_length; auto|].
  split; [unfold link; cbn; auto|].
  split; [|split; [|split]].
  - destruct (Nat.eq_dec lev 0) as [->|Hn]; [|rewrite lvl_link_neq; auto].
    rewrite Eq. apply insL_sorted; [auto|intros; eapply HNZ; eauto|auto|]. cbn zeta. subst e. destruct (Hstrict eq_refl) as [H|H]; [left; auto|right; unfold rel; rewrite Hk; auto].
  - intros l. destruct (Nat.eq_dec lev l) as [<-|Hn]; [|rewrite lvl_link_neq; auto].
    rewrite Eq. apply insL_sorted; [auto|intros; eapply HNZ; eauto|auto|]. cbn zeta. subst e. destruct Heok as [H|H]; [left; auto|right; unfold rel; rewrite Hk; auto].
  - intros l z Hz. destruct (Nat.eq_dec lev l) as [<-|Hn]; [|rewrite lvl_link_neq in Hz; eauto].
    destruct (Hold z Hz); [subst; auto|eauto].
  - intros l z Hz. destruct (Nat.eq_dec lev (S l)) as [E|Hn].
    + subst lev. rewrite lvl_link_neq by lia. destruct (Hold z Hz) as [->|Hz']; [apply Hlinked; lia|auto].
    + rewrite lvl_link_neq in Hz by auto. apply HD in Hz.
      destruct (Nat.eq_dec lev l) as [<-|Hn2]; [auto|rewrite lvl_link_neq; auto].
Qed.

(* ---------- one step of one thread ---------- *)
Global Arguments finish_op : simpl never.
Global Arguments start_next : simpl never.
Global Arguments decide : simpl never.
Global Arguments after_max : simpl never.

Lemma LInv_start g l :
  sl_pc l = SIdle -> length (sl_prev l) = MAXL -> length (sl_curr l) = MAXL -> Forall op_wf (sl_todo l) -> Forall (res_ok g) (sl_res l) ->
  LInv g (start_next l).
Proof.
  intros Hpc H1 H2 H3 H4. unfold start_next. destruct (sl_todo l) as [|[[o k] x] tl] eqn:E.
  - unfold LInv, TInv. rewrite Hpc, E. auto.
  - inversion H3; subst. destruct o as [|[|o]]; unfold LInv, TInv; cbn; repeat split; auto; try (apply H5; auto).
Qed.
Lemma LInv_finish g l op r :
  length (sl_prev l) = MAXL -> length (sl_curr l) = MAXL -> Forall op_wf (sl_todo l) -> Forall (res_ok g) (sl_res l) ->
  res_ok g (op, sl_k l, r, sl_gh l) -> LInv g (finish_op l op r).
Proof. intros. unfold finish_op. apply LInv_start; cbn; auto. Qed.

Lemma getn_map_seq f i : i < MAXL -> getn (map f (seq 0 MAXL)) i = f i.
Proof.
  intros H. unfold getn. rewrite nth_indep with (d' := f 0) by (rewrite map_length, seq_length; auto).
  rewrite map_nth. rewrite seq_nth; auto.
Qed.

Lemma LInv_decide g l :
  GInv g -> InsWf (sl_k l) (sl_x l) -> (1 <= s_max g \/ getn (sl_curr l) 0 = 0) ->
  length (sl_prev l) = MAXL -> length (sl_curr l) = MAXL -> Forall op_wf (sl_todo l) -> Forall (res_ok g) (sl_res l) ->
  (forall lev', lev' < height (sl_x l) -> Rec g l lev') ->
  (getn (sl_curr l) 0 = 0 \/ In (getn (sl_curr l) 0) (lvl g 0)) ->
  LInv g (decide key l).
Proof.
  intros HG HW Hm H1 H2 H3 H4 HR Hin. unfold decide.
  destruct (negb (getn (sl_curr l) 0 =? 0) && negb (sl_k l <? key (getn (sl_curr l) 0))%Z) eqn:E.
  - apply andb_true_iff in E. destruct E as [E1 E2]. apply negb_true_iff in E1, E2. apply Nat.eqb_neq in E1. apply Z.ltb_ge in E2.
    apply LInv_finish; auto. cbn. split; [intros _|intros; discriminate].
    destruct Hin as [Hin|Hin]; [congruence|]. destruct Hm as [Hm|Hm]; [|congruence].
    assert (HR0 : Rec g l 0) by (apply HR; destruct HW as (_ & _ & ? & _); lia).
    destruct HR0 as [_ [He|He]]; [congruence|]. split; auto. exists (getn (sl_curr l) 0). split; auto. lia.
  - unfold LInv, TInv, goto. cbn [sl_pc sl_k sl_x sl_prev sl_curr sl_todo sl_gh sl_res].
    split; [|auto]. split; [auto|]. split; [destruct HW as (_ & _ & ? & _); lia|]. split; [intros lev' Hl; lia|].
    split; [intros lev' _ Hl; apply HR; auto|]. split; [|intros; lia].
    intros _. apply andb_false_iff in E. destruct E as [E|E]; apply negb_false_iff in E.
    + left. apply Nat.eqb_eq; auto.
    + right. apply Z.ltb_lt; auto.
Qed.

Lemma LInv_after_max g l :
  GInv g -> InsWf (sl_k l) (sl_x l) -> 1 <= s_max g -> Linked g (sl_x l) 1 ->
  (forall lev', 1 <= lev' -> lev' < height (sl_x l) -> Rec g l lev') ->
  length (sl_prev l) = MAXL -> length (sl_curr l) = MAXL -> Forall op_wf (sl_todo l) -> Forall (res_ok g) (sl_res l) ->
  LInv g (after_max height l).
Proof.
  intros HG HW Hm HL HR H1 H2 H3 H4. unfold after_max. destruct (1 <? height (sl_x l)) eqn:E.
  - apply Nat.ltb_lt in E. unfold LInv, TInv, goto. cbn [sl_pc sl_k sl_x sl_prev sl_curr sl_todo sl_gh sl_res].
    split; [|auto]. split; [auto|]. split; [auto|]. split; [auto|]. split; [auto|]. split; [intros; lia|auto].
  - apply LInv_finish; auto. cbn. split; [intros _|intros; discriminate]. split; auto.
    exists (sl_x l). split; [apply HL; lia|apply HW].
Qed.

Lemma Rec_record_eq g l lev p c pc :
  lev < MAXL -> length (sl_prev l) = MAXL -> length (sl_curr l) = MAXL -> Pok g lev p (sl_k l) -> Eok c (sl_k l) ->
  Rec g (record l lev p c pc) lev.
Proof.
  intros H H1 H2 Hp He. unfold Rec, record. cbn [sl_prev sl_curr sl_k].
  rewrite !getn_setn_eq by lia. auto.
Qed.
Lemma Rec_record_neq g l lev p c pc lev' : lev <> lev' -> Rec g l lev' -> Rec g (record l lev p c pc) lev'.
Proof. intros H HR. unfold Rec, record in *. cbn [sl_prev sl_curr sl_k]. rewrite !getn_setn_neq by auto. auto. Qed.
Lemma lvl_setmax g h l : lvl (mkS (s_levels g) h) l = lvl g l.
Proof. reflexivity. Qed.
Lemma fill_zero m i h d : m <= i -> i < h -> (if (m <=? i) && (i <? h) then 0 else d) = 0.
Proof. intros H1 H2. apply Nat.leb_le in H1. apply Nat.ltb_lt in H2. rewrite H1, H2. auto. Qed.
Lemma stop_cond c (k : Z) : (negb (c =? 0) && (key c <? k)%Z) = false -> c = 0 \/ (k <= key c)%Z.
Proof.
  intros E. apply andb_false_iff in E. destruct E as [E|E].
  - left. apply negb_false_iff in E. apply Nat.eqb_eq; auto.
  - right. apply Z.ltb_ge; auto.
Qed.
Lemma move_cond c (k : Z) : (negb (c =? 0) && (key c <? k)%Z) = true -> c <> 0 /\ (key c < k)%Z.
Proof.
  intros E. apply andb_true_iff in E. destruct E as [E1 E2]. apply negb_true_iff in E1. split; [apply Nat.eqb_neq; auto|apply Z.ltb_lt; auto].
Qed.
Lemma Pok_next g lev p c (k : Z) :
  (forall l z, In z (lvl g l) -> z <> 0) -> nxt g p lev = c -> c <> 0 -> (key c < k)%Z -> Pok g lev c k.
Proof.
  intros HNZ Hc Hn Hk. right. split; auto. destruct (nxt_in g p lev) as [H|H]; [intros; eapply HNZ; eauto|congruence|congruence].
Qed.
Lemma Pok_down g lev p k : (forall l z, In z (lvl g (S l)) -> In z (lvl g l)) -> Pok g (S lev) p k -> Pok g lev p k.
Proof. intros HD [H|[H1 H2]]; [left; auto|right; auto]. Qed.

Ltac rec_simpl := cbn [sl_pc sl_k sl_x sl_prev sl_curr sl_todo sl_gh sl_res goto record] in *.

Lemma step_ok tid g l g' l' ev :
  GInv g -> LInv g l -> sstep key height tid g l = Some (g', l', ev) ->
  GInv g' /\ gle g g' /\ LInv g' l'.
Proof.
  intros HG (HT & Hp & Hc & Htodo & Hres) Hs.
  assert (HG' := HG). destruct HG' as (HL & HM & HS0 & HS & HNZ & HD).
  unfold sstep in Hs. cbv zeta in Hs. unfold TInv in HT. cbv zeta in HT.
  destruct (sl_pc l) eqn:Epc.
  - (* SIdle *) discriminate.
  - (* SLoadMax *)
    inv Hs. split; [auto|split; [apply gle_refl|]].
    assert (Hh : 1 <= height (sl_x l) /\ height (sl_x l) <= MAXL) by (destruct HT as (_ & _ & ? & ?); auto).
    destruct (s_max g') as [|m'] eqn:Em.
    + apply LInv_decide; rec_simpl; auto; try (rewrite map_length, seq_length; auto).
      * right. rewrite getn_map_seq by lia. apply fill_zero; lia.
      * intros lev' Hl. unfold Rec. rec_simpl. rewrite !getn_map_seq by lia. rewrite !fill_zero by lia. split; left; auto.
      * left. rewrite getn_map_seq by lia. apply fill_zero; lia.
    + unfold LInv, TInv. rec_simpl. rewrite !map_length, !seq_length. split; [|auto].
      split; [auto|]. split; [lia|]. split; [lia|]. split; [left; auto|].
      intros lev' H1 H2. unfold Rec. rec_simpl. rewrite !getn_map_seq by lia. rewrite !fill_zero by lia. split; left; auto.
  - (* SSearch *)
    destruct HT as (HW & Hlev & Hm & HP & HR).
    destruct (negb (nxt g prev lev =? 0) && (key (nxt g prev lev) <? sl_k l)%Z) eqn:E.
    + inv Hs. split; [auto|split; [apply gle_refl|]]. apply move_cond in E. destruct E as [E1 E2].
      unfold LInv, TInv. rec_simpl. split; [|auto]. split; [auto|]. split; [auto|]. split; [auto|]. split; [|auto].
      eapply Pok_next; eauto.
    + apply stop_cond in E. destruct lev as [|lev'].
      * inv Hs. split; [auto|split; [apply gle_refl|]].
        apply LInv_decide; rec_simpl; auto; try (rewrite setn_length; auto).
        -- intros lev' Hl. destruct (Nat.eq_dec 0 lev') as [<-|Hn].
           ++ apply Rec_record_eq; auto.
           ++ apply Rec_record_neq; auto. apply HR; lia.
        -- rewrite getn_setn_eq by lia. apply nxt_in. intros; eapply HNZ; eauto.
      * inv Hs. split; [auto|split; [apply gle_refl|]].
        unfold LInv, TInv. rec_simpl. rewrite !setn_length. split; [|auto].
        split; [auto|]. split; [lia|]. split; [auto|]. split; [apply Pok_down; auto|].
        intros lev'' H1 H2. destruct (Nat.eq_dec (S lev') lev'') as [<-|Hn].
        -- apply Rec_record_eq; auto.
        -- apply Rec_record_neq; auto. apply HR; lia.
  - (* SStore *)
    inv Hs. split; [auto|split; [apply gle_refl|]]. unfold LInv, TInv. rec_simpl. auto.
  - (* SCas *)
    destruct HT as (HW & Hlev & HLk & HR & Hst & Hm1).
    assert (HRl : Rec g l lev) by (apply HR; lia). destruct HRl as [HPl HEl].
    destruct HW as (Hkx & Hx0 & Hh1 & Hh2).
    destruct (nxt g (getn (sl_prev l) lev) lev =? getn (sl_curr l) lev) eqn:E.
    + apply Nat.eqb_eq in E.
      destruct (link_ok g (getn (sl_prev l) lev) lev (sl_x l) (sl_k l) (getn (sl_curr l) lev)) as (HG2 & Hgle & Hnew); auto; try lia.
      { intros ->. apply Hst; auto. }
      assert (HW : InsWf (sl_k l) (sl_x l)) by (repeat split; auto).
      destruct lev as [|lev'].
      * inv Hs. split; [auto|split; [auto|]]. unfold LInv, TInv. rec_simpl.
        split; [|repeat split; auto; eapply Forall_impl; [|exact Hres]; intros; eapply res_ok_mono; eauto].
        split; [auto|]. split.
        -- intros lev' Hl. assert (lev' = 0) by lia. subst. auto.
        -- intros lev' H1 H2. eapply Rec_mono; eauto. apply HR; lia.
      * destruct (S (S lev') <? height (sl_x l)) eqn:E2.
        -- apply Nat.ltb_lt in E2. inv Hs. split; [auto|split; [auto|]]. unfold LInv, TInv. rec_simpl.
           split; [|repeat split; auto; eapply Forall_impl; [|exact Hres]; intros; eapply res_ok_mono; eauto].
           split; [auto|]. split; [auto|]. split.
           ++ intros lev'' Hl. destruct (Nat.eq_dec lev'' (S lev')) as [->|Hn]; [auto|]. apply Hgle. apply HLk. lia.
           ++ split; [intros lev'' H1 H2; eapply Rec_mono; eauto; apply HR; lia|]. split; [intros; lia|].
              intros _. destruct Hgle as [_ Hgm]. specialize (Hm1 ltac:(lia)). lia.
        -- inv Hs. split; [auto|split; [auto|]].
           apply LInv_finish; auto.
           ++ eapply Forall_impl; [|exact Hres]; intros; eapply res_ok_mono; eauto.
           ++ cbn. split; [intros _|intros; discriminate]. split.
              ** exists (sl_x l). split; auto. apply Hgle. apply HLk. lia.
              ** destruct Hgle as [_ Hgm]. specialize (Hm1 ltac:(lia)). lia.
    + assert (HW : InsWf (sl_k l) (sl_x l)) by (repeat split; auto).
      destruct lev as [|lev'].
      * inv Hs. split; [auto|split; [apply gle_refl|]]. unfold LInv, TInv. rec_simpl. auto.
      * inv Hs. split; [auto|split; [apply gle_refl|]]. unfold LInv, TInv. rec_simpl.
        split; [|auto]. split; [auto|]. split; [lia|]. split; [lia|]. split; [auto|]. split; [auto|]. split; [auto|]. split; [apply Hm1; lia|auto].
  - (* SMaxLoad *)
    destruct HT as (HW & HLk & HR).
    assert (Hh : 1 <= height (sl_x l)) by (destruct HW as (_ & _ & ? & _); auto).
    destruct (height (sl_x l) <=? s_max g) eqn:E.
    + apply Nat.leb_le in E. inv Hs. split; [auto|split; [apply gle_refl|]]. apply LInv_after_max; auto. lia.
    + apply Nat.leb_gt in E. inv Hs. split; [auto|split; [apply gle_refl|]]. unfold LInv, TInv. rec_simpl. auto.
  - (* SMaxCas *)
    destruct HT as (HW & Hseen & HLk & HR).
    assert (Hh : 1 <= height (sl_x l) /\ height (sl_x l) <= MAXL) by (destruct HW as (_ & _ & ? & ?); auto).
    destruct (s_max g =? seen) eqn:E.
    + apply Nat.eqb_eq in E. inv Hs.
      assert (Hgle : gle g (mkS (s_levels g) (height (sl_x l)))) by (split; [intros; rewrite lvl_setmax; auto|cbn; lia]).
      assert (HG2 : GInv (mkS (s_levels g) (height (sl_x l)))).
      { unfold GInv. cbn [s_levels s_max]. split; [auto|]. split; [lia|]. split; [rewrite lvl_setmax; auto|].
        split; [intros; rewrite lvl_setmax; auto|]. split; [intros l0 z; rewrite lvl_setmax; eauto|]. intros l0 z; rewrite !lvl_setmax; auto. }
      split; [auto|split; [auto|]].
      apply LInv_after_max; [exact HG2|exact HW|cbn; lia|eapply Linked_mono; eauto|intros; eapply Rec_mono; eauto|auto|auto|auto|].
      eapply Forall_impl; [|exact Hres]; intros; eapply res_ok_mono; eauto.
    + destruct (height (sl_x l) <=? s_max g) eqn:E2.
      * apply Nat.leb_le in E2. inv Hs. split; [auto|split; [apply gle_refl|]]. apply LInv_after_max; auto. lia.
      * apply Nat.leb_gt in E2. inv Hs. split; [auto|split; [apply gle_refl|]]. unfold LInv, TInv. rec_simpl. auto.
  - (* SRefind *)
    destruct HT as (HW & Hl1 & Hl2 & Hl3 & HLk & HP & Hm & HR).
    assert (Hh : height (sl_x l) <= MAXL) by (destruct HW as (_ & _ & _ & ?); auto).
    destruct (negb (nxt g prev lev =? 0) && (key (nxt g prev lev) <? sl_k l)%Z) eqn:E.
    + inv Hs. split; [auto|split; [apply gle_refl|]]. apply move_cond in E. destruct E as [E1 E2].
      unfold LInv, TInv. rec_simpl. split; [|auto].
      split; [auto|]. split; [auto|]. split; [auto|]. split; [auto|]. split; [auto|]. split; [|auto]. eapply Pok_next; eauto.
    + apply stop_cond in E. destruct (S lev <? height (sl_x l)) eqn:E2.
      * apply Nat.ltb_lt in E2. inv Hs. split; [auto|split; [apply gle_refl|]].
        unfold LInv, TInv. rec_simpl. rewrite !setn_length. split; [|auto].
        split; [auto|]. split; [auto|]. split; [lia|]. split; [auto|]. split; [auto|].
        split; [apply (HR (S lev)); lia|]. split; [auto|].
        intros lev'' H1 H2. destruct (Nat.eq_dec lev lev'') as [<-|Hn].
        -- apply Rec_record_eq; auto. lia.
        -- apply Rec_record_neq; auto.
      * apply Nat.ltb_ge in E2. inv Hs. split; [auto|split; [apply gle_refl|]].
        unfold LInv, TInv. rec_simpl. rewrite !setn_length. split; [|auto].
        split; [auto|]. split; [lia|]. split; [auto|]. split.
        -- intros lev'' H1 H2. destruct (Nat.eq_dec lev lev'') as [<-|Hn].
           ++ apply Rec_record_eq; auto. lia.
           ++ apply Rec_record_neq; auto.
        -- split; [intros; lia|auto].
  - (* SFLoadMax *)
    inv Hs. split; [auto|split; [apply gle_refl|]].
    destruct (s_max g') as [|m'] eqn:Em.
    + apply LInv_finish; rec_simpl; auto. cbn. split; [intros; discriminate|intros _]. split; [intros; discriminate|].
      rewrite andb_false_r. intros; discriminate.
    + unfold LInv, TInv. rec_simpl. split; [|auto]. split; [lia|]. split; [left; auto|].
      intros Hb. apply andb_true_iff in Hb. destruct Hb as [Hb _]. apply existsb_exists in Hb. destruct Hb as [n [Hn Hk]].
      exists n. split; auto. apply Z.eqb_eq; auto.
  - (* SFSearch *)
    destruct HT as (Hlev & HP & Hgh).
    destruct (negb (nxt g prev lev =? 0) && (key (nxt g prev lev) <? sl_k l)%Z) eqn:E.
    + inv Hs. split; [auto|split; [apply gle_refl|]]. apply move_cond in E. destruct E as [E1 E2].
      unfold LInv, TInv. rec_simpl. split; [|auto]. split; [auto|]. split; [|auto]. eapply Pok_next; eauto.
    + apply stop_cond in E. destruct lev as [|lev'].
      * inv Hs. split; [auto|split; [apply gle_refl|]]. apply LInv_finish; auto.
        set (c := nxt g' prev 0) in *.
        assert (Hcin : c = 0 \/ In c (lvl g' 0)) by (apply nxt_in; intros; eapply HNZ; eauto).
        cbn. split; [intros; discriminate|intros _]. split.
        -- intros Hv. destruct (negb (c =? 0) && negb (sl_k l <? key c)%Z) eqn:E3; [|discriminate].
           apply andb_true_iff in E3. destruct E3 as [E3 E4]. apply negb_true_iff in E3, E4. apply Nat.eqb_neq in E3. apply Z.ltb_ge in E4.
           destruct Hcin as [Hcin|Hcin]; [congruence|]. destruct E as [E|E]; [congruence|]. exists c. split; auto. lia.
        -- intros Hb. destruct (Hgh Hb) as [n [Hn Hk]].
           assert (Hcn : c <> 0 /\ (key c <= key n)%Z).
           { unfold c. rewrite nxt_spec. destruct (prev =? 0) eqn:Ep.
             - apply hd_reaches; auto. intros; eapply HNZ; eauto.
             - apply Nat.eqb_neq in Ep. destruct HP as [HP|[HP1 HP2]]; [congruence|].
               apply next_after_reaches; auto; [intros; eapply HNZ; eauto|lia]. }
           destruct Hcn as [Hc1 Hc2]. destruct E as [E|E]; [congruence|].
           assert (E5 : (c =? 0) = false) by (apply Nat.eqb_neq; auto).
           assert (E6 : (sl_k l <? key c)%Z = false) by (apply Z.ltb_ge; lia).
           rewrite E5, E6. auto.
      * inv Hs. split; [auto|split; [apply gle_refl|]].
        unfold LInv, TInv. rec_simpl. split; [|auto]. split; [lia|]. split; [apply Pok_down; auto|auto].
Qed.

(* ---------- configurations ---------- *)
Definition CInv (c : sshared * list sloc) : Prop :=
  GInv (fst c) /\ forall i l, nth_error (snd c) i = Some l -> LInv (fst c) l.

Lemma CInv_step c i c' ev : CInv c -> step_at (sstep key height) c i = Some (c', ev) -> CInv c'.
Proof.
  intros [HG HLs] Hs. unfold step_at in Hs. destruct (nth_error (snd c) i) as [l|] eqn:El; [|discriminate].
  destruct (sstep key height i (fst c) l) as [[[g' l'] ev']|] eqn:Es; [|discriminate]. inv Hs.
  destruct (step_ok _ _ _ _ _ _ HG (HLs _ _ El) Es) as (HG' & Hgle & HL').
  split; [auto|]. cbn [fst snd]. intros j lj Hj.
  destruct (Nat.eq_dec i j) as [<-|Hn].
  - rewrite (nth_error_set_nth_eq _ _ _ _ El) in Hj. inv Hj. auto.
  - rewrite nth_error_set_nth_neq in Hj by auto. eapply LInv_mono; eauto.
Qed.

Lemma LInv_init g ops : Forall op_wf ops -> LInv g (sinit_loc ops).
Proof. intros H. unfold sinit_loc. apply LInv_start; cbn; auto; apply repeat_length. Qed.

Lemma CInv_init g scripts : GInv g -> Forall (Forall op_wf) scripts -> CInv (g, map sinit_loc scripts).
Proof.
  intros HG Hs. split; [auto|]. cbn [fst snd]. intros i l Hi.
  apply nth_error_In in Hi. apply in_map_iff in Hi. destruct Hi as [ops [<- Hin]].
  apply LInv_init. rewrite Forall_forall in Hs. auto.
Qed.

Lemma CInv_reach c0 c : CInv c0 -> reach (sstep key height) c0 c -> CInv c.
Proof. intros H0 Hr. eapply inv_reach; eauto. intros; eapply CInv_step; eauto. Qed.

Lemma lvl_empty l : lvl (mkS (repeat [] MAXL) 0) l = [].
Proof. unfold lvl. cbn [s_levels]. destruct (Nat.lt_ge_cases l MAXL); [apply nth_repeat|apply nth_overflow; rewrite repeat_length; auto]. Qed.
Lemma GInv_empty : GInv (mkS (repeat [] MAXL) 0).
Proof.
  unfold GInv. cbn [s_levels s_max]. split; [apply repeat_length|]. split; [lia|].
  split; [rewrite lvl_empty; cbn; auto|]. split; [intros; rewrite lvl_empty; cbn; auto|].
  split; intros l z; rewrite lvl_empty; cbn; tauto.
Qed.

(* ---------- counting the winners ---------- *)
Definition cnt_key (k : Z) (L : list nat) : nat := length (filter (fun n => (key n =? k)%Z) L).
Definition is_succ (k : Z) (r : Z * Z * Z * bool) : bool := let '(op, k', v, _) := r in ((op =? 1) && (k' =? k) && (v =? 1))%Z.
Definition postlink (p : spc) : bool :=
  match p with
  | SMaxLoad | SMaxCas _ | SRefind _ _ _ => true
  | SStore lev | SCas lev => negb (lev =? 0)
  | _ => false
  end.
(* successful inserts of key k by this thread: reported ones plus one that is linked at level 0 and still working on the upper levels *)
Definition succ_of (k : Z) (l : sloc) : nat :=
  length (filter (is_succ k) (sl_res l)) + (if postlink (sl_pc l) && (sl_k l =? k)%Z then 1 else 0).

Lemma cnt_ins_after k L p x : In p L -> cnt_key k (ins_after L p x) = cnt_key k L + (if (key x =? k)%Z then 1 else 0).
Proof.
  unfold cnt_key. induction L as [|y tl IH]; cbn; [tauto|]. destruct (y =? p) eqn:E; intros Hin.
  - cbn. destruct (key y =? k)%Z, (key x =? k)%Z; cbn; lia.
  - apply Nat.eqb_neq in E. destruct Hin as [Hin|Hin]; [congruence|]. cbn. specialize (IH Hin). destruct (key y =? k)%Z; cbn; lia.
Qed.
Lemma cnt_strict_le1 k L : ssorted key true L -> cnt_key k L <= 1.
Proof.
  unfold cnt_key. induction L as [|y tl IH]; cbn; [lia|]. intros [H1 H2]. specialize (IH H2).
  destruct (key y =? k)%Z eqn:E; cbn; [|lia]. apply Z.eqb_eq in E.
  assert (filter (fun n => (key n =? k)%Z) tl = []) as ->; [|cbn; lia].
  clear IH H2. induction tl as [|z tl IH]; cbn; auto.
  assert (Hz : (key y < key z)%Z) by (apply H1; cbn; auto). destruct (key z =? k)%Z eqn:Ez; [apply Z.eqb_eq in Ez; lia|].
  apply IH. intros; apply H1; cbn; auto.
Qed.
Lemma cnt_pos_in k L : (exists n, In n L /\ key n = k) -> 1 <= cnt_key k L.
Proof.
  unfold cnt_key. intros [n [Hn Hk]]. induction L as [|y tl IH]; cbn; [inversion Hn|]. destruct Hn as [->|Hn].
  - apply Z.eqb_eq in Hk. rewrite Hk. cbn. lia.
  - destruct (key y =? k)%Z; cbn; [lia|auto].
Qed.

Lemma succ_of_start k l : sl_pc l = SIdle -> succ_of k (start_next l) = length (filter (is_succ k) (sl_res l)).
Proof.
  intros Hpc. unfold succ_of, start_next. destruct (sl_todo l) as [|[[o k'] x] tl].
  - rewrite Hpc. cbn. lia.
  - destruct o as [|[|o]]; cbn; lia.
Qed.
Lemma succ_of_finish k l op r :
  succ_of k (finish_op l op r) = length (filter (is_succ k) (sl_res l)) + (if ((op =? 1) && (sl_k l =? k) && (r =? 1))%Z then 1 else 0).
Proof.
  unfold finish_op. rewrite succ_of_start by reflexivity. cbn [sl_res filter is_succ].
  destruct ((op =? 1) && (sl_k l =? k) && (r =? 1))%Z; cbn; lia.
Qed.
Lemma succ_of_goto k l p : succ_of k (goto l p) = length (filter (is_succ k) (sl_res l)) + (if postlink p && (sl_k l =? k)%Z then 1 else 0).
Proof. reflexivity. Qed.
Lemma succ_of_record k l lev a b p : succ_of k (record l lev a b p) = length (filter (is_succ k) (sl_res l)) + (if postlink p && (sl_k l =? k)%Z then 1 else 0).
Proof. reflexivity. Qed.
Lemma succ_of_decide k l : postlink (sl_pc l) = false -> succ_of k (decide key l) = succ_of k l.
Proof.
  intros Hp. unfold decide. destruct (_ && _).
  - rewrite succ_of_finish. unfold succ_of. rewrite Hp. cbn. rewrite andb_false_r. cbn. lia.
  - rewrite succ_of_goto. unfold succ_of. rewrite Hp. cbn. lia.
Qed.
Lemma succ_of_after_max k l : postlink (sl_pc l) = true -> succ_of k (after_max height l) = succ_of k l.
Proof.
  intros Hp. unfold after_max. destruct (1 <? height (sl_x l)).
  - rewrite succ_of_goto. unfold succ_of. rewrite Hp. cbn. lia.
  - rewrite succ_of_finish. unfold succ_of. rewrite Hp. cbn. rewrite andb_true_r. lia.
Qed.

Lemma step_count tid g l g' l' ev k :
  GInv g -> LInv g l -> sstep key height tid g l = Some (g', l', ev) ->
  cnt_key k (lvl g' 0) + succ_of k l = cnt_key k (lvl g 0) + succ_of k l'.
Proof.
  intros HG (HT & Hp & Hc & Htodo & Hres) Hs.
  assert (HG' := HG). destruct HG' as (HL & HM & HS0 & HS & HNZ & HD).
  unfold sstep in Hs. cbv zeta in Hs. unfold TInv in HT. cbv zeta in HT.
  destruct (sl_pc l) eqn:Epc.
  - discriminate.
  - inv Hs. destruct (s_max g').
    + rewrite succ_of_decide by (cbn; auto). unfold succ_of. cbn [sl_pc sl_res sl_k]. rewrite Epc. lia.
    + rewrite succ_of_goto. unfold succ_of. rewrite Epc. cbn. lia.
  - destruct (negb _ && _).
    + inv Hs. rewrite succ_of_goto. unfold succ_of. rewrite Epc. cbn. lia.
    + destruct lev; inv Hs.
      * rewrite succ_of_decide by (cbn; auto). unfold succ_of. rewrite Epc. cbn. lia.
      * rewrite succ_of_record. unfold succ_of. rewrite Epc. cbn. lia.
  - inv Hs. rewrite succ_of_goto. unfold succ_of. rewrite Epc. cbn. lia.
  - destruct HT as (HW & Hlev & HLk & HR & Hst & Hm1).
    assert (HRl : Rec g l lev) by (apply HR; lia). destruct HRl as [HPl HEl].
    destruct HW as (Hkx & Hx0 & Hh1 & Hh2).
    destruct (nxt g (getn (sl_prev l) lev) lev =? getn (sl_curr l) lev) eqn:E.
    + destruct lev as [|lev'].
      * inv Hs. rewrite succ_of_goto. unfold succ_of. rewrite Epc. cbn [postlink Nat.eqb negb andb].
        rewrite lvl_link_eq by (auto; lia). rewrite insL_spec.
        destruct (getn (sl_prev l) 0 =? 0) eqn:E0.
        -- rewrite <- Hkx. unfold cnt_key. cbn [filter]. destruct (key (sl_x l) =? k)%Z; cbn; lia.
        -- apply Nat.eqb_neq in E0. destruct HPl as [HPl|[HPl _]]; [congruence|].
           rewrite cnt_ins_after by auto. rewrite Hkx. lia.
      * destruct (S (S lev') <? height (sl_x l)); inv Hs.
        -- rewrite lvl_link_neq by lia. rewrite succ_of_goto. unfold succ_of. rewrite Epc. cbn. lia.
        -- rewrite lvl_link_neq by lia. rewrite succ_of_finish. unfold succ_of. rewrite Epc. cbn. rewrite andb_true_r. lia.
    + destruct lev; inv Hs; rewrite succ_of_goto; unfold succ_of; rewrite Epc; cbn; lia.
  - destruct (_ <=? _); inv Hs.
    + rewrite succ_of_after_max by (rewrite Epc; auto). lia.
    + rewrite succ_of_goto. unfold succ_of. rewrite Epc. cbn. lia.
  - destruct (s_max g =? seen).
    + inv Hs. rewrite lvl_setmax. rewrite succ_of_after_max by (rewrite Epc; auto). lia.
    + destruct (_ <=? _); inv Hs.
      * rewrite succ_of_after_max by (rewrite Epc; auto). lia.
      * rewrite succ_of_goto. unfold succ_of. rewrite Epc. cbn. lia.
  - destruct (negb _ && _).
    + inv Hs. rewrite succ_of_goto. unfold succ_of. rewrite Epc. cbn. lia.
    + destruct (S lev <? _); inv Hs; rewrite succ_of_record; unfold succ_of; rewrite Epc; cbn; try lia.
      destruct HT as (_ & Hl1 & _). destruct level; [lia|]. cbn. lia.
  - inv Hs. destruct (s_max g').
    + rewrite succ_of_finish. unfold succ_of. rewrite Epc. cbn. lia.
    + rewrite succ_of_goto. unfold succ_of. rewrite Epc. cbn. lia.
  - destruct (negb _ && _).
    + inv Hs. rewrite succ_of_goto. unfold succ_of. rewrite Epc. cbn. lia.
    + destruct lev; inv Hs.
      * rewrite succ_of_finish. unfold succ_of. rewrite Epc. cbn. lia.
      * rewrite succ_of_goto. unfold succ_of. rewrite Epc. cbn. lia.
Qed.

Fixpoint total (k : Z) (ls : list sloc) : nat := match ls with [] => 0 | l :: tl => succ_of k l + total k tl end.
Lemma total_set_nth k ls i l l' : nth_error ls i = Some l -> total k (set_nth ls i l') + succ_of k l = total k ls + succ_of k l'.
Proof.
  revert i; induction ls as [|y tl IH]; intros [|i] H; cbn [nth_error set_nth total] in *; try discriminate.
  - inv H. lia.
  - specialize (IH _ H). lia.
Qed.
Lemma count_step c i c' ev k : CInv c -> step_at (sstep key height) c i = Some (c', ev) ->
  cnt_key k (lvl (fst c') 0) + total k (snd c) = cnt_key k (lvl (fst c) 0) + total k (snd c').
Proof.
  intros [HG HLs] Hs. unfold step_at in Hs. destruct (nth_error (snd c) i) as [l|] eqn:El; [|discriminate].
  destruct (sstep key height i (fst c) l) as [[[g' l'] ev']|] eqn:Es; [|discriminate]. inv Hs. cbn [fst snd].
  assert (H1 := step_count _ _ _ _ _ _ k HG (HLs _ _ El) Es).
  assert (H2 := total_set_nth k _ _ _ l' El). lia.
Qed.
Lemma total_init k scripts : total k (map sinit_loc scripts) = 0.
Proof.
  induction scripts as [|ops tl IH]; cbn [map total]; auto. rewrite IH.
  unfold sinit_loc. rewrite succ_of_start by reflexivity. cbn. lia.
Qed.
Lemma count_reach g0 scripts c k :
  GInv g0 -> Forall (Forall op_wf) scripts -> reach (sstep key height) (g0, map sinit_loc scripts) c ->
  cnt_key k (lvl (fst c) 0) = cnt_key k (lvl g0 0) + total k (snd c).
Proof.
  intros HG Hs Hr. induction Hr.
  - cbn [fst snd]. rewrite total_init. lia.
  - assert (HC : CInv c) by (eapply CInv_reach; [apply CInv_init; eauto|auto]).
    assert (H1 := count_step _ _ _ _ k HC H). lia.
Qed.

Lemma ssorted_strict_nodup L : ssorted key true L -> NoDup (map key L).
Proof.
  induction L as [|y tl IH]; cbn; [constructor|]. intros [H1 H2]. constructor; auto.
  intros Hin. apply in_map_iff in Hin. destruct Hin as [z [Hz Hzin]]. specialize (H1 z Hzin). unfold rel in H1. lia.
Qed.
End Inv.
