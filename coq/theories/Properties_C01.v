(* C01 — the per-thread ready deque (arena_slot).  Property theorems only; proofs live in DequeProofs.v.
   The model reproduces every atomic access of spawn / get_task / steal_task (checked against the real arena_slot under
   the gate on every run).  The theorems below are EXHAUSTIVE over all interleavings of the listed finite
   configurations (a checked closed set of configurations, not a bound on schedule length); a proof for arbitrary
   scripts and thief counts is not available (DESIGN.md, C01 partial). *)
From OTV Require Import Lib.Tac Lib.Conc DequeModel DequeProofs.
Local Open Scope Z_scope.

(* good: no task is handed out twice (owner pop vs thief steal vs a second thief), only spawned tasks are handed out, and
   when all threads have finished every spawned task was handed out exactly once or is still in [head, tail) *)
Definition C_last_task := ([(1, 1); (2, 0)], [1%nat]).                                   (* owner and thief race for the only task *)
Definition C_two_tasks := ([(1, 1); (1, 2); (2, 0); (2, 0)], [2%nat]).
Definition C_reset_republish := ([(1, 1); (2, 0); (1, 2); (2, 0)], [2%nat]).             (* pool emptied, reset, published again *)
Definition C_two_thieves := ([(1, 1); (1, 2); (2, 0)], [1%nat; 1%nat]).                  (* thieves contend for the pool lock *)
Definition C_three_tasks := ([(1, 1); (1, 2); (1, 3); (2, 0); (2, 0); (2, 0)], [2%nat]).

Theorem deque_exactly_once_all_interleavings :
  forall cfg, In cfg [C_last_task; C_two_tasks; C_reset_republish; C_two_thieves; C_three_tasks] ->
  forall c, reach dstep (dinit (fst cfg) (snd cfg)) c -> good (spawned_of (fst cfg)) c = true.
Proof.
  intros cfg Hin c. revert c.
  destruct Hin as [<-|[<-|[<-|[<-|[<-|[]]]]]]; apply explore_sound with (fuel := 60000%nat); vm_compute; reflexivity.
Qed.
Print Assumptions deque_exactly_once_all_interleavings.

Theorem deque_run_is_reachable : forall owner thieves sched c evs,
  run dstep (dinit owner thieves) sched = (c, evs) -> reach dstep (dinit owner thieves) c.
Proof. intros. eapply run_reach; eauto. Qed.
Print Assumptions deque_run_is_reachable.

(* the checker is not vacuous: it rejects a history in which a task is handed out twice *)
Example good_rejects_duplicates :
  good [1; 2] (MkDg 0 0 0 (repeat 0 4) [1; 1], []) = false.
Proof. vm_compute. reflexivity. Qed.
