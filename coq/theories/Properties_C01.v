(* C01 — the per-thread ready deque (arena_slot).  Property theorems only; proofs live in DequeProofs.v.
   The model reproduces every atomic access of spawn / get_task / steal_task (checked against the real arena_slot under
   the gate on every run).  The theorems below are EXHAUSTIVE over all interleavings of the listed finite
   configurations (a checked closed set of configurations, not a bound on schedule length); a proof for arbitrary
   scripts and thief counts is not available (DESIGN.md, C01 partial). *)
From OTV Require Import Lib.Tac Lib.Conc DequeModel DequeProofs.
Local Open Scope Z_scope.

(* the configurations and the (one-minute) evaluation live in DequeProofs.v: deque_configs, deque_configs_explored *)

Theorem deque_exactly_once_all_interleavings :
  forall cfg, In cfg deque_configs ->
  forall c, reach dstep (dinit (fst cfg) (snd cfg)) c -> good (spawned_of (fst cfg)) c = true.
Proof.
  intros cfg Hin. assert (H := deque_configs_explored). unfold deque_configs in *. rewrite forallb_forall in H.
  specialize (H cfg Hin). intros c. apply explore_sound with (fuel := 60000%nat). exact H.
Qed.
Print Assumptions deque_exactly_once_all_interleavings.

Theorem deque_run_is_reachable : forall owner thieves sched c evs,
  run dstep (dinit owner thieves) sched = (c, evs) -> reach dstep (dinit owner thieves) c.
Proof. intros. eapply run_reach; eauto. Qed.
Print Assumptions deque_run_is_reachable.

(* the checker is not vacuous: it rejects a history in which a task is handed out twice *)
Example good_rejects_duplicates :
  good [1; 2] (MkDg 0 0 0 (repeat 0 4) [1; 1], []) = false.
Proof. vm_compute. reflexivity. Qed.
