(* C15 — flow-graph buffering nodes.  Property theorems only; proofs live in BufProofs.v.
   A run is any sequence of (op, v): 1 try_put(v) | 2 try_get | 3 try_reserve | 4 try_release | 5 try_consume with v >= 0;
   h_acc = accepted puts in order, h_del = items handed out by try_get or try_consume, in order. *)
From Coq Require Import Sorting.Permutation.
From OTV Require Import Lib.Tac BufModel BufProofs JoinModel JoinProofs JoinRModel JoinRProofs.
Local Open Scope Z_scope.

(* queue_node: at every moment  delivered ++ still-buffered = accepted puts, in order: items leave in arrival order,
   none is lost, none is delivered twice — whatever reservations were taken, released or consumed in between *)
Theorem queue_node_fifo_and_conservation : forall ops,
  Forall (fun o => 0 <= snd o) ops ->
  let '(b, h) := run_h KQueue ops in h_del h ++ vals (b_items b) = h_acc h.
Proof. intros ops H. assert (X := queue_run ops H). destruct (run_h KQueue ops). tauto. Qed.
Print Assumptions queue_node_fifo_and_conservation.

(* sequencer_node: the items handed out are exactly 0, 1, 2, ..., head-1 in that order (no gap, duplicate or overtaking),
   and every buffered item sits in the slot of its own sequence number *)
Theorem sequencer_node_exact_order : forall ops,
  Forall (fun o => 0 <= snd o) ops ->
  let '(b, h) := run_h KSequencer ops in
  h_del h = upto (b_hd b) /\
  (forall p v r, nth_error (b_items b) p = Some (Some (v, r)) -> v = b_hd b + Z.of_nat p).
Proof. intros ops H. assert (X := seq_run ops H). destruct (run_h KSequencer ops). destruct X as (_ & A & B). auto. Qed.
Print Assumptions sequencer_node_exact_order.

(* buffer_node: delivered + still-buffered is a permutation of the accepted puts: nothing lost, nothing twice *)
Theorem buffer_node_conservation : forall ops,
  Forall (fun o => 0 <= snd o) ops ->
  let '(b, h) := run_h KBuffer ops in Permutation (h_del h ++ vals (b_items b)) (h_acc h).
Proof. intros ops H. assert (X := buffer_run ops H). destruct (run_h KBuffer ops). tauto. Qed.
Print Assumptions buffer_node_conservation.

(* all three: the reservation flag is set iff the FRONT slot is the one reserved slot; so a released item is at the
   front again, a consumed one is removed once, and nothing else is reserved *)
Theorem reservation_discipline : forall kind ops,
  Forall (fun o => 0 <= snd o) ops -> res_ok (fst (run_h kind ops)).
Proof. exact res_ok_run. Qed.
Print Assumptions reservation_discipline.

(* the pending reservation protects its item from try_get on buffer_node (the defect fixed in _flow_graph_item_buffer_impl.h) *)
Example buffer_get_respects_reservation :
  let '(b, h) := run_h KBuffer [(1, 7); (3, 0); (2, 0)] in h_del h = [] /\ b_reserved b = true /\ vals (b_items b) = [7].
Proof. vm_compute. repeat split; reflexivity. Qed.

(* limiter_node's counters (LimModel).  For every threshold and every sequence of puts (admitted or not, accepted or rejected by the successor) and
   positive decrements, arriving in any order — in particular decrements larger than the current count while puts are in flight:
   my_count + my_tries never exceeds the threshold, and the messages forwarded minus ALL decrements requested never exceed my_count
   (a pending future decrement included), hence never the threshold. *)
From OTV Require Import LimModel LimProofs.
Theorem limiter_never_exceeds_threshold : forall th ops, 0 <= th ->
  let n := lrun (linit th) ops in
  0 <= l_count n /\ l_count n + l_tries n <= th /\ l_fwd n - l_req n <= l_count n - l_fdec n /\ l_fwd n - l_req n <= th.
Proof.
  intros th ops Ht n.
  assert (HI : LInv (linit th)) by (unfold LInv, linit; cbn; lia).
  destruct (lrun_inv ops (linit th) Ht HI) as [(H1 & H2 & H3 & H4 & H5) E]. fold n in H1, H2, H3, H4, H5, E. cbn in E. rewrite E in *.
  repeat split; auto; lia.
Qed.
Print Assumptions limiter_never_exceeds_threshold.

Example limiter_example : run_lim [3; 1;0; 2;0; 1;0; 4;5; 2;0] = [1;0;1;0; 1;1;0;0; 1;1;1;0; 1;0;1;2; 1;0;0;1].
Proof. vm_compute. reflexivity. Qed.


(* ------------------------------------------------------------------------------------------------------------------
   join_node, queueing policy (JoinModel).  For EVERY number of ports >= 1 and EVERY sequence of operations - puts on any port,
   the successor accepting / rejecting / pulling with try_get / registering again, forward tasks running at any moment:
   the i-th tuple consists of the i-th message of every port and nothing is lost or used twice (everything put on port p =
   the p-th components of the delivered tuples, in order, followed by what port p still buffers); ports_with_no_items is the
   number of empty ports. *)
Theorem join_queueing_ith_with_ith : forall np ops, (0 < np)%nat ->
  let n := jrun (jinit np) ops in
  (forall p, (p < length (j_qs n))%nat -> getq (j_puts n) p = proj p (j_out n) ++ getq (j_qs n) p) /\
  j_pwni n = Z.of_nat (count_empty (j_qs n)).
Proof.
  intros np ops H n. destruct (jrun_J ops _ (jinit_J np H)) as [(_ & _ & H3 & H4 & _) _]. split; auto.
Qed.
Print Assumptions join_queueing_ith_with_ith.

(* A complete tuple is never stranded: when no forward task is pending and the successor is registered (it has not rejected),
   some port is empty - every complete tuple was delivered, or the successor refused it and has to pull or register again. *)
Theorem join_complete_tuple_not_stranded : forall np ops, (0 < np)%nat ->
  let n := jrun (jinit np) ops in
  j_fwd n = 0 -> j_push n = true -> exists p, (p < length (j_qs n))%nat /\ getq (j_qs n) p = [].
Proof.
  intros np ops H n Hf Hp. destruct (jrun_J ops _ (jinit_J np H)) as [(_ & _ & H3 & _) Hs]. fold n in H3, Hs.
  apply count_empty_pos. destruct (count_empty (j_qs n)); [|lia]. specialize (Hs H3 Hp). lia.
Qed.
Print Assumptions join_complete_tuple_not_stranded.

(* non-vacuity: this input and output were produced by the real join_node<tuple<long,long>, queueing> (driver mode joinseq) *)
Example join_example :
  run_join [2; 1;0;1001; 1;1;2001; 3;0;0; 1;0;1002; 1;1;2002; 1;0;1003; 4;0;0; 6;0;0; 2;0;0; 1;1;2003; 6;0;0] =
  [1; 1; 0; 1; 0; 1; 0; 1; 2; 0; 1; 1; 0; 0; 1; 2; 0; 1; 1; 0; 0; 1; 1; 0; 1; 1; 1; 0; 1; 0; 0; 0; 1; 1; 1; 1; 0; 0; 0; 1; 2; 1; 1; 1; 0; 0; 2; 1; 0; 1; 1; 0; 1; 2; 1; 0; 1; 1; 0; 1; 2; 1; 0; 1; 2; 0; 1; 3; 0; 0; 1; 2; 0; 1; 3; 0; 0; -7; 1001; 2001; 1002; 2002; 1003; 2003].
Proof. vm_compute. reflexivity. Qed.


(* ------------------------------------------------------------------------------------------------------------------
   join_node, RESERVING policy, fed by FIFO senders (JoinRModel).  For every number of ports >= 1 and every sequence of operations
   (puts into any sender, the successor accepting / refusing / pulling / registering again, forward tasks at any moment):
   inputs are consumed only as complete tuples and the i-th tuple is the i-th message of every sender (everything put into sender p =
   the p-th components of the delivered tuples followed by what the sender still holds - so a refused or incomplete attempt consumed
   nothing: all reservations were released); ports_with_no_inputs is the number of ports whose sender is not in the predecessor
   cache, and such a sender is empty. *)
Theorem join_reserving_all_or_nothing : forall np ops, (0 < np)%nat ->
  let n := rjrun (rjinit np) ops in
  (forall p, (p < length (r_qs n))%nat -> getq (r_puts n) p = proj p (r_out n) ++ getq (r_qs n) p) /\
  r_pwni n = Z.of_nat (count_nopull (r_pull n)) /\
  (forall p, (p < length (r_qs n))%nat -> getb' (r_pull n) p = false -> getq (r_qs n) p = []).
Proof.
  intros np ops H n. destruct (rjrun_RJ ops _ (rjinit_RJ np H)) as [(_ & _ & _ & H4 & H5 & H6 & _) _]. auto.
Qed.
Print Assumptions join_reserving_all_or_nothing.

(* no complete tuple is stranded: with no forward task pending and the successor registered, some sender is empty *)
Theorem join_reserving_tuple_not_stranded : forall np ops, (0 < np)%nat ->
  let n := rjrun (rjinit np) ops in
  r_fwd n = 0 -> r_push n = true -> exists p, (p < length (r_qs n))%nat /\ getq (r_qs n) p = [].
Proof.
  intros np ops H n Hf Hp. destruct (rjrun_RJ ops _ (rjinit_RJ np H)) as [(_ & _ & HLp & H4 & H5 & _) Hs]. fold n in HLp, H4, H5, Hs.
  destruct (count_nopull (r_pull n)) eqn:Ec; [specialize (Hs H4 Hp); lia|].
  assert (Hex : exists p, (p < length (r_pull n))%nat /\ getb' (r_pull n) p = false).
  { clear - Ec. unfold count_nopull, getb' in *. induction (r_pull n) as [|x l IH]; cbn in *; [discriminate|]. destruct x; cbn in *.
    - destruct (IH Ec) as [p [Hp Hq]]. exists (S p). split; [lia|auto].
    - exists 0%nat. split; [lia|auto]. }
  destruct Hex as [p [Hp1 Hp2]]. exists p. rewrite HLp in Hp1. split; auto.
Qed.
Print Assumptions join_reserving_tuple_not_stranded.

Example joinr_example :
  run_joinr [2; 1;0;1001; 1;1;2001; 1;1;2002; 3;0;0; 1;0;1002; 4;0;0; 4;0;0; 6;0;0; 2;0;0; 1;0;1003; 1;1;2003; 6;0;0] =
  [1; 1; 0; 1; 0; 1; 1; 0; 0; 1; 1; 0; 1; 1; 0; 1; 0; 0; 1; 1; 0; 1; 1; 0; 0; 1; 1; 1; 1; 0; 1; 1; 0; 0; 1; 1; 1; 0; 0; 0; 1; 1; 1; 1; 1; 1; 0; 0; 0; 2; 0; 1; 0; 1; 0; 1;
   0; 0; 2; 0; 1; 0; 0; 1; 1; 0; 1; 2; 0; 1; 0; 0; 1; 1; 0; 1; 2; 0; 1; 0; 0; 1; 1; 0; 1; 2; 1; 1; 0; 0; 1; 1; 0; 1; 3; 0; 1; 0; 0; 1; 1; 0; 1; 3; 0; 1; 0; 0;
   -7; 1001; 2001; 1002; 2002; 1003; 2003; -8; 0].
Proof. vm_compute. reflexivity. Qed.
