(* C12 — concurrent unordered containers (split-ordered list) and ordered containers (lock-free skip list).
   Property theorems only; proofs live in SolProofs.v and SkipProofs.v. *)
From OTV Require Import Lib.Tac Lib.Conc SolModel SolProofs SkipModel SkipProofs.
Local Open Scope Z_scope.

(* For EVERY initial bucket count and EVERY sequence of insert / find (any keys >= 0, any number of table doublings
   and lazily initialised buckets): every insert reports success iff the key was absent, every find reports
   presence iff a successful insert preceded it — the unique-key container is a set. *)
Theorem unordered_set_refines_set : forall bc ops,
  Forall (fun o => 0 <= snd o) ops ->
  snd (sol_run (sol_init bc) ops) = snd (set_run [] ops).
Proof. intros bc ops H. destruct (SInv_init bc) as [HI HR]. eapply sol_run_refines; eauto. Qed.
Print Assumptions unordered_set_refines_set.

(* ... and in every reachable state the list is sorted by order key, its value nodes carry pairwise different keys
   (a traversal of the list meets every element exactly once), and they are exactly the successfully inserted keys *)
Theorem unordered_set_list_invariant : forall bc ops,
  Forall (fun o => 0 <= snd o) ops ->
  let s := fst (sol_run (sol_init bc) ops) in
  sorted (s_nodes s) /\ NoDup (map snd (filter isval (s_nodes s))) /\
  (forall k, 0 <= k -> (In (oreg k, k) (s_nodes s) <-> In k (fst (set_run [] ops)))).
Proof.
  intros bc ops H s. destruct (SInv_init bc) as [HI HR].
  destruct (sol_run_refines ops _ _ HI HR H) as (_ & (S1 & _ & S3) & R). auto.
Qed.
Print Assumptions unordered_set_list_invariant.

(* split-order arithmetic on the full 64-bit hash: the dummy node of the bucket hash mod 2^k precedes the value node
   of the hash, for every k (so a search that starts at the bucket's dummy node cannot have skipped the key) ... *)
Theorem split_order_dummy_before_value : forall (k : nat) h, (k <= 64)%nat -> 0 <= h < 2 ^ 64 ->
  odummy (h mod 2 ^ Z.of_nat k) < oreg h.
Proof. exact dummy_before_regular. Qed.
Print Assumptions split_order_dummy_before_value.

(* ... a bucket's dummy node follows its parent bucket's dummy node (insert_dummy_node may start at the parent) ... *)
Theorem split_order_parent_before_child : forall b, 1 <= b < 2 ^ 63 -> odummy (sparent b) < odummy b.
Proof. exact parent_dummy_before_child. Qed.
Print Assumptions split_order_parent_before_child.

(* ... and starting the scan at any dummy node with a smaller order key is the same as scanning the whole list *)
Theorem search_from_bucket_equals_search_from_head : forall pre d rest ok key,
  sorted (pre ++ (d, -1) :: rest) -> d < ok ->
  has_key (pre ++ (d, -1) :: rest) ok key = has_key ((d, -1) :: rest) ok key.
Proof. exact scan_from_dummy_equiv. Qed.
Print Assumptions search_from_bucket_equals_search_from_head.

(* non-vacuity *)
Example sol_example :
  let '(s, rs) := sol_run (sol_init 2) (map (fun i => (1, Z.of_nat i * 3)) (seq 0 40) ++ [(1, 6); (3, 117); (3, 118)]) in
  s_bc s = 16 /\ skipn 40 rs = [0; 1; 0].
Proof. vm_compute. split; reflexivity. Qed.


(* ------------------------------------------------------------------------------------------------------------------
   Ordered containers: the lock-free skip list (SkipModel; one step = one atomic access to my_max_height or a next(level)
   pointer).  All theorems: ANY number of threads, ANY scripts of insert / find whose nodes are well formed (the node of
   insert(k) carries key k, is not the head and has a height in 1..32), ANY heights, ANY interleaving, starting from ANY
   well-formed list g0 (GInv; the empty list is one: skip_empty_list_well_formed). *)
Local Open Scope nat_scope.

(* A unique-key ordered container never holds two equivalent keys and always iterates in comparator order: the level-0
   chain is strictly increasing in every reachable state; every upper chain is ordered and is a sub-chain of the one below. *)
Theorem skip_list_unique_and_ordered : forall key height g0 scripts c,
  GInv key g0 -> Forall (Forall (op_wf key height)) scripts ->
  reach (sstep key height) (g0, map sinit_loc scripts) c ->
  ssorted key true (lvl (fst c) 0) /\ NoDup (map key (lvl (fst c) 0)) /\
  (forall l, ssorted key false (lvl (fst c) l)) /\
  (forall l z, In z (lvl (fst c) (S l)) -> In z (lvl (fst c) l)).
Proof.
  intros key height g0 scripts c HG Hs Hr.
  destruct (CInv_reach key height _ _ (CInv_init key height _ _ HG Hs) Hr) as [(_ & _ & H0 & H1 & _ & H3) _].
  split; [auto|]. split; [apply ssorted_strict_nodup; auto|]. split; auto.
Qed.
Print Assumptions skip_list_unique_and_ordered.

Theorem skip_empty_list_well_formed : forall key, GInv key (mkS (repeat [] MAXL) 0).
Proof. intros key. exact (GInv_empty key (fun _ => 1)). Qed.
Print Assumptions skip_empty_list_well_formed.

(* Exactly one of several concurrent inserts of the same absent key reports success, none if the key was present, and the
   contents are the initial keys plus the successful inserts: in every reachable state, for every key k, the number of
   nodes with key k in the list = the number there initially + the successful inserts of k (reported, or linked at level
   0 and still linking upper levels), and that sum is at most 1; it is exactly 1 as soon as any insert(k) has returned. *)
Theorem skip_list_one_winner_per_key : forall key height g0 scripts c k,
  GInv key g0 -> Forall (Forall (op_wf key height)) scripts ->
  reach (sstep key height) (g0, map sinit_loc scripts) c ->
  cnt_key key k (lvl (fst c) 0) = cnt_key key k (lvl g0 0) + total k (snd c) /\
  cnt_key key k (lvl g0 0) + total k (snd c) <= 1 /\
  ((exists i l v b, nth_error (snd c) i = Some l /\ In (1%Z, k, v, b) (sl_res l)) ->
   cnt_key key k (lvl g0 0) + total k (snd c) = 1).
Proof.
  intros key height g0 scripts c k HG Hs Hr.
  assert (Hc := count_reach key height g0 scripts c k HG Hs Hr).
  destruct (CInv_reach key height _ _ (CInv_init key height _ _ HG Hs) Hr) as [(_ & _ & H0 & _) HL].
  assert (Hle := cnt_strict_le1 key height k _ H0).
  split; [auto|]. split; [lia|]. intros (i & l & v & b & Hi & Hin).
  destruct (HL _ _ Hi) as (_ & _ & _ & _ & Hres). rewrite Forall_forall in Hres. specialize (Hres _ Hin). cbn in Hres.
  destruct Hres as [Hres _]. destruct (Hres eq_refl) as [Hk _]. assert (Hp := cnt_pos_in key height k _ Hk). lia.
Qed.
Print Assumptions skip_list_one_winner_per_key.

(* find tells the truth: a find that reports the key found it in the list; a find that starts when the key is in the list
   and my_max_height is positive (the ghost flag the model computes at the find's first access) reports it; and both
   conditions hold for ever once any insert of that key has returned — so a find started after an insert returned finds it. *)
Theorem skip_list_find_is_truthful : forall key height g0 scripts c i l k v b,
  GInv key g0 -> Forall (Forall (op_wf key height)) scripts ->
  reach (sstep key height) (g0, map sinit_loc scripts) c ->
  nth_error (snd c) i = Some l -> In (2%Z, k, v, b) (sl_res l) ->
  (v = 1%Z -> exists n, In n (lvl (fst c) 0) /\ key n = k) /\ (b = true -> v = 1%Z).
Proof.
  intros key height g0 scripts c i l k v b HG Hs Hr Hi Hin.
  destruct (CInv_reach key height _ _ (CInv_init key height _ _ HG Hs) Hr) as [_ HL].
  destruct (HL _ _ Hi) as (_ & _ & _ & _ & Hres). rewrite Forall_forall in Hres. specialize (Hres _ Hin). cbn in Hres.
  destruct Hres as [_ Hres]. exact (Hres eq_refl).
Qed.
Print Assumptions skip_list_find_is_truthful.

Theorem skip_list_returned_insert_is_visible : forall key height g0 scripts c i l k v b,
  GInv key g0 -> Forall (Forall (op_wf key height)) scripts ->
  reach (sstep key height) (g0, map sinit_loc scripts) c ->
  nth_error (snd c) i = Some l -> In (1%Z, k, v, b) (sl_res l) ->
  (existsb (fun n => (key n =? k)%Z) (lvl (fst c) 0) && (1 <=? s_max (fst c))) = true.
Proof.
  intros key height g0 scripts c i l k v b HG Hs Hr Hi Hin.
  destruct (CInv_reach key height _ _ (CInv_init key height _ _ HG Hs) Hr) as [_ HL].
  destruct (HL _ _ Hi) as (_ & _ & _ & _ & Hres). rewrite Forall_forall in Hres. specialize (Hres _ Hin). cbn in Hres.
  destruct Hres as [Hres _]. destruct (Hres eq_refl) as [[n [Hn Hk]] Hm].
  apply andb_true_iff. split; [|apply Nat.leb_le; auto].
  apply existsb_exists. exists n. split; auto. apply Z.eqb_eq; auto.
Qed.
Print Assumptions skip_list_returned_insert_is_visible.

(* non-vacuity: two threads race to insert key 15 (nodes 3 and 4) into the list 10, 20; the model's run (this very input and
   output were produced by the real concurrent_skip_list under the gate) has one winner and ends with the chains below *)
Example skip_example :
  let out := run_skip [5; 0; 32; 10; 2; 20; 1; 15; 3; 15; 1;  2; 1; 2;  2;  1; 1; 15; 3;  2; 1; 15; 4; 2; 20; 0;  -1;
                       0;0;1;1;1;1;0;0;0;0;0;1;1;1;0;1;1;0;0;0;1;1;1;1]%Z in
  skipn (length out - 26) out = [-7; 1; 3; -8; 1; 15; 1; -8; 1; 15; 0; 2; 20; 1; -9; 0; 1; 3; 2; -9; 1; 1; 3; -9; 2; 3]%Z.
Proof. vm_compute. reflexivity. Qed.
