(* C12 — concurrent unordered containers (split-ordered list).  Property theorems only; proofs live in SolProofs.v. *)
From OTV Require Import Lib.Tac SolModel SolProofs.
Local Open Scope Z_scope.

(* For EVERY initial bucket count and EVERY sequence of insert / find (any keys >= 0, any number of table doublings
   and lazily initialised buckets): every insert reports success iff the key was absent, every find reports
   presence iff a successful insert preceded it — the unique-key container is a set. *)
Theorem unordered_set_refines_set : forall bc ops,
  Forall (fun o => 0 <= snd o) ops ->
  snd (sol_run (sol_init bc) ops) = snd (set_run [] ops).
Proof. intros bc ops H. destruct (SInv_init bc) as [HI HR]. eapply sol_run_refines; eauto. Qed.
Print Assumptions unordered_set_refines_set.

(* ... and in every reachable state the list is sorted by order key, its value nodes carry pairwise different keys
   (a traversal of the list meets every element exactly once), and they are exactly the successfully inserted keys *)
Theorem unordered_set_list_invariant : forall bc ops,
  Forall (fun o => 0 <= snd o) ops ->
  let s := fst (sol_run (sol_init bc) ops) in
  sorted (s_nodes s) /\ NoDup (map snd (filter isval (s_nodes s))) /\
  (forall k, 0 <= k -> (In (oreg k, k) (s_nodes s) <-> In k (fst (set_run [] ops)))).
Proof.
  intros bc ops H s. destruct (SInv_init bc) as [HI HR].
  destruct (sol_run_refines ops _ _ HI HR H) as (_ & (S1 & _ & S3) & R). auto.
Qed.
Print Assumptions unordered_set_list_invariant.

(* split-order arithmetic on the full 64-bit hash: the dummy node of the bucket hash mod 2^k precedes the value node
   of the hash, for every k (so a search that starts at the bucket's dummy node cannot have skipped the key) ... *)
Theorem split_order_dummy_before_value : forall (k : nat) h, (k <= 64)%nat -> 0 <= h < 2 ^ 64 ->
  odummy (h mod 2 ^ Z.of_nat k) < oreg h.
Proof. exact dummy_before_regular. Qed.
Print Assumptions split_order_dummy_before_value.

(* ... a bucket's dummy node follows its parent bucket's dummy node (insert_dummy_node may start at the parent) ... *)
Theorem split_order_parent_before_child : forall b, 1 <= b < 2 ^ 63 -> odummy (sparent b) < odummy b.
Proof. exact parent_dummy_before_child. Qed.
Print Assumptions split_order_parent_before_child.

(* ... and starting the scan at any dummy node with a smaller order key is the same as scanning the whole list *)
Theorem search_from_bucket_equals_search_from_head : forall pre d rest ok key,
  sorted (pre ++ (d, -1) :: rest) -> d < ok ->
  has_key (pre ++ (d, -1) :: rest) ok key = has_key ((d, -1) :: rest) ok key.
Proof. exact scan_from_dummy_equiv. Qed.
Print Assumptions search_from_bucket_equals_search_from_head.

(* non-vacuity *)
Example sol_example :
  let '(s, rs) := sol_run (sol_init 2) (map (fun i => (1, Z.of_nat i * 3)) (seq 0 40) ++ [(1, 6); (3, 117); (3, 118)]) in
  s_bc s = 16 /\ skipn 40 rs = [0; 1; 0].
Proof. vm_compute. split; reflexivity. Qed.
