(* C17 — tbbmalloc blocks.  Property theorems only; proofs live in MallocProofs.v. *)
From OTV Require Import Lib.Tac Params MallocModel MallocProofs.
Local Open Scope Z_scope.

(* Size classes (exhaustive over every request below the large-object threshold): the object is big enough, the
   class is a fixed point, monotone, 16-byte aligned (8 for requests <= 8), its bin index is in range and stable. *)
Theorem size_classes_sound : forall s,
  1 <= s <= 8127 ->
  s <= obj_size s /\ obj_size (obj_size s) = obj_size s /\ obj_size s <= obj_size (s + 1) /\
  (s <= 8 -> obj_size s mod 8 = 0) /\ (8 < s -> obj_size s mod 16 = 0) /\
  0 <= obj_index s < mal_numBlockBins /\ obj_index (obj_size s) = obj_index s /\ obj_index s <= obj_index (s + 1) /\
  obj_size s < mal_minLargeObjectSize /\ 1 <= objs_per_slab (obj_size s).
Proof. exact size_classes_sound_proof. Qed.
Print Assumptions size_classes_sound.

(* Objects carved from a slab never overlap the slab header or each other, stay inside the slab, and are aligned
   to every power of two that divides both the slab size and the object size — for every k. *)
Theorem slab_objects_disjoint_aligned : forall osz k1 k2 a,
  1 <= osz -> 1 <= k1 -> k1 < k2 <= objs_per_slab osz ->
  mal_sizeof_Block <= bump_offset osz k2 /\ bump_offset osz k1 + osz <= mal_slabSize /\
  bump_offset osz k2 + osz <= bump_offset osz k1 /\
  (0 < a -> mal_slabSize mod a = 0 -> osz mod a = 0 -> bump_offset osz k1 mod a = 0).
Proof.
  intros osz k1 k2 a Ho H1 H2.
  destruct (bump_offset_after_header osz k2 Ho ltac:(lia)) as [Ha _].
  destruct (bump_offset_after_header osz k1 Ho ltac:(lia)) as [_ Hb].
  repeat split; auto. apply bump_offsets_disjoint; lia. intros. apply bump_offset_aligned; auto.
Qed.
Print Assumptions slab_objects_disjoint_aligned.

(* Within a bin (owner-thread allocation and free, any order of legal calls): an allocation never returns an
   object that is still live, and what it returns is one of the slab's object slots. *)
Theorem no_double_handout : forall osz b live b' off,
  1 <= osz -> bin_inv osz b live -> bin_alloc osz b = (b', off) -> off <> -9 ->
  ~ In off live /\ bin_inv osz b' (off :: live) /\
  (exists k, 1 <= k <= objs_per_slab osz /\ off = bump_offset osz k).
Proof. exact bin_alloc_inv. Qed.
Print Assumptions no_double_handout.

Theorem free_keeps_bin_invariant : forall osz b live off,
  bin_inv osz b live -> In off live -> bin_inv osz (bin_free b off) (remove Z.eq_dec off live).
Proof. exact bin_free_inv. Qed.
Print Assumptions free_keeps_bin_invariant.

(* Aligned requests served from the segregated bins really are that aligned. *)
Theorem aligned_small_route_sound : forall r e,
  1 <= r <= 1024 -> 0 <= e <= 10 -> r mod 2 ^ e = 0 -> obj_size r mod 2 ^ e = 0.
Proof. exact aligned_small_sound. Qed.
Print Assumptions aligned_small_route_sound.

(* An aligned pointer inside a "fitting size" object is mapped back to the start of the real object by free(). *)
Theorem find_object_recovers : forall osz k,
  In osz fit_sizes -> 1 <= k <= objs_per_slab osz ->
  let off0 := bump_offset osz k in
  find_object osz off0 = off0 /\
  forall j, 0 <= j < 64 -> let u := align_up off0 128 + 128 * j in u < off0 + osz -> find_object osz u = off0.
Proof. exact find_object_recovers_proof. Qed.
Print Assumptions find_object_recovers.

(* Large objects: for every block address, size, power-of-two alignment up to 2^63 and cache-shuffle index, the
   user area lies inside the raw block after the headers, is aligned, and the 32-bit ptrDelta never leads to a
   division by zero. *)
Theorem large_placement_in_block : forall lmb un size e idx tls,
  0 <= lmb -> 0 <= e <= 63 -> 0 <= size -> 0 <= idx ->
  size + mal_headersSize + 2 ^ e <= un ->
  let al := 2 ^ e in
  let u := llo_place lmb un size al idx tls in
  lmb + mal_headersSize <= u /\ u + size <= lmb + un /\ u mod al = 0.
Proof. exact llo_place_in_block_proof. Qed.
Print Assumptions large_placement_in_block.

Example bin_example :
  fst (bin_alloc 32 (fst (bin_alloc 32 empty_bin))) = mkbin 2 [] 2 false /\ bin_inv 32 empty_bin [].
Proof.
  split; [vm_compute; reflexivity|].
  unfold bin_inv, empty_bin. cbn [b_tainted b_free b_bump b_count app length]. intros _.
  split; [constructor|]. split; [intros o Ho; inversion Ho|]. split; [reflexivity|]. split; [lia|].
  vm_compute. discriminate.
Qed.
