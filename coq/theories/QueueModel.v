(* C09: (1) ticket -> lane arithmetic of concurrent_queue (detail/_concurrent_queue_base.h:488 index(k) = k*phi % n_queue,
   lane ticket k & -n_queue); (2) the ticket protocol shared by concurrent_queue and concurrent_bounded_queue at the level
   of its two counters: a push takes a ticket from tail_counter, a pop takes one from head_counter, the item of push
   ticket t is delivered to the pop holding ticket t; (3) the blocked pop's abort path of concurrent_bounded_queue
   (concurrent_queue.h:600-622: head_counter-- in the exception handler). *)
From OTV Require Import Lib.Tac Params.
Local Open Scope Z_scope.

Definition lane (k : Z) : Z := (k * q_phi) mod q_n_queue.
Definition lane_ticket (k : Z) : Z := k - k mod q_n_queue.      (* k & -n_queue *)

(* ---- ticket machine ----
   cells: one cell per push ticket ever handed out by tail_counter (index = ticket): the value and where it is *)
Inductive cstate := InFlight (th : Z) | Published | Consumed (th : Z).
Inductive qop :=
| PushTake (th : Z) (v : Z)      (* thread th: k = tail_counter++ ; remembers value v *)
| PushPublish (th : Z)           (* thread th constructs its item in slot k and publishes it *)
| PopTake (th : Z)               (* thread th: k = head_counter++ (a blocking pop may run ahead of tail) *)
| PopConsume (th : Z)            (* thread th: its slot is published -> takes the item *)
| PopAbort (th : Z).             (* thread th was blocked and is aborted: head_counter-- , gives up *)

Record qstate := mkq {
  q_cells : list (Z * cstate);          (* tail_counter = length *)
  q_head : Z;
  q_poppers : list (Z * Z);             (* thread -> ticket between take and consume/abort *)
  q_out : list (Z * Z * Z) }.           (* consumed: (thread, ticket, value), newest first *)

Definition q_tail (s : qstate) : Z := Z.of_nat (length (q_cells s)).
Definition assoc {A} (l : list (Z * A)) (k : Z) : option A :=
  match find (fun p => fst p =? k) l with Some (_, a) => Some a | None => None end.
Definition rem {A} (l : list (Z * A)) (k : Z) : list (Z * A) := filter (fun p => negb (fst p =? k)) l.
Fixpoint setc {A} (l : list A) (i : nat) (v : A) : list A :=
  match l, i with [], _ => [] | _ :: tl, O => v :: tl | x :: tl, S j => x :: setc tl j v end.
(* index of the cell a pusher thread has in flight *)
Fixpoint find_inflight (cells : list (Z * cstate)) (th : Z) (i : nat) : option nat :=
  match cells with
  | [] => None
  | (_, InFlight t) :: tl => if t =? th then Some i else find_inflight tl th (S i)
  | _ :: tl => find_inflight tl th (S i)
  end.

Definition qstep (allow_abort : bool) (s : qstate) (o : qop) : option qstate :=
  match o with
  | PushTake th v =>
      match find_inflight (q_cells s) th 0 with Some _ => None | None =>
        Some (mkq (q_cells s ++ [(v, InFlight th)]) (q_head s) (q_poppers s) (q_out s)) end
  | PushPublish th =>
      match find_inflight (q_cells s) th 0 with None => None | Some i =>
        Some (mkq (setc (q_cells s) i (fst (nth i (q_cells s) (0, Published)), Published)) (q_head s) (q_poppers s) (q_out s)) end
  | PopTake th =>
      match assoc (q_poppers s) th with Some _ => None | None =>
        Some (mkq (q_cells s) (q_head s + 1) ((th, q_head s) :: q_poppers s) (q_out s)) end
  | PopConsume th =>
      match assoc (q_poppers s) th with None => None | Some k =>
        if (0 <=? k) then
          match nth_error (q_cells s) (Z.to_nat k) with
          | Some (v, Published) =>
              Some (mkq (setc (q_cells s) (Z.to_nat k) (v, Consumed th)) (q_head s) (rem (q_poppers s) th) ((th, k, v) :: q_out s))
          | _ => None end
        else None end
  | PopAbort th =>
      if allow_abort then
        match assoc (q_poppers s) th with None => None | Some k =>
          match nth_error (q_cells s) (Z.to_nat k) with
          | Some (_, Published) => None        (* only a pop that is still blocked can be aborted *)
          | _ => Some (mkq (q_cells s) (q_head s - 1) (rem (q_poppers s) th) (q_out s)) end end
      else None
  end.

Fixpoint qrun (allow_abort : bool) (s : qstate) (ops : list qop) : option qstate :=
  match ops with
  | [] => Some s
  | o :: tl => match qstep allow_abort s o with Some s' => qrun allow_abort s' tl | None => None end
  end.

Definition qinit : qstate := mkq [] 0 [] [].

(* flat interface: input lanes/tickets: list of tickets -> (lane, lane_ticket) *)
Definition run_qidx (l : list Z) : list Z := flat_map (fun k => [lane k; lane_ticket k]) l.
