(* C02: no lost wake-up in the concurrent_monitor protocol model (MonModel). *)
From OTV Require Import Lib.Tac Lib.Conc MonModel.
Local Open Scope Z_scope.

Definition is_w (p : mpc) : bool :=
  match p with WStart | WCheck | WCommit | WSleep | WCancelDone | WDone => true | _ => false end.
Definition active (p : mpc) : bool :=
  match p with WCheck | WCommit | WSleep | WCancelDone => true | _ => false end.

Definition Inv (nw : nat) (c : mg * list ml) : Prop :=
  let g := fst c in let ls := snd c in
  length (m_sems g) = nw /\
  (forall i l, nth_error ls i = Some l -> is_w (m_pc l) = (i <? nw)%nat) /\
  (forall w, In w (m_wset g) -> exists l, nth_error ls w = Some l /\ active (m_pc l) = true) /\
  (forall w l, nth_error ls w = Some l -> active (m_pc l) = true ->
               m_skipped l = false /\ ((In w (m_wset g) /\ sem_of g w = 0) \/ (~ In w (m_wset g) /\ sem_of g w = 1))) /\
  (forall w l, nth_error ls w = Some l -> (m_pc l = WCommit \/ m_pc l = WSleep) -> sem_of g w = 0 ->
               forall n ln, nth_error ls n = Some ln -> m_pc ln <> NDone) /\
  (forall w l, nth_error ls w = Some l -> m_pc l = WStart -> sem_of g w = if m_skipped l then 1 else 0) /\
  (m_cond g = false -> forall n ln, nth_error ls n = Some ln -> is_w (m_pc ln) = false -> m_pc ln = NSet) /\
  (forall w, 0 <= sem_of g w).

(* ---------- bookkeeping ---------- *)
Lemma nth_set_nth {A} (ls : list A) i l l0 j :
  nth_error ls i = Some l0 -> nth_error (set_nth ls i l) j = if Nat.eqb j i then Some l else nth_error ls j.
Proof.
  intros H. destruct (Nat.eqb j i) eqn:E.
  - apply Nat.eqb_eq in E. subst. eapply nth_error_set_nth_eq; eauto.
  - apply Nat.eqb_neq in E. apply nth_error_set_nth_neq. auto.
Qed.

Lemma nth_set_nth_Z (l : list Z) : forall i v j, nth j (set_nth l i v) 0 = if Nat.eqb j i then (if (i <? length l)%nat then v else 0) else nth j l 0.
Proof.
  induction l as [|x l IH]; intros i v j.
  - destruct i, j; cbn; auto; destruct (Nat.eqb j i); auto.
  - destruct i as [|i], j as [|j]; cbn [set_nth nth length Nat.eqb]; auto.
    rewrite IH. change (S i <? S (length l))%nat with (i <? length l)%nat. reflexivity.
Qed.

Lemma sem_set_sem g w v w' : (w < length (m_sems g))%nat ->
  sem_of (set_sem g w v) w' = if Nat.eqb w' w then v else sem_of g w'.
Proof.
  intros H. unfold sem_of, set_sem. cbn. rewrite nth_set_nth_Z.
  destruct (Nat.eqb w' w); auto. destruct (w <? length (m_sems g))%nat eqn:E; auto. apply Nat.ltb_ge in E. lia.
Qed.

Lemma existsb_eqb_In w l : existsb (Nat.eqb w) l = true <-> In w l.
Proof.
  rewrite existsb_exists. split; [intros (x & H1 & H2); apply Nat.eqb_eq in H2; subst; auto | intros H; exists w; split; auto; apply Nat.eqb_refl].
Qed.

Lemma nth_bump_from ws sems : forall i w,
  nth w (bump_from ws i sems) 0 = if (w <? length sems)%nat then nth w sems 0 + (if existsb (Nat.eqb (i + w)%nat) ws then 1 else 0) else 0.
Proof.
  induction sems as [|s tl IH]; intros i w; cbn [bump_from length].
  - destruct w; reflexivity.
  - destruct w as [|w]; cbn [nth].
    + rewrite Nat.add_0_r. destruct (existsb (Nat.eqb i) ws); cbn; lia.
    + rewrite IH. replace (S i + w)%nat with (i + S w)%nat by lia.
      change (S w <? S (length tl))%nat with (w <? length tl)%nat. reflexivity.
Qed.

Lemma length_bump_from ws sems : forall i, length (bump_from ws i sems) = length sems.
Proof. induction sems as [|s tl IH]; intros i; cbn; auto. Qed.

Lemma sem_bump g w : (w < length (m_sems g))%nat ->
  sem_of (bump_all g) w = sem_of g w + (if in_wset g w then 1 else 0).
Proof.
  intros H. unfold sem_of, bump_all, in_wset. cbn [m_sems]. rewrite nth_bump_from. cbn [plus].
  destruct (w <? length (m_sems g))%nat eqn:E; [reflexivity | apply Nat.ltb_ge in E; lia].
Qed.

Lemma sem_out_of_range g w : (length (m_sems g) <= w)%nat -> sem_of g w = 0.
Proof. intros H. unfold sem_of. apply nth_overflow. auto. Qed.

Lemma In_remove_w g w x : In x (m_wset (remove_w g w)) <-> In x (m_wset g) /\ x <> w.
Proof.
  unfold remove_w. cbn. rewrite filter_In. split; intros [H1 H2]; split; auto.
  - intros ->. rewrite Nat.eqb_refl in H2. discriminate.
  - destruct (Nat.eqb w x) eqn:E; auto. apply Nat.eqb_eq in E. congruence.
Qed.

Lemma in_wset_In g w : in_wset g w = true <-> In w (m_wset g).
Proof. unfold in_wset. apply existsb_eqb_In. Qed.

(* ---------- a waiter's own step: everything about the other threads is framed ---------- *)
Lemma waiter_frame nw g ls i l g' l' :
  Inv nw (g, ls) -> nth_error ls i = Some l -> (i < nw)%nat ->
  m_cond g' = m_cond g -> length (m_sems g') = length (m_sems g) ->
  (forall w, w <> i -> sem_of g' w = sem_of g w /\ (In w (m_wset g') <-> In w (m_wset g))) ->
  is_w (m_pc l') = true ->
  (In i (m_wset g') -> active (m_pc l') = true) ->
  (active (m_pc l') = true -> m_skipped l' = false /\ ((In i (m_wset g') /\ sem_of g' i = 0) \/ (~ In i (m_wset g') /\ sem_of g' i = 1))) ->
  ((m_pc l' = WCommit \/ m_pc l' = WSleep) -> sem_of g' i = 0 -> forall n ln, nth_error ls n = Some ln -> n <> i -> m_pc ln <> NDone) ->
  (m_pc l' = WStart -> sem_of g' i = if m_skipped l' then 1 else 0) ->
  0 <= sem_of g' i ->
  Inv nw (g', set_nth ls i l').
Proof.
  intros (I1 & I2 & I3 & I4 & I5 & I6 & I7 & I8) Hl Hi Hc Hlen Hfr Hw O1 O2 O3 O4 O5.
  unfold Inv in *. cbn [fst snd] in *.
  assert (Hn : forall j, nth_error (set_nth ls i l') j = if Nat.eqb j i then Some l' else nth_error ls j) by (intros; eapply nth_set_nth; eauto).
  assert (Hlw : is_w (m_pc l) = true) by (rewrite (I2 _ _ Hl); apply Nat.ltb_lt; auto).
  split; [lia|]. split; [|split; [|split; [|split; [|split; [|split]]]]].
  - intros j lj. rewrite Hn. destruct (Nat.eqb j i) eqn:E; [|apply I2].
    intros X. inv X. apply Nat.eqb_eq in E. subst. rewrite Hw. symmetry. apply Nat.ltb_lt. auto.
  - intros w Hin. rewrite Hn. destruct (Nat.eqb w i) eqn:E.
    + apply Nat.eqb_eq in E. subst. eexists; split; eauto.
    + apply Nat.eqb_neq in E. apply I3. apply (Hfr w E). auto.
  - intros w lw. rewrite Hn. destruct (Nat.eqb w i) eqn:E.
    + intros X Ha. inv X. apply Nat.eqb_eq in E. subst. auto.
    + intros X Ha. apply Nat.eqb_neq in E. destruct (I4 _ _ X Ha) as [A B]. split; auto.
      destruct (Hfr w E) as [Hs Hm]. rewrite Hs. rewrite Hm. auto.
  - intros w lw. rewrite Hn. destruct (Nat.eqb w i) eqn:E.
    + intros X Hp Hs n ln. inv X. apply Nat.eqb_eq in E. subst.
      rewrite Hn. destruct (Nat.eqb n i) eqn:En.
      * intros Y. inv Y. destruct (m_pc ln); cbn in Hw; try discriminate; congruence.
      * apply Nat.eqb_neq in En. intros Y. exact (O3 Hp Hs n ln Y En).
    + intros X Hp Hs n ln. apply Nat.eqb_neq in E. destruct (Hfr w E) as [Hs' _]. rewrite Hs' in Hs.
      rewrite Hn. destruct (Nat.eqb n i) eqn:En.
      * intros Y. inv Y. destruct (m_pc ln); cbn in Hw; try discriminate; congruence.
      * intros Y. exact (I5 w lw X Hp Hs n ln Y).
  - intros w lw. rewrite Hn. destruct (Nat.eqb w i) eqn:E.
    + intros X. inv X. apply Nat.eqb_eq in E. subst. auto.
    + intros X Hp. apply Nat.eqb_neq in E. destruct (Hfr w E) as [Hs' _]. rewrite Hs'. eapply I6; eauto.
  - intros Hcf n ln. rewrite Hn. destruct (Nat.eqb n i) eqn:E.
    + intros X Hnw. inv X. congruence.
    + intros X Hnw. exact (I7 (eq_trans (eq_sym Hc) Hcf) n ln X Hnw).
  - intros w. destruct (Nat.eq_dec w i) as [->|E]; auto. destruct (Hfr w E) as [Hs' _]. rewrite Hs'. apply I8.
Qed.

Lemma sem_of_mk e ws c g1 w : sem_of (mkmg e ws c (m_sems g1)) w = sem_of g1 w.
Proof. reflexivity. Qed.

Lemma not_active_not_in nw g ls w l : Inv nw (g, ls) -> nth_error ls w = Some l -> active (m_pc l) = false -> ~ In w (m_wset g).
Proof.
  intros (_ & _ & I3 & _) Hl Ha Hin. destruct (I3 w Hin) as (l0 & H0 & A). cbn in H0. congruence.
Qed.

Lemma inv_step nw c i c' ev : Inv nw c -> step_at mstep c i = Some (c', ev) -> Inv nw c'.
Proof.
  destruct c as [g ls]. intros HI Hs. unfold step_at in Hs. cbn [fst snd] in Hs.
  destruct (nth_error ls i) as [l|] eqn:Hl; [|discriminate].
  destruct (mstep i g l) as [[[g' l'] e]|] eqn:Hm; [|discriminate]. inv Hs.
  assert (HI' := HI). destruct HI' as (I1 & I2 & I3 & I4 & I5 & I6 & I7 & I8). cbn [fst snd] in *.
  assert (Hrole := I2 _ _ Hl).
  unfold mstep in Hm.
  destruct (m_pc l) eqn:Hpc; cbn [is_w] in Hrole.
  - (* WStart: prepare_wait *)
    assert (Hi : (i < nw)%nat) by (apply Nat.ltb_lt; auto).
    assert (Hnin : ~ In i (m_wset g)) by (eapply not_active_not_in; eauto; rewrite Hpc; reflexivity).
    assert (Hsem := I6 _ _ Hl Hpc).
    destruct (m_skipped l && negb (1 <=? sem_of g i)) eqn:Eb.
    + inv Hm. eapply waiter_frame; eauto; try (rewrite Hpc; cbn; intros; try discriminate; auto; fail).
      intros w _. split; [reflexivity|tauto].
    + inv Hm. eapply waiter_frame; eauto; cbn [m_pc m_skipped m_wset m_sems m_cond active is_w]; try (intros; discriminate); try (intros [XX|XX]; discriminate).
      * destruct (m_skipped l); reflexivity.
      * destruct (m_skipped l); [unfold set_sem; cbn; apply set_nth_length | reflexivity].
      * intros w Hw. rewrite sem_of_mk. destruct (m_skipped l).
        -- rewrite sem_set_sem by lia. assert (Nat.eqb w i = false) by (apply Nat.eqb_neq; auto). rewrite H.
           split; auto. unfold set_sem; cbn. rewrite in_app_iff. cbn. intuition congruence.
        -- split; auto. rewrite in_app_iff. cbn. intuition congruence.
      * intros _. split; auto. left. split; [apply in_or_app; right; left; reflexivity|].
        rewrite sem_of_mk. destruct (m_skipped l) eqn:Esk.
        -- rewrite sem_set_sem by lia. rewrite Nat.eqb_refl. lia.
        -- exact Hsem.
      * rewrite sem_of_mk. destruct (m_skipped l) eqn:Esk.
        -- rewrite sem_set_sem by lia. rewrite Nat.eqb_refl. lia.
        -- lia.
  - (* WCheck *)
    assert (Hi : (i < nw)%nat) by (apply Nat.ltb_lt; auto).
    assert (Hact : active (m_pc l) = true) by (rewrite Hpc; reflexivity).
    destruct (I4 _ _ Hl Hact) as [Hsk Hdis].
    destruct (m_cond g) eqn:Ec; inv Hm.
    + eapply waiter_frame; eauto; cbn [m_pc m_skipped active is_w]; try (intros; discriminate); try (intros [XX|XX]; discriminate); try tauto.
    + eapply waiter_frame; eauto; cbn [m_pc m_skipped active is_w]; try (intros; discriminate); try (intros [XX|XX]; discriminate); try tauto.
      * intros _ _ n ln Hn Hne. destruct (is_w (m_pc ln)) eqn:Ew.
        -- destruct (m_pc ln); cbn in Ew; congruence.
        -- rewrite (I7 eq_refl n ln Hn Ew). discriminate.
  - (* WCommit *)
    assert (Hi : (i < nw)%nat) by (apply Nat.ltb_lt; auto).
    assert (Hact : active (m_pc l) = true) by (rewrite Hpc; reflexivity).
    destruct (I4 _ _ Hl Hact) as [Hsk Hdis].
    destruct (m_wepoch l =? m_epoch g) eqn:Ee.
    + inv Hm. eapply waiter_frame; eauto; cbn [m_pc m_skipped active is_w]; try (intros; discriminate); try (intros [XX|XX]; discriminate); try tauto.
    + unfold do_cancel in Hm. destruct (in_wset g i) eqn:Ein.
      * apply in_wset_In in Ein. destruct Hdis as [[_ Hz]|[Hn _]]; [|tauto].
        assert (Eg : g' = remove_w g i) by congruence.
        assert (El : l' = mkml WStart (m_wepoch l) false) by congruence. subst g' l'.
        eapply waiter_frame; eauto; cbn [m_pc m_skipped active is_w]; try (intros; discriminate); try (intros [XX|XX]; discriminate).
        -- intros w Hw. split; [reflexivity|]. rewrite In_remove_w. tauto.
        -- intros X. apply In_remove_w in X. tauto.
      * assert (Hn : ~ In i (m_wset g)) by (intros X; apply in_wset_In in X; congruence).
        destruct Hdis as [[X _]|[_ Hz]]; [tauto|].
        assert (Eg : g' = g) by congruence.
        assert (El : l' = mkml WStart (m_wepoch l) true) by congruence. subst g' l'.
        eapply waiter_frame; eauto; cbn [m_pc m_skipped active is_w]; try (intros; discriminate); try (intros [XX|XX]; discriminate); try tauto.
  - (* WSleep *)
    assert (Hi : (i < nw)%nat) by (apply Nat.ltb_lt; auto).
    assert (Hact : active (m_pc l) = true) by (rewrite Hpc; reflexivity).
    destruct (I4 _ _ Hl Hact) as [Hsk Hdis].
    destruct (1 <=? sem_of g i) eqn:Es.
    + inv Hm. destruct Hdis as [[_ Hz]|[Hn Hz]]; [lia|].
      eapply waiter_frame; eauto; cbn [m_pc m_skipped active is_w]; try (intros; discriminate); try (intros [XX|XX]; discriminate).
      * unfold set_sem; cbn. apply set_nth_length.
      * intros w Hw. rewrite sem_set_sem by lia. assert (Nat.eqb w i = false) by (apply Nat.eqb_neq; auto). rewrite H. split; [reflexivity|]. unfold set_sem; cbn. tauto.
      * rewrite sem_set_sem by lia. rewrite Nat.eqb_refl. lia.
    + inv Hm. eapply waiter_frame; eauto; try (rewrite Hpc; cbn [active is_w]); try (intros; discriminate); try (intros [XX|XX]; discriminate); try tauto.
  - (* WCancelDone *)
    assert (Hi : (i < nw)%nat) by (apply Nat.ltb_lt; auto).
    assert (Hact : active (m_pc l) = true) by (rewrite Hpc; reflexivity).
    destruct (I4 _ _ Hl Hact) as [Hsk Hdis].
    unfold do_cancel in Hm. destruct (in_wset g i) eqn:Ein.
    + assert (Eg : g' = remove_w g i) by congruence.
      assert (El : l' = mkml WDone (m_wepoch l) false) by congruence. subst g' l'.
      eapply waiter_frame; eauto; cbn [m_pc m_skipped active is_w]; try (intros; discriminate); try (intros [XX|XX]; discriminate).
      * intros w Hw. split; [reflexivity|]. rewrite In_remove_w. tauto.
      * intros X. apply In_remove_w in X. tauto.
    + assert (Hn : ~ In i (m_wset g)) by (intros X; apply in_wset_In in X; congruence).
      assert (Eg : g' = g) by congruence.
      assert (El : l' = mkml WDone (m_wepoch l) true) by congruence. subst g' l'.
      eapply waiter_frame; eauto; cbn [m_pc m_skipped active is_w]; try (intros; discriminate); try (intros [XX|XX]; discriminate); try tauto.
  - discriminate.
  - (* NSet *)
    inv Hm. unfold Inv. cbn [fst snd m_sems m_wset m_cond].
    assert (Hn : forall j, nth_error (set_nth ls i (mkml NCheckEmpty 0 false)) j = if Nat.eqb j i then Some (mkml NCheckEmpty 0 false) else nth_error ls j) by (intros; eapply nth_set_nth; eauto).
    split; [auto|]. split; [|split; [|split; [|split; [|split; [|split]]]]].
    + intros j lj. rewrite Hn. destruct (Nat.eqb j i) eqn:E; [|apply I2]. intros X. inv X. apply Nat.eqb_eq in E. subst. cbn [m_pc is_w]. exact Hrole.
    + intros w Hin. destruct (I3 w Hin) as (lw & Hw & Aw). rewrite Hn. destruct (Nat.eqb w i) eqn:E; [|eauto].
      apply Nat.eqb_eq in E. subst. rewrite Hl in Hw. inv Hw. rewrite Hpc in Aw. discriminate.
    + intros w lw. rewrite Hn. destruct (Nat.eqb w i); [intros X; inv X; discriminate | apply I4].
    + intros w lw. rewrite Hn. destruct (Nat.eqb w i); [intros X; inv X; intros [?|?]; discriminate|].
      intros X Hp Hz n ln. rewrite Hn. destruct (Nat.eqb n i); [intros Y; inv Y; discriminate | intros Y; exact (I5 w lw X Hp Hz n ln Y)].
    + intros w lw. rewrite Hn. destruct (Nat.eqb w i); [intros X; inv X; discriminate | apply I6].
    + discriminate.
    + exact I8.
  - (* NCheckEmpty *)
    assert (Hct : m_cond g = true).
    { destruct (m_cond g) eqn:Ec; auto. exfalso. assert (X : m_pc l = NSet) by (apply (I7 eq_refl i l Hl); rewrite Hpc; reflexivity). congruence. }
    assert (Hgen : forall p, p = NDone \/ p = NLock -> (p = NDone -> m_wset g = []) ->
                   Inv nw (g, set_nth ls i (mkml p 0 false))).
    { intros p Hp Hemp. unfold Inv. cbn [fst snd].
      assert (Hn : forall j, nth_error (set_nth ls i (mkml p 0 false)) j = if Nat.eqb j i then Some (mkml p 0 false) else nth_error ls j) by (intros; eapply nth_set_nth; eauto).
      assert (Hpw : is_w p = false /\ active p = false /\ p <> WCommit /\ p <> WSleep /\ p <> WStart) by (destruct Hp; subst; repeat split; discriminate).
      destruct Hpw as (P1 & P2 & P3 & P4 & P5).
      split; [auto|]. split; [|split; [|split; [|split; [|split; [|split]]]]].
      + intros j lj. rewrite Hn. destruct (Nat.eqb j i) eqn:E; [|apply I2]. intros X. inv X. apply Nat.eqb_eq in E. subst. cbn [m_pc]. rewrite P1. exact Hrole.
      + intros w Hin. destruct (I3 w Hin) as (lw & Hw & Aw). rewrite Hn. destruct (Nat.eqb w i) eqn:E; [|eauto].
        apply Nat.eqb_eq in E. subst. rewrite Hl in Hw. inv Hw. rewrite Hpc in Aw. discriminate.
      + intros w lw. rewrite Hn. destruct (Nat.eqb w i); [intros X; inv X; cbn; congruence | apply I4].
      + intros w lw. rewrite Hn. destruct (Nat.eqb w i); [intros X; inv X; cbn; intros [?|?]; congruence|].
        intros X Hpp Hz n ln. rewrite Hn. destruct (Nat.eqb n i); [|intros Y; exact (I5 w lw X Hpp Hz n ln Y)].
        intros Y. inv Y. cbn. intros Hd. specialize (Hemp Hd).
        assert (Ha : active (m_pc lw) = true) by (destruct Hpp as [->| ->]; reflexivity).
        destruct (I4 _ _ X Ha) as [_ [[Hin _]|[_ H1]]]; [rewrite Hemp in Hin; destruct Hin | lia].
      + intros w lw. rewrite Hn. destruct (Nat.eqb w i); [intros X; inv X; cbn; congruence | apply I6].
      + congruence.
      + exact I8. }
    destruct (m_wset g) eqn:Ew; inv Hm; apply Hgen; auto; intros; discriminate.
  - (* NLock: notify_all *)
    assert (Hct : m_cond g = true).
    { destruct (m_cond g) eqn:Ec; auto. exfalso. assert (X : m_pc l = NSet) by (apply (I7 eq_refl i l Hl); rewrite Hpc; reflexivity). congruence. }
    inv Hm. unfold Inv. cbn [fst snd].
    assert (Hn : forall j, nth_error (set_nth ls i (mkml NDone 0 false)) j = if Nat.eqb j i then Some (mkml NDone 0 false) else nth_error ls j) by (intros; eapply nth_set_nth; eauto).
    assert (Hlen : length (m_sems (bump_all g)) = length (m_sems g)) by (unfold bump_all; cbn; rewrite length_bump_from; auto).
    assert (Hwl : forall w lw, nth_error ls w = Some lw -> is_w (m_pc lw) = true -> (w < length (m_sems g))%nat).
    { intros w lw Hw Hr. rewrite (I2 _ _ Hw) in Hr. apply Nat.ltb_lt in Hr. lia. }
    split; [auto|]. split; [|split; [|split; [|split; [|split; [|split]]]]].
    + intros j lj. rewrite Hn. destruct (Nat.eqb j i) eqn:E; [|apply I2]. intros X. inv X. apply Nat.eqb_eq in E. subst. cbn [m_pc is_w]. exact Hrole.
    + intros w Hin. cbn in Hin. destruct Hin.
    + intros w lw. rewrite Hn. destruct (Nat.eqb w i); [intros X; inv X; discriminate|].
      intros X Ha. destruct (I4 _ _ X Ha) as [Hsk Hdis]. split; auto. right. split; [cbn; tauto|].
      assert (Hr : is_w (m_pc lw) = true) by (destruct (m_pc lw); cbn in Ha; try discriminate; reflexivity).
      rewrite sem_bump by (eapply Hwl; eauto).
      destruct Hdis as [[Hin Hz]|[Hnin Hz]].
      * apply in_wset_In in Hin. rewrite Hin. lia.
      * assert (in_wset g w = false) by (destruct (in_wset g w) eqn:E; auto; apply in_wset_In in E; tauto). rewrite H. lia.
    + intros w lw. rewrite Hn. destruct (Nat.eqb w i); [intros X; inv X; intros [?|?]; discriminate|].
      intros X Hpp Hz. exfalso.
      assert (Ha : active (m_pc lw) = true) by (destruct Hpp as [->| ->]; reflexivity).
      assert (Hr : is_w (m_pc lw) = true) by (destruct Hpp as [->| ->]; reflexivity).
      rewrite sem_bump in Hz by (eapply Hwl; eauto).
      destruct (I4 _ _ X Ha) as [_ [[Hin H0]|[Hnin H1]]].
      * apply in_wset_In in Hin. rewrite Hin in Hz. lia.
      * assert (H0 := I8 w). destruct (in_wset g w); lia.
    + intros w lw. rewrite Hn. destruct (Nat.eqb w i); [intros X; inv X; discriminate|].
      intros X Hp. rewrite sem_bump by (eapply Hwl; eauto; rewrite Hp; reflexivity).
      assert (Hnin : in_wset g w = false).
      { destruct (in_wset g w) eqn:E; auto. apply in_wset_In in E. exfalso. eapply not_active_not_in; eauto. rewrite Hp. reflexivity. }
      rewrite Hnin. rewrite (I6 _ _ X Hp). lia.
    + cbn. congruence.
    + intros w. destruct (lt_dec w (length (m_sems g))) as [L|L].
      * rewrite sem_bump by auto. assert (H0 := I8 w). destruct (in_wset g w); lia.
      * rewrite sem_out_of_range; [lia|]. unfold bump_all; cbn. rewrite length_bump_from. lia.
  - discriminate.
Qed.

Lemma inv_init nw nn : Inv nw (minit nw nn).
Proof.
  unfold Inv, minit. cbn [fst snd m_sems m_wset m_cond].
  assert (Hth : forall i l, nth_error (repeat (mkml WStart 0 false) nw ++ repeat (mkml NSet 0 false) nn) i = Some l ->
                 ((i < nw)%nat /\ l = mkml WStart 0 false) \/ ((nw <= i)%nat /\ l = mkml NSet 0 false)).
  { intros i l H. destruct (lt_dec i nw) as [L|L].
    - left. split; auto. rewrite nth_error_app1 in H by (rewrite repeat_length; auto).
      apply nth_error_In in H. apply repeat_spec in H. auto.
    - right. split; [lia|]. rewrite nth_error_app2 in H by (rewrite repeat_length; lia).
      apply nth_error_In in H. apply repeat_spec in H. auto. }
  assert (Hsem : forall w, sem_of (mkmg 0 [] false (repeat 0 nw)) w = 0).
  { intros w. unfold sem_of. cbn. destruct (lt_dec w nw); [apply nth_repeat | apply nth_overflow; rewrite repeat_length; lia]. }
  split; [apply repeat_length|]. split; [|split; [|split; [|split; [|split; [|split]]]]].
  - intros i l H. destruct (Hth i l H) as [[L ->]|[L ->]]; cbn; symmetry; [apply Nat.ltb_lt | apply Nat.ltb_ge]; auto.
  - intros w [].
  - intros w l H A. destruct (Hth w l H) as [[_ ->]|[_ ->]]; discriminate.
  - intros w l H [A|A]; destruct (Hth w l H) as [[_ ->]|[_ ->]]; discriminate.
  - intros w l H A. rewrite Hsem. destruct (Hth w l H) as [[_ ->]|[_ ->]]; [reflexivity|discriminate].
  - intros _ n ln H A. destruct (Hth n ln H) as [[_ ->]|[_ ->]]; [discriminate|reflexivity].
  - intros w. rewrite Hsem. lia.
Qed.

Lemma reach_inv nw nn c : reach mstep (minit nw nn) c -> Inv nw c /\ length (snd c) = (nw + nn)%nat.
Proof.
  intros Hr. induction Hr as [|c1 i c2 ev Hr IH Hs].
  - split; [apply inv_init|]. unfold minit. cbn. rewrite app_length, !repeat_length. reflexivity.
  - destruct IH as [HI HL]. split; [eapply inv_step; eauto|].
    unfold step_at in Hs. destruct (nth_error (snd c1) i); [|discriminate].
    destruct (mstep i (fst c1) m) as [[[g' l'] e]|]; [|discriminate]. inv Hs. cbn. rewrite set_nth_length. auto.
Qed.
