(* C20 — a suspended task resumes exactly once.  Property theorems only; proofs live in SuspendProofs.v. *)
From OTV Require Import Lib.Tac Lib.Conc SuspendModel SuspendProofs.
Local Open Scope Z_scope.

(* For every interleaving of the suspending thread's post-switch exchange(suspended) (and its self-resume when it finds
   `notified`) with a resume() issued from anywhere — another thread, a worker, or the suspend callback itself before the
   switch completed: at most one resume task is ever pushed, none before the suspending thread has left the stack (so the
   stack is never run by two threads), and exactly one once both sides have finished (never forgotten). *)
Theorem resume_exactly_once : forall c,
  reach sstep sinit c ->
  0 <= s_pushed (fst c) <= 1 /\ s_pushed_before_left (fst c) = false /\
  (snd c = [SDone; SDone] -> s_pushed (fst c) = 1) /\
  (s_pushed (fst c) = 1 -> s_left (fst c) = true).
Proof. exact resume_exactly_once_proof. Qed.
Print Assumptions resume_exactly_once.

Theorem resume_handshake_never_stuck : forall c,
  reach sstep sinit c -> snd c <> [SDone; SDone] -> exists i c' e, step_at sstep c i = Some (c', e).
Proof. exact resume_no_stuck_proof. Qed.
Print Assumptions resume_handshake_never_stuck.

Example resume_first_example : run_suspend [1; 0; 0] = [1; 3; 0; 0; 1; 2; 0; 2; 1; 1].
Proof. vm_compute. reflexivity. Qed.
