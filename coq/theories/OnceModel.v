(* C19: collaborative_call_once's state word protocol (include/oneapi/tbb/collaborative_call_once.h:150-215).
   m_state is `uninitialized`, `done`, or the address of the winner's runner plus a count of helpers that are
   in the window between finding the runner and pinning it through its own m_ref_count.
   One step = one atomic access to m_state / m_ref_count (is_ready and the arena work are abstracted: a helper that
   has pinned the runner "assists" until the winner's function has finished). *)
From OTV Require Import Lib.Tac Lib.Conc.
Local Open Scope Z_scope.

Inductive word := Uninit | Done | Running (winner : nat) (refs : Z).

Record oshared := mkO {
  o_word : word;
  o_refcount : list Z;          (* per thread: m_ref_count of its runner object *)
  o_alive : list bool;          (* per thread: its runner object exists (between construction and destruction) *)
  o_fdone : list bool;          (* per thread: as winner, the user function has finished (successfully or not) *)
  o_success : Z;                (* number of successful completions of the user function *)
  o_bad_access : Z }.           (* ghost: accesses to a runner that was already destroyed *)

Inductive opc :=
| OEntry                        (* collaborative_call_once(): if (m_state.load() != done) do_collaborative_call_once(...) *)
| OStart                        (* expected = m_state.load() *)
| OTop (expected : word)        (* top of the do-while *)
| OWinRun (attempt_throws : bool)   (* winner: running the user function *)
| OWinSet (target_done : bool)  (* winner: set_completion_state: wait for m_state == my runner bits, CAS to target *)
| OWinDtor (threw : bool)       (* winner: ~runner: wait for m_ref_count == 0 *)
| OHelpCas (expected : word)    (* helper: CAS(expected, expected+1) loop *)
| OHelpPin (r : nat)            (* helper: lifetime_guard: runner.m_ref_count++ *)
| OHelpSub (r : nat)            (* helper: m_state.fetch_sub(1) *)
| OHelpAssist (r : nat)         (* helper: assist(): waits for the winner's function to finish *)
| OHelpUnpin (r : nat)          (* helper: ~lifetime_guard: m_ref_count-- *)
| OLoopTest (expected : word)   (* while (expected != done) *)
| ORetOk | ORetExc.

(* local state: program point + the per-attempt oracle "does my function throw?" (consumed one per win) *)
Record oloc := mkOL { ol_pc : opc; ol_throws : list bool }.

Definition getr (l : list Z) (i : nat) : Z := nth i l 0.
Definition getbl (l : list bool) (i : nat) : bool := nth i l false.
Fixpoint setn {A} (l : list A) (i : nat) (v : A) : list A :=
  match l, i with [], _ => [] | _ :: tl, O => v :: tl | x :: tl, S j => x :: setn tl j v end.

Definition max_refs : Z := 127.    (* collaborative_once_references_mask = max_nfs_size - 1 *)

Definition ostep (tid : nat) (g : oshared) (l : oloc) : option (oshared * oloc * list Z) :=
  let goto p := mkOL p (ol_throws l) in
  let touch r g := if getbl (o_alive g) r then g else mkO (o_word g) (o_refcount g) (o_alive g) (o_fdone g) (o_success g) (o_bad_access g + 1) in
  match ol_pc l with
  | OEntry => match o_word g with Done => Some (g, goto ORetOk, []) | _ => Some (g, goto OStart, []) end
  | OStart =>
      (* the runner object is constructed on the caller's stack *)
      Some (mkO (o_word g) (setn (o_refcount g) tid 0) (setn (o_alive g) tid true) (setn (o_fdone g) tid false) (o_success g) (o_bad_access g),
            goto (OTop (o_word g)), [])
  | OTop expected =>
      match expected with
      | Uninit =>
          match o_word g with
          | Uninit => (* CAS succeeds: winner *)
              let throws := hd false (ol_throws l) in
              Some (mkO (Running tid 0) (o_refcount g) (o_alive g) (o_fdone g) (o_success g) (o_bad_access g),
                    mkOL (OWinRun throws) (tl (ol_throws l)), [])
          | w => Some (g, goto (OHelpCas w), [])
          end
      | w => Some (g, goto (OHelpCas w), [])
      end
  | OWinRun throws =>
      Some (mkO (o_word g) (o_refcount g) (o_alive g) (setn (o_fdone g) tid true) (if throws then o_success g else o_success g + 1) (o_bad_access g),
            goto (OWinSet (negb throws)), [])
  | OWinSet target_done =>
      match o_word g with
      | Running w 0 => if Nat.eqb w tid
                       then Some (mkO (if target_done then Done else Uninit) (o_refcount g) (o_alive g) (o_fdone g) (o_success g) (o_bad_access g),
                                  goto (OWinDtor (negb target_done)), [])
                       else None
      | _ => None        (* helpers are still in the window: spin *)
      end
  | OWinDtor threw =>
      if getr (o_refcount g) tid =? 0
      then Some (mkO (o_word g) (o_refcount g) (setn (o_alive g) tid false) (o_fdone g) (o_success g) (o_bad_access g),
                 goto (if threw then ORetExc else ORetOk), [])
      else None
  | OHelpCas expected =>
      (* do { expected = spin_wait_while_eq(m_state, expected|mask) } while (expected > done && !CAS(expected, expected+1)) *)
      match o_word g with
      | Running w k =>
          if k =? max_refs then None     (* spin: the window is full *)
          else Some (mkO (Running w (k + 1)) (o_refcount g) (o_alive g) (o_fdone g) (o_success g) (o_bad_access g), goto (OHelpPin w), [])
      | w => Some (g, goto (OLoopTest w), [])
      end
  | OHelpPin r =>
      let g1 := touch r g in
      Some (mkO (o_word g1) (setn (o_refcount g1) r (getr (o_refcount g1) r + 1)) (o_alive g1) (o_fdone g1) (o_success g1) (o_bad_access g1), goto (OHelpSub r), [])
  | OHelpSub r =>
      match o_word g with
      | Running w k => Some (mkO (Running w (k - 1)) (o_refcount g) (o_alive g) (o_fdone g) (o_success g) (o_bad_access g), goto (OHelpAssist r), [])
      | _ => None     (* cannot happen: the word still carries our reference *)
      end
  | OHelpAssist r =>
      let g1 := touch r g in
      if getbl (o_fdone g1) r then Some (g1, goto (OHelpUnpin r), []) else None
  | OHelpUnpin r =>
      let g1 := touch r g in
      Some (mkO (o_word g1) (setn (o_refcount g1) r (getr (o_refcount g1) r - 1)) (o_alive g1) (o_fdone g1) (o_success g1) (o_bad_access g1),
            goto (OLoopTest (Running r 0)), [])
  | OLoopTest expected =>
      match expected with
      | Done => Some (mkO (o_word g) (o_refcount g) (setn (o_alive g) tid false) (o_fdone g) (o_success g) (o_bad_access g), goto ORetOk, [])
      | _ => Some (g, goto (OTop expected), [])
      end
  | ORetOk | ORetExc => None
  end.

Definition oinit (throws : list (list bool)) : oshared * list oloc :=
  let n := length throws in
  (mkO Uninit (repeat 0 n) (repeat false n) (repeat false n) 0 0, map (fun t => mkOL OEntry t) throws).

(* flat interface: nthreads, per thread (len, throws...), -1, schedule -> [all returned?; successes; bad accesses; #ok returns; #exception returns] *)
Fixpoint take_lists (n : nat) (l : list Z) : list (list bool) * list Z :=
  match n with
  | O => ([], l)
  | S n' => match l with
            | len :: tl => let k := Z.to_nat len in
                           let '(rest, l') := take_lists n' (skipn k tl) in
                           (map (fun x => negb (x =? 0)) (firstn k tl) :: rest, l')
            | [] => ([], [])
            end
  end.
Definition run_once (inp : list Z) : list Z :=
  match inp with
  | n :: tl =>
      let '(throws, rest) := take_lists (Z.to_nat n) tl in
      let sched := map Z.to_nat (match rest with _ :: s => s | [] => [] end) in
      let '(c1, _) := run ostep (oinit throws) sched in
      let '(c2, _, ok) := finish ostep 3000 c1 3000 in
      [if ok then 1 else 0; o_success (fst c2); o_bad_access (fst c2);
       Z.of_nat (length (filter (fun l => match ol_pc l with ORetOk => true | _ => false end) (snd c2)));
       Z.of_nat (length (filter (fun l => match ol_pc l with ORetExc => true | _ => false end) (snd c2)))]
  | [] => []
  end.
