(* C13 — concurrent_priority_queue.  Property theorems only; proofs live in CpqProofs.v. *)
From OTV Require Import Lib.Tac CpqModel CpqProofs CpqHeap CpqLin.
From Coq Require Import Permutation.
Local Open Scope nat_scope.

(* For every queue state and every batch the aggregator can hand to handle_operations:
   every operation of the batch is answered exactly once, the number of stored elements changes by
   (#successful pushes - #successful pops), and the batch leaves no unheapified tail (mark = size). *)
Theorem batch_accounting : forall q batch q' rs,
  handle_operations q batch = (q', rs) -> wf q ->
  mark q' = length (data q') /\
  length (data q') + n_pop rs = length (data q) + n_push rs /\
  Permutation (map fst rs) (seq 0 (length batch)).
Proof. exact batch_accounting_proof. Qed.
Print Assumptions batch_accounting.

(* A try_pop reports failure only if the queue is empty once the operations linearised before it
   (all pushes of its batch and the pops answered before it) have taken effect; the queue is then
   still empty at the end of the batch. *)
Theorem pop_fails_only_when_empty : forall q batch q' rs i,
  handle_operations q batch = (q', rs) -> wf q ->
  In (i, RFail) rs -> data q' = [].
Proof. exact pop_fails_only_when_empty_proof. Qed.
Print Assumptions pop_fails_only_when_empty.

(* Exception isolation, first pass: a push whose element copy throws and a pop whose element assignment throws are
   answered with a failure and leave the queue untouched — the queue state, the postponed pops and every other
   result are exactly those of the batch without the faulty operations. *)
Theorem copy_and_assign_failure_isolated_pass1 : forall ops q P D q' P' D',
  pass1f q ops P D = (q', P', D') ->
  pass1 q (strip_ops ops) (strip_post P) (strip_res D) = (q', strip_post P', strip_res D').
Proof. exact pass1f_isolated. Qed.
Print Assumptions copy_and_assign_failure_isolated_pass1.

(* ... and second pass (postponed pops): a rejecting pop is answered (exception, or "empty") without touching the
   queue; the other pops get exactly what they would get without it. *)
Theorem pop_assign_failure_isolated_pass2 : forall pops q D q' D' rej,
  pass2f q pops D = (q', D') ->
  (forall i, In (i, true) pops -> In i rej) -> (forall i, In (i, false) pops -> ~ In i rej) ->
  pass2 q (strip_post pops) (strip_res2 D rej) = (q', strip_res2 D' rej).
Proof. exact pass2f_isolated. Qed.
Print Assumptions pop_assign_failure_isolated_pass2.

Example batch_example :
  handle_operations (mk [9; 5; 3]%Z 3) [Pop; Push 100%Z; Push 10%Z; Pop; Pop; Pop; Pop; Pop]
  = (mk [] 0, [(0, RFail); (5, RPop 3%Z); (6, RPop 5%Z); (7, RPop 9%Z); (4, RPop 100%Z);
               (3, RPop 10%Z); (2, RPush); (1, RPush)]) /\ wf (mk [9; 5; 3]%Z 3).
Proof. split; [vm_compute; reflexivity | unfold wf; cbn; lia]. Qed.

(* Heap order / linearization inside a batch.  `good q`: no unheapified tail and data is a binary max-heap.
   `spec_run A h A'`: h is a legal history of a sequential priority queue from contents A to contents A' (multisets):
   a push adds its element, a successful pop returns an element that is >= every element present and removes one copy of it,
   a pop fails only on empty contents.  All operations of a batch are pending together, so any order of them respects real time:
   for every batch there IS an order (`lin`, a permutation of the batch's operations paired with the answers they were given)
   that is such a legal history from the contents before the batch to the contents after it, and the heap order is restored. *)
Theorem batch_is_a_priority_queue_history : forall q batch q' rs,
  handle_operations q batch = (q', rs) -> good q ->
  good q' /\ exists lin, Permutation lin (ops_of batch rs) /\ spec_run (data q) lin (data q').
Proof. exact batch_linearizable_proof. Qed.
Print Assumptions batch_is_a_priority_queue_history.

(* ... hence for any sequence of batches starting from the empty queue, the concatenation of those per-batch orders is one
   legal sequential history of everything the queue ever answered. *)
Theorem all_batches_form_a_priority_queue_history : forall bs q' hs,
  run_model (mk [] 0) bs = (q', hs) ->
  good q' /\ exists lins, Forall2 (@Permutation _) lins hs /\ spec_run [] (concat lins) (data q').
Proof. intros bs q' hs H. exact (batches_linearizable_proof bs _ q' hs H good_empty). Qed.
Print Assumptions all_batches_form_a_priority_queue_history.

(* the root of the heap part is a maximum of it (what a heap pop returns) *)
Theorem heap_root_is_maximum : forall d m i, hp d m -> i < m -> (get d i <= get d 0)%Z.
Proof. intros d m i H Hi. exact (hp_root_max d m H i Hi). Qed.
Print Assumptions heap_root_is_maximum.

Example good_example : good (mk [9; 5; 3]%Z 3) /\
  fst (run_model (mk [] 0) [[Push 3; Push 9; Push 5]; [Pop; Push 100; Push 10; Pop; Pop]]%Z) = mk [5; 3]%Z 2.
Proof.
  split; [split; [reflexivity|]|vm_compute; reflexivity].
  intros i Hi. cbn in Hi. assert (i = 1 \/ i = 2) as [->| ->] by lia; vm_compute; discriminate.
Qed.
