(* C13 — concurrent_priority_queue.  Property theorems only; proofs live in CpqProofs.v. *)
From OTV Require Import Lib.Tac CpqModel CpqProofs.
From Coq Require Import Permutation.
Local Open Scope nat_scope.

(* For every queue state and every batch the aggregator can hand to handle_operations:
   every operation of the batch is answered exactly once, the number of stored elements changes by
   (#successful pushes - #successful pops), and the batch leaves no unheapified tail (mark = size). *)
Theorem batch_accounting : forall q batch q' rs,
  handle_operations q batch = (q', rs) -> wf q ->
  mark q' = length (data q') /\
  length (data q') + n_pop rs = length (data q) + n_push rs /\
  Permutation (map fst rs) (seq 0 (length batch)).
Proof. exact batch_accounting_proof. Qed.
Print Assumptions batch_accounting.

(* A try_pop reports failure only if the queue is empty once the operations linearised before it
   (all pushes of its batch and the pops answered before it) have taken effect; the queue is then
   still empty at the end of the batch. *)
Theorem pop_fails_only_when_empty : forall q batch q' rs i,
  handle_operations q batch = (q', rs) -> wf q ->
  In (i, RFail) rs -> data q' = [].
Proof. exact pop_fails_only_when_empty_proof. Qed.
Print Assumptions pop_fails_only_when_empty.

(* Exception isolation, first pass: a push whose element copy throws and a pop whose element assignment throws are
   answered with a failure and leave the queue untouched — the queue state, the postponed pops and every other
   result are exactly those of the batch without the faulty operations. *)
Theorem copy_and_assign_failure_isolated_pass1 : forall ops q P D q' P' D',
  pass1f q ops P D = (q', P', D') ->
  pass1 q (strip_ops ops) (strip_post P) (strip_res D) = (q', strip_post P', strip_res D').
Proof. exact pass1f_isolated. Qed.
Print Assumptions copy_and_assign_failure_isolated_pass1.

(* ... and second pass (postponed pops): a rejecting pop is answered (exception, or "empty") without touching the
   queue; the other pops get exactly what they would get without it. *)
Theorem pop_assign_failure_isolated_pass2 : forall pops q D q' D' rej,
  pass2f q pops D = (q', D') ->
  (forall i, In (i, true) pops -> In i rej) -> (forall i, In (i, false) pops -> ~ In i rej) ->
  pass2 q (strip_post pops) (strip_res2 D rej) = (q', strip_res2 D' rej).
Proof. exact pass2f_isolated. Qed.
Print Assumptions pop_assign_failure_isolated_pass2.

Example batch_example :
  handle_operations (mk [9; 5; 3]%Z 3) [Pop; Push 100%Z; Push 10%Z; Pop; Pop; Pop; Pop; Pop]
  = (mk [] 0, [(0, RFail); (5, RPop 3%Z); (6, RPop 5%Z); (7, RPop 9%Z); (4, RPop 100%Z);
               (3, RPop 10%Z); (2, RPush); (1, RPush)]) /\ wf (mk [9; 5; 3]%Z 3).
Proof. split; [vm_compute; reflexivity | unfold wf; cbn; lia]. Qed.
