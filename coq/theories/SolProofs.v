(* C12: proofs about the split-ordered list model (SolModel). *)
From Coq Require Import Znumtheory Sorting.Sorted.
From OTV Require Import Lib.Tac SolModel.
Local Open Scope Z_scope.

(* ================= Part A: bit reversal ================= *)
Lemma p2pos n : 0 < 2 ^ Z.of_nat n.
Proof. apply Z.pow_pos_nonneg; lia. Qed.

Lemma revn_range n : forall h, 0 <= revn n h < 2 ^ Z.of_nat n.
Proof.
  induction n as [|n IH]; intros h; cbn [revn]; [cbn; lia|].
  specialize (IH (h / 2)). assert (0 <= h mod 2 < 2) by (apply Z.mod_pos_bound; lia).
  rewrite Nat2Z.inj_succ, Z.pow_succ_r by lia.
  assert (0 < 2 ^ Z.of_nat n) by apply p2pos. nia.
Qed.

Lemma revn_zero n : revn n 0 = 0.
Proof. induction n as [|n IH]; cbn [revn]; auto. Qed.

Lemma mod2_of_modpow h k : (h mod 2 ^ Z.of_nat (S k)) mod 2 = h mod 2.
Proof.
  change 2 with (2 ^ 1) at 2 3. symmetry. apply Zmod_div_mod; try (apply Z.pow_pos_nonneg; lia).
  exists (2 ^ Z.of_nat k). rewrite Nat2Z.inj_succ, Z.pow_succ_r by lia. change (2 ^ 1) with 2. lia.
Qed.

Lemma div2_of_modpow h k : (h mod 2 ^ Z.of_nat (S k)) / 2 = (h / 2) mod 2 ^ Z.of_nat k.
Proof.
  rewrite Nat2Z.inj_succ, Z.pow_succ_r by lia.
  assert (Hc : 0 < 2 ^ Z.of_nat k) by apply p2pos.
  rewrite Z.rem_mul_r by lia.
  rewrite Z.mul_comm, Z.div_add by lia.
  rewrite Z.div_small by (apply Z.mod_pos_bound; lia). lia.
Qed.

(* reversing k+m bits = reversed low k bits (shifted up by m) + reversed remaining bits *)
Lemma revn_split k : forall m h,
  revn (k + m) h = 2 ^ Z.of_nat m * revn k (h mod 2 ^ Z.of_nat k) + revn m (h / 2 ^ Z.of_nat k).
Proof.
  induction k as [|k IH]; intros m h.
  - cbn [plus revn]. change (2 ^ Z.of_nat 0) with 1. rewrite Z.div_1_r. lia.
  - cbn [plus revn]. rewrite IH. rewrite mod2_of_modpow, div2_of_modpow.
    rewrite Z.div_div by (try apply p2pos; lia).
    replace (2 * 2 ^ Z.of_nat k) with (2 ^ Z.of_nat (S k)) by (rewrite Nat2Z.inj_succ, Z.pow_succ_r by lia; reflexivity).
    rewrite Nat2Z.inj_add, Z.pow_add_r by lia. ring.
Qed.

Lemma rev64_range h : 0 <= rev64 h < 2 ^ 64.
Proof. unfold rev64. apply (revn_range 64). Qed.

(* a bucket index (the low k bits of the hash) reverses to the hash's reversal with the low 64-k bits cleared *)
Lemma rev64_prefix (k : nat) h : (k <= 64)%nat -> 0 <= h < 2 ^ 64 ->
  exists r, 0 <= r < 2 ^ Z.of_nat (64 - k) /\ rev64 h = rev64 (h mod 2 ^ Z.of_nat k) + r /\
            rev64 (h mod 2 ^ Z.of_nat k) mod 2 ^ Z.of_nat (64 - k) = 0.
Proof.
  intros Hk Hh. unfold rev64.
  assert (Hb : 0 <= h mod 2 ^ Z.of_nat k < 2 ^ Z.of_nat k) by (apply Z.mod_pos_bound; apply p2pos).
  assert (Hle : 2 ^ Z.of_nat k <= 2 ^ 64) by (apply Z.pow_le_mono_r; lia).
  rewrite (Z.mod_small h) by lia. rewrite (Z.mod_small (h mod 2 ^ Z.of_nat k)) by lia.
  assert (E64 : forall x, revn 64 x = revn (k + (64 - k)) x) by (intros; f_equal; lia).
  rewrite !E64, !revn_split. rewrite Zmod_mod. rewrite (Z.div_small (h mod 2 ^ Z.of_nat k)) by lia. rewrite revn_zero.
  exists (revn (64 - k) (h / 2 ^ Z.of_nat k)). split; [apply revn_range|]. split; [lia|].
  rewrite Z.add_0_r, Z.mul_comm. apply Z.mod_mul. assert (X := p2pos (64 - k)). lia.
Qed.

Lemma oreg_odd_range h : rev64 h <= oreg h <= rev64 h + 1 /\ Z.odd (oreg h) = true.
Proof.
  unfold oreg. destruct (Z.even (rev64 h)) eqn:E.
  - split; [lia|]. rewrite Z.add_1_r, Z.odd_succ. auto.
  - split; [lia|]. rewrite <- Z.negb_even, E. reflexivity.
Qed.
Lemma odummy_even_range b : rev64 b - 1 <= odummy b <= rev64 b /\ Z.even (odummy b) = true.
Proof.
  unfold odummy. destruct (Z.even (rev64 b)) eqn:E.
  - split; [lia|]. auto.
  - split; [lia|]. rewrite Z.sub_1_r, Z.even_pred, <- Z.negb_even, E. reflexivity.
Qed.

(* F1: the dummy node of a key's bucket precedes the key's value node, whatever the (power-of-two) bucket count *)
Theorem dummy_before_regular (k : nat) h : (k <= 64)%nat -> 0 <= h < 2 ^ 64 ->
  odummy (h mod 2 ^ Z.of_nat k) < oreg h.
Proof.
  intros Hk Hh. destruct (rev64_prefix k h Hk Hh) as (r & Hr & E & _).
  destruct (oreg_odd_range h) as [[R1 R2] Ro]. destruct (odummy_even_range (h mod 2 ^ Z.of_nat k)) as [[D1 D2] De].
  assert (odummy (h mod 2 ^ Z.of_nat k) <> oreg h).
  { intros X. rewrite X in De. rewrite <- Z.negb_odd, Ro in De. discriminate. }
  lia.
Qed.

(* F2: a bucket's dummy node comes after its parent bucket's dummy node (bucket indices below 2^63) *)
Theorem parent_dummy_before_child b : 1 <= b < 2 ^ 63 -> odummy (sparent b) < odummy b.
Proof.
  intros Hb. unfold sparent.
  assert (H0 : 0 < b) by lia. destruct (Z.log2_spec b H0) as [L1 L2].
  set (m := Z.log2 b) in *. assert (Hm0 : 0 <= m) by apply Z.log2_nonneg.
  assert (Hm : m < 63) by (apply Z.log2_lt_pow2; lia).
  set (mn := Z.to_nat m). assert (Em : Z.of_nat mn = m) by (unfold mn; lia).
  (* b = p + 2^m with p < 2^m *)
  set (p := b - 2 ^ m).
  assert (Hp : 0 <= p < 2 ^ m) by (unfold p; replace (Z.succ m) with (m + 1) in L2 by lia; rewrite Z.pow_add_r in L2 by lia; lia).
  assert (Hpow : 2 ^ m <= 2 ^ 63) by (apply Z.pow_le_mono_r; lia).
  assert (Ebm : b mod 2 ^ m = p).
  { unfold p. replace b with ((b - 2 ^ m) + 1 * 2 ^ m) at 1 by lia. rewrite Z.mod_add by lia. apply Z.mod_small. unfold p in Hp. lia. }
  assert (Ebd : b / 2 ^ m = 1).
  { symmetry. apply Z.div_unique with (r := p); unfold p in *; lia. }
  (* rev64 b = rev64 p + 2^(63-m) *)
  assert (Erb : rev64 b = rev64 p + 2 ^ (63 - m)).
  { unfold rev64. rewrite (Z.mod_small b) by lia. rewrite (Z.mod_small p) by lia.
    assert (E64 : forall x, revn 64 x = revn (mn + (64 - mn)) x) by (intros; f_equal; lia).
    rewrite !E64, !revn_split. rewrite Em, Ebm, Ebd.
    rewrite (Z.mod_small p) by lia. rewrite (Z.div_small p) by lia. rewrite revn_zero.
    replace (64 - mn)%nat with (S (63 - mn)) by lia. cbn [revn].
    change (1 mod 2) with 1. change (1 / 2) with 0. rewrite revn_zero.
    replace (Z.of_nat (63 - mn)) with (63 - m) by lia. lia. }
  assert (H2 : 2 <= 2 ^ (63 - m)).
  { change 2 with (2 ^ 1) at 1. apply Z.pow_le_mono_r; lia. }
  assert (Heven : Z.even (2 ^ (63 - m)) = true).
  { replace (63 - m) with (Z.succ (62 - m)) by lia. rewrite Z.pow_succ_r by lia. rewrite Z.even_mul. reflexivity. }
  fold p. unfold odummy. rewrite Erb. rewrite Z.even_add, Heven.
  destruct (Z.even (rev64 p)); cbn; lia.
Qed.

(* ================= Part B: the sorted list ================= *)
Definition le1 (a b : Z * Z) : Prop := fst a <= fst b.
Definition sorted (l : list (Z * Z)) : Prop := StronglySorted le1 l.

Lemma In_ins_dummy l ok x : In x (ins_dummy l ok) -> x = (ok, -1) \/ In x l.
Proof.
  induction l as [|[o k] l IH]; cbn; [intuition (auto; congruence)|].
  destruct (o <? ok); [cbn; intros [H|H]; [auto | destruct (IH H); auto]|].
  destruct (o =? ok); cbn; intuition (auto; congruence).
Qed.
Lemma In_ins_dummy_old l ok x : In x l -> In x (ins_dummy l ok).
Proof.
  induction l as [|[o k] l IH]; cbn; [tauto|].
  destruct (o <? ok); [cbn; intros [H|H]; auto|]. destruct (o =? ok); cbn; tauto.
Qed.
Lemma In_ins_dummy_new l ok : exists k, In (ok, k) (ins_dummy l ok).
Proof.
  induction l as [|[o k] l IH]; cbn; [exists (-1); auto|].
  destruct (o <? ok) eqn:E1; [destruct IH as [k' H]; exists k'; cbn; auto|].
  destruct (o =? ok) eqn:E2; [exists k; left; f_equal; lia | exists (-1); cbn; auto].
Qed.

Lemma sorted_ins_dummy l ok : sorted l -> sorted (ins_dummy l ok).
Proof.
  unfold sorted. induction l as [|[o k] l IH]; cbn; intros H.
  - repeat constructor.
  - inv H. destruct (o <? ok) eqn:E1.
    + constructor; auto. rewrite Forall_forall in *. intros x Hx. destruct (In_ins_dummy _ _ _ Hx) as [->|Hi]; [unfold le1; cbn; lia | auto].
    + destruct (o =? ok) eqn:E2; [constructor; auto|].
      constructor; [constructor; auto|]. constructor; [unfold le1; cbn; lia|].
      rewrite Forall_forall in *. intros x Hx. specialize (H3 x Hx). unfold le1 in *. cbn in *. lia.
Qed.

Definition isval (n : Z * Z) : bool := 0 <=? snd n.
Lemma values_ins_dummy l ok : filter isval (ins_dummy l ok) = filter isval l.
Proof.
  induction l as [|[o k] l IH]; cbn; [reflexivity|].
  destruct (o <? ok); [cbn; rewrite IH; reflexivity|]. destruct (o =? ok); reflexivity.
Qed.

Lemma In_ins_value m l ok key x : In x (ins_value m l ok key) <-> x = (ok, key) \/ In x l.
Proof.
  induction l as [|[o k] l IH]; cbn; [intuition (auto; congruence)|].
  destruct (o <? ok); [cbn; rewrite IH; tauto|].
  destruct ((o =? ok) && negb (k =? key)); cbn; [rewrite IH|]; intuition (auto; congruence).
Qed.

Lemma sorted_ins_value m l ok key : sorted l -> sorted (ins_value m l ok key).
Proof.
  unfold sorted. induction l as [|[o k] l IH]; cbn; intros H.
  - repeat constructor.
  - inv H. destruct (o <? ok) eqn:E1.
    + constructor; auto. rewrite Forall_forall in *. intros x Hx. apply In_ins_value in Hx. destruct Hx as [->|Hi]; [unfold le1; cbn; lia | auto].
    + destruct ((o =? ok) && negb (k =? key)) eqn:E2.
      * constructor; auto. rewrite Forall_forall in *. intros x Hx. apply In_ins_value in Hx. destruct Hx as [->|Hi]; [unfold le1; cbn; lia | auto].
      * constructor; [constructor; auto|]. constructor; [unfold le1; cbn; lia|].
        rewrite Forall_forall in *. intros x Hx. specialize (H3 x Hx). unfold le1 in *. cbn in *. lia.
Qed.

(* in a sorted list the scan of search_after / internal_find finds exactly the pair (order key, key) *)
Lemma has_key_In l ok key : sorted l -> (has_key l ok key = true <-> In (ok, key) l).
Proof.
  unfold sorted. induction l as [|[o k] l IH]; cbn; intros H; [split; [discriminate|tauto]|].
  inv H. destruct (o <? ok) eqn:E1.
  - rewrite IH by auto. split; auto. intros [X|X]; [inv X; lia | auto].
  - destruct (o =? ok) eqn:E2.
    + destruct (k =? key) eqn:E3; [split; auto; intros _; left; f_equal; lia|].
      rewrite IH by auto. split; auto. intros [X|X]; [inv X; lia | auto].
    + split; [discriminate|]. intros [X|X]; [inv X; lia|].
      rewrite Forall_forall in H3. specialize (H3 _ X). unfold le1 in H3. cbn in H3. lia.
Qed.

(* starting the scan at the bucket's dummy node instead of the list head changes nothing, provided the dummy's
   order key is below the key's (dummy_before_regular) *)
Theorem scan_from_dummy_equiv pre d rest ok key :
  sorted (pre ++ (d, -1) :: rest) -> d < ok ->
  has_key (pre ++ (d, -1) :: rest) ok key = has_key ((d, -1) :: rest) ok key.
Proof.
  unfold sorted. induction pre as [|[o k] pre IH]; intros H Hd; [reflexivity|].
  cbn [app] in H. inv H. cbn [app has_key].
  assert (o <= d).
  { rewrite Forall_forall in H3. specialize (H3 (d, -1)). unfold le1 in H3. cbn in H3. apply H3. apply in_or_app. right. left. reflexivity. }
  destruct (o <? ok) eqn:E; [apply IH; auto | lia].
Qed.

(* ================= Part C: the unique container refines a set ================= *)
Definition SInv (s : sol) : Prop :=
  sorted (s_nodes s) /\
  (forall o k, In (o, k) (s_nodes s) -> k = -1 \/ (0 <= k /\ o = oreg k)) /\
  NoDup (map snd (filter isval (s_nodes s))).
Definition SR (s : sol) (a : list Z) : Prop := forall k, 0 <= k -> (In (oreg k, k) (s_nodes s) <-> In k a).

Lemma init_bucket_ok fuel : forall s b,
  SInv s -> let s' := init_bucket fuel s b in
  SInv s' /\ s_bc s' = s_bc s /\ s_size s' = s_size s /\
  (forall o k, 0 <= k -> (In (o, k) (s_nodes s') <-> In (o, k) (s_nodes s))).
Proof.
  induction fuel as [|f IH]; intros s b HI s'; unfold s'; cbn [init_bucket].
  - repeat split; auto; apply HI.
  - destruct (is_inited s b); [repeat split; auto; apply HI|].
    destruct (b =? 0) eqn:E0; [cbn; repeat split; auto; apply HI|].
    destruct (IH s (sparent b) HI) as (HI1 & Hb1 & Hs1 & Hv1).
    set (s1 := init_bucket f s (sparent b)) in *.
    destruct HI1 as (S1 & S2 & S3). cbn [s_nodes s_inited s_bc s_size].
    split; [|split; [|split]]; auto.
    + unfold SInv. cbn [s_nodes]. split; [apply sorted_ins_dummy; auto|]. split.
      * intros o k Hin. destruct (In_ins_dummy _ _ _ Hin) as [X|X]; [inv X; auto | eauto].
      * rewrite values_ins_dummy. auto.
    + intros o k Hk. rewrite <- Hv1 by auto. split.
      * intros Hin. destruct (In_ins_dummy _ _ _ Hin) as [X|X]; [inv X; lia | auto].
      * apply In_ins_dummy_old.
Qed.

Lemma values_ins_value m l ok key : 0 <= key ->
  exists l1 l2, filter isval l = l1 ++ l2 /\ filter isval (ins_value m l ok key) = l1 ++ (ok, key) :: l2.
Proof.
  intros Hk. induction l as [|[o k] l IH]; cbn [ins_value filter].
  - exists [], []. unfold isval. cbn. destruct (0 <=? key) eqn:E; [auto | lia].
  - destruct IH as (l1 & l2 & E1 & E2).
    assert (Hv : isval (ok, key) = true) by (unfold isval; cbn; lia).
    destruct (o <? ok).
    + cbn [filter]. destruct (isval (o, k)); [exists ((o, k) :: l1), l2; rewrite E1, E2; auto | exists l1, l2; auto].
    + destruct ((o =? ok) && negb (k =? key)).
      * cbn [filter]. destruct (isval (o, k)); [exists ((o, k) :: l1), l2; rewrite E1, E2; auto | exists l1, l2; auto].
      * cbn [filter]. rewrite Hv. exists [], (if isval (o, k) then (o, k) :: filter isval l else filter isval l). auto.
Qed.

Lemma In_values l o k : In (o, k) (filter isval l) <-> In (o, k) l /\ 0 <= k.
Proof. rewrite filter_In. unfold isval. cbn. split; intros [H1 H2]; split; auto; lia. Qed.

Definition mem (k : Z) (a : list Z) : bool := existsb (Z.eqb k) a.
Lemma mem_In k a : mem k a = true <-> In k a.
Proof. unfold mem. rewrite existsb_exists. split; [intros (x & H1 & H2); assert (k = x) by lia; subst; auto | intros H; exists k; split; auto; lia]. Qed.

Theorem sol_insert_refines s a key :
  SInv s -> SR s a -> 0 <= key ->
  let '(s', r) := sol_insert false s key in
  r = (if mem key a then 0 else 1) /\ SInv s' /\ SR s' (if mem key a then a else key :: a).
Proof.
  intros HI HR Hk. unfold sol_insert.
  destruct (init_bucket_ok s_fuel s (key mod s_bc s) HI) as (HI1 & Hb1 & Hs1 & Hv1).
  set (s1 := init_bucket s_fuel s (key mod s_bc s)) in *.
  destruct HI1 as (S1 & S2 & S3).
  assert (Hh : has_key (s_nodes s1) (oreg key) key = mem key a).
  { apply eq_true_iff_eq. rewrite has_key_In by auto. rewrite Hv1 by auto. rewrite (HR key Hk). symmetry. apply mem_In. }
  cbn [negb andb]. rewrite Hh. destruct (mem key a) eqn:Em.
  - split; [reflexivity|]. split; [split; auto|]. intros k Hk'. rewrite Hv1 by auto. apply HR; auto.
  - split; [reflexivity|]. unfold SInv, SR. cbn [s_nodes]. split.
    + split; [apply sorted_ins_value; auto|]. split.
      * intros o k Hin. apply In_ins_value in Hin. destruct Hin as [X|X]; [inv X; auto | eauto].
      * destruct (values_ins_value false (s_nodes s1) (oreg key) key Hk) as (l1 & l2 & E1 & E2).
        rewrite E2. rewrite E1 in S3. rewrite map_app in *. cbn [map snd].
        apply NoDup_Add with (a := key) (l := map snd l1 ++ map snd l2); [apply Add_app|]. split; auto.
        rewrite <- map_app, <- E1. intros Hin. apply in_map_iff in Hin. destruct Hin as ([o k] & Ek & Hin). cbn in Ek. subst k.
        apply In_values in Hin. destruct Hin as [Hin _].
        destruct (S2 _ _ Hin) as [X|[_ X]]; [lia|]. subst o.
        assert (In key a) by (apply (proj1 (HR key Hk)); apply (proj1 (Hv1 (oreg key) key Hk)); exact Hin).
        apply mem_In in H. congruence.
    + intros k Hk'. rewrite In_ins_value. cbn [In]. rewrite Hv1 by auto. rewrite (HR k Hk'). split.
      * intros [X|X]; [inv X; auto | auto].
      * intros [X|X]; [subst; auto | auto].
Qed.

Theorem sol_find_refines s a key :
  SInv s -> SR s a -> 0 <= key ->
  let '(s', r) := sol_find s key in
  r = (if mem key a then 1 else 0) /\ SInv s' /\ SR s' a.
Proof.
  intros HI HR Hk. unfold sol_find.
  destruct (init_bucket_ok s_fuel s (key mod s_bc s) HI) as (HI1 & Hb1 & Hs1 & Hv1).
  set (s1 := init_bucket s_fuel s (key mod s_bc s)) in *.
  assert (Hh : has_key (s_nodes s1) (oreg key) key = mem key a).
  { apply eq_true_iff_eq. rewrite has_key_In by apply HI1. rewrite Hv1 by auto. rewrite (HR key Hk). symmetry. apply mem_In. }
  rewrite Hh. split; [reflexivity|]. split; auto. intros k Hk'. rewrite Hv1 by auto. apply HR; auto.
Qed.

(* whole runs: (1, key) = insert, (3, key) = find *)
Fixpoint sol_run (s : sol) (ops : list (Z * Z)) : sol * list Z :=
  match ops with
  | [] => (s, [])
  | (c, k) :: tl => let '(s1, r) := if c =? 1 then sol_insert false s k else sol_find s k in
                    let '(s2, rs) := sol_run s1 tl in (s2, r :: rs)
  end.
Fixpoint set_run (a : list Z) (ops : list (Z * Z)) : list Z * list Z :=
  match ops with
  | [] => (a, [])
  | (c, k) :: tl => let '(a1, r) := if c =? 1 then (if mem k a then (a, 0) else (k :: a, 1)) else (a, if mem k a then 1 else 0) in
                    let '(a2, rs) := set_run a1 tl in (a2, r :: rs)
  end.

Lemma sol_run_refines ops : forall s a,
  SInv s -> SR s a -> Forall (fun o => 0 <= snd o) ops ->
  snd (sol_run s ops) = snd (set_run a ops) /\ SInv (fst (sol_run s ops)) /\ SR (fst (sol_run s ops)) (fst (set_run a ops)).
Proof.
  induction ops as [|[c k] tl IH]; intros s a HI HR Hk; cbn [sol_run set_run]; [auto|].
  inv Hk. cbn [snd] in H1. destruct (c =? 1).
  - assert (X := sol_insert_refines s a k HI HR H1). destruct (sol_insert false s k) as [s1 r].
    destruct X as (Er & HI1 & HR1).
    destruct (mem k a) eqn:Em.
    + destruct (IH s1 a HI1 HR1 H2) as (E & I2 & R2).
      destruct (sol_run s1 tl) as [s2 rs]. destruct (set_run a tl) as [a2 rs']. cbn [fst snd] in *. split; [congruence|auto].
    + destruct (IH s1 (k :: a) HI1 HR1 H2) as (E & I2 & R2).
      destruct (sol_run s1 tl) as [s2 rs]. destruct (set_run (k :: a) tl) as [a2 rs']. cbn [fst snd] in *. split; [congruence|auto].
  - assert (X := sol_find_refines s a k HI HR H1). destruct (sol_find s k) as [s1 r].
    destruct X as (Er & HI1 & HR1).
    destruct (IH s1 a HI1 HR1 H2) as (E & I2 & R2).
    destruct (sol_run s1 tl) as [s2 rs]. destruct (set_run a tl) as [a2 rs']. cbn [fst snd] in *. split; [congruence|auto].
Qed.

Lemma SInv_init bc : SInv (sol_init bc) /\ SR (sol_init bc) [].
Proof.
  unfold sol_init, SInv, SR. cbn. split; [split; [repeat constructor|split; [|constructor]]|].
  - intros o k [X|[]]. inv X. auto.
  - intros k Hk. split; [intros [X|[]]; inv X; lia | tauto].
Qed.
